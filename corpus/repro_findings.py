"""Replays of the defects found on the pinned tree (DESIGN.md section 8). Run: /venv/bin/python corpus/repro_findings.py
Each line prints the finding id and what the current /repo tree does with the exemplar input."""
import sys, io, contextlib
sys.path.insert(0, '/repo')
from droop.profile import ElectionProfile, ElectionProfileError
from droop.election import Election
from droop.options import Options

def count(blt, **o):
    E = Election(ElectionProfile(data=blt), dict(o))
    with contextlib.redirect_stdout(io.StringIO()):
        E.count()
    return E

def attempt(fid, f):
    try:
        print(fid, 'OK', f())
    except ElectionProfileError as e:
        print(fid, 'ProfileError', e)
    except BaseException as e:
        print(fid, 'EXC', type(e).__name__, e)

NAMES = lambda n: ' '.join('"C%d"' % i for i in range(1, n+1)) + ' "t"\n'
attempt('F1', lambda: Election(ElectionProfile(data='2 1\n2 1 0\n1 2 0\n0\n'+NAMES(2)), dict(rule='wigm')).report(True)[:30])
attempt('F1d', lambda: Election(ElectionProfile(data='2 1\n2 1 0\n1 2 0\n0\n'+NAMES(2)), dict(rule='wigm')).dump(True)[:30])
attempt('F2', lambda: ElectionProfile(data='2 1 0'))
attempt('F3', lambda: sorted(ElectionProfile(data='2 1\n-5\n2 1 0\n1 2 0\n0\n'+NAMES(2)).withdrawn))
attempt('F4', lambda: ElectionProfile(data='3 1\n-3\n2 1 3=3 0\n1 2 0\n0\n'+NAMES(3)).ballotLines[0].ranking.tolist())
def f5():
    from droop.values.fixed import Fixed
    Fixed.initialize(Options(dict(arithmetic='fixed', precision=4)))
    return str(Fixed(-5000, True))
attempt('F5', f5)
attempt('F6', lambda: len(count('4 3\n3 1 0\n2 2 0\n0\n'+NAMES(4), rule='wigm', defeat_batch='zero').elected))
attempt('F7', lambda: len(count('3 2\n[undeclared 2 3]\n3 1 0\n2 2 0\n1 3 0\n0\n'+NAMES(3), rule='mpls').elected))
def f8():
    E = count('4 1\n[undeclared 4]\n5 1 0\n4 2 0\n1 3 0\n1 4 0\n0\n'+NAMES(4), rule='mpls')
    return [a['msg'] for a in E.record()['actions'] if a['tag'] == 'defeat']
attempt('F8', f8)
def f9():
    n = 256
    return ElectionProfile(data='%d 1\n300 256 0\n0\n' % n + NAMES(n)).ballotLines[0].ranking.tolist()
attempt('F9', f9)
attempt('F10', lambda: len(count('5 3\n[tie 2 5 3 4 1]\n10 2 4 5=3 0\n0\n'+NAMES(5), rule='warren', arithmetic='guarded', precision=6, guard=0, defeat_batch='none').elected))
