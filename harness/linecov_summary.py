#!/venv/bin/python
"""Union, over the evidence files of all checks, of the implementation lines each check executed (coverage.implementation_lines):
prints, per file of /repo/droop, the executable lines no check has ever executed.  usage: linecov_summary.py [--json out]"""
import json, glob, os, sys
sys.path.insert(0, os.path.dirname(os.path.abspath(__file__)))
import common


def expand(r):
    out = set()
    for part in r.split(','):
        if not part:
            continue
        if '-' in part:
            a, b = part.split('-'); out.update(range(int(a), int(b) + 1))
        else:
            out.add(int(part))
    return out


def main():
    root = os.path.join(os.path.realpath(common.REPO), 'droop')
    never = {}; seen_by = {}
    for f in sorted(glob.glob(os.path.join(common.VERIF, 'evidence', 'C??.json'))):
        e = json.load(open(f)); lc = e.get('coverage', {}).get('implementation_lines')
        if not lc or 'files' not in lc:
            continue
        for rel, v in lc['files'].items():
            ex = common._executable_lines(os.path.join(root, rel))
            got = ex - expand(v['never_executed'])
            seen_by.setdefault(rel, set()).update(got)
            never.setdefault(rel, set(ex))
    rep = {}
    for rel in sorted(never):
        miss = sorted(never[rel] - seen_by.get(rel, set()))
        rep[rel] = dict(executable=len(never[rel]), executed_by_some_check=len(never[rel]) - len(miss), never_executed=common._ranges(miss))
    tot = sum(v['executable'] for v in rep.values()); got = sum(v['executed_by_some_check'] for v in rep.values())
    print('implementation lines executed by at least one check: %d of %d' % (got, tot))
    for rel, v in rep.items():
        if v['never_executed']:
            print('  %-28s %4d/%-4d never: %s' % (rel, v['executed_by_some_check'], v['executable'], v['never_executed']))
    if len(sys.argv) > 2 and sys.argv[1] == '--json':
        json.dump(rep, open(sys.argv[2], 'w'), indent=1)


if __name__ == '__main__':
    main()
