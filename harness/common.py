"""Shared plumbing of the checks: paths, Lean build / audit / hygiene, the model driver, worker pool,
evidence, replays, known findings.  Standard library only."""
import os, sys, json, time, hashlib, subprocess, fcntl, re, signal, tempfile, shutil, multiprocessing, traceback

VERIF = os.path.dirname(os.path.dirname(os.path.abspath(__file__)))
REPO = os.environ.get('DROOP_REPO', '/repo')
LEAN = os.path.join(VERIF, 'lean')
DRIVER = os.path.join(LEAN, '.lake', 'build', 'bin', 'droopmodel')
WORK = os.path.join(VERIF, '.work')
NPROC = int(os.environ.get('VERIF_NPROC', str(min(16, os.cpu_count() or 4))))

STD_AXIOMS = {'propext', 'Classical.choice', 'Quot.sound'}
FORBIDDEN = re.compile(r'\bsorry\b|\badmit\b|^\s*axiom\s|\bnative_decide\b|\bbv_decide\b|implemented_by|\bunsafe\s|maxHeartbeats\s+0\b')

TRUSTED_BASE = [
    "Lean 4.33 kernel (thorough tier re-checks the compiled proofs with leanchecker)",
    "axioms: propext, Classical.choice, Quot.sound only (audited by `#print axioms` on every run); no native_decide, no bv_decide, no own axioms",
    "the hand-written Lean model lean/DroopModel is tied to /repo only by the correspondence run of this check",
    "Lean compiler/runtime for the compiled driver (correspondence and oracle evaluation, not the theorems)",
    "harness/*.py: generators, in-process runner of the real code, canonicalisation, differ, known-finding matcher",
    "CPython 3.12 list.sort / set iteration / str methods as transcribed in lean/DroopModel/Core.lean and Blt.lean",
]


def setup_repo_import():
    """make `import droop` resolve to REPO's working tree, never to stale byte code"""
    sys.dont_write_bytecode = True
    try:
        sys.pycache_prefix = os.path.join(WORK, 'pycache-%d' % os.getpid())
    except Exception:
        pass
    if REPO in sys.path:
        sys.path.remove(REPO)
    sys.path.insert(0, REPO)


# ------------------------------------------------------------------------------------------------
# Lean side

def lean_sources():
    out = []
    for root, dirs, files in os.walk(LEAN):
        dirs[:] = [d for d in dirs if d != '.lake']
        for f in files:
            if f.endswith('.lean') or f in ('lakefile.toml',):
                out.append(os.path.join(root, f))
    return sorted(out)


def source_hash():
    h = hashlib.sha256()
    for p in lean_sources():
        h.update(p.encode()); h.update(open(p, 'rb').read())
    return h.hexdigest()


def strip_comments(text):
    text = re.sub(r'/-.*?-/', lambda m: '\n' * m.group(0).count('\n'), text, flags=re.S)
    return re.sub(r'--.*', '', text)


def hygiene():
    """forbidden constructs outside comments; returns list of (file, line, text)"""
    hits = []
    for p in lean_sources():
        if not p.endswith('.lean'):
            continue
        for i, line in enumerate(strip_comments(open(p, encoding='utf-8').read()).split('\n'), 1):
            if FORBIDDEN.search(line):
                hits.append((os.path.relpath(p, VERIF), i, line.strip()))
    return hits


class BuildError(Exception):
    pass


def ensure_built(targets=('DroopModel', 'droopmodel', 'DroopProofs', 'Props')):
    """lake build under a lock; no-op when nothing changed.  Returns (ok, log)."""
    os.makedirs(os.path.join(LEAN, '.lake'), exist_ok=True)
    with open(os.path.join(LEAN, '.lake', 'verif.lock'), 'w') as lk:
        fcntl.flock(lk, fcntl.LOCK_EX)
        stamp = os.path.join(LEAN, '.lake', 'verif.built')
        h = source_hash()
        if os.path.exists(stamp) and open(stamp).read().strip() == h and os.path.exists(DRIVER):
            return True, 'up to date'
        r = subprocess.run(['lake', 'build'] + list(targets), cwd=LEAN, capture_output=True, text=True)
        log = (r.stdout + r.stderr)
        if r.returncode == 0:
            open(stamp, 'w').write(h)
            return True, log[-2000:]
        return False, '\n'.join(l for l in log.split('\n') if 'error' in l or '✖' in l)[:4000]


def audit():
    """`#print axioms` of every property theorem: {theorem: [axioms]} (cached per source hash)"""
    h = source_hash()
    cache = os.path.join(LEAN, '.lake', 'verif.audit.json')
    with open(os.path.join(LEAN, '.lake', 'verif.lock'), 'w') as lk:
        fcntl.flock(lk, fcntl.LOCK_EX)
        if os.path.exists(cache):
            try:
                d = json.load(open(cache))
                if d.get('hash') == h:
                    return d['axioms'], d.get('errors', [])
            except Exception:
                pass
        names = sorted({t for ts in json.load(open(os.path.join(LEAN, 'theorems.json'))).values() for t in ts})
        gen_path = os.path.join(LEAN, '.lake', 'AuditGen.lean')
        with open(gen_path, 'w') as f:
            f.write('import Props\n' + ''.join('#print axioms %s\n' % t for t in names))
        r = subprocess.run(['lake', 'env', 'lean', gen_path], cwd=LEAN, capture_output=True, text=True)
        out = r.stdout + r.stderr
        ax = {}
        for m in re.finditer(r"'(\S+)' depends on axioms: \[([^\]]*)\]", out, flags=re.S):
            ax[m.group(1)] = [a.strip() for a in m.group(2).replace('\n', ' ').split(',') if a.strip()]
        for m in re.finditer(r"'(\S+)' does not depend on any axioms", out):
            ax[m.group(1)] = []
        errors = [l for l in out.split('\n') if 'error' in l.lower()]
        json.dump(dict(hash=h, axioms=ax, errors=errors), open(cache, 'w'))
        return ax, errors


def run_driver(lines, timeout=3600):
    """pipe protocol lines to the compiled model driver; one output line per input line"""
    data = '\n'.join(lines) + '\n'
    if os.path.exists(DRIVER):
        cmd = [DRIVER]
    else:
        cmd = ['lake', 'env', 'lean', '--run', 'Main.lean']
    r = subprocess.run(cmd, cwd=LEAN, input=data, capture_output=True, text=True, timeout=timeout)
    out = r.stdout.split('\n')
    if out and out[-1] == '':
        out.pop()
    if len(out) != len(lines):
        raise RuntimeError('driver returned %d lines for %d inputs (rc=%s): %s' % (len(out), len(lines), r.returncode, r.stderr[:500]))
    return out


def run_driver_parallel(lines, chunks=None):
    """split a big batch over several driver processes"""
    n = len(lines)
    if n == 0:
        return []
    k = min(chunks or NPROC, max(1, n // 200))
    if k <= 1:
        return run_driver(lines)
    size = (n + k - 1) // k
    parts = [lines[i:i + size] for i in range(0, n, size)]
    from concurrent.futures import ThreadPoolExecutor
    with ThreadPoolExecutor(len(parts)) as ex:
        res = list(ex.map(run_driver, parts))
    return [x for part in res for x in part]


# ------------------------------------------------------------------------------------------------
# worker pool with per-item time limits

class ItemTimeout(Exception):
    pass


def _alarm(signum, frame):
    raise ItemTimeout()


# ---- which lines of the implementation the runs of this check execute (sys.monitoring, Python >= 3.12) -------------------
# Every process that runs the real code records the (file, line) pairs of REPO/droop it executes; each location reports once and
# is then disabled, so the cost is negligible.  Workers append their new hits to a file per process; the main process merges
# them into the evidence (`implementation_lines`): the reader sees which statements of the code the comparison has never seen.
_LC = dict(pid=None, hits=set(), flushed=0)
LINECOV_DIR = os.path.join(WORK, 'linecov-%d' % os.getpid())      # evaluated in the main process; inherited by fork


def linecov_start():
    if os.environ.get('VERIF_LINECOV', '1') != '1' or not hasattr(sys, 'monitoring'):
        return
    if _LC['pid'] == os.getpid():
        return
    _LC['pid'] = os.getpid(); _LC['hits'] = set(); _LC['flushed'] = 0
    mon = sys.monitoring
    prefix = os.path.join(os.path.realpath(REPO), 'droop') + os.sep
    hits = _LC['hits']

    def on_line(code, line):
        fn = code.co_filename
        if fn.startswith(prefix) or os.path.realpath(fn).startswith(prefix):
            hits.add((fn[len(prefix):] if fn.startswith(prefix) else os.path.realpath(fn)[len(prefix):], line))
        return mon.DISABLE
    try:
        try:
            mon.use_tool_id(mon.COVERAGE_ID, 'verif-linecov')
        except ValueError:
            pass
        mon.register_callback(mon.COVERAGE_ID, mon.events.LINE, on_line)
        mon.set_events(mon.COVERAGE_ID, mon.events.LINE)
        mon.restart_events()
    except Exception:
        _LC['pid'] = None


def linecov_flush():
    if _LC['pid'] != os.getpid() or len(_LC['hits']) == _LC['flushed']:
        return
    try:
        os.makedirs(LINECOV_DIR, exist_ok=True)
        with open(os.path.join(LINECOV_DIR, '%d.txt' % os.getpid()), 'w') as f:
            f.write('\n'.join('%s:%d' % h for h in sorted(_LC['hits'])))
        _LC['flushed'] = len(_LC['hits'])
    except Exception:
        pass


def _executable_lines(path):
    """line numbers that carry code, from the compiled module (all nested code objects), docstring-only lines excluded"""
    try:
        top = compile(open(path, encoding='utf-8').read(), path, 'exec')
    except Exception:
        return set()
    out = set(); todo = [top]
    while todo:
        c = todo.pop()
        for _, _, ln in c.co_lines():
            if ln is not None and ln > 0:
                out.add(ln)
        todo.extend(k for k in c.co_consts if hasattr(k, 'co_lines'))
    return out


def linecov_report(modules=None):
    """merge the per-process hit files; per implementation file: executable lines, lines executed, and the lines never executed"""
    linecov_flush()
    hits = set()
    if os.path.isdir(LINECOV_DIR):
        for f in os.listdir(LINECOV_DIR):
            for l in open(os.path.join(LINECOV_DIR, f)).read().split('\n'):
                if ':' in l:
                    a, b = l.rsplit(':', 1); hits.add((a, int(b)))
    if not hits:
        return None
    root = os.path.join(os.path.realpath(REPO), 'droop')
    files = sorted({h[0] for h in hits})
    rep = {}
    for rel in files:
        if modules and not any(rel.startswith(m) for m in modules):
            continue
        ex = _executable_lines(os.path.join(root, rel))
        got = {ln for f, ln in hits if f == rel}
        miss = sorted(ex - got)
        rep[rel] = dict(executable=len(ex), executed=len(ex & got), never_executed=_ranges(miss))
    return rep


def _ranges(nums):
    out = []; i = 0
    while i < len(nums):
        j = i
        while j + 1 < len(nums) and nums[j + 1] == nums[j] + 1:
            j += 1
        out.append(str(nums[i]) if i == j else '%d-%d' % (nums[i], nums[j])); i = j + 1
    return ','.join(out)


def _guarded(args):
    func, item, limit = args
    linecov_start()
    signal.signal(signal.SIGALRM, _alarm)
    signal.setitimer(signal.ITIMER_REAL, limit)
    try:
        return func(item)
    except ItemTimeout:
        return ('TIMEOUT', None)
    finally:
        signal.setitimer(signal.ITIMER_REAL, 0)
        linecov_flush()


_POOL = None


def pool():
    global _POOL
    if _POOL is None:
        ctx = multiprocessing.get_context('fork')
        _POOL = ctx.Pool(NPROC)
    return _POOL


def pmap(func, items, limit=20.0, chunksize=8):
    """map over worker processes; func(item) must be picklable (module-level); TIMEOUT items return ('TIMEOUT', None)"""
    items = list(items)
    if not items:
        return []
    if NPROC <= 1 or len(items) < 4:
        return [_guarded((func, it, limit)) for it in items]
    return pool().map(_guarded, [(func, it, limit) for it in items], chunksize=chunksize)


def close_pool():
    global _POOL
    if _POOL is not None:
        _POOL.terminate(); _POOL = None
    shutil.rmtree(os.path.join(WORK, 'pycache-%d' % os.getpid()), ignore_errors=True)
    shutil.rmtree(LINECOV_DIR, ignore_errors=True)


# ------------------------------------------------------------------------------------------------
# findings, replays, evidence

def known_findings():
    p = os.path.join(VERIF, 'KNOWN_FINDINGS.json')
    return json.load(open(p))['findings'] if os.path.exists(p) else []


def write_replay(prop, seed, n, payload):
    d = os.path.join(VERIF, 'replays')
    os.makedirs(d, exist_ok=True)
    path = os.path.join(d, '%s-%s-%d.json' % (prop, seed, n))
    payload = dict(payload)
    payload['property'] = prop
    payload['rerun'] = '/venv/bin/python harness/check.py %s --replay %s' % (prop, os.path.relpath(path, VERIF))
    json.dump(payload, open(path, 'w'), indent=1, default=str)
    return os.path.relpath(path, VERIF)


def write_evidence(prop, tier, seed, level, coverage, wall_s, violations, assumptions):
    d = os.path.join(VERIF, 'evidence')
    os.makedirs(d, exist_ok=True)
    ev = dict(property_id=prop, tier=tier, seed=int(seed), level=level, coverage=coverage, wall_s=round(wall_s, 2),
              violations=int(violations), assumptions=assumptions)
    tmp = os.path.join(d, '.%s.json.%d' % (prop, os.getpid()))
    json.dump(ev, open(tmp, 'w'), indent=1, default=str)
    os.replace(tmp, os.path.join(d, '%s.json' % prop))
