#!/venv/bin/python
"""Extractor for C06: `transfer(ballot)` of wigm.py, wigm_prf.py, cfer.py, scotland.py, mpls.py, qpq.py.  Recognised shape:
    [docstring]
    while not ballot.exhausted and ballot.topCand not in <C.hopeful() | C.hopeful() + C.pending()>: ballot.advance()
    [ if ballot.exhausted: E.exhausted += ballot.vote  else: ballot.topCand.vote += ballot.vote ]
The extracted table (rule, selectors of <continuing>, whether the value is credited) is stated equal to `C06.transferTable`
(lean/Props/C06Transfer.lean), `by rfl`.  Any other shape is refused.
usage: gen_transfer.py <repo> <out.lean>"""
import ast, os, sys


class TranslationError(Exception):
    pass


def _path(node):
    parts = []
    while isinstance(node, ast.Attribute):
        parts.append(node.attr); node = node.value
    if isinstance(node, ast.Name):
        parts.append(node.id)
        return '.'.join(reversed(parts))
    return None


def _sel(n):
    if isinstance(n, ast.Call) and not n.args and _path(n.func) in ('C.hopeful', 'C.pending'):
        return ['.' + _path(n.func)[2:]]
    if isinstance(n, ast.BinOp) and isinstance(n.op, ast.Add):
        return _sel(n.left) + _sel(n.right)
    raise TranslationError('continuing set not accepted: %s' % ast.dump(n)[:140])


def _aug(st, target, value):
    return isinstance(st, ast.AugAssign) and isinstance(st.op, ast.Add) and _path(st.target) == target and _path(st.value) == value


def table(repo):
    rows = []
    for r in ('wigm', 'wigm_prf', 'cfer', 'scotland', 'mpls', 'qpq'):
        path = os.path.join(repo, 'droop', 'rules', r + '.py')
        tree = ast.parse(open(path).read(), path)
        fs = [n for n in ast.walk(tree) if isinstance(n, ast.FunctionDef) and n.name == 'transfer']
        if len(fs) != 1 or [a.arg for a in fs[0].args.args] != ['ballot']:
            raise TranslationError('%s: transfer(ballot) not found once' % path)
        body = [st for st in fs[0].body if not (isinstance(st, ast.Expr) and isinstance(st.value, ast.Constant))]
        w = body[0] if body else None
        ok = isinstance(w, ast.While) and not w.orelse and isinstance(w.test, ast.BoolOp) and isinstance(w.test.op, ast.And) \
            and len(w.test.values) == 2 and isinstance(w.test.values[0], ast.UnaryOp) and isinstance(w.test.values[0].op, ast.Not) \
            and _path(w.test.values[0].operand) == 'ballot.exhausted' and isinstance(w.test.values[1], ast.Compare) \
            and len(w.test.values[1].ops) == 1 and isinstance(w.test.values[1].ops[0], ast.NotIn) \
            and _path(w.test.values[1].left) == 'ballot.topCand' and len(w.body) == 1 and isinstance(w.body[0], ast.Expr) \
            and isinstance(w.body[0].value, ast.Call) and _path(w.body[0].value.func) == 'ballot.advance' and not w.body[0].value.args
        if not ok:
            raise TranslationError('%s: the advance loop of transfer() is not of the accepted shape' % path)
        sets = _sel(w.test.values[1].comparators[0])
        rest = body[1:]
        if not rest:
            credits = False
        elif len(rest) == 1 and isinstance(rest[0], ast.If) and _path(rest[0].test) == 'ballot.exhausted' and len(rest[0].body) == 1 \
                and len(rest[0].orelse) == 1 and _aug(rest[0].body[0], 'E.exhausted', 'ballot.vote') \
                and _aug(rest[0].orelse[0], 'ballot.topCand.vote', 'ballot.vote'):
            credits = True
        else:
            raise TranslationError('%s: the crediting step of transfer() is not of the accepted shape' % path)
        rows.append('{ rule := "%s", continuing := [%s], credits := %s }' % (r, ', '.join(sets), 'true' if credits else 'false'))
    return '[' + ', '.join(rows) + ']'


def lean_file(tab):
    return '\n'.join(['import Props.C06Transfer', 'namespace Gen', 'open Droop Droop.C06', '',
                      'def transferTable : List TransferSpec := ' + tab,
                      'theorem transferTable_is_committed : transferTable = C06.transferTable := by rfl',
                      '#print axioms transferTable_is_committed', '', 'end Gen', ''])


if __name__ == '__main__':
    open(sys.argv[2], 'w').write(lean_file(table(sys.argv[1])))
