#!/venv/bin/python
"""Symbolic executor for C14: `Fixed.__str__` (droop/values/fixed.py) and `Guarded.__str__` (droop/values/guarded.py).

The body is executed symbolically, forking at every `if`: local names hold integer terms over `self._value` and the class attributes
(`precision`, `display`, `__scaled`, `__scaledd`, `__scaledr`, `__scaledg`, whatever the receiver: self / cls / Fixed / Guarded) or
string terms (`str(e)`, literals, `+`, `<cls>.__dfmt % (a, b)`, `<cls>.__dfmt % (a, b, c)`); the result is a decision tree whose leaves are
the returned string terms.  Accepted statements: docstring, `x = e`, `x += e`, `x //= e`, `x -= e`, `if c: ... [else: ...]`, `return e`;
tests: one comparison `<`, `<=`, `>`, `>=`, `==`, `!=` of integer terms.  Anything else is refused with TranslationError.
The generated Lean file states `Gen.fixedStr = C14.fixedStrProg`, `Gen.guardedStr = C14.guardedStrProg` (kernel, `by rfl`);
lean/Props/C14Prog.lean proves the committed trees evaluate to the model's `strFixed` / `strGuarded`.
usage: gen_str.py <repo> <out.lean>"""
import ast, os, sys


class TranslationError(Exception):
    pass


ATTRS = {'precision': '.prec', 'display': '.disp', '__scaled': '.scaled', '__scaledd': '.scaledd', '__scaledr': '.scaledr', '__scaledg': '.scaledg'}
RECEIVERS = ('self', 'cls', 'Fixed', 'Guarded')


def _recv_attr(n):
    if isinstance(n, ast.Attribute) and isinstance(n.value, ast.Name) and n.value.id in RECEIVERS:
        return n.attr
    return None


def ie(n, env):
    a = _recv_attr(n)
    if a == '_value' and n.value.id == 'self':
        return '.v'
    if a in ATTRS:
        return '(.cls %s)' % ATTRS[a]
    if isinstance(n, ast.Name) and n.id in env and env[n.id][0] == 'I':
        return env[n.id][1]
    if isinstance(n, ast.Constant) and isinstance(n.value, int) and not isinstance(n.value, bool):
        return '(.lit %d)' % n.value
    if isinstance(n, ast.UnaryOp) and isinstance(n.op, ast.USub):
        return '(.neg %s)' % ie(n.operand, env)
    if isinstance(n, ast.BinOp):
        op = {ast.Add: 'add', ast.Sub: 'sub', ast.FloorDiv: 'floordiv', ast.Mod: 'mod'}.get(type(n.op))
        if op:
            return '(.%s %s %s)' % (op, ie(n.left, env), ie(n.right, env))
    raise TranslationError('not an integer term of the accepted form: %s' % ast.unparse(n)[:120])


def _lean_str(s):
    if any(ord(c) < 32 or ord(c) > 126 or c in '"\\' for c in s):
        raise TranslationError('string literal not accepted: %r' % s)
    return '"%s"' % s


def se(n, env):
    if isinstance(n, ast.Name) and n.id in env and env[n.id][0] == 'S':
        return env[n.id][1]
    if isinstance(n, ast.Constant) and isinstance(n.value, str):
        return '(.lit %s)' % _lean_str(n.value)
    if isinstance(n, ast.Call) and isinstance(n.func, ast.Name) and n.func.id == 'str' and len(n.args) == 1 and not n.keywords:
        return '(.str %s)' % ie(n.args[0], env)
    if isinstance(n, ast.BinOp) and isinstance(n.op, ast.Add):
        return '(.cat %s %s)' % (se(n.left, env), se(n.right, env))
    if isinstance(n, ast.BinOp) and isinstance(n.op, ast.Mod) and _recv_attr(n.left) == '__dfmt' and isinstance(n.right, ast.Tuple):
        args = [ie(e, env) for e in n.right.elts]
        if len(args) == 2:
            return '(.fmt2 %s %s)' % tuple(args)
        if len(args) == 3:
            return '(.fmt3 %s %s %s)' % tuple(args)
    raise TranslationError('not a string term of the accepted form: %s' % ast.unparse(n)[:120])


def term(n, env):
    try:
        return ('I', ie(n, env))
    except TranslationError:
        return ('S', se(n, env))


def be(n, env):
    if isinstance(n, ast.Compare) and len(n.ops) == 1:
        op = {ast.Lt: 'lt', ast.LtE: 'le', ast.Gt: 'gt', ast.GtE: 'ge', ast.Eq: 'eq', ast.NotEq: 'ne'}.get(type(n.ops[0]))
        if op:
            return '(.%s %s %s)' % (op, ie(n.left, env), ie(n.comparators[0], env))
    raise TranslationError('test not accepted: %s' % ast.unparse(n)[:120])


def run(body, env):
    for i, st in enumerate(body):
        if isinstance(st, ast.Expr) and isinstance(st.value, ast.Constant) and isinstance(st.value.value, str):
            continue
        if isinstance(st, ast.Assign) and len(st.targets) == 1 and isinstance(st.targets[0], ast.Name):
            env = dict(env); env[st.targets[0].id] = term(st.value, env)
            continue
        if isinstance(st, ast.AugAssign) and isinstance(st.target, ast.Name):
            op = {ast.Add: 'add', ast.Sub: 'sub', ast.FloorDiv: 'floordiv', ast.Mod: 'mod'}.get(type(st.op))
            cur = env.get(st.target.id)
            if op and cur and cur[0] == 'I':
                env = dict(env); env[st.target.id] = ('I', '(.%s %s %s)' % (op, cur[1], ie(st.value, env)))
                continue
            if isinstance(st.op, ast.Add) and cur and cur[0] == 'S':
                env = dict(env); env[st.target.id] = ('S', '(.cat %s %s)' % (cur[1], se(st.value, env)))
                continue
            raise TranslationError('augmented assignment not accepted: %s' % ast.unparse(st)[:120])
        if isinstance(st, ast.Return) and st.value is not None:
            return '(.ret %s)' % se(st.value, env)
        if isinstance(st, ast.If):
            rest = body[i + 1:]
            return '(.ite %s %s %s)' % (be(st.test, env), run(st.body + rest, env), run(st.orelse + rest, env))
        raise TranslationError('statement not accepted: %s' % ast.unparse(st)[:120])
    raise TranslationError('a path ends without return')


def programs(repo):
    res = {}
    for mod, cname, lname in (('fixed', 'Fixed', 'fixedStr'), ('guarded', 'Guarded', 'guardedStr')):
        path = os.path.join(repo, 'droop', 'values', mod + '.py')
        tree = ast.parse(open(path).read(), path)
        cls = [n for n in tree.body if isinstance(n, ast.ClassDef) and n.name == cname]
        if len(cls) != 1:
            raise TranslationError('%s: class %s not found once' % (path, cname))
        fs = [n for n in cls[0].body if isinstance(n, ast.FunctionDef) and n.name == '__str__']
        if len(fs) != 1:
            raise TranslationError('%s: %d definitions of __str__' % (path, len(fs)))
        if [a.arg for a in fs[0].args.args] != ['self'] or fs[0].decorator_list:
            raise TranslationError('%s: __str__ signature not accepted' % path)
        res[lname] = run(fs[0].body, {})
    return res


def lean_file(res):
    lines = ['import Props.C14Prog', 'namespace Gen', 'open Droop Droop.C14', '']
    for lname, text in sorted(res.items()):
        lines.append('def %s : SP := %s' % (lname, text))
        lines.append('theorem %s_is_committed : %s = C14.%sProg := by rfl' % (lname, lname, lname))
        lines.append('#print axioms %s_is_committed' % lname)
        lines.append('')
    lines.append('end Gen')
    return '\n'.join(lines) + '\n'


if __name__ == '__main__':
    repo, outp = sys.argv[1], sys.argv[2]
    open(outp, 'w').write(lean_file(programs(repo)))
