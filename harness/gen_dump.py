#!/venv/bin/python
"""Extractor for C18: the column structure of the tab-separated dump.

From `ElectionRecord.dump` (droop/record.py): the three fixed header columns, the two per-candidate header columns, the tags whose rows carry
the message instead of figures, the 'X' round of the `end` row, the two per-candidate row fields.
From the `dump(self, line, action=None, cid=None, cstate=None)` hooks of MethodMeek, MethodWIGM (droop/rules/electionmethods.py) and of
rules/qpq.py: four lists each - header extras, per-candidate header extras, the `action[...]` keys of a row, the `cstate[...]` keys per candidate.
Accepted hook shape: `if cid is None: (if action is None: line += [hdr...] else: line += [action[k]...] | pass) else: (if action is None:
line += ['%s.x' % cid ...] else: line += [cstate[k]...])`.  Anything else is refused.
The generated Lean file states the tables equal to those of lean/Props/C18Dump.lean (kernel, `by rfl`), which proves the model's `dumpHeader` /
`dumpRow` to be their evaluation.  usage: gen_dump.py <repo> <out.lean>"""
import ast, os, sys


class TranslationError(Exception):
    pass


def _strs(lst, what):
    if not isinstance(lst, ast.List):
        raise TranslationError('%s: not a list literal' % what)
    out = []
    for e in lst.elts:
        if isinstance(e, ast.Constant) and isinstance(e.value, str):
            out.append(e.value)
        elif isinstance(e, ast.BinOp) and isinstance(e.op, ast.Mod) and isinstance(e.left, ast.Constant) and isinstance(e.left.value, str) \
                and ast.unparse(e.right) == 'cid':
            out.append(e.left.value)
        elif isinstance(e, ast.Subscript) and isinstance(e.value, ast.Name) and e.value.id in ('action', 'cstate') \
                and isinstance(e.slice, ast.Constant) and isinstance(e.slice.value, str):
            out.append(e.slice.value)
        else:
            raise TranslationError('%s: element not accepted: %s' % (what, ast.unparse(e)[:60]))
    return out


def _branch(body, what):
    """a branch is `pass` or one `line += [...]`"""
    body = [st for st in body if not (isinstance(st, ast.Expr) and isinstance(st.value, ast.Constant))]
    if len(body) == 1 and isinstance(body[0], ast.Pass):
        return []
    if len(body) == 1 and isinstance(body[0], ast.AugAssign) and isinstance(body[0].op, ast.Add) and ast.unparse(body[0].target) == 'line':
        return _strs(body[0].value, what)
    raise TranslationError('%s: branch not accepted: %s' % (what, '; '.join(ast.unparse(s)[:50] for s in body)))


def _two(body, what):
    """`if action is None: A else: B` or `pass` -> (A, B)"""
    body = [st for st in body if not (isinstance(st, ast.Expr) and isinstance(st.value, ast.Constant))]
    if len(body) == 1 and isinstance(body[0], ast.Pass):
        return [], []
    if len(body) == 1 and isinstance(body[0], ast.If) and ast.unparse(body[0].test) == 'action is None':
        return _branch(body[0].body, what + ' header'), _branch(body[0].orelse, what + ' row')
    raise TranslationError('%s: not `if action is None: ... else: ...`' % what)


def hook(fn, what):
    if [a.arg for a in fn.args.args] != ['self', 'line', 'action', 'cid', 'cstate']:
        raise TranslationError('%s: signature not accepted' % what)
    body = [st for st in fn.body if not (isinstance(st, ast.Expr) and isinstance(st.value, ast.Constant))]
    if not (len(body) == 1 and isinstance(body[0], ast.If) and ast.unparse(body[0].test) == 'cid is None'):
        raise TranslationError('%s: body is not `if cid is None: ... else: ...`' % what)
    h, r = _two(body[0].body, what + ' (no cid)')
    ch, cr = _two(body[0].orelse, what + ' (cid)')
    return h, ch, r, cr


def tables(repo):
    em = os.path.join(repo, 'droop', 'rules', 'electionmethods.py')
    tree = ast.parse(open(em).read(), em)
    rows = []
    for cname, key in (('MethodMeek', 'meek'), ('MethodWIGM', 'wigm')):
        cls = [n for n in tree.body if isinstance(n, ast.ClassDef) and n.name == cname]
        fs = [n for n in cls[0].body if isinstance(n, ast.FunctionDef) and n.name == 'dump'] if len(cls) == 1 else []
        if len(fs) != 1:
            raise TranslationError('%s: dump hook of %s not found once' % (em, cname))
        rows.append((key,) + hook(fs[0], cname + '.dump'))
    qp = os.path.join(repo, 'droop', 'rules', 'qpq.py')
    qt = ast.parse(open(qp).read(), qp)
    fs = [n for n in ast.walk(qt) if isinstance(n, ast.FunctionDef) and n.name == 'dump']
    if len(fs) != 1:
        raise TranslationError('%s: %d dump hooks' % (qp, len(fs)))
    rows.append(('qpq',) + hook(fs[0], 'qpq Rule.dump'))
    # the record's own part
    rp = os.path.join(repo, 'droop', 'record.py')
    rt = ast.parse(open(rp).read(), rp)
    d = [n for n in ast.walk(rt) if isinstance(n, ast.FunctionDef) and n.name == 'dump']
    if len(d) != 1:
        raise TranslationError('%s: %d definitions of dump' % (rp, len(d)))
    src = ast.unparse(d[0])
    base = None; cand = []; msgtags = None
    for n in ast.walk(d[0]):
        if isinstance(n, ast.Assign) and ast.unparse(n.targets[0]) == 'h' and isinstance(n.value, ast.List) and base is None:
            base = _strs(n.value, 'record.dump header')
        if isinstance(n, ast.AugAssign) and ast.unparse(n.target) == 'h' and isinstance(n.value, ast.List):
            cand += _strs(n.value, 'record.dump per-candidate header')
        if isinstance(n, ast.Compare) and ast.unparse(n.left) == "A['tag']" and len(n.ops) == 1 and isinstance(n.ops[0], ast.In) \
                and isinstance(n.comparators[0], ast.Tuple):
            msgtags = [e.value for e in n.comparators[0].elts]
    need = ["r = [A['round'], A['tag'], A['msg']]", "rnd = 'X' if A['tag'] == 'end' else A['round']", "r = [rnd, A['tag'], A['quota']]",
            "r.append(cdict[cid]['name'])", "r.append(cstate['code'])", "E.rule.dump(h)", "E.rule.dump(h, cid=cid)", "E.rule.dump(r, action=A)",
            "E.rule.dump(r, action=A, cid=cid, cstate=cstate)", "cstate = A['cstate'][cid]"]
    for t in need:
        if t not in src:
            raise TranslationError('record.dump: expected statement missing: %s' % t)
    if base is None or msgtags is None:
        raise TranslationError('record.dump: header or message tags not found')
    return dict(rows=rows, base=base, cand=cand, msgtags=msgtags)


def _l(xs):
    return '[' + ', '.join('"%s"' % x for x in xs) + ']'


def lean_file(t):
    lines = ['import Props.C18Dump', 'namespace Gen', 'open Droop Droop.C18', '']
    lines.append('def dumpHooks : List (String × List String × List String × List String × List String) := [%s]'
                 % ', '.join('("%s", %s, %s, %s, %s)' % (r[0], _l(r[1]), _l(r[2]), _l(r[3]), _l(r[4])) for r in t['rows']))
    lines.append('def dumpBase : List String := %s' % _l(t['base']))
    lines.append('def dumpCand : List String := %s' % _l(t['cand']))
    lines.append('def dumpMsgTags : List String := %s' % _l(t['msgtags']))
    for nm in ('dumpHooks', 'dumpBase', 'dumpCand', 'dumpMsgTags'):
        lines.append('theorem %s_is_committed : %s = C18.%s := by rfl' % (nm, nm, nm))
        lines.append('#print axioms %s_is_committed' % nm)
    lines.append('end Gen')
    return '\n'.join(lines) + '\n'


if __name__ == '__main__':
    repo, outp = sys.argv[1], sys.argv[2]
    open(outp, 'w').write(lean_file(tables(repo)))
