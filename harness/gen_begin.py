#!/venv/bin/python
"""Extractor for C02 / C20: the state a count starts from and how it ends (droop/election.py).

`Election.count`: the statements in order, as source text (it is 13 statements: the figures set to `self.V0`, every candidate's tally set to
`self.V0`, `self.rule.count()`, the `end` action, the result lists, `self.postCheck()`).  `Election.Ballot.__init__`: the assigned attributes with
their values.  `Election.Ballot.advance`: its single statement.  Kernel-checked equal to the lists of lean/Props/C02Begin.lean (`by rfl`), which
proves the model's start state has exactly these values (every figure and tally zero, every ballot at its first rank with weight one).
usage: gen_begin.py <repo> <out.lean>"""
import ast, os, sys


class TranslationError(Exception):
    pass


def _body(fn):
    return [st for st in fn.body if not (isinstance(st, ast.Expr) and isinstance(st.value, ast.Constant))]


def tables(repo):
    path = os.path.join(repo, 'droop', 'election.py')
    tree = ast.parse(open(path).read(), path)
    E = [n for n in tree.body if isinstance(n, ast.ClassDef) and n.name == 'Election']
    if len(E) != 1:
        raise TranslationError('class Election not found once')
    def method(cls, name):
        fs = [n for n in cls.body if isinstance(n, ast.FunctionDef) and n.name == name]
        if len(fs) != 1:
            raise TranslationError('%s.%s: %d definitions' % (cls.name, name, len(fs)))
        return fs[0]
    count = [ast.unparse(st).replace('\n', ' ; ') for st in _body(method(E[0], 'count'))]
    B = [n for n in E[0].body if isinstance(n, ast.ClassDef) and n.name == 'Ballot']
    if len(B) != 1:
        raise TranslationError('class Election.Ballot not found once')
    init = []
    for st in _body(method(B[0], '__init__')):
        if not (isinstance(st, ast.Assign) and len(st.targets) == 1 and isinstance(st.targets[0], ast.Attribute)
                and ast.unparse(st.targets[0].value) == 'self'):
            raise TranslationError('Ballot.__init__: statement not accepted: %s' % ast.unparse(st)[:80])
        init.append((st.targets[0].attr, ast.unparse(st.value)))
    adv = [ast.unparse(st) for st in _body(method(B[0], 'advance'))]
    for t in count + adv + [v for _, v in init]:
        if '"' in t or '\\' in t:
            raise TranslationError('text not accepted: %s' % t[:80])
    return dict(countBody=count, ballotInit=init, ballotAdvance=adv)


def lean_file(t):
    lines = ['import Props.C02Begin', 'namespace Gen', 'open Droop Droop.C02', '']
    lines.append('def countBody : List String := [%s]' % ', '.join('"%s"' % x for x in t['countBody']))
    lines.append('def ballotInit : List (String × String) := [%s]' % ', '.join('("%s", "%s")' % x for x in t['ballotInit']))
    lines.append('def ballotAdvance : List String := [%s]' % ', '.join('"%s"' % x for x in t['ballotAdvance']))
    for nm in ('countBody', 'ballotInit', 'ballotAdvance'):
        lines.append('theorem %s_is_committed : %s = C02.%s := by rfl' % (nm, nm, nm))
        lines.append('#print axioms %s_is_committed' % nm)
    lines.append('end Gen')
    return '\n'.join(lines) + '\n'


if __name__ == '__main__':
    repo, outp = sys.argv[1], sys.argv[2]
    open(outp, 'w').write(lean_file(tables(repo)))
