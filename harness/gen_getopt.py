#!/venv/bin/python
"""Extractor for C17: the layer order of `Options.getopt`, `Options.record`, `Options.overrides`, `Options.unused` (droop/options.py).

  getoptLayers   `getopt` must be `optvalue = self.<L1>.get(optname, None)`, then `optvalue = self.<Li>.get(optname, optvalue)` ..., `return optvalue`:
                 the list [L1, ..., Ln] - later layers win
  recordLayers   `record`: the order of the `effective.update(self.<L>)` calls
  overridesMerge `overrides`: `opts = self.<A>.copy()`, `opts.update(self.<B>)` -> [A, B]; the loop must be
                 `for key, val in list(self.force.items()): if key in opts and opts[key] != val: overridden.append(key)` and the result `sorted(overridden)`
  unusedUnion / unusedExcluded / unusedMinus   `unused`: `opts = set(self.<A>.keys()) | set(self.<B>.keys())`, `opts -= {...}`, `opts -= set(self.<C>.keys())`,
                 `return sorted(opts)`
  setoptOrder    `setopt`: the statement kinds in order: default.setdefault, force (under `if force`), getopt, allowed check
Anything of another shape is refused (TranslationError).  The generated Lean file states the lists equal to those of lean/Props/C17Getopt.lean (`by rfl`)."""
import ast, os, sys


class TranslationError(Exception):
    pass


def _body(fn):
    return [st for st in fn.body if not (isinstance(st, ast.Expr) and isinstance(st.value, ast.Constant))]


def tables(repo):
    path = os.path.join(repo, 'droop', 'options.py')
    tree = ast.parse(open(path).read(), path)
    cls = [n for n in tree.body if isinstance(n, ast.ClassDef) and n.name == 'Options']
    if len(cls) != 1:
        raise TranslationError('class Options not found once')
    def method(name):
        fs = [n for n in cls[0].body if isinstance(n, ast.FunctionDef) and n.name == name]
        if len(fs) != 1:
            raise TranslationError('%d definitions of Options.%s' % (len(fs), name))
        return fs[0]
    # getopt
    g = method('getopt')
    if [a.arg for a in g.args.args] != ['self', 'optname']:
        raise TranslationError('getopt signature')
    layers = []
    b = _body(g)
    for i, st in enumerate(b[:-1]):
        ok = (isinstance(st, ast.Assign) and len(st.targets) == 1 and isinstance(st.targets[0], ast.Name) and st.targets[0].id == 'optvalue'
              and isinstance(st.value, ast.Call) and isinstance(st.value.func, ast.Attribute) and st.value.func.attr == 'get'
              and isinstance(st.value.func.value, ast.Attribute) and isinstance(st.value.func.value.value, ast.Name)
              and st.value.func.value.value.id == 'self' and len(st.value.args) == 2 and not st.value.keywords
              and ast.unparse(st.value.args[0]) == 'optname'
              and ast.unparse(st.value.args[1]) == ('None' if i == 0 else 'optvalue'))
        if not ok:
            raise TranslationError('getopt: statement not of the layered-lookup form: %s' % ast.unparse(st)[:100])
        layers.append(st.value.func.value.attr)
    if not (b and isinstance(b[-1], ast.Return) and ast.unparse(b[-1].value) == 'optvalue') or not layers:
        raise TranslationError('getopt: does not end with `return optvalue`')
    # record
    r = method('record')
    rec = []
    for n in ast.walk(r):
        if isinstance(n, ast.Call) and ast.unparse(n.func) == 'effective.update' and len(n.args) == 1:
            a = n.args[0]
            if not (isinstance(a, ast.Attribute) and isinstance(a.value, ast.Name) and a.value.id == 'self'):
                raise TranslationError('record: effective.update(%s)' % ast.unparse(a))
            rec.append((n.lineno, a.attr))
    rec = [x for _, x in sorted(rec)]
    stores = [n for n in ast.walk(r) if isinstance(n, ast.Subscript) and isinstance(n.ctx, ast.Store) and ast.unparse(n.value) == 'effective']
    if stores:
        raise TranslationError('record: effective[...] assigned directly')
    # overrides
    o = _body(method('overrides'))
    src = [ast.unparse(st) for st in o]
    want_loop = "for key, val in list(self.force.items()):\n    if key in opts and opts[key] != val:\n        overridden.append(key)"
    if not (len(o) == 5 and src[0] in ('overridden = list()', 'overridden = []') and src[3] == want_loop and src[4] == 'return sorted(overridden)'):
        raise TranslationError('overrides: body not of the accepted shape: %r' % (src,))
    m1 = o[1]; m2 = o[2]
    if not (isinstance(m1, ast.Assign) and ast.unparse(m1.targets[0]) == 'opts' and ast.unparse(m1.value).startswith('self.') and ast.unparse(m1.value).endswith('.copy()')):
        raise TranslationError('overrides: %s' % src[1])
    if not (isinstance(m2, ast.Expr) and ast.unparse(m2.value).startswith('opts.update(self.') and ast.unparse(m2.value).endswith(')')):
        raise TranslationError('overrides: %s' % src[2])
    merge = [ast.unparse(m1.value)[5:-7], ast.unparse(m2.value)[len('opts.update(self.'):-1]]
    # unused
    u = _body(method('unused'))
    us = [ast.unparse(st) for st in u]
    if not (len(u) == 4 and us[3] == 'return sorted(opts)'):
        raise TranslationError('unused: body not of the accepted shape: %r' % (us,))
    import re
    m = re.fullmatch(r"opts = set\(self\.(\w+)\.keys\(\)\) \| set\(self\.(\w+)\.keys\(\)\)", us[0])
    if not m:
        raise TranslationError('unused: %s' % us[0])
    union = [m.group(1), m.group(2)]
    if not (isinstance(u[1], ast.AugAssign) and isinstance(u[1].op, ast.Sub) and isinstance(u[1].value, ast.Set)
            and all(isinstance(e, ast.Constant) and isinstance(e.value, str) for e in u[1].value.elts)):
        raise TranslationError('unused: %s' % us[1])
    excluded = sorted(e.value for e in u[1].value.elts)
    m = re.fullmatch(r"opts -= set\(self\.(\w+)\.keys\(\)\)", us[2])
    if not m:
        raise TranslationError('unused: %s' % us[2])
    minus = [m.group(1)]
    # setopt
    s = _body(method('setopt'))
    ss = [ast.unparse(st) for st in s]
    kinds = []
    for st, t in zip(s, ss):
        if t == 'self.default.setdefault(optname, self.normalize(default))': kinds.append('default.setdefault')
        elif t == 'if force:\n    self.force[optname] = self.normalize(default)': kinds.append('force')
        elif t == 'optvalue = self.getopt(optname)': kinds.append('getopt')
        elif isinstance(st, ast.If) and ast.unparse(st.test) == 'allowed': kinds.append('allowed')
        elif t == 'return optvalue': kinds.append('return')
        else:
            raise TranslationError('setopt: statement not accepted: %s' % t[:100])
    return dict(getoptLayers=layers, recordLayers=rec, overridesMerge=merge, unusedUnion=union, unusedExcluded=excluded, unusedMinus=minus,
                setoptOrder=kinds)


def lean_file(t):
    lines = ['import Props.C17Getopt', 'namespace Gen', 'open Droop Droop.C17', '']
    for name in sorted(t):
        lines.append('def %s : List String := [%s]' % (name, ', '.join('"%s"' % k for k in t[name])))
        lines.append('theorem %s_is_committed : %s = C17.%s := by rfl' % (name, name, name))
        lines.append('#print axioms %s_is_committed' % name)
    lines.append('end Gen')
    return '\n'.join(lines) + '\n'


if __name__ == '__main__':
    repo, outp = sys.argv[1], sys.argv[2]
    open(outp, 'w').write(lean_file(tables(repo)))
