#!/venv/bin/python
"""Confirm a seeded change (made by an independent sub-agent in a scratch worktree) and run the checks against it.
usage: seedtest.py <scratch worktree> <k> <property id> [checks...]
 1. in the scratch worktree: apply patch<k>.diff, run the test suite (must pass), run demo<k>.py (must fail),
    revert, run the demo again (must pass);
 2. apply the patch to /repo, run the listed checks (default: all twenty) at quick tier, undo it straight afterwards;
 3. store patch, demo and meta.json under /verif/seeded/<property>-<k>/."""
import sys, os, subprocess, json, shutil, time

VERIF = os.path.dirname(os.path.dirname(os.path.abspath(__file__)))
REPO = '/repo'
PY = '/venv/bin/python'
ALL = ['C%02d' % i for i in range(1, 21)]


def sh(cmd, cwd=None, timeout=1800):
    r = subprocess.run(cmd, shell=True, cwd=cwd, capture_output=True, text=True, timeout=timeout)
    return r.returncode, (r.stdout + r.stderr)


def main():
    wt, k, prop = sys.argv[1], sys.argv[2], sys.argv[3]
    checks = sys.argv[4:] or ALL
    patch = os.path.join(wt, 'patch%s.diff' % k); demo = os.path.join(wt, 'demo%s.py' % k)
    meta = dict(property=prop, source_worktree=wt, patch=os.path.basename(patch), ran=[])
    # 1. confirm in the scratch worktree
    sh('git checkout -- droop Droop.py', cwd=wt)
    rc, out = sh('git apply %s' % patch, cwd=wt)
    if rc != 0:
        print('patch does not apply:', out); sys.exit(2)
    rc_t, out_t = sh('%s -m pytest -q -p no:cacheprovider 2>&1 | tail -1' % PY, cwd=wt)
    meta['test_suite_with_change'] = out_t.strip().split('\n')[-1]
    rc_d1, out_d1 = sh('%s %s' % (PY, demo), cwd=wt, timeout=600)
    sh('git checkout -- droop Droop.py', cwd=wt)
    rc_d0, out_d0 = sh('%s %s' % (PY, demo), cwd=wt, timeout=600)
    meta['demo_exit_with_change'] = rc_d1; meta['demo_exit_without_change'] = rc_d0
    meta['demo_output_with_change'] = out_d1[-600:]
    ok = ('207 passed' in meta['test_suite_with_change']) and rc_d1 != 0 and rc_d0 == 0
    meta['confirmed'] = ok
    print('confirmed' if ok else 'NOT CONFIRMED', meta['test_suite_with_change'], 'demo with/without:', rc_d1, rc_d0)
    if not ok:
        print(out_d1[-400:]); print(out_d0[-400:])
    # 2. run the checks against /repo with the change applied
    rc, out = sh('git status --short', cwd=REPO)
    if out.strip():
        print('/repo is not clean:', out); sys.exit(2)
    detected = {}
    try:
        rc, out = sh('git apply %s' % patch, cwd=REPO)
        if rc != 0:
            print('patch does not apply to /repo:', out); sys.exit(2)
        procs = {}
        for c in checks:
            procs[c] = subprocess.Popen('%s harness/check.py %s --tier quick' % (PY, c), shell=True, cwd=VERIF,
                                        stdout=subprocess.PIPE, stderr=subprocess.STDOUT, text=True,
                                        env=dict(os.environ, VERIF_NPROC='4', VERIF_SEED=os.environ.get('VERIF_SEED', '0')))
        for c, p in procs.items():
            out = p.communicate(timeout=3600)[0]
            v = [l for l in out.split('\n') if l.startswith('VIOLATION')]
            detected[c] = dict(exit=p.returncode, violations=v[:3])
            meta['ran'].append('harness/check.py %s --tier quick -> exit %d' % (c, p.returncode))
    finally:
        sh('git checkout -- .', cwd=REPO)
    meta['detected_by'] = sorted(c for c, d in detected.items() if d['exit'] == 1)
    meta['errors'] = sorted(c for c, d in detected.items() if d['exit'] not in (0, 1))
    meta['violation_lines'] = {c: d['violations'] for c, d in detected.items() if d['violations']}
    print('detected by:', meta['detected_by'], 'errors:', meta['errors'])
    # 3. store
    if ok:
        d = os.path.join(VERIF, 'seeded', '%s-%s' % (prop, k))
        os.makedirs(d, exist_ok=True)
        shutil.copy(patch, os.path.join(d, 'patch.diff')); shutil.copy(demo, os.path.join(d, 'demo.py'))
        notes = os.path.join(wt, 'NOTES.md')
        if os.path.exists(notes):
            shutil.copy(notes, os.path.join(d, 'NOTES.md'))
        meta['breaks'] = prop
        json.dump(meta, open(os.path.join(d, 'meta.json'), 'w'), indent=1)
    # replays written while the change was applied describe the seeded tree, not /repo
    shutil.rmtree(os.path.join(VERIF, 'replays'), ignore_errors=True)


if __name__ == '__main__':
    main()
