#!/venv/bin/python
"""Symbolic executor for C14: `Rational.__str__` (droop/values/rational.py).

The body must be: one `if <test>: v = <int expr> else: <assignments ending in an integer v>` (the display units), followed by the formatting
statements, which are executed with gen_str's executor (`v` = the units, `Rational._dps` = the display scale, `Rational._dfmt % (a, b)`).
Units language: rational terms `self`, `Rational._dpr`, `+`; integer terms `<q>.numerator`, `<q>.denominator`, `Rational._dps`, literals, `*`, `//`;
tests `==` joined by `or`.  Also checked: `initialize` assigns `cls._dpr = Fraction(1, cls._dps * 2)` and `cls._dps = 10 ** cls.dp`.
The generated Lean file states `Gen.rationalUnits = C14.rationalUnitsProg`, `Gen.rationalRender = C14.rationalRenderProg` (kernel, `by rfl`);
lean/Props/C14Rat.lean proves their composition equal to the model's `strRational`.  usage: gen_rstr.py <repo> <out.lean>"""
import ast, os, sys
import gen_str


class TranslationError(Exception):
    pass


def qe(n, env):
    t = ast.unparse(n)
    if t == 'self':
        return '.self'
    if t in ('Rational._dpr', 'cls._dpr', 'self._dpr'):
        return '.dpr'
    if isinstance(n, ast.Name) and n.id in env and env[n.id][0] == 'Q':
        return env[n.id][1]
    if isinstance(n, ast.BinOp) and isinstance(n.op, ast.Add):
        return '(.add %s %s)' % (qe(n.left, env), qe(n.right, env))
    raise TranslationError('rational term not accepted: %s' % t[:80])


def ze(n, env):
    t = ast.unparse(n)
    if t in ('Rational._dps', 'cls._dps', 'self._dps'):
        return '.dps'
    if isinstance(n, ast.Constant) and isinstance(n.value, int) and not isinstance(n.value, bool):
        return '(.lit %d)' % n.value
    if isinstance(n, ast.Attribute) and n.attr in ('numerator', 'denominator'):
        return '(.%s %s)' % ('num' if n.attr == 'numerator' else 'den', qe(n.value, env))
    if isinstance(n, ast.Name) and n.id in env and env[n.id][0] == 'Z':
        return env[n.id][1]
    if isinstance(n, ast.BinOp):
        op = {ast.Mult: 'mul', ast.FloorDiv: 'floordiv'}.get(type(n.op))
        if op:
            return '(.%s %s %s)' % (op, ze(n.left, env), ze(n.right, env))
    raise TranslationError('integer term not accepted: %s' % t[:80])


def ub(n, env):
    if isinstance(n, ast.BoolOp) and isinstance(n.op, ast.Or):
        out = ub(n.values[-1], env)
        for v in reversed(n.values[:-1]):
            out = '(.or %s %s)' % (ub(v, env), out)
        return out
    if isinstance(n, ast.Compare) and len(n.ops) == 1 and isinstance(n.ops[0], ast.Eq):
        return '(.eq %s %s)' % (ze(n.left, env), ze(n.comparators[0], env))
    raise TranslationError('test not accepted: %s' % ast.unparse(n)[:80])


def units_branch(body, env):
    env = dict(env)
    for st in body:
        if not (isinstance(st, ast.Assign) and len(st.targets) == 1 and isinstance(st.targets[0], ast.Name)):
            raise TranslationError('statement not accepted in the units part: %s' % ast.unparse(st)[:80])
        try:
            env[st.targets[0].id] = ('Z', ze(st.value, env))
        except TranslationError:
            env[st.targets[0].id] = ('Q', qe(st.value, env))
    if env.get('v', ('?',))[0] != 'Z':
        raise TranslationError('the units part does not leave an integer in v')
    return '(.ret %s)' % env['v'][1]


def programs(repo):
    path = os.path.join(repo, 'droop', 'values', 'rational.py')
    tree = ast.parse(open(path).read(), path)
    cls = [n for n in tree.body if isinstance(n, ast.ClassDef) and n.name == 'Rational']
    if len(cls) != 1:
        raise TranslationError('class Rational not found once')
    fs = [n for n in cls[0].body if isinstance(n, ast.FunctionDef) and n.name == '__str__']
    if len(fs) != 1 or [a.arg for a in fs[0].args.args] != ['self']:
        raise TranslationError('Rational.__str__ not found once / signature')
    body = [st for st in fs[0].body if not (isinstance(st, ast.Expr) and isinstance(st.value, ast.Constant))]
    if not body or not isinstance(body[0], ast.If) or not body[0].orelse:
        raise TranslationError('Rational.__str__ does not start with the two-branch computation of the display units')
    units = '(.ite %s %s %s)' % (ub(body[0].test, {}), units_branch(body[0].body, {}), units_branch(body[0].orelse, {}))
    # formatting part: gen_str's executor, with Rational's attribute names
    saved = dict(gen_str.ATTRS), gen_str.RECEIVERS
    try:
        gen_str.ATTRS.clear(); gen_str.ATTRS.update({'_dps': '.scaled'})
        gen_str.RECEIVERS = ('Rational', 'cls', 'self')
        src = ast.unparse(ast.Module(body=body[1:], type_ignores=[])).replace('Rational._dfmt', 'Rational.__dfmt')
        render = gen_str.run(ast.parse(src).body, {'v': ('I', '.v')})
    except gen_str.TranslationError as e:
        raise TranslationError('formatting part: %s' % e)
    finally:
        gen_str.ATTRS.clear(); gen_str.ATTRS.update(saved[0]); gen_str.RECEIVERS = saved[1]
    # initialize: the two attributes the program reads
    init = [n for n in cls[0].body if isinstance(n, ast.FunctionDef) and n.name == 'initialize']
    if len(init) != 1:
        raise TranslationError('Rational.initialize not found once')
    assigns = {ast.unparse(st.targets[0]): ast.unparse(st.value) for st in ast.walk(init[0]) if isinstance(st, ast.Assign) and len(st.targets) == 1}
    if assigns.get('cls._dps') != '10 ** cls.dp' or assigns.get('cls._dpr') != 'Fraction(1, cls._dps * 2)':
        raise TranslationError('initialize: _dps / _dpr are not 10 ** cls.dp and Fraction(1, cls._dps * 2): %r' % {k: assigns.get(k) for k in ('cls._dps', 'cls._dpr')})
    return dict(rationalUnits=units, rationalRender=render)


def lean_file(r):
    lines = ['import Props.C14Rat', 'namespace Gen', 'open Droop Droop.C14', '']
    lines.append('def rationalUnits : UP := %s' % r['rationalUnits'])
    lines.append('def rationalRender : SP := %s' % r['rationalRender'])
    for nm in ('rationalUnits', 'rationalRender'):
        lines.append('theorem %s_is_committed : %s = C14.%sProg := by rfl' % (nm, nm, nm))
        lines.append('#print axioms %s_is_committed' % nm)
    lines.append('end Gen')
    return '\n'.join(lines) + '\n'


if __name__ == '__main__':
    repo, outp = sys.argv[1], sys.argv[2]
    open(outp, 'w').write(lean_file(programs(repo)))
