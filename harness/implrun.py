"""Runs the real code from REPO's working tree in-process and canonicalises what it observed."""
import io, contextlib, re, sys
from fractions import Fraction
from common import setup_repo_import
setup_repo_import()
import gen


def hx(s):
    return s.encode('utf-8').hex() + '.'


def raw(v):
    if hasattr(v, '_value'):
        return str(v._value)
    f = Fraction(v)
    return '%d/%d' % (f.numerator, f.denominator)


def verb_of(a):
    t = a['tag']; m = a['msg']
    if t in ('elect', 'defeat', 'unpend'):
        v = m.rsplit(': ', 1)[0]
    elif t == 'transfer':
        v = m.split(': ')[0]
    elif t == 'tie':
        v = m.split(': [')[0]
    else:
        v = m
    v = re.sub(r'surplus \S+ < omega', 'surplus < omega', v)
    v = re.sub(r'stable surplus \S+\)', 'stable surplus)', v)
    return v


def subjects_of(a, name2cid):
    """candidate ids named by an action's message ('-' if none); tie: chosen first, then the tied"""
    t = a['tag']; m = a['msg']
    try:
        if t in ('elect', 'defeat', 'unpend'):
            return [name2cid[m.rsplit(': ', 1)[1]]]
        if t == 'transfer':
            rest = m.split(': ', 1)[1]
            rest = re.sub(r' \([^)]*\)$', '', rest)
            return [name2cid[x] for x in rest.split(', ')]
        if t == 'tie':
            mm = re.match(r'.*: \[(.*)\] -> (.*)$', m)
            return [name2cid[mm.group(2)]] + [name2cid[x] for x in mm.group(1).split(', ')]
    except (KeyError, IndexError, AttributeError):
        return [0]
    return []


def new_election(text, o):
    from droop.profile import ElectionProfile
    from droop.election import Election
    prof = ElectionProfile(data=text)
    return prof, Election(prof, dict(o))


class Budget(Exception):
    pass


class Hang(Exception):
    pass


COUNT_LIMIT = 8.0     # seconds per count; after it, 1.5 s more to tell a stalled iteration from a slow one


def state_of(E):
    return (E.round, str(E.surplus), str(E.quota),
            tuple((c.cid, c.state, raw(c.vote), raw(c.kf) if c.kf is not None else None) for c in sorted(E.C, key=lambda c: c.cid)),
            tuple((b.index, raw(b.weight)) for b in E.ballots[:40]))


def limited_count(E, seconds=None):
    """E.count() under the CPU budget; raises Budget when it runs out (callers treat that as 'not explored')"""
    import signal
    def on_alarm(signum, frame):
        raise Budget()
    old = signal.signal(signal.SIGALRM, on_alarm)
    signal.setitimer(signal.ITIMER_REAL, seconds or COUNT_LIMIT)
    try:
        with contextlib.redirect_stdout(io.StringIO()):
            E.count()
    finally:
        signal.setitimer(signal.ITIMER_REAL, 0)
        signal.signal(signal.SIGALRM, old)


def count_record(text, o, want_weights=True):
    """count; returns (outcome string, E or None). outcome = 'OK' | 'CRASH <ExcName>' | 'CRASH Hang' | 'CRASH Timeout'.
    Hang = the counting state did not change during 1.5 s after the budget ran out (a stalled loop);
    Timeout = still changing (slow convergence: 'not explored')."""
    import signal
    prof, E = new_election(text, o)
    seen = []
    def on_alarm(signum, frame):
        try:
            st = state_of(E)
        except Exception:
            st = None
        if not seen:
            seen.append(st)
            signal.setitimer(signal.ITIMER_REAL, 1.5)
            return
        raise (Hang() if (st is not None and st == seen[0]) else Budget())
    old = signal.signal(signal.SIGALRM, on_alarm)
    signal.setitimer(signal.ITIMER_REAL, COUNT_LIMIT)
    try:
        return _count_record(E, want_weights)
    finally:
        signal.setitimer(signal.ITIMER_REAL, 0)
        signal.signal(signal.SIGALRM, old)


def _count_record(E, want_weights):
    snaps = []
    if want_weights:
        orig = E.logAction
        def wrapped(action, msg):
            orig(action, msg)
            if action != 'log' and E.rule.method != 'meek':
                snaps.append(' '.join('%d:%s' % (b.index, raw(b.weight)) for b in E.ballots))
        E.logAction = wrapped
    try:
        with contextlib.redirect_stdout(io.StringIO()):
            E.count()
    except Hang:
        return 'CRASH Hang', E, snaps
    except Budget:
        return 'CRASH Timeout', E, snaps
    except Exception as e:      # the exception class is the observation
        return 'CRASH ' + type(e).__name__, E, snaps
    return 'OK', E, snaps


def canonical_line(E, snaps):
    """the record as the COUNT protocol's observation line"""
    meth = E.rule.method
    name2cid = {c.name: c.cid for c in E.C}
    out = []; k = 0
    for a in E.record()['actions']:
        if a['tag'] == 'log':
            continue
        cs = []
        for cid, c in sorted(a['cstate'].items()):
            if c['state'] == 'withdrawn':
                cs.append('%d:W:-' % cid); continue
            s = '%d:%s:%s' % (cid, c['code'], raw(c['vote']))
            if 'kf' in c:
                s += ':' + raw(c['kf'])
            if 'quotient' in c:
                s += ':' + raw(c['quotient'])
            cs.append(s)
        x1 = a.get('nt_votes', a.get('residual', E.V0)); x2 = a.get('surplus', E.V0)
        if meth == 'qpq':
            x1 = E.V0; x2 = E.V0
        subj = subjects_of(a, name2cid)
        out.append('%s %s %d %s %s %s %s %s %s W %s' % (
            a['tag'], hx(verb_of(a)), a['round'], ','.join(map(str, subj)) if subj else '-',
            raw(a['quota']), raw(a['votes']), raw(x1), raw(x2), ' '.join(cs), snaps[k] if k < len(snaps) else ''))
        k += 1
    return 'OK ' + ' | '.join(out)


def count_line(item):
    """worker: (profile dict, options) -> canonical observation line"""
    p, o = item
    return count_line_text((gen.blt(p), o))


def count_line_text(item):
    """worker: (BLT text, options) -> canonical observation line"""
    text, o = item
    try:
        outcome, E, snaps = count_record(text, o)
    except Exception as e:
        return 'CRASH-INIT ' + type(e).__name__
    if outcome != 'OK':
        # the record written before the exception is still an observation: other properties are judged on it
        try:
            part = canonical_line(E, snaps)
            return outcome + ('\t' + part if len(part) > 3 else '')
        except Exception:
            return outcome
    try:
        line = canonical_line(E, snaps)
    except Exception as e:
        return 'CRASH-RECORD ' + type(e).__name__
    # C01: a withdrawn candidate is never credited with a vote
    if any((c.state == 'withdrawn' and c.vote != E.V0) for c in E.C):
        return 'CRASH WithdrawnCredited'
    return line
