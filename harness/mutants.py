#!/venv/bin/python
"""Systematic single-token mutants of /repo (comparison operators, and/or, +/-, 0/1 constants), each in a scratch worktree:
which survive the repository's own test suite, and which of the survivors do the quick checks detect?
usage: mutants.py <out.json> [max_mutants] [seed]
Nothing is written to /repo; the worktree lives under /tmp and is removed at the end.  A surviving, undetected mutant is
either an equivalent mutant (no observable change) or a blind spot of the checks: the report lists them for triage."""
import sys, os, ast, json, random, subprocess, shutil, signal

VERIF = os.path.dirname(os.path.dirname(os.path.abspath(__file__)))
PY = '/venv/bin/python'
FILES = ['droop/rules/wigm.py', 'droop/rules/wigm_prf.py', 'droop/rules/meek.py', 'droop/rules/meek_prf.py', 'droop/rules/mpls.py',
         'droop/rules/scotland.py', 'droop/rules/cfer.py', 'droop/rules/qpq.py', 'droop/rules/electionrule.py', 'droop/rules/electionmethods.py', 'droop/candidate.py', 'droop/candidates.py', 'droop/election.py',
         'droop/record.py', 'droop/profile.py', 'droop/options.py', 'droop/values/fixed.py', 'droop/values/guarded.py',
         'droop/values/rational.py', 'droop/values/__init__.py']
ALL = ['C%02d' % i for i in range(1, 21)]
CMP = {ast.Lt: '<=', ast.LtE: '<', ast.Gt: '>=', ast.GtE: '>', ast.Eq: '!=', ast.NotEq: '=='}
CMPSRC = {ast.Lt: '<', ast.LtE: '<=', ast.Gt: '>', ast.GtE: '>=', ast.Eq: '==', ast.NotEq: '!='}


def sh(cmd, cwd=None, env=None, timeout=3600):
    """run in its own process group; on timeout the whole group is killed (a mutant may loop forever, allocating)"""
    pr = subprocess.Popen(cmd, shell=True, cwd=cwd, env=env, stdout=subprocess.PIPE, stderr=subprocess.STDOUT, text=True,
                          start_new_session=True)
    try:
        out, _ = pr.communicate(timeout=timeout)
        return pr.returncode, out
    except subprocess.TimeoutExpired:
        try:
            os.killpg(pr.pid, signal.SIGKILL)
        except ProcessLookupError:
            pass
        pr.communicate()
        return 124, 'timeout'


def sites(path, text):
    """(line, col_start, col_end, old, new, kind) for single-token replacements found through the AST"""
    out = []
    lines = text.split('\n')
    tree = ast.parse(text)
    for node in ast.walk(tree):
        if isinstance(node, ast.Compare) and len(node.ops) == 1 and type(node.ops[0]) in CMP:
            left, right = node.left, node.comparators[0]
            if left.end_lineno != right.lineno:
                continue
            seg = lines[left.end_lineno - 1][left.end_col_offset:right.col_offset]
            old = CMPSRC[type(node.ops[0])]
            if seg.strip() != old:
                continue
            k = seg.index(old)
            out.append((left.end_lineno, left.end_col_offset + k, left.end_col_offset + k + len(old), old, CMP[type(node.ops[0])], 'cmp'))
        elif isinstance(node, ast.BoolOp) and len(node.values) == 2:
            a, b = node.values
            if a.end_lineno != b.lineno:
                continue
            seg = lines[a.end_lineno - 1][a.end_col_offset:b.col_offset]
            old = 'and' if isinstance(node.op, ast.And) else 'or'
            if seg.strip() != old:
                continue
            k = seg.index(old)
            out.append((a.end_lineno, a.end_col_offset + k, a.end_col_offset + k + len(old), old, 'or' if old == 'and' else 'and', 'bool'))
        elif isinstance(node, ast.BinOp) and isinstance(node.op, (ast.Add, ast.Sub)):
            a, b = node.left, node.right
            if a.end_lineno != b.lineno:
                continue
            seg = lines[a.end_lineno - 1][a.end_col_offset:b.col_offset]
            old = '+' if isinstance(node.op, ast.Add) else '-'
            if seg.strip() != old:
                continue
            k = seg.index(old)
            out.append((a.end_lineno, a.end_col_offset + k, a.end_col_offset + k + 1, old, '-' if old == '+' else '+', 'arith'))
        elif isinstance(node, ast.Constant) and type(node.value) is int and node.value in (0, 1) and node.lineno == node.end_lineno:
            old = lines[node.lineno - 1][node.col_offset:node.end_col_offset]
            if old in ('0', '1'):
                out.append((node.lineno, node.col_offset, node.end_col_offset, old, '1' if old == '0' else '0', 'const'))
    return out


def main():
    out_path = sys.argv[1]
    maxm = int(sys.argv[2]) if len(sys.argv) > 2 else 120
    rng = random.Random(int(sys.argv[3]) if len(sys.argv) > 3 else 0)
    wt = '/tmp/mutwt-%d' % os.getpid()
    sh('git -C /repo worktree add --detach %s HEAD -q' % wt)
    result = dict(mutants=[], summary={})
    try:
        allsites = []
        for f in FILES:
            p = os.path.join(wt, f)
            if not os.path.exists(p):
                continue
            text = open(p).read()
            for s in sites(p, text):
                allsites.append((f,) + s)
        rng.shuffle(allsites)
        chosen = allsites[:maxm]
        result['summary']['sites_found'] = len(allsites)
        for (f, line, c0, c1, old, new, kind) in chosen:
            p = os.path.join(wt, f)
            orig = open(p).read()
            lines = orig.split('\n')
            L = lines[line - 1]
            lines[line - 1] = L[:c0] + new + L[c1:]
            open(p, 'w').write('\n'.join(lines))
            rec = dict(file=f, line=line, col=c0, old=old, new=new, kind=kind, source_line=L.strip())
            rc, o = sh('ulimit -v 8000000; %s -m pytest -x -q -p no:cacheprovider' % PY, cwd=wt, timeout=90)
            rec['tests'] = 'pass' if rc == 0 else 'fail'
            if rc == 0:
                env = dict(os.environ, DROOP_REPO=wt, VERIF_NPROC='3', VERIF_SEED=os.environ.get('VERIF_SEED', '0'))
                procs = {c: subprocess.Popen('%s harness/check.py %s --tier quick' % (PY, c), shell=True, cwd=VERIF, env=env,
                                             stdout=subprocess.PIPE, stderr=subprocess.STDOUT, text=True,
                                             start_new_session=True) for c in ALL}
                det = []
                for c, pr in procs.items():
                    try:
                        pr.communicate(timeout=3600)
                    except subprocess.TimeoutExpired:
                        try:
                            os.killpg(pr.pid, signal.SIGKILL)
                        except ProcessLookupError:
                            pass
                        pr.communicate()
                    if pr.returncode == 1:
                        det.append(c)
                rec['detected_by'] = det
            open(p, 'w').write(orig)
            result['mutants'].append(rec)
            print(json.dumps(rec), flush=True)
            surv = [m for m in result['mutants'] if m['tests'] == 'pass']
            result['summary'].update(tried=len(result['mutants']), survive_tests=len(surv),
                                     detected=sum(1 for m in surv if m.get('detected_by')),
                                     undetected=sum(1 for m in surv if not m.get('detected_by')))
            json.dump(result, open(out_path, 'w'), indent=1)
    finally:
        sh('git -C /repo worktree remove --force %s' % wt)
        shutil.rmtree(os.path.join(VERIF, 'replays'), ignore_errors=True)


if __name__ == '__main__':
    main()
