#!/venv/bin/python
"""Translator for C15 / C16: `ElectionProfile.__validate` (<repo>/droop/profile.py) as the item list of lean/Props/C15Prog.lean
(`Gen.validate = C15.validateProg`, `by rfl`).  Accepted: a docstring; `if <cond>: raise ElectionProfileError(...)` with <cond> built
from `not self.nSeats`, `self.nSeats > len(self.eligible)`, `self.nBallots < len(self.eligible)` and `or`; and the two loops
`for bl in self.ballotLines:` / `for bl in self.ballotLinesEqual:` whose bodies raise when a candidate id is seen twice (recognised by
their shape: a dict `d`, a membership test `cid in d`, a raise, `d[cid] = cid`).  Anything else is refused.
usage: gen_validate.py <repo> <out.lean>"""
import ast, os, sys


class TranslationError(Exception):
    pass


def _path(node):
    parts = []
    while isinstance(node, ast.Attribute):
        parts.append(node.attr); node = node.value
    if isinstance(node, ast.Name):
        parts.append(node.id)
        return '.'.join(reversed(parts))
    return None


def _num(n):
    p = _path(n)
    if p == 'self.nSeats': return '.nSeats'
    if p == 'self.nBallots': return '.nBallots'
    if isinstance(n, ast.Call) and getattr(n.func, 'id', None) == 'len' and len(n.args) == 1 and _path(n.args[0]) == 'self.eligible':
        return '.nEligible'
    raise TranslationError('quantity not accepted: %s' % ast.dump(n)[:120])


def _cond(t):
    if isinstance(t, ast.BoolOp) and isinstance(t.op, ast.Or) and len(t.values) == 2:
        return '(.or %s %s)' % (_cond(t.values[0]), _cond(t.values[1]))
    if isinstance(t, ast.UnaryOp) and isinstance(t.op, ast.Not):
        return '(.falsy %s)' % _num(t.operand)
    if isinstance(t, ast.Compare) and len(t.ops) == 1 and isinstance(t.ops[0], (ast.Gt, ast.Lt)):
        return '(.%s %s %s)' % ('gt' if isinstance(t.ops[0], ast.Gt) else 'lt', _num(t.left), _num(t.comparators[0]))
    raise TranslationError('condition not accepted: %s' % ast.dump(t)[:140])


def _is_raise_profile(st):
    return isinstance(st, ast.Raise) and isinstance(st.exc, ast.Call) and getattr(st.exc.func, 'id', None) == 'ElectionProfileError'


def _dup_loop(st, equal):
    """for bl in self.<lines>: d = dict(); for [rank in bl.ranking: for] cid in ...: if cid in d: raise ...; d[cid] = cid"""
    if not (isinstance(st, ast.For) and getattr(st.target, 'id', None) == 'bl' and not st.orelse and len(st.body) == 2):
        return False
    init, loop = st.body
    if not (isinstance(init, ast.Assign) and getattr(init.targets[0], 'id', None) == 'd' and isinstance(init.value, ast.Call)
            and getattr(init.value.func, 'id', None) == 'dict'):
        return False
    if equal:
        if not (isinstance(loop, ast.For) and getattr(loop.target, 'id', None) == 'rank' and _path(loop.iter) == 'bl.ranking'
                and len(loop.body) == 1 and isinstance(loop.body[0], ast.For) and getattr(loop.body[0].iter, 'id', None) == 'rank'):
            return False
        loop = loop.body[0]
    else:
        if not (isinstance(loop, ast.For) and _path(loop.iter) == 'bl.ranking'):
            return False
    if getattr(loop.target, 'id', None) != 'cid' or len(loop.body) != 2:
        return False
    test, store = loop.body
    ok_test = isinstance(test, ast.If) and isinstance(test.test, ast.Compare) and isinstance(test.test.ops[0], ast.In) \
        and getattr(test.test.left, 'id', None) == 'cid' and getattr(test.test.comparators[0], 'id', None) == 'd' \
        and len(test.body) == 1 and _is_raise_profile(test.body[0]) and not test.orelse
    ok_store = isinstance(store, ast.Assign) and isinstance(store.targets[0], ast.Subscript) and getattr(store.targets[0].value, 'id', None) == 'd' \
        and getattr(store.targets[0].slice, 'id', None) == 'cid'
    return ok_test and ok_store


def program(repo):
    path = os.path.join(repo, 'droop', 'profile.py')
    tree = ast.parse(open(path).read(), path)
    fs = [n for n in ast.walk(tree) if isinstance(n, ast.FunctionDef) and n.name.endswith('__validate')]
    if len(fs) != 1:
        raise TranslationError('%s: %d definitions of __validate' % (path, len(fs)))
    items = []
    for st in fs[0].body:
        if isinstance(st, ast.Expr) and isinstance(st.value, ast.Constant):
            continue
        if isinstance(st, ast.If) and not st.orelse and len(st.body) == 1 and _is_raise_profile(st.body[0]):
            items.append('.raiseIf %s' % _cond(st.test))
        elif isinstance(st, ast.For) and _path(st.iter) == 'self.ballotLines' and _dup_loop(st, False):
            items.append('.noDupStrict')
        elif isinstance(st, ast.For) and _path(st.iter) == 'self.ballotLinesEqual' and _dup_loop(st, True):
            items.append('.noDupEqual')
        else:
            raise TranslationError('%s: statement not accepted in __validate (line %d)' % (path, st.lineno))
    return '[' + ', '.join(items) + ']'


def lean_file(prog):
    return '\n'.join(['import Props.C15Prog', 'namespace Gen', 'open Droop Droop.C15', '',
                      'def validate : List VItem := ' + prog,
                      'theorem validate_is_committed : validate = C15.validateProg := by rfl',
                      '#print axioms validate_is_committed', '', 'end Gen', ''])


if __name__ == '__main__':
    open(sys.argv[2], 'w').write(lean_file(program(sys.argv[1])))
