#!/venv/bin/python
"""Extractor for C12 / C13: how an integer becomes a stored value, and `V.min`.

`Fixed.__init__` / `Guarded.__init__` must be `if setval: self._value = arg  elif isinstance(arg, int): self._value = <expr>  else: self._value = arg._value`;
<expr> is translated with the expression language of lean/Props/C12Prog.lean (`arg` = `.a`, `self.__scale` = `.S`).
`min(cls, vals)`: Fixed and Rational must be `return min(vals)` (the builtin, first minimal element under `<`); Guarded must be the loop
`min_ = vals[0]; for val in vals[1:]: if val._value < min_._value: min_ = val; return min_` (first minimal *stored* value, no tolerance).
The generated Lean file states the programs / tags equal to those of lean/Props/C12Ctor.lean (kernel, `by rfl`).
usage: gen_ctor.py <repo> <out.lean>"""
import ast, os, sys


class TranslationError(Exception):
    pass


def _cls(repo, mod, name):
    path = os.path.join(repo, 'droop', 'values', mod + '.py')
    tree = ast.parse(open(path).read(), path)
    cs = [n for n in tree.body if isinstance(n, ast.ClassDef) and n.name == name]
    if len(cs) != 1:
        raise TranslationError('%s: class %s not found once' % (path, name))
    return cs[0]


def _method(cls, name):
    fs = [n for n in cls.body if isinstance(n, ast.FunctionDef) and n.name == name]
    if len(fs) != 1:
        raise TranslationError('%s.%s: %d definitions' % (cls.name, name, len(fs)))
    return fs[0]


def _body(fn):
    return [st for st in fn.body if not (isinstance(st, ast.Expr) and isinstance(st.value, ast.Constant))]


def expr(n, clsname):
    t = ast.unparse(n)
    if t == 'arg':
        return '.a'
    if t in ('self.__scale', 'cls.__scale', 'self._%s__scale' % clsname):
        return '.S'
    if isinstance(n, ast.BinOp):
        op = {ast.Add: 'add', ast.Sub: 'sub', ast.Mult: 'mul', ast.FloorDiv: 'floordiv'}.get(type(n.op))
        if op:
            return '(.%s %s %s)' % (op, expr(n.left, clsname), expr(n.right, clsname))
    raise TranslationError('%s.__init__: integer branch not accepted: %s' % (clsname, t[:80]))


def ctor(cls):
    b = _body(_method(cls, '__init__'))
    if [a.arg for a in _method(cls, '__init__').args.args] != ['self', 'arg', 'setval']:
        raise TranslationError('%s.__init__: signature' % cls.name)
    ok = (len(b) == 1 and isinstance(b[0], ast.If) and ast.unparse(b[0].test) == 'setval' and ast.unparse(b[0].body[0]) == 'self._value = arg'
          and len(b[0].body) == 1 and len(b[0].orelse) == 1 and isinstance(b[0].orelse[0], ast.If)
          and ast.unparse(b[0].orelse[0].test) == 'isinstance(arg, int)' and len(b[0].orelse[0].body) == 1
          and len(b[0].orelse[0].orelse) == 1 and ast.unparse(b[0].orelse[0].orelse[0]) == 'self._value = arg._value')
    if not ok:
        raise TranslationError('%s.__init__: not of the accepted three-branch form' % cls.name)
    st = b[0].orelse[0].body[0]
    if not (isinstance(st, ast.Assign) and ast.unparse(st.targets[0]) == 'self._value'):
        raise TranslationError('%s.__init__: integer branch does not assign self._value' % cls.name)
    return expr(st.value, cls.name)


def minkind(cls):
    b = _body(_method(cls, 'min'))
    src = [ast.unparse(st) for st in b]
    if src == ['return min(vals)']:
        return 'builtin'
    if src == ['min_ = vals[0]', 'for val in vals[1:]:\n    if val._value < min_._value:\n        min_ = val', 'return min_']:
        return 'first-min-by-stored-value'
    raise TranslationError('%s.min: not of an accepted form: %r' % (cls.name, src))


def programs(repo):
    F = _cls(repo, 'fixed', 'Fixed'); G = _cls(repo, 'guarded', 'Guarded'); R = _cls(repo, 'rational', 'Rational')
    return dict(fixedOfInt=ctor(F), guardedOfInt=ctor(G), mins=[('Fixed', minkind(F)), ('Guarded', minkind(G)), ('Rational', minkind(R))])


def lean_file(r):
    lines = ['import Props.C12Ctor', 'namespace Gen', 'open Droop Droop.C12', '']
    lines.append('def fixedOfInt : FEx := %s' % r['fixedOfInt'])
    lines.append('def guardedOfInt : FEx := %s' % r['guardedOfInt'])
    lines.append('def minKinds : List (String × String) := [%s]' % ', '.join('("%s", "%s")' % m for m in r['mins']))
    for nm, tgt in (('fixedOfInt', 'ofIntProg'), ('guardedOfInt', 'ofIntProg'), ('minKinds', 'minKinds')):
        lines.append('theorem %s_is_committed : %s = C12.%s := by rfl' % (nm, nm, tgt))
        lines.append('#print axioms %s_is_committed' % nm)
    lines.append('end Gen')
    return '\n'.join(lines) + '\n'


if __name__ == '__main__':
    repo, outp = sys.argv[1], sys.argv[2]
    open(outp, 'w').write(lean_file(programs(repo)))
