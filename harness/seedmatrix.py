#!/venv/bin/python
"""Run every check (quick tier) against every kept seeded change, each applied to its own scratch worktree of /repo
(never to /repo itself), and write the detection matrix.  usage: seedmatrix.py <out.json> [seed ids...]"""
import sys, os, subprocess, json, shutil, glob

VERIF = os.path.dirname(os.path.dirname(os.path.abspath(__file__)))
PY = '/venv/bin/python'
ALL = ['C%02d' % i for i in range(1, 21)]


def sh(cmd, cwd=None, env=None, timeout=7200):
    r = subprocess.run(cmd, shell=True, cwd=cwd, capture_output=True, text=True, timeout=timeout, env=env)
    return r.returncode, r.stdout + r.stderr


def main():
    out_path = sys.argv[1]
    ids = sys.argv[2:] or sorted(os.path.basename(os.path.dirname(p)) for p in glob.glob(os.path.join(VERIF, 'seeded', '*', 'patch.diff')))
    result = {}
    base = '/tmp/seedmx-%d' % os.getpid()
    os.makedirs(base, exist_ok=True)
    # the unchanged tree first: any alarm there is a false alarm
    ids = ['unchanged'] + ids
    for sid in ids:
        wt = os.path.join(base, sid)
        sh('git -C /repo worktree add --detach %s HEAD -q' % wt)
        try:
            if sid != 'unchanged':
                rc, o = sh('git apply %s' % os.path.join(VERIF, 'seeded', sid, 'patch.diff'), cwd=wt)
                if rc != 0:
                    result[sid] = dict(error='patch does not apply: ' + o[-300:]); continue
            env = dict(os.environ, DROOP_REPO=wt, VERIF_NPROC='3', VERIF_SEED=os.environ.get('VERIF_SEED', '0'))
            procs = {c: subprocess.Popen('%s harness/check.py %s --tier quick' % (PY, c), shell=True, cwd=VERIF, env=env,
                                         stdout=subprocess.PIPE, stderr=subprocess.STDOUT, text=True) for c in ALL}
            det = {}
            for c, p in procs.items():
                o = p.communicate(timeout=7200)[0]
                v = [l for l in o.split('\n') if l.startswith('VIOLATION')]
                det[c] = dict(exit=p.returncode, with_input=sum(1 for l in v if 'no-failing-input-found' not in l),
                              without_input=sum(1 for l in v if 'no-failing-input-found' in l))
            result[sid] = dict(detected_by=sorted(c for c, d in det.items() if d['exit'] == 1),
                               with_failing_input=sorted(c for c, d in det.items() if d['with_input']),
                               errors=sorted(c for c, d in det.items() if d['exit'] not in (0, 1)))
            print(sid, result[sid], flush=True)
        finally:
            sh('git -C /repo worktree remove --force %s' % wt)
        json.dump(result, open(out_path, 'w'), indent=1)
    shutil.rmtree(base, ignore_errors=True)
    shutil.rmtree(os.path.join(VERIF, 'replays'), ignore_errors=True)


if __name__ == '__main__':
    main()
