#!/venv/bin/python
"""Translator for C09: the selector chain of `Candidates.select` (<repo>/droop/candidates.py) as the table of lean/Props/C09Prog.lean
(`Gen.select = C09.selectProg`, `by rfl`).  Accepted: `if state == '<name>': candidates = self | [c for c in self if <test>]` with `elif`s
and a final `else` whose test is `c.state == state`; tests: `c.state ==/!= '<status>'`, optionally `and c.pending` / `and not c.pending`.
usage: gen_select.py <repo> <out.lean>"""
import ast, os, sys


class TranslationError(Exception):
    pass


def _test(t):
    if isinstance(t, ast.BoolOp) and isinstance(t.op, ast.And) and len(t.values) == 2:
        a, b = t.values
        if isinstance(b, ast.Attribute) and getattr(b.value, 'id', None) == 'c' and b.attr == 'pending':
            return '(.andPending %s)' % _test(a)
        if isinstance(b, ast.UnaryOp) and isinstance(b.op, ast.Not) and isinstance(b.operand, ast.Attribute) \
                and getattr(b.operand.value, 'id', None) == 'c' and b.operand.attr == 'pending':
            return '(.andNotPending %s)' % _test(a)
    if isinstance(t, ast.Compare) and len(t.ops) == 1 and isinstance(t.left, ast.Attribute) and getattr(t.left.value, 'id', None) == 'c' \
            and t.left.attr == 'state':
        r = t.comparators[0]
        if isinstance(r, ast.Constant) and isinstance(r.value, str):
            if isinstance(t.ops[0], ast.Eq): return '(.stateEq "%s")' % r.value
            if isinstance(t.ops[0], ast.NotEq): return '(.stateNe "%s")' % r.value
        if isinstance(r, ast.Name) and r.id == 'state' and isinstance(t.ops[0], ast.Eq):
            return '.stateEqParam'
    raise TranslationError('test not accepted: %s' % ast.dump(t)[:140])


def _rhs(v):
    if isinstance(v, ast.Name) and v.id == 'self':
        return '.all'
    if isinstance(v, ast.ListComp) and len(v.generators) == 1 and getattr(v.generators[0].iter, 'id', None) == 'self' \
            and getattr(v.generators[0].target, 'id', None) == 'c' and getattr(v.elt, 'id', None) == 'c' and len(v.generators[0].ifs) == 1:
        return _test(v.generators[0].ifs[0])
    raise TranslationError('selection not accepted: %s' % ast.dump(v)[:140])


def program(repo):
    path = os.path.join(repo, 'droop', 'candidates.py')
    tree = ast.parse(open(path).read(), path)
    fs = [n for n in ast.walk(tree) if isinstance(n, ast.FunctionDef) and n.name == 'select']
    if len(fs) != 1:
        raise TranslationError('%s: %d definitions of select' % (path, len(fs)))
    body = [st for st in fs[0].body if not (isinstance(st, ast.Expr) and isinstance(st.value, ast.Constant))]
    node = body[0]
    cases = []
    while True:
        if not (isinstance(node, ast.If) and isinstance(node.test, ast.Compare) and getattr(node.test.left, 'id', None) == 'state'
                and len(node.test.ops) == 1 and isinstance(node.test.ops[0], ast.Eq) and isinstance(node.test.comparators[0], ast.Constant)):
            raise TranslationError('select(): chain not accepted at line %d' % getattr(node, 'lineno', 0))
        if not (len(node.body) == 1 and isinstance(node.body[0], ast.Assign) and getattr(node.body[0].targets[0], 'id', None) == 'candidates'):
            raise TranslationError('select(): branch body not accepted at line %d' % node.lineno)
        cases.append('("%s", %s)' % (node.test.comparators[0].value, _rhs(node.body[0].value)))
        if len(node.orelse) == 1 and isinstance(node.orelse[0], ast.If):
            node = node.orelse[0]; continue
        if len(node.orelse) == 1 and isinstance(node.orelse[0], ast.Assign) and getattr(node.orelse[0].targets[0], 'id', None) == 'candidates':
            dflt = _rhs(node.orelse[0].value); break
        raise TranslationError('select(): final else not accepted')
    return '{ cases := [%s], dflt := %s }' % (', '.join(cases), dflt)


def lean_file(prog):
    return '\n'.join(['import Props.C09Prog', 'namespace Gen', 'open Droop Droop.C09', '',
                      'def select : SelProg := ' + prog,
                      'theorem select_is_committed : select = C09.selectProg := by rfl',
                      '#print axioms select_is_committed', '', 'end Gen', ''])


if __name__ == '__main__':
    open(sys.argv[2], 'w').write(lean_file(program(sys.argv[1])))
