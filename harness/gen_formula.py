#!/venv/bin/python
"""Translator for C06 / C08: regenerate, from the source under <repo>/droop/rules, the re-weighting formula of every Gregory rule
(the one assignment `b.weight = <expr>` that mentions the surplus) and the keep-factor update of meek.py / meek_prf.py (the one
assignment `c.kf = V.div(...)`) as expressions of lean/Props/C06Prog.lean; the generated file states `Gen.<rule>Rew = C06.<program>`
(`by rfl`, checked by the kernel on every run).  Anything outside the accepted forms is refused (TranslationError): reported as a
broken obligation, never skipped.
usage: gen_formula.py <repo> <out.lean>   (also importable: formulas(repo) -> dict)"""
import ast, os, sys


class TranslationError(Exception):
    pass


def _path(node):
    parts = []
    while isinstance(node, ast.Attribute):
        parts.append(node.attr); node = node.value
    if isinstance(node, ast.Name):
        parts.append(node.id)
        return '.'.join(reversed(parts))
    return None


ATOMS = {'b.weight': '.weight', 'surplus': '.surplus', 'E.quota': '.quota', 'c.kf': '.kf'}
VOTES = ('c.vote', 'high_candidate.vote')


def _round(call):
    kw = {k.arg: k.value for k in call.keywords}
    if set(kw) != {'round'} or not isinstance(kw['round'], ast.Constant) or kw['round'].value not in ('up', 'down'):
        raise TranslationError('rounding argument not accepted: %s' % ast.dump(call)[:160])
    return '.' + kw['round'].value


def tr(n, env=None):
    env = env or {}
    if isinstance(n, ast.Name) and n.id in env:
        return env[n.id]
    p = _path(n)
    if p == 'V1':
        return '.one'
    if isinstance(n, ast.BinOp) and isinstance(n.op, ast.Sub):
        return '(.minus %s %s)' % (tr(n.left, env), tr(n.right, env))
    if isinstance(n, ast.IfExp) and isinstance(n.test, ast.Compare) and len(n.test.ops) == 1 and isinstance(n.test.ops[0], ast.Lt):
        return '(.iteLt %s %s %s %s)' % (tr(n.test.left, env), tr(n.test.comparators[0], env), tr(n.body, env), tr(n.orelse, env))
    if p in ATOMS:
        return ATOMS[p]
    if p in VOTES:
        return '.vote'
    if isinstance(n, ast.BinOp) and isinstance(n.op, ast.Mult):
        return '(.times %s %s)' % (tr(n.left, env), tr(n.right, env))
    if isinstance(n, ast.BinOp) and isinstance(n.op, ast.Div):
        return '(.over %s %s)' % (tr(n.left, env), tr(n.right, env))
    if isinstance(n, ast.Call) and _path(n.func) in ('V.mul', 'V.div') and len(n.args) == 2:
        return '(.%s %s %s %s)' % (_path(n.func)[2:], _round(n), tr(n.args[0], env), tr(n.args[1], env))
    if isinstance(n, ast.Call) and _path(n.func) == 'V.muldiv' and len(n.args) == 3:
        return '(.muldiv %s %s %s %s)' % (_round(n), tr(n.args[0], env), tr(n.args[1], env), tr(n.args[2], env))
    raise TranslationError('not an expression of the accepted form: %s' % ast.dump(n)[:160])


REW = {'wigm': 'rewMulDivProg', 'wigm_prf': 'rewMulDivProg', 'cfer': 'rewMulDivProg', 'mpls': 'rewMulDivProg', 'scotland': 'rewMuldivDownProg'}
LEAN = {'wigm': 'wigm', 'wigm_prf': 'wigmPrf', 'cfer': 'cfer', 'mpls': 'mpls', 'scotland': 'scotland', 'meek': 'meek', 'meek_prf': 'meekPrf'}


def formulas(repo):
    out = {}
    for r, target in REW.items():
        path = os.path.join(repo, 'droop', 'rules', r + '.py')
        tree = ast.parse(open(path).read(), path)
        hits = [n for n in ast.walk(tree) if isinstance(n, ast.Assign) and len(n.targets) == 1 and _path(n.targets[0]) == 'b.weight'
                and any(isinstance(x, ast.Name) and x.id == 'surplus' for x in ast.walk(n.value))]
        if len(hits) != 1:
            raise TranslationError('%s: %d assignments of a surplus expression to b.weight (expected one)' % (path, len(hits)))
        out[LEAN[r] + 'Rew'] = (tr(hits[0].value), 'C06.' + target)
        # every other assignment to b.weight in a Gregory rule would be a second re-weighting rule: there is none
        others = [n for n in ast.walk(tree) if isinstance(n, (ast.Assign, ast.AugAssign))
                  and _path(n.targets[0] if isinstance(n, ast.Assign) else n.target) == 'b.weight' and n is not hits[0]]
        if others:
            raise TranslationError('%s: b.weight is assigned in %d more places (line %d)' % (path, len(others), others[0].lineno))
    for r in ('meek', 'meek_prf'):
        path = os.path.join(repo, 'droop', 'rules', r + '.py')
        tree = ast.parse(open(path).read(), path)
        hits = [n for n in ast.walk(tree) if isinstance(n, ast.Assign) and len(n.targets) == 1 and _path(n.targets[0]) == 'c.kf'
                and isinstance(n.value, ast.Call)]
        if len(hits) != 1:
            raise TranslationError('%s: %d computed assignments to c.kf (expected the update of the elected candidates)' % (path, len(hits)))
        out[LEAN[r] + 'KfUpdate'] = (tr(hits[0].value), 'C06.kfUpdateProg')
    # meek.py: how a keep factor shares a ballot's weight (kw_warren, kw_meekOpenSTV) and which of the two is used
    path = os.path.join(repo, 'droop', 'rules', 'meek.py')
    tree = ast.parse(open(path).read(), path)
    for fname, lean in (('kw_warren', 'kwWarren'), ('kw_meekOpenSTV', 'kwMeek')):
        fs_ = [n for n in ast.walk(tree) if isinstance(n, ast.FunctionDef) and n.name == fname]
        if len(fs_) != 1 or [a.arg for a in fs_[0].args.args] != ['kf', 'weight']:
            raise TranslationError('%s: %s(kf, weight) not found once' % (path, fname))
        env = {'kf': '.kf', 'weight': '.weight'}
        body = [st for st in fs_[0].body if not (isinstance(st, ast.Expr) and isinstance(st.value, ast.Constant))]
        for st in body[:-1]:
            if isinstance(st, ast.Assign) and len(st.targets) == 1 and isinstance(st.targets[0], ast.Name):
                env[st.targets[0].id] = tr(st.value, env)
            else:
                raise TranslationError('%s: statement not accepted in %s: %s' % (path, fname, ast.dump(st)[:120]))
        ret = body[-1]
        if not (isinstance(ret, ast.Return) and isinstance(ret.value, ast.Tuple) and len(ret.value.elts) == 2):
            raise TranslationError('%s: %s does not end in `return keep, weight`' % (path, fname))
        out[lean] = ('(%s, %s)' % (tr(ret.value.elts[0], env), tr(ret.value.elts[1], env)), 'C06.%sProg' % lean, 'WEx × WEx')
    sel = [n for n in ast.walk(tree) if isinstance(n, ast.Assign) and len(n.targets) == 1 and isinstance(n.targets[0], ast.Name)
           and n.targets[0].id == 'kt']
    ok = len(sel) == 1 and isinstance(sel[0].value, ast.IfExp) and _path(sel[0].value.test) == 'self.warren' \
        and getattr(sel[0].value.body, 'id', None) == 'kw_warren' and getattr(sel[0].value.orelse, 'id', None) == 'kw_meekOpenSTV'
    if not ok:
        raise TranslationError('%s: `kt = kw_warren if self.warren else kw_meekOpenSTV` not found' % path)
    # meek_prf.py: the share kept (B.2.a)
    path = os.path.join(repo, 'droop', 'rules', 'meek_prf.py')
    tree = ast.parse(open(path).read(), path)
    hits = [n for n in ast.walk(tree) if isinstance(n, ast.Assign) and len(n.targets) == 1 and isinstance(n.targets[0], ast.Name)
            and n.targets[0].id == 'keep_weight']
    if len(hits) != 1:
        raise TranslationError('%s: %d assignments to keep_weight' % (path, len(hits)))
    out['kwPrf'] = (tr(hits[0].value), 'C06.kwPrfProg', 'WEx')
    # candidate.py: the `surplus` property
    path = os.path.join(repo, 'droop', 'candidate.py')
    tree = ast.parse(open(path).read(), path)
    fs_ = [n for n in ast.walk(tree) if isinstance(n, ast.FunctionDef) and n.name == 'surplus']
    if len(fs_) != 1:
        raise TranslationError('%s: %d definitions of surplus' % (path, len(fs_)))
    env = {}
    body = [st for st in fs_[0].body if not (isinstance(st, ast.Expr) and isinstance(st.value, ast.Constant))]

    def trs(n):
        p = _path(n)
        if p == 'self.vote': return '.vote'
        if p == 'self.E.quota': return '.quota'
        if p == 'self.E.V0': return '.zero'
        if isinstance(n, ast.Name) and n.id in env: return env[n.id]
        if isinstance(n, ast.BinOp) and isinstance(n.op, ast.Sub):
            return '(.minus %s %s)' % (trs(n.left), trs(n.right))
        if isinstance(n, ast.IfExp) and isinstance(n.test, ast.Compare) and len(n.test.ops) == 1 and isinstance(n.test.ops[0], ast.Lt):
            return '(.iteLt %s %s %s %s)' % (trs(n.test.left), trs(n.test.comparators[0]), trs(n.body), trs(n.orelse))
        raise TranslationError('not a surplus expression of the accepted form: %s' % ast.dump(n)[:140])
    for st in body[:-1]:
        if isinstance(st, ast.Assign) and len(st.targets) == 1 and isinstance(st.targets[0], ast.Name):
            env[st.targets[0].id] = trs(st.value)
        else:
            raise TranslationError('%s: statement not accepted in surplus: %s' % (path, ast.dump(st)[:120]))
    if not (isinstance(body[-1], ast.Return) and body[-1].value is not None):
        raise TranslationError('%s: surplus does not end in a return' % path)
    out['candSurplus'] = (trs(body[-1].value), 'C06.candSurplusProg', 'WEx')
    # qpq.py: the quotient of a hopeful candidate and the contribution given on election
    path = os.path.join(repo, 'droop', 'rules', 'qpq.py')
    tree = ast.parse(open(path).read(), path)

    def trq(n):
        p = _path(n)
        if p in ('c.vote',): return '.vote'
        if p in ('c.tc',): return '.tc'
        if p == 'V1': return '.one'
        if p == 'high_candidate.quotient': return '.quotient'
        if isinstance(n, ast.BinOp) and isinstance(n.op, ast.Add):
            return '(.plus %s %s)' % (trq(n.left), trq(n.right))
        if isinstance(n, ast.BinOp) and isinstance(n.op, ast.Div):
            return '(.over %s %s)' % (trq(n.left), trq(n.right))
        raise TranslationError('not a QPQ expression of the accepted form: %s' % ast.dump(n)[:140])
    qs = [n for n in ast.walk(tree) if isinstance(n, ast.Assign) and len(n.targets) == 1 and _path(n.targets[0]) == 'c.quotient'
          and not (_path(n.value) == 'V0')]
    if len(qs) != 1:
        raise TranslationError('%s: %d computed assignments to c.quotient' % (path, len(qs)))
    out['qpqQuotient'] = (trq(qs[0].value), 'QPQ.quotientProg', 'QPQ.QxEx')
    nw = [n for n in ast.walk(tree) if isinstance(n, ast.Assign) and len(n.targets) == 1 and isinstance(n.targets[0], ast.Name)
          and n.targets[0].id == 'new_weight']
    if len(nw) != 1:
        raise TranslationError('%s: %d assignments to new_weight' % (path, len(nw)))
    out['qpqNewWeight'] = (trq(nw[0].value), 'QPQ.newWeightProg', 'QPQ.QxEx')
    return out


def lean_file(fs):
    lines = ['import Props.C06Prog', 'import Props.QpqProg', 'namespace Gen', 'open Droop Droop.C06', '']
    for name, v in sorted(fs.items()):
        text, target = v[0], v[1]
        lines.append('def %s : %s := %s' % (name, v[2] if len(v) > 2 else 'WEx', text))
        lines.append('theorem %s_is_committed : %s = %s := by rfl' % (name, name, target))
        lines.append('#print axioms %s_is_committed' % name)
        lines.append('')
    lines.append('end Gen')
    return '\n'.join(lines) + '\n'


if __name__ == '__main__':
    repo, outp = sys.argv[1], sys.argv[2]
    open(outp, 'w').write(lean_file(formulas(repo)))
