#!/venv/bin/python
"""Translator for C06 / C08: regenerate, from the source under <repo>/droop/rules, the re-weighting formula of every Gregory rule
(the one assignment `b.weight = <expr>` that mentions the surplus) and the keep-factor update of meek.py / meek_prf.py (the one
assignment `c.kf = V.div(...)`) as expressions of lean/Props/C06Prog.lean; the generated file states `Gen.<rule>Rew = C06.<program>`
(`by rfl`, checked by the kernel on every run).  Anything outside the accepted forms is refused (TranslationError): reported as a
broken obligation, never skipped.
usage: gen_formula.py <repo> <out.lean>   (also importable: formulas(repo) -> dict)"""
import ast, os, sys


class TranslationError(Exception):
    pass


def _path(node):
    parts = []
    while isinstance(node, ast.Attribute):
        parts.append(node.attr); node = node.value
    if isinstance(node, ast.Name):
        parts.append(node.id)
        return '.'.join(reversed(parts))
    return None


ATOMS = {'b.weight': '.weight', 'surplus': '.surplus', 'E.quota': '.quota', 'c.kf': '.kf'}
VOTES = ('c.vote', 'high_candidate.vote')


def _round(call):
    kw = {k.arg: k.value for k in call.keywords}
    if set(kw) != {'round'} or not isinstance(kw['round'], ast.Constant) or kw['round'].value not in ('up', 'down'):
        raise TranslationError('rounding argument not accepted: %s' % ast.dump(call)[:160])
    return '.' + kw['round'].value


def tr(n):
    p = _path(n)
    if p in ATOMS:
        return ATOMS[p]
    if p in VOTES:
        return '.vote'
    if isinstance(n, ast.BinOp) and isinstance(n.op, ast.Mult):
        return '(.times %s %s)' % (tr(n.left), tr(n.right))
    if isinstance(n, ast.BinOp) and isinstance(n.op, ast.Div):
        return '(.over %s %s)' % (tr(n.left), tr(n.right))
    if isinstance(n, ast.Call) and _path(n.func) in ('V.mul', 'V.div') and len(n.args) == 2:
        return '(.%s %s %s %s)' % (_path(n.func)[2:], _round(n), tr(n.args[0]), tr(n.args[1]))
    if isinstance(n, ast.Call) and _path(n.func) == 'V.muldiv' and len(n.args) == 3:
        return '(.muldiv %s %s %s %s)' % (_round(n), tr(n.args[0]), tr(n.args[1]), tr(n.args[2]))
    raise TranslationError('not an expression of the accepted form: %s' % ast.dump(n)[:160])


REW = {'wigm': 'rewMulDivProg', 'wigm_prf': 'rewMulDivProg', 'cfer': 'rewMulDivProg', 'mpls': 'rewMulDivProg', 'scotland': 'rewMuldivDownProg'}
LEAN = {'wigm': 'wigm', 'wigm_prf': 'wigmPrf', 'cfer': 'cfer', 'mpls': 'mpls', 'scotland': 'scotland', 'meek': 'meek', 'meek_prf': 'meekPrf'}


def formulas(repo):
    out = {}
    for r, target in REW.items():
        path = os.path.join(repo, 'droop', 'rules', r + '.py')
        tree = ast.parse(open(path).read(), path)
        hits = [n for n in ast.walk(tree) if isinstance(n, ast.Assign) and len(n.targets) == 1 and _path(n.targets[0]) == 'b.weight'
                and any(isinstance(x, ast.Name) and x.id == 'surplus' for x in ast.walk(n.value))]
        if len(hits) != 1:
            raise TranslationError('%s: %d assignments of a surplus expression to b.weight (expected one)' % (path, len(hits)))
        out[LEAN[r] + 'Rew'] = (tr(hits[0].value), 'C06.' + target)
        # every other assignment to b.weight in a Gregory rule would be a second re-weighting rule: there is none
        others = [n for n in ast.walk(tree) if isinstance(n, (ast.Assign, ast.AugAssign))
                  and _path(n.targets[0] if isinstance(n, ast.Assign) else n.target) == 'b.weight' and n is not hits[0]]
        if others:
            raise TranslationError('%s: b.weight is assigned in %d more places (line %d)' % (path, len(others), others[0].lineno))
    for r in ('meek', 'meek_prf'):
        path = os.path.join(repo, 'droop', 'rules', r + '.py')
        tree = ast.parse(open(path).read(), path)
        hits = [n for n in ast.walk(tree) if isinstance(n, ast.Assign) and len(n.targets) == 1 and _path(n.targets[0]) == 'c.kf'
                and isinstance(n.value, ast.Call)]
        if len(hits) != 1:
            raise TranslationError('%s: %d computed assignments to c.kf (expected the update of the elected candidates)' % (path, len(hits)))
        out[LEAN[r] + 'KfUpdate'] = (tr(hits[0].value), 'C06.kfUpdateProg')
    return out


def lean_file(fs):
    lines = ['import Props.C06Prog', 'namespace Gen', 'open Droop Droop.C06', '']
    for name, (text, target) in sorted(fs.items()):
        lines.append('def %s : WEx := %s' % (name, text))
        lines.append('theorem %s_is_committed : %s = %s := by rfl' % (name, name, target))
        lines.append('#print axioms %s_is_committed' % name)
        lines.append('')
    lines.append('end Gen')
    return '\n'.join(lines) + '\n'


if __name__ == '__main__':
    repo, outp = sys.argv[1], sys.argv[2]
    open(outp, 'w').write(lean_file(formulas(repo)))
