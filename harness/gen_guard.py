#!/venv/bin/python
"""Translator for C01 / C09: the test that keeps the main loop of each rule running.  For wigm.py, wigm_prf.py, meek_prf.py: the test
of the outermost `while` of `count()`; for meek.py, scotland.py, qpq.py: the body of `countComplete()` (and the `while not
countComplete()` / `if countComplete(): break` use of it is checked to exist).  The translation is stated equal (`by rfl`) to the
programs of lean/Props/C01Prog.lean, which that file proves equal to the model's guards.  Other forms are refused.
usage: gen_guard.py <repo> <out.lean>"""
import ast, os, sys


class TranslationError(Exception):
    pass


def _call_path(n):
    if isinstance(n, ast.Call) and not n.args and not n.keywords:
        f = n.func; parts = []
        while isinstance(f, ast.Attribute):
            parts.append(f.attr); f = f.value
        if isinstance(f, ast.Name):
            parts.append(f.id)
            return '.'.join(reversed(parts))
    return None


_LOCALS = {}


def tr_num(n):
    if isinstance(n, ast.Name) and n.id in _LOCALS:
        return _LOCALS[n.id]
    if isinstance(n, ast.Call) and isinstance(n.func, ast.Name) and n.func.id == 'len' and len(n.args) == 1:
        a = n.args[0]
        if isinstance(a, ast.Attribute) and isinstance(a.value, ast.Name) and a.value.id == 'self' and a.attr == 'elected':
            return '.elected'
        if _call_path(a) == 'self.C.eligible':
            return '.eligible'
    if isinstance(n, ast.Call) and isinstance(n.func, ast.Name) and n.func.id == 'len' and len(n.args) == 1 \
            and _call_path(n.args[0]) == 'C.hopeful':
        return '.hopeful'
    if _call_path(n) == 'E.seatsLeftToFill':
        return '.seatsLeft'
    if isinstance(n, ast.Attribute) and isinstance(n.value, ast.Name) and n.value.id == 'self' and n.attr == 'nSeats':
        return '.nSeats'
    if isinstance(n, ast.Call) and isinstance(n.func, ast.Name) and n.func.id == 'len' and len(n.args) == 1 \
            and _call_path(n.args[0]) == 'self.C.elected':
        return '.elected'
    if isinstance(n, ast.Constant) and isinstance(n.value, int) and not isinstance(n.value, bool):
        return '(.lit %d)' % n.value
    if isinstance(n, ast.BinOp) and isinstance(n.op, ast.Sub):
        return '(.sub %s %s)' % (tr_num(n.left), tr_num(n.right))
    raise TranslationError('not a count of the accepted form: %s' % ast.dump(n)[:140])


def tr_test(n):
    if isinstance(n, ast.Compare):
        terms = [n.left] + list(n.comparators)
        parts = []
        for a, op, b in zip(terms, n.ops, terms[1:]):
            o = {ast.Gt: 'gt', ast.LtE: 'le', ast.Lt: 'lt', ast.Eq: 'eq'}.get(type(op))
            if o is None:
                raise TranslationError('comparison not accepted: %s' % ast.dump(n)[:140])
            parts.append('(.%s %s %s)' % (o, tr_num(a), tr_num(b)))
        out = parts[0]
        for p in parts[1:]:
            out = '(.and %s %s)' % (out, p)
        return out
    if isinstance(n, ast.BoolOp) and len(n.values) == 2:
        o = {ast.Or: 'or', ast.And: 'and'}[type(n.op)]
        return '(.%s %s %s)' % (o, tr_test(n.values[0]), tr_test(n.values[1]))
    raise TranslationError('test not accepted: %s' % ast.dump(n)[:140])


def tr_complete(body):
    body = [st for st in body if not (isinstance(st, ast.Expr) and isinstance(st.value, ast.Constant))]
    if len(body) == 1 and isinstance(body[0], ast.Return) and body[0].value is not None \
            and not (isinstance(body[0].value, ast.Constant)):
        return '(.expr %s)' % tr_test(body[0].value)

    def go(sts):
        if len(sts) == 1 and isinstance(sts[0], ast.Return) and isinstance(sts[0].value, ast.Constant) and sts[0].value.value is False:
            return '.retFalse'
        st = sts[0]
        if isinstance(st, ast.If) and not st.orelse and len(st.body) == 1 and isinstance(st.body[0], ast.Return) \
                and isinstance(st.body[0].value, ast.Constant) and st.body[0].value.value is True:
            return '(.ifTrue %s %s)' % (tr_test(st.test), go(sts[1:]))
        raise TranslationError('statement not accepted in countComplete(): %s' % ast.dump(st)[:140])
    return go(body)


def _count_fn(tree, path):
    fs = [n for n in ast.walk(tree) if isinstance(n, ast.FunctionDef) and n.name == 'count']
    if len(fs) != 1:
        raise TranslationError('%s: %d definitions of count()' % (path, len(fs)))
    return fs[0]


def guards(repo):
    out = {}
    for r, lean in (('wigm', 'wigm'), ('wigm_prf', 'wigmPrf'), ('meek_prf', 'meekPrf')):
        path = os.path.join(repo, 'droop', 'rules', r + '.py')
        tree = ast.parse(open(path).read(), path)
        cnt = _count_fn(tree, path)
        loops = [st for st in cnt.body if isinstance(st, ast.While)]
        if len(loops) != 1:
            raise TranslationError('%s: %d top-level while loops in count()' % (path, len(loops)))
        out[lean + 'Guard'] = ('(.expr %s)' % tr_test(loops[0].test), 'C01.whileGuardProg')
    for r, lean, target in (('meek', 'meek', 'C01.meekCompleteProg'), ('scotland', 'scotland', 'C01.ifCompleteProg'),
                            ('qpq', 'qpq', 'C01.ifCompleteProg')):
        path = os.path.join(repo, 'droop', 'rules', r + '.py')
        tree = ast.parse(open(path).read(), path)
        fs = [n for n in ast.walk(tree) if isinstance(n, ast.FunctionDef) and n.name == 'countComplete']
        if len(fs) != 1:
            raise TranslationError('%s: %d definitions of countComplete()' % (path, len(fs)))
        out[lean + 'Complete'] = (tr_complete(fs[0].body), target)
        cnt = _count_fn(tree, path)
        uses = [n for n in ast.walk(cnt) if isinstance(n, ast.Call) and isinstance(n.func, ast.Name) and n.func.id == 'countComplete']
        if not uses:
            raise TranslationError('%s: countComplete() is never called in count()' % path)
        if r in ('meek', 'qpq'):
            loops = [st for st in cnt.body if isinstance(st, ast.While)]
            ok = len(loops) == 1 and isinstance(loops[0].test, ast.UnaryOp) and isinstance(loops[0].test.op, ast.Not) \
                and isinstance(loops[0].test.operand, ast.Call) and getattr(loops[0].test.operand.func, 'id', None) == 'countComplete'
            if not ok:
                raise TranslationError('%s: the main loop of count() is not `while not countComplete()`' % path)
    # the cap on a batch of sure losers
    for r, lean in (('wigm_prf', 'wigmPrf'), ('meek', 'meek'), ('mpls', 'mpls')):
        path = os.path.join(repo, 'droop', 'rules', r + '.py')
        tree = ast.parse(open(path).read(), path)
        hits = [n for n in ast.walk(tree) if isinstance(n, ast.Assign) and len(n.targets) == 1
                and isinstance(n.targets[0], ast.Name) and n.targets[0].id == 'maxDefeat']
        if len(hits) != 1:
            raise TranslationError('%s: %d assignments to maxDefeat' % (path, len(hits)))
        out[lean + 'MaxDefeat'] = (tr_num(hits[0].value), 'C01.maxDefeatProg', 'NEx')
    # election.py: seatsLeftToFill()
    path = os.path.join(repo, 'droop', 'election.py')
    tree = ast.parse(open(path).read(), path)
    fs = [n for n in ast.walk(tree) if isinstance(n, ast.FunctionDef) and n.name == 'seatsLeftToFill']
    if len(fs) != 1:
        raise TranslationError('%s: %d definitions of seatsLeftToFill' % (path, len(fs)))
    body = [st for st in fs[0].body if not (isinstance(st, ast.Expr) and isinstance(st.value, ast.Constant))]
    if not (len(body) == 1 and isinstance(body[0], ast.Return) and body[0].value is not None):
        raise TranslationError('%s: seatsLeftToFill() is not a single return' % path)
    out['seatsLeft'] = (tr_num(body[0].value), 'C01.seatsLeftProg', 'NEx')
    # election.py: postCheck()
    fs = [n for n in ast.walk(tree) if isinstance(n, ast.FunctionDef) and n.name == 'postCheck']
    if len(fs) != 1:
        raise TranslationError('%s: %d definitions of postCheck' % (path, len(fs)))
    body = [st for st in fs[0].body if not (isinstance(st, ast.Expr) and isinstance(st.value, ast.Constant))]
    _LOCALS.clear()
    try:
        for st in body[:-1]:
            if isinstance(st, ast.Assign) and len(st.targets) == 1 and isinstance(st.targets[0], ast.Name):
                _LOCALS[st.targets[0].id] = tr_num(st.value)
            else:
                raise TranslationError('%s: statement not accepted in postCheck(): %s' % (path, ast.dump(st)[:120]))
        last = body[-1]
        if isinstance(last, ast.Assert):
            test = last.test
        elif isinstance(last, ast.Expr) and isinstance(last.value, ast.Call) and getattr(last.value.func, 'id', None) == 'assert':
            test = last.value.args[0]
        else:
            raise TranslationError('%s: postCheck() does not end in an assert' % path)
        out['postCheck'] = (tr_test(test), 'C01.postCheckProg', 'GEx')
    finally:
        _LOCALS.clear()
    return out


def lean_file(gs):
    lines = ['import Props.C01Prog', 'namespace Gen', 'open Droop Droop.C01', '']
    for name, v in sorted(gs.items()):
        text, target = v[0], v[1]
        lines.append('def %s : %s := %s' % (name, v[2] if len(v) > 2 else 'GProg', text))
        lines.append('theorem %s_is_committed : %s = %s := by rfl' % (name, name, target))
        lines.append('#print axioms %s_is_committed' % name)
        lines.append('')
    lines.append('end Gen')
    return '\n'.join(lines) + '\n'


if __name__ == '__main__':
    repo, outp = sys.argv[1], sys.argv[2]
    open(outp, 'w').write(lean_file(guards(repo)))
