#!/venv/bin/python
"""Extractor for C09: every place in the package that writes a candidate's status.

Scans every module under <repo>/droop (Python `ast`) for assignments (plain, augmented, annotated, tuple targets included) whose target
is an attribute named `state` or `pending`, and for `setattr`/`delattr` calls naming one of them.  Result:
  statusWrites    [(module, Class.method, attribute, value source text)] in (module, line) order
  unelectCallers  the modules that call `.unelect()` (the only write that moves a status backwards)
  unpendAsserts   the `assert` tests at the head of Candidate.unpend
The generated Lean file states each list equal to the one committed in lean/Props/C09Status.lean (kernel, `by rfl`), which proves the
model's mutators perform exactly these writes.  usage: gen_status.py <repo> <out.lean>"""
import ast, glob, os, sys


class TranslationError(Exception):
    pass


ATTRS = ('state', 'pending')


def _targets(t):
    if isinstance(t, (ast.Tuple, ast.List)):
        for e in t.elts:
            yield from _targets(e)
    elif isinstance(t, ast.Starred):
        yield from _targets(t.value)
    else:
        yield t


def tables(repo):
    root = os.path.join(repo, 'droop')
    writes, callers = [], []
    asserts = None
    for path in sorted(glob.glob(os.path.join(root, '**', '*.py'), recursive=True)):
        rel = os.path.relpath(path, root)
        if rel.startswith('test') or os.sep + 'test' in rel:
            continue
        tree = ast.parse(open(path).read(), path)
        # enclosing Class.method of every node
        owner = {}
        def visit(node, name):
            for ch in ast.iter_child_nodes(node):
                nm = name
                if isinstance(ch, (ast.ClassDef, ast.FunctionDef, ast.AsyncFunctionDef)):
                    nm = (name + '.' if name else '') + ch.name
                owner[ch] = nm
                visit(ch, nm)
        visit(tree, '')
        for n in ast.walk(tree):
            if isinstance(n, (ast.Assign, ast.AugAssign, ast.AnnAssign)):
                ts = n.targets if isinstance(n, ast.Assign) else [n.target]
                for t0 in ts:
                    for t in _targets(t0):
                        if isinstance(t, ast.Attribute) and t.attr in ATTRS:
                            if not isinstance(n, ast.Assign) or isinstance(t0, (ast.Tuple, ast.List)):
                                raise TranslationError('%s:%d: status written by a statement that is not a plain assignment: %s'
                                                       % (rel, n.lineno, ast.unparse(n)[:100]))
                            writes.append((rel, n.lineno, owner.get(n, ''), t.attr, ast.unparse(n.value)))
            if isinstance(n, ast.Call) and isinstance(n.func, ast.Name) and n.func.id in ('setattr', 'delattr') and len(n.args) >= 2:
                a = n.args[1]
                if not (isinstance(a, ast.Constant) and isinstance(a.value, str)) or a.value in ATTRS:
                    # a computed attribute name could be `state`: accept only when the receiver is not a candidate-like object
                    recv = ast.unparse(n.args[0])
                    if recv not in ('Rational',):
                        raise TranslationError('%s:%d: %s with a name that may be a status attribute' % (rel, n.lineno, n.func.id))
            if isinstance(n, ast.Call) and isinstance(n.func, ast.Attribute) and n.func.attr == 'unelect':
                callers.append(rel)
            if isinstance(n, ast.FunctionDef) and n.name == 'unpend' and owner.get(n, '') == 'Candidate.unpend':
                body = [st for st in n.body if not (isinstance(st, ast.Expr) and isinstance(st.value, ast.Constant))]
                asserts = []
                for st in body:
                    if isinstance(st, ast.Assert):
                        asserts.append(ast.unparse(st.test))
                    else:
                        break
    writes.sort()
    for w in writes:
        if '"' in w[4] or '\\' in w[4]:
            raise TranslationError('value text not accepted: %r' % (w[4],))
    if asserts is None:
        raise TranslationError('Candidate.unpend not found')
    return dict(statusWrites=[(w[0], w[2], w[3], w[4]) for w in writes], unelectCallers=sorted(set(callers)), unpendAsserts=asserts)


def lean_file(t):
    lines = ['import Props.C09Status', 'namespace Gen', 'open Droop Droop.C09', '']
    lines.append('def statusWrites : List (String × String × String × String) := [%s]'
                 % ', '.join('("%s", "%s", "%s", "%s")' % w for w in t['statusWrites']))
    lines.append('def unelectCallers : List String := [%s]' % ', '.join('"%s"' % c for c in t['unelectCallers']))
    lines.append('def unpendAsserts : List String := [%s]' % ', '.join('"%s"' % c for c in t['unpendAsserts']))
    for nm in ('statusWrites', 'unelectCallers', 'unpendAsserts'):
        lines.append('theorem %s_is_committed : %s = C09.%s := by rfl' % (nm, nm, nm))
        lines.append('#print axioms %s_is_committed' % nm)
    lines.append('end Gen')
    return '\n'.join(lines) + '\n'


if __name__ == '__main__':
    repo, outp = sys.argv[1], sys.argv[2]
    open(outp, 'w').write(lean_file(tables(repo)))
