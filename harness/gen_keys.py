#!/venv/bin/python
"""Translator for C07: the sort keys of `Candidates.byVote`, `byBallotOrder`, `byTieOrder` (<repo>/droop/candidates.py) as field lists of
lean/Props/C07Prog.lean (`Gen.byVoteKey = C07.byVoteKey` ..., `by rfl`).  Accepted: a docstring and
`return sorted(candidates, key=lambda c: <c.attr | (c.attr, ...)>, reverse=reverse)`.  Anything else is refused.
usage: gen_keys.py <repo> <out.lean>"""
import ast, os, sys


class TranslationError(Exception):
    pass


FIELDS = {'vote': '.vote', 'order': '.order', 'tieOrder': '.tieOrder'}


def _field(n):
    if isinstance(n, ast.Attribute) and isinstance(n.value, ast.Name) and n.value.id == 'c' and n.attr in FIELDS:
        return FIELDS[n.attr]
    raise TranslationError('not a key field: %s' % ast.dump(n)[:120])


def keys(repo):
    path = os.path.join(repo, 'droop', 'candidates.py')
    tree = ast.parse(open(path).read(), path)
    out = {}
    for name in ('byVote', 'byBallotOrder', 'byTieOrder'):
        fs = [n for n in ast.walk(tree) if isinstance(n, ast.FunctionDef) and n.name == name]
        if len(fs) != 1:
            raise TranslationError('%s: %d definitions of %s' % (path, len(fs), name))
        body = [st for st in fs[0].body if not (isinstance(st, ast.Expr) and isinstance(st.value, ast.Constant))]
        ok = len(body) == 1 and isinstance(body[0], ast.Return) and isinstance(body[0].value, ast.Call) \
            and getattr(body[0].value.func, 'id', None) == 'sorted' and len(body[0].value.args) == 1 \
            and getattr(body[0].value.args[0], 'id', None) == 'candidates'
        if not ok:
            raise TranslationError('%s: %s is not `return sorted(candidates, key=..., reverse=reverse)`' % (path, name))
        kw = {k.arg: k.value for k in body[0].value.keywords}
        if set(kw) != {'key', 'reverse'} or getattr(kw['reverse'], 'id', None) != 'reverse' or not isinstance(kw['key'], ast.Lambda) \
                or [a.arg for a in kw['key'].args.args] != ['c']:
            raise TranslationError('%s: %s: keyword arguments not accepted' % (path, name))
        k = kw['key'].body
        fields = [_field(e) for e in k.elts] if isinstance(k, ast.Tuple) else [_field(k)]
        out[name + 'Key'] = '[%s]' % ', '.join(fields)
    return out


def lean_file(ks):
    lines = ['import Props.C07Prog', 'namespace Gen', 'open Droop Droop.C07', '']
    for name, text in sorted(ks.items()):
        lines.append('def %s : List KeyField := %s' % (name, text))
        lines.append('theorem %s_is_committed : %s = C07.%s := by rfl' % (name, name, name))
        lines.append('#print axioms %s_is_committed' % name)
        lines.append('')
    lines.append('end Gen')
    return '\n'.join(lines) + '\n'


if __name__ == '__main__':
    open(sys.argv[2], 'w').write(lean_file(keys(sys.argv[1])))
