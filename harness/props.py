"""Per-property checks.  Each function takes a check.Run, explores, and records violations / evidence."""
import os, sys, json, random, collections, time, re, hashlib
import common, gen, campaign, findings, implrun
from check import lean_gate

PROPS = {}


def prop(name):
    def deco(f):
        PROPS[name] = f
        return f
    return deco


def rng_for(run, salt=''):
    return random.Random('%s/%s/%s/%s' % (run.prop, run.seed, run.tier, salt))


def budget(run, quick, thorough):
    return thorough if run.tier == 'thorough' else quick


# =================================================================================================
# theorems claimed per property (names as `#print axioms` prints them); kept in lean/Props/*.lean

THEOREMS = json.load(open(os.path.join(common.VERIF, 'lean', 'theorems.json')))


# =================================================================================================
# observation lines -> actions -> projections

def parse_line(line):
    """'OK a | b | ...' -> list of dict(tag, verb, round, subj, quota, votes, x1, x2, cs=[(cid, code, vote, extra)], ws=[..])"""
    if not line.startswith('OK '):
        return None
    acts = []
    for a in line[3:].split(' | '):
        t = a.split(' ')
        head, rest = t[:8], t[8:]
        if 'W' in rest:
            k = rest.index('W'); cs, ws = rest[:k], rest[k + 1:]
        else:
            cs, ws = rest, []
        acts.append(dict(tag=head[0], verb=head[1], round=head[2], subj=head[3], quota=head[4], votes=head[5],
                         x1=head[6], x2=head[7], cs=[tuple(c.split(':')) for c in cs if c], ws=[w for w in ws if w]))
    return acts


def codes(a):
    return tuple((c[0], c[1]) for c in a['cs'])


def tallies(a):
    return tuple((c[0], c[2]) for c in a['cs'])


def proj_C01(line):
    acts = parse_line(line)
    return ('CRASH',) if acts is None else ('OK', codes(acts[-1]))


def proj_C02(line):
    acts = parse_line(line)
    return None if acts is None else tuple((a['tag'], tallies(a), a['x1'], tuple(a['ws'])) for a in acts)


def proj_C03(line):
    acts = parse_line(line)
    return None if acts is None else tuple((a['tag'], a['verb'], a['round'], a['subj'], a['quota'], tuple(a['cs'])) for a in acts)


def proj_C04(line):
    acts = parse_line(line)
    return None if acts is None else tuple((a['tag'], a['quota'], codes(a), tallies(a)) for a in acts)


def proj_C05(line):
    acts = parse_line(line)
    return None if acts is None else (acts[0]['quota'], codes(acts[-1]))


def proj_C06(line):
    acts = parse_line(line)
    return None if acts is None else tuple((a['tag'], a['subj'], tuple(a['ws']), tallies(a), a['quota']) for a in acts)


def proj_C07(line):
    acts = parse_line(line)
    return None if acts is None else tuple((a['tag'], a['verb'], a['subj'], tuple(a['cs']), a['x2']) for a in acts
                                           if a['tag'] in ('tie', 'defeat', 'transfer', 'unpend', 'elect', 'round', 'iterate'))


def proj_C08(line):
    acts = parse_line(line)
    return None if acts is None else tuple((a['tag'], a['verb'], a['quota'], a['votes'], a['x1'], a['x2'], tuple(a['cs'])) for a in acts)


def proj_C09(line):
    acts = parse_line(line)
    return None if acts is None else tuple((a['round'], codes(a)) for a in acts)


def proj_C18(line):
    acts = parse_line(line)
    return None if acts is None else tuple((a['tag'], a['verb'], a['subj'], codes(a)) for a in acts)


# =================================================================================================
# the count-campaign engine (C01-C09, parts of C18)

def describe(r):
    return dict(family=r.family, options=r.o, blt=gen.blt(r.p), case='COUNT ' + r.case)


def shrink(r, fails, max_steps=150):
    """greedy delta debugging on the profile: drop lines, lower multipliers, shorten rankings"""
    p = dict(r.p); p['lines'] = list(p['lines'])
    steps = 0
    changed = True
    while changed and steps < max_steps:
        changed = False
        for i in range(len(p['lines']) - 1, -1, -1):
            if len(p['lines']) <= 1:
                break
            q = dict(p); q['lines'] = p['lines'][:i] + p['lines'][i + 1:]
            steps += 1
            if _valid(q) and fails(q):
                p = q; changed = True
        for i, (m, rk) in enumerate(p['lines']):
            for m2 in ([1] if m > 1 else []) + ([m // 2] if m > 3 else []):
                q = dict(p); q['lines'] = list(p['lines']); q['lines'][i] = (m2, rk)
                steps += 1
                if _valid(q) and fails(q):
                    p = q; changed = True; break
            m, rk = p['lines'][i]
            if len(rk) > 1:
                q = dict(p); q['lines'] = list(p['lines']); q['lines'][i] = (m, rk[:-1])
                steps += 1
                if _valid(q) and fails(q):
                    p = q; changed = True
    return p


def _valid(p):
    elig = [c for c in range(1, p['n'] + 1) if c not in p['wd']]
    nb = gen.denote(p)[0]
    return 0 < p['s'] <= len(elig) and nb >= len(elig)


def judge(run, spec, r):
    """-> list of failure signatures of this result for this property (after removing nothing)"""
    sigs = []
    if r.impl.startswith('CRASH') or r.impl.startswith('TIMEOUT'):
        if spec.get('crash'):
            if r.impl.startswith('CRASH Timeout') and r.o['rule'] in gen.MEEKFAM:
                return []       # CPU budget overrun of an iteration that is still making progress: 'not explored'
            sigs.append(r.impl.split(' | ')[0])
            return sigs
        if r.partial is None or not r.impl_or:
            return sigs
        # the record written before the exception is judged, except by predicates that need a completed count
        for k in spec['keys']:
            if k not in ('C01', 'C18', 'C05') and r.impl_or.get(k, '1') != '1':
                sigs.append(k)
        return sigs
    if not r.impl_or:
        return ['BAD-LINE']
    for k in spec['keys']:
        if r.impl_or.get(k) != '1':
            sigs.append(k)
    return sigs


def quota_gate(run):
    """C04 translator: regenerate the quota formulas and quota tests from the rule modules under common.REPO
    (harness/gen_quota.py) and have the Lean kernel check that each is the program lean/Props/C04Prog.lean proves equal to the
    model's quota / quota test.  Returns the list of broken obligations."""
    import gen_quota, subprocess, re
    cov = run.coverage
    try:
        progs = gen_quota.programs(common.REPO)
    except gen_quota.TranslationError as e:
        cov['translator_quota'] = dict(status='refused', why=str(e))
        return ['translator harness/gen_quota.py refused the source: %s' % e]
    except Exception as e:
        cov['translator_quota'] = dict(status='error', why='%s: %s' % (type(e).__name__, e))
        return ['translator harness/gen_quota.py failed: %s: %s' % (type(e).__name__, e)]
    gdir = os.path.join(common.LEAN, '.lake', 'gen')
    os.makedirs(gdir, exist_ok=True)
    path = os.path.join(gdir, 'Quota_%d.lean' % os.getpid())
    open(path, 'w').write(gen_quota.lean_file(progs))
    try:
        r = subprocess.run(['lake', 'env', 'lean', path], cwd=common.LEAN, capture_output=True, text=True, timeout=600)
        out = r.stdout + r.stderr
    finally:
        try: os.remove(path)
        except OSError: pass
    ok = r.returncode == 0 and 'error' not in out.lower()
    axioms_ok = all(set(a.strip() for a in m.split(',') if a.strip()) <= common.STD_AXIOMS
                    for m in re.findall(r"depends on axioms: \[([^\]]*)\]", out, flags=re.S))
    cov['translator_quota'] = dict(status='checked' if ok and axioms_ok else 'mismatch', programs=sorted(progs),
                                   obligation='Gen.<rule>Quota = C04.<rule>QuotaProg, Gen.<rule>HasQuota = C04.hasQuota{X,GE}Prog by rfl; '
                                              '*_quota_is_program, hasQuota*_is_program (lean/Props/C04Prog.lean) tie the programs to the model',
                                   source=['droop/rules/%s.py' % m for m in gen_quota.RULES + ['meek_prf']])
    if ok and axioms_ok:
        return []
    bad = sorted(set(re.findall(r"theorem (\w+)_is_committed", ' '.join(l for l in out.split('\n')))) or [])
    return ['calcQuota() / hasQuota() of droop/rules/*.py, translated, is no longer the program lean/Props/C04Prog.lean proves the model equal to: '
            + ' '.join(l for l in out.split('\n') if 'error' in l.lower())[:400]]


def formula_gate(run):
    """C06 / C08 translator: the re-weighting formula of every Gregory rule and the keep-factor update of meek.py / meek_prf.py,
    regenerated from the source (harness/gen_formula.py) and kernel-checked equal to the programs of lean/Props/C06Prog.lean."""
    import gen_formula, subprocess, re
    cov = run.coverage
    try:
        fs = gen_formula.formulas(common.REPO)
    except gen_formula.TranslationError as e:
        cov['translator_formulas'] = dict(status='refused', why=str(e))
        return ['translator harness/gen_formula.py refused the source: %s' % e]
    except Exception as e:
        cov['translator_formulas'] = dict(status='error', why='%s: %s' % (type(e).__name__, e))
        return ['translator harness/gen_formula.py failed: %s: %s' % (type(e).__name__, e)]
    gdir = os.path.join(common.LEAN, '.lake', 'gen')
    os.makedirs(gdir, exist_ok=True)
    path = os.path.join(gdir, 'Formula_%d.lean' % os.getpid())
    open(path, 'w').write(gen_formula.lean_file(fs))
    try:
        r = subprocess.run(['lake', 'env', 'lean', path], cwd=common.LEAN, capture_output=True, text=True, timeout=600)
        out = r.stdout + r.stderr
    finally:
        try: os.remove(path)
        except OSError: pass
    ok = r.returncode == 0 and 'error' not in out.lower()
    axioms_ok = all(set(a.strip() for a in m.split(',') if a.strip()) <= common.STD_AXIOMS
                    for m in re.findall(r"depends on axioms: \[([^\]]*)\]", out, flags=re.S))
    cov['translator_formulas'] = dict(status='checked' if ok and axioms_ok else 'mismatch', formulas=sorted(fs),
                                      obligation='Gen.<rule>Rew = C06.rewMulDivProg / rewMuldivDownProg, Gen.<rule>KfUpdate = C06.kfUpdateProg, Gen.kw* = C06.kw*Prog, Gen.qpqQuotient / qpqNewWeight = QPQ.quotientProg / newWeightProg by rfl; '
                                                 'rewMulDiv_is_program, rewMuldivDown_is_program, *_uses_program (lean/Props/C06Prog.lean) tie them to the model')
    if ok and axioms_ok:
        return []
    return ['the re-weighting / keep-factor formula of droop/rules/*.py, translated, is no longer the program lean/Props/C06Prog.lean ties to the model: '
            + ' '.join(l for l in out.split('\n') if 'error' in l.lower())[:400]]


def guard_gate(run):
    """C01 / C09 translator: the main-loop test / countComplete() of each rule module, regenerated from the source
    (harness/gen_guard.py) and kernel-checked equal to the programs of lean/Props/C01Prog.lean."""
    import gen_guard, subprocess, re
    cov = run.coverage
    try:
        gs = gen_guard.guards(common.REPO)
    except gen_guard.TranslationError as e:
        cov['translator_guards'] = dict(status='refused', why=str(e))
        return ['translator harness/gen_guard.py refused the source: %s' % e]
    except Exception as e:
        cov['translator_guards'] = dict(status='error', why='%s: %s' % (type(e).__name__, e))
        return ['translator harness/gen_guard.py failed: %s: %s' % (type(e).__name__, e)]
    gdir = os.path.join(common.LEAN, '.lake', 'gen')
    os.makedirs(gdir, exist_ok=True)
    path = os.path.join(gdir, 'Guard_%d.lean' % os.getpid())
    open(path, 'w').write(gen_guard.lean_file(gs))
    try:
        r = subprocess.run(['lake', 'env', 'lean', path], cwd=common.LEAN, capture_output=True, text=True, timeout=600)
        out = r.stdout + r.stderr
    finally:
        try: os.remove(path)
        except OSError: pass
    ok = r.returncode == 0 and 'error' not in out.lower()
    axioms_ok = all(set(a.strip() for a in m.split(',') if a.strip()) <= common.STD_AXIOMS
                    for m in re.findall(r"depends on axioms: \[([^\]]*)\]", out, flags=re.S))
    cov['translator_guards'] = dict(status='checked' if ok and axioms_ok else 'mismatch', guards=sorted(gs),
                                    obligation='Gen.<rule>Guard = C01.whileGuardProg, Gen.<rule>Complete = C01.meekCompleteProg / ifCompleteProg, Gen.<rule>MaxDefeat = C01.maxDefeatProg by rfl; '
                                               'stdGuard_is_program, meekCountComplete_is_program, scotCountComplete_is_program, qpqCountComplete_is_program')
    if ok and axioms_ok:
        return []
    return ['the main-loop test / countComplete() of droop/rules/*.py, translated, is no longer the program lean/Props/C01Prog.lean proves the model guard equal to: '
            + ' '.join(l for l in out.split('\n') if 'error' in l.lower())[:400]]


def keys_gate(run):
    """C07 translator: the sort keys of candidates.py (harness/gen_keys.py), kernel-checked equal to the lists of lean/Props/C07Prog.lean."""
    import gen_keys, subprocess, re
    cov = run.coverage
    try:
        ks = gen_keys.keys(common.REPO)
    except gen_keys.TranslationError as e:
        cov['translator_keys'] = dict(status='refused', why=str(e))
        return ['translator harness/gen_keys.py refused the source: %s' % e]
    except Exception as e:
        cov['translator_keys'] = dict(status='error', why='%s: %s' % (type(e).__name__, e))
        return ['translator harness/gen_keys.py failed: %s: %s' % (type(e).__name__, e)]
    gdir = os.path.join(common.LEAN, '.lake', 'gen')
    os.makedirs(gdir, exist_ok=True)
    path = os.path.join(gdir, 'Keys_%d.lean' % os.getpid())
    open(path, 'w').write(gen_keys.lean_file(ks))
    try:
        r = subprocess.run(['lake', 'env', 'lean', path], cwd=common.LEAN, capture_output=True, text=True, timeout=600)
        out = r.stdout + r.stderr
    finally:
        try: os.remove(path)
        except OSError: pass
    ok = r.returncode == 0 and 'error' not in out.lower()
    axioms_ok = all(set(a.strip() for a in m.split(',') if a.strip()) <= common.STD_AXIOMS
                    for m in re.findall(r"depends on axioms: \[([^\]]*)\]", out, flags=re.S))
    cov['translator_keys'] = dict(status='checked' if ok and axioms_ok else 'mismatch', keys=ks,
                                  obligation='Gen.byVoteKey / byBallotOrderKey / byTieOrderKey = C07.* by rfl; byVote_is_program, byBallotOrder_is_program, byTieOrder_is_program')
    if ok and axioms_ok:
        return []
    return ['the sort keys of droop/candidates.py, translated, are no longer the lists lean/Props/C07Prog.lean proves the model comparators equal to: '
            + ' '.join(l for l in out.split('\n') if 'error' in l.lower())[:300] + ' regenerated=%s' % (ks,)]


def gen_gate(run, key, modname, getter, obligation, what):
    """generic translator gate: harness/<modname>.py regenerates something from common.REPO, its Lean file is checked by the kernel"""
    import importlib, subprocess, re
    mod = importlib.import_module(modname)
    cov = run.coverage
    try:
        res = getattr(mod, getter)(common.REPO)
    except mod.TranslationError as e:
        cov[key] = dict(status='refused', why=str(e))
        return ['translator harness/%s.py refused the source: %s' % (modname, e)]
    except Exception as e:
        cov[key] = dict(status='error', why='%s: %s' % (type(e).__name__, e))
        return ['translator harness/%s.py failed: %s: %s' % (modname, type(e).__name__, e)]
    gdir = os.path.join(common.LEAN, '.lake', 'gen')
    os.makedirs(gdir, exist_ok=True)
    path = os.path.join(gdir, '%s_%d.lean' % (modname, os.getpid()))
    open(path, 'w').write(mod.lean_file(res))
    try:
        r = subprocess.run(['lake', 'env', 'lean', path], cwd=common.LEAN, capture_output=True, text=True, timeout=600)
        out = r.stdout + r.stderr
    finally:
        try: os.remove(path)
        except OSError: pass
    ok = r.returncode == 0 and 'error' not in out.lower()
    axioms_ok = all(set(a.strip() for a in m.split(',') if a.strip()) <= common.STD_AXIOMS
                    for m in re.findall(r"depends on axioms: \[([^\]]*)\]", out, flags=re.S))
    cov[key] = dict(status='checked' if ok and axioms_ok else 'mismatch', obligation=obligation)
    if ok and axioms_ok:
        return []
    return [what + ': ' + ' '.join(l for l in out.split('\n') if 'error' in l.lower())[:300] + ' regenerated=%s' % (str(res)[:300],)]


def transfer_gate(run):
    return gen_gate(run, 'translator_transfer', 'gen_transfer', 'table',
                    'Gen.transferTable = C06.transferTable by rfl; transferBallot_is_loop, qAdvance_is_loop, contPred_mpls (lean/Props/C06Transfer.lean)',
                    'transfer(ballot) of droop/rules/*.py, extracted, is no longer the table lean/Props/C06Transfer.lean ties to the model')


def select_gate(run):
    return gen_gate(run, 'translator_select', 'gen_select', 'program',
                    'Gen.select = C09.selectProg by rfl; eligible_is_program, hopeful_is_program, elected_is_program, pending_is_program',
                    'Candidates.select of droop/candidates.py, translated, is no longer the table lean/Props/C09Prog.lean proves the model selectors equal to')


def elect_gate(run):
    return gen_gate(run, 'translator_elect', 'gen_elect', 'table',
                    'Gen.electTable = C04.electTable, Gen.hasSurplus = C04.hasSurplusProg by rfl; wigm_elect_is_row, scot_elect_is_row, cfer_elect_is_row '
                    '(lean/Props/C04Loop.lean)',
                    'the election loop (`for c in [c for c in C.hopeful(...) if <test>]: c.elect(...)`) of wigm / wigm_prf / scotland / cfer / meek / meek_prf, '
                    'or cfer\'s hasSurplus, is no longer what lean/Props/C04Loop.lean proves the model\'s election step to evaluate')


def begin_gate(run):
    return gen_gate(run, 'translator_begin', 'gen_begin', 'tables',
                    'Gen.countBody / ballotInit / ballotAdvance = C02.* by rfl; start_state, finish_logs_end (lean/Props/C02Begin.lean)',
                    'Election.count, Election.Ballot.__init__ or Ballot.advance (droop/election.py) are no longer the statements lean/Props/C02Begin.lean '
                    'ties the model\'s start state to')


def moves_gate(run):
    return gen_gate(run, 'translator_moves', 'gen_moves', 'tables',
                    'Gen.moveTable = C06.moveTable, Gen.ballotPositionUses = C06.ballotPositionUses by rfl; tstep_untouched, tstep_touched, tstep_touches_iff (lean/Props/C06Moves.lean)',
                    'the filtered iterations over E.ballots in the rule modules (which ballots a transfer touches), extracted, are no longer the table of '
                    'lean/Props/C06Moves.lean')


def choice_gate(run):
    return gen_gate(run, 'translator_choice', 'gen_choice', 'table',
                    'Gen.choiceTable = C07.choiceTable by rfl; low_row_is_the_lowest, high_row_is_the_highest (lean/Props/C07Choice.lean)',
                    'the min / max over a population and the tied-candidate list that follows it, in some rule module, are no longer the rows '
                    'lean/Props/C07Choice.lean gives their meaning to')


def tie_gate(run):
    return gen_gate(run, 'translator_tie', 'gen_tie', 'table',
                    'Gen.tieTable = C07.tieTable by rfl; breakTie_is_program (lean/Props/C07Tie.lean)',
                    'breakTie of wigm / wigm_prf / cfer / meek / meek_prf / mpls / qpq is no longer the procedure (single candidate returned silently; else first '
                    'of byTieOrder, one tie action, return it) that lean/Props/C07Tie.lean proves the model to carry out')


def status_gate(run):
    return gen_gate(run, 'translator_status', 'gen_status', 'tables',
                    'Gen.statusWrites = C09.statusWrites, Gen.unelectCallers = C09.unelectCallers, Gen.unpendAsserts = C09.unpendAsserts by rfl; '
                    'elect_is_the_write, defeat_is_the_write, unpend_is_the_write, unpend_keeps_status, initial_status (lean/Props/C09Status.lean)',
                    'the assignments to a candidate\'s state / pending anywhere in droop/, or the callers of unelect(), extracted, are no longer the '
                    'lists lean/Props/C09Status.lean ties to the model')


def count_property(run, spec):
    t0 = time.time()
    broken = lean_gate(run, THEOREMS.get(run.prop, []))
    if not broken and spec.get('extra_gate'):
        broken = broken + spec['extra_gate'](run)
    rng = rng_for(run)
    n = budget(run, spec.get('quick', 4000), spec.get('thorough', 120000))
    rules = spec['rules']
    cases = corpus_cases(run.prop, rules) + campaign.make_cases(
        rng, n, rules, families=spec.get('families'), lowprec=spec.get('lowprec', 0.0),
        equal_ranks=spec.get('equal_ranks', 0.3), rational_meek=spec.get('rational_meek', 0.0),
        options_fn=spec.get('options_fn'))
    limit = spec.get('limit', 20.0)
    stats = collections.Counter()
    results = []
    CH = 20000
    for i in range(0, len(cases), CH):
        results.extend(campaign.evaluate(cases[i:i + CH], limit=limit))
    proj = spec['proj']
    failing = []        # (result, signatures)
    mism = []
    skipped_crash = 0
    for r in results:
        sigs = judge(run, spec, r)
        if sigs:
            failing.append((r, sigs))
        if (r.impl.startswith('CRASH') or r.impl.startswith('TIMEOUT')) and not spec.get('crash'):
            skipped_crash += 1
            continue
        if not r.same:
            mism.append(r)
    # correspondence under this property's projection
    corr_broken = []
    if mism:
        campaign.model_lines(mism[:2000])
        for r in mism[:2000]:
            try:
                pm, pi = proj(r.model_line), proj(r.impl)
            except Exception:
                pm, pi = 'unparsable-model', 'unparsable-impl'
            if pm != pi:
                corr_broken.append(r)
    report_count(run, spec, results, failing, corr_broken, broken, stats, skipped_crash, rng)


def report_count(run, spec, results, failing, corr_broken, broken, stats, skipped_crash, rng):
    # failing inputs on the implementation
    reported = 0
    for r, sigs in failing:
        unexplained = []
        for s in sigs:
            fid = findings.match(run.prop, r, s)
            if fid:
                run.known(fid, known_text(fid))
            else:
                unexplained.append(s)
        if unexplained and reported < 5:
            reported += 1
            sig0 = unexplained[0]
            def fails(q, r=r, sig0=sig0):
                rr = campaign.evaluate([(r.family, q, r.o)])[0]
                return sig0 in judge(run, spec, rr) and findings.match(run.prop, rr, sig0) is None
            try:
                small = shrink(r, fails)
            except Exception:
                small = r.p
            rr = campaign.evaluate([(r.family, small, r.o)])[0]
            run.violation(dict(kind='implementation', signatures=unexplained, original=describe(r), minimal=describe(rr),
                               observed=rr.impl[:4000], oracles_on_implementation=rr.impl_or, oracles_on_model=rr.model_or,
                               same_as_model=rr.same))
        elif unexplained:
            reported += 1
    # broken correspondence / proof obligation without a failing input
    if (corr_broken or broken) and reported == 0:
        extra_fail = targeted_search(run, spec, corr_broken, rng)
        if extra_fail:
            r, sigs = extra_fail
            run.violation(dict(kind='implementation', signatures=sigs, minimal=describe(r), observed=r.impl[:4000],
                               oracles_on_implementation=r.impl_or, found_by='targeted search after a broken correspondence'))
        elif corr_broken and spec.get('prescribed_quota') and prescribed_quota_search(run, spec, corr_broken):
            pass
        elif corr_broken and spec.get('spec_diff') and spec_diff_search(run, spec, corr_broken):
            pass
        elif corr_broken and spec.get('model_is_spec'):
            # C03: the property *is* "the history is the one the published procedure prescribes", and the Lean model is the
            # formalised procedure, so an input on which the two histories differ is the failing input
            first = corr_broken[0]
            proj = spec['proj']
            def differs(q, r=first):
                rr = campaign.evaluate([(r.family, q, r.o)])[0]
                if rr.same or rr.impl.startswith('CRASH') or rr.impl.startswith('TIMEOUT'):
                    return False
                campaign.model_lines([rr])
                try:
                    return proj(rr.model_line) != proj(rr.impl)
                except Exception:
                    return True
            try:
                small = shrink(first, differs)
            except Exception:
                small = first.p
            rr = campaign.evaluate([(first.family, small, first.o)])[0]
            campaign.model_lines([rr])
            run.violation(dict(kind='implementation', signatures=['history differs from the formalised procedure'],
                               original=describe(first), minimal=describe(rr),
                               prescribed_by_model=(rr.model_line or '')[:3000], implementation=rr.impl[:3000],
                               first_difference=first_diff(rr.model_line or '', rr.impl), disagreeing_cases=len(corr_broken)))
        else:
            first = corr_broken[0] if corr_broken else None
            payload = dict(kind='correspondence' if corr_broken else 'theorem',
                           broken=(['correspondence %s-projection of COUNT (model lean/DroopModel vs /repo)' % run.prop] if corr_broken else []) + broken,
                           disagreeing_cases=len(corr_broken))
            if first is not None:
                payload['first_disagreement'] = describe(first)
                payload['model'] = (first.model_line or '')[:3000]; payload['implementation'] = first.impl[:3000]
                payload['first_difference'] = first_diff(first.model_line or '', first.impl)
            run.violation(payload, 'no-failing-input-found')
    # evidence
    bc = campaign.branch_counters(results)
    distinct = len({r.case for r in results if campaign.nontrivial(r)})
    cov = run.coverage
    cov['evaluations'] = len(results)
    cov['distinct_nontrivial'] = distinct
    cov['traces_validated_against_impl'] = sum(1 for r in results if r.same)
    cov['rule'] = ('cases = (profile family x rule x options) from one seeded PRNG plus the committed corpus; the real code and the Lean '
                   'model run on each; non-trivial = the implementation record has at least one transfer or exclusion; distinct = distinct canonical case lines')
    cov['projection_disagreements'] = len(corr_broken)
    cov['oracle_keys'] = spec['keys']
    cov['implementation_crashes_not_judged_here'] = skipped_crash
    cov['distribution'] = {k: v for k, v in sorted(bc.items()) if not k.startswith('act:')}
    cov['branches'] = {k[4:]: v for k, v in sorted(bc.items()) if k.startswith('act:')}
    cov['samples'] = [describe(r) for r in results[:2]] + [describe(r) for r in results[-1:]]
    run.assumptions = ['oracle ok_%s is the compiled Lean predicate, evaluated on the implementation record' % run.prop,
                       'profiles up to 8 candidates / 16 ballot lines / multipliers to 1e9 in the search; the theorems are unbounded']


def first_diff(a, b):
    for x, y in zip(a.split(' | '), b.split(' | ')):
        if x != y:
            return dict(model=x[:500], implementation=y[:500])
    return dict(model_len=len(a.split(' | ')), implementation_len=len(b.split(' | ')))


def targeted_search(run, spec, corr_broken, rng):
    """after a broken correspondence: more cases from the families/rules that disagreed, and small mutations of the
    disagreeing cases, judged by the oracle on the implementation"""
    rules = sorted({r.o['rule'] for r in corr_broken}) or spec['rules']
    fams = sorted({r.family.split('+')[0] for r in corr_broken if r.family.split('+')[0] in gen.FAMILIES}) or None
    n = budget(run, 6000, 40000)
    cases = campaign.make_cases(rng, n, rules, families=fams, lowprec=spec.get('lowprec', 0.0),
                                options_fn=spec.get('options_fn'))
    for r in corr_broken[:200]:
        for _ in range(5):
            q = dict(r.p); q['lines'] = list(r.p['lines'])
            i = rng.randrange(len(q['lines'])); m, rk = q['lines'][i]
            q['lines'][i] = (max(1, m + rng.choice([-1, 1, 2])), rk)
            if rng.random() < 0.5:
                t = list(q['tie']); rng.shuffle(t); q['tie'] = t
            if _valid(q):
                cases.append((r.family, q, r.o))
    results = campaign.evaluate(cases, limit=spec.get('limit', 20.0))
    run.coverage['targeted_search_cases'] = len(results)
    for r in results:
        sigs = [s for s in judge(run, spec, r) if findings.match(run.prop, r, s) is None]
        if sigs:
            return r, sigs
    return None


def spec_diff_search(run, spec, corr_broken):
    """after a broken correspondence: where the first difference between the implementation's history and the proved model's is of the kind
    the property itself speaks about (spec['spec_diff'](model_line, impl_line) -> signature or None), that input is a failing input"""
    for r in corr_broken[:600]:
        if not (r.impl.startswith('OK ') and (r.model_line or '').startswith('OK ')):
            continue
        sig = spec['spec_diff'](r.model_line, r.impl)
        if not sig:
            continue
        def still(q, r=r):
            rr = campaign.evaluate([(r.family, q, r.o)])[0]
            if rr.same or not rr.impl.startswith('OK '):
                return False
            campaign.model_lines([rr])
            return bool((rr.model_line or '').startswith('OK ') and spec['spec_diff'](rr.model_line, rr.impl))
        try:
            small = shrink(r, still)
        except Exception:
            small = r.p
        rr = campaign.evaluate([(r.family, small, r.o)])[0]
        campaign.model_lines([rr])
        run.violation(dict(kind='implementation', signatures=[sig], original=describe(r), minimal=describe(rr),
                           first_difference=first_diff(rr.model_line or '', rr.impl), implementation=rr.impl[:3000],
                           found_by='first difference between the implementation history and the proved model after a broken correspondence'))
        return True
    return False


def stable_too_early(model_line, impl_line):
    """C08: the implementation ends an iteration as 'stable' at a point where the model - whose iteration is proved to end only on
    convergence, an election, or a surplus that stopped decreasing (C08.iterate_cases, C08.prf_iterate_cases) - does not"""
    ma, ia = parse_line(model_line), parse_line(impl_line)
    if not ma or not ia:
        return None
    for x, y in zip(ma, ia):
        if (x['tag'], x['verb']) != (y['tag'], y['verb']):
            try:
                vy = bytes.fromhex(y['verb'].rstrip('.')).decode(); vx = bytes.fromhex(x['verb'].rstrip('.')).decode()
            except ValueError:
                return None
            if 'stable' in vy.lower() and 'stable' not in vx.lower():
                return 'C08: the iteration ended as stable (%r) where the prescribed iteration had not stopped decreasing (model: %r)' % (vy, vx)
            return None
        if (x['quota'], x['votes'], x['x1'], x['x2'], x['cs']) != (y['quota'], y['votes'], y['x1'], y['x2'], y['cs']):
            return None
    return None


def prescribed_quota_search(run, spec, corr_broken):
    """C05 after a broken correspondence: where the count used a quota other than the one the (proved) model prescribes for the same
    election, judge the implementation's record with the prescribed quota - "more than k quotas" in the property means the rule's quota,
    not whatever figure a changed formula produced.  Only used to turn an already reported violation into a failing input."""
    cand = []
    for r in corr_broken[:600]:
        if not (r.impl.startswith('OK ') and (r.model_line or '').startswith('OK ')):
            continue
        ma, ia = parse_line(r.model_line), parse_line(r.impl)
        if not ma or not ia or ma[0]['quota'] == ia[0]['quota']:
            continue
        mq = ma[0]['quota']
        acts = []
        for a in r.impl[3:].split(' | '):
            t = a.split(' ')
            t[4] = mq
            acts.append(' '.join(t))
        cand.append((r, mq, ia[0]['quota'], 'OK ' + ' | '.join(acts)))
    if not cand:
        return False
    outs = common.run_driver_parallel(['COUNT ' + r.case + ' @@ ' + line for r, _, _, line in cand])
    run.coverage['rejudged_with_prescribed_quota'] = len(cand)
    for (r, mq, iq, _), g in zip(cand, outs):
        m = campaign.ORACLE_RE.match(g)
        if m and campaign.parse_kv(m.group(2)).get(spec['keys'][0]) != '1':
            run.violation(dict(kind='implementation', signatures=['%s judged with the prescribed quota' % spec['keys'][0]],
                               minimal=describe(r), observed=r.impl[:4000], prescribed_quota_raw=mq, quota_used_by_the_count_raw=iq,
                               found_by='the count used a quota other than the prescribed one; its result was judged with the prescribed quota'))
            return True
    return False


def known_text(fid):
    for f in findings.load():
        if f['id'] == fid:
            return f['what']
    return fid


def corpus_cases(prop_id, rules):
    """committed exemplars (known findings, minimised past disagreements) run first"""
    path = os.path.join(common.VERIF, 'corpus', 'count_cases.json')
    if not os.path.exists(path):
        return []
    out = []
    for c in json.load(open(path)):
        if c['options']['rule'] in rules and (not c.get('properties') or prop_id in c['properties']):
            p = c['profile']; p['lines'] = [(m, r) for m, r in p['lines']]
            out.append(('corpus:' + c.get('id', '?'), p, c['options']))
    return out


ALL = gen.RULES
STAT = list(gen.STATUTORY)


def wigm_fixed4(rng, rule, lowprec=False, rational_meek=False):
    if rule == 'wigm':
        return dict(rule='wigm', arithmetic='fixed', precision=4)
    return dict(rule=rule)


@prop('C01')
def C01(run):
    count_property(run, dict(rules=ALL, keys=['C01'], crash=True, proj=proj_C01, lowprec=0.04, rational_meek=0.01,
                             quick=20000, thorough=300000, limit=10.0, extra_gate=guard_gate))


@prop('C02')
def C02(run):
    count_property(run, dict(rules=ALL, keys=['C02'], proj=proj_C02, quick=5000, thorough=150000, extra_gate=lambda run: formula_gate(run) + begin_gate(run),
                             families=['plain', 'chains', 'big', 'on_quota', 'few_supported']))


@prop('C03')
def C03(run):
    # the rules with batch exclusions and statute-specific tie rules get double weight
    count_property(run, dict(rules=STAT + ['wigm', 'cfer-batch', 'wigm-prf-batch', 'mpls', 'scotland'],
                             keys=['C04q', 'C06r', 'C07b', 'C07l', 'C07t', 'C07s'], proj=proj_C03, model_is_spec=True,
                             options_fn=wigm_fixed4, quick=9000, thorough=150000,
                             extra_gate=lambda run: quota_gate(run) + formula_gate(run) + guard_gate(run) + transfer_gate(run) + keys_gate(run) + select_gate(run) + status_gate(run) + tie_gate(run) + elect_gate(run) + choice_gate(run) + moves_gate(run) + begin_gate(run)))


@prop('C04')
def C04(run):
    count_property(run, dict(rules=ALL, keys=['C04q', 'C04c', 'EXCQ'], proj=proj_C04, quick=5000, thorough=150000, extra_gate=lambda run: quota_gate(run) + formula_gate(run) + elect_gate(run),
                             families=['plain', 'on_quota', 'symmetric', 'chains', 'sure_losers', 'few_supported', 'exact_threshold',
                                       'exact_threshold']))


@prop('C06')
def C06(run):
    count_property(run, dict(rules=gen.GREGORY, keys=['C06', 'C06r'], proj=proj_C06, quick=5000, thorough=150000, extra_gate=lambda run: formula_gate(run) + transfer_gate(run) + moves_gate(run),
                             families=['plain', 'chains', 'on_quota', 'big', 'sure_losers']))


@prop('C08')
def C08(run):
    count_property(run, dict(rules=gen.MEEKFAM, keys=['C08c', 'C08t', 'C08k'], proj=proj_C08, lowprec=0.05, quick=4000, extra_gate=formula_gate, spec_diff=stable_too_early,
                             thorough=100000, equal_ranks=0.35))


@prop('C09')
def C09(run):
    count_property(run, dict(rules=ALL, keys=['C09'], proj=proj_C09, quick=5000, thorough=150000, extra_gate=lambda run: guard_gate(run) + select_gate(run) + status_gate(run)))


@prop('C05')
def C05(run):
    # crash=True: a count that dies where the model completes elects nobody, so the coalition is not represented
    count_property(run, dict(rules=ALL, keys=['C05'], crash=True, proj=proj_C05, quick=6000, thorough=150000, equal_ranks=0.0,
                             prescribed_quota=True, families=['coalitions', 'coalitions', 'majority', 'plain', 'chains', 'on_quota']))
    run.coverage['explanation'] = ('theorems: the one-seat majority clause for all eleven rule names (Props/C05Run, C05Meek, C05Prf, C05Qpq) and the k-quota '
                                   'coalition claim for scotland, wigm and wigm-prf with single exclusions (Props/C05Coalition); for batch exclusions, cfer, mpls, '
                                   'the Meek family and QPQ the k-quota claim is explored only: the compiled Lean predicate okC05 enumerates every candidate '
                                   'subset on the record of every generated election')


def retie_line(item):
    p, o = item
    return implrun.count_line((p, o))


@prop('C07')
def C07(run):
    spec = dict(rules=ALL, keys=['EXC', 'C07b', 'C07l', 'C07t', 'C07s'], proj=proj_C07, quick=5000, thorough=150000, extra_gate=lambda run: guard_gate(run) + keys_gate(run) + tie_gate(run) + choice_gate(run),
                families=['plain', 'symmetric', 'symmetric', 'sure_losers', 'on_quota', 'chains', 'few_supported', 'crossover', 'threeway'])
    count_property(run, spec)
    # when no tie is logged the record does not depend on the tie-break order (implementation vs implementation)
    rng = rng_for(run, 'retie')
    n = budget(run, 2500, 60000)
    cases = campaign.make_cases(rng, n, ALL, families=spec['families'])
    lines = common.pmap(implrun.count_line, [(p, o) for _, p, o in cases])
    notie = [(c, l) for c, l in zip(cases, lines) if isinstance(l, str) and l.startswith('OK ') and ' | tie ' not in l]
    alt = []
    for (fam, p, o), l in notie:
        q = dict(p); t = list(p['tie']); rng.shuffle(t)
        if t == p['tie']:
            t = t[::-1]
        q['tie'] = t
        alt.append((q, o))
    lines2 = common.pmap(implrun.count_line, alt)
    bad = 0
    for ((fam, p, o), l), (q, _), l2 in zip(notie, alt, lines2):
        if l != l2:
            m = findings.meek_collapse_class(p, o)
            bad += 1
            if bad <= 3:
                run.violation(dict(kind='implementation', signatures=['tie-order-independence'], options=o, blt=gen.blt(p),
                                   blt_other_tie_order=gen.blt(q), first_difference=first_diff(l, l2)))
    run.coverage['tie_order_independence'] = dict(records_without_tie=len(notie), rerun_with_other_order=len(alt), differing=bad)
    run.coverage['evaluations'] += len(cases) + len(alt)

import props2
import props3
import props4


def replay(run, path):
    """re-run the input recorded in a replay file against the current /repo and the model; prints what is observed now"""
    d = json.load(open(path))
    print(json.dumps({k: v for k, v in d.items() if k in ('property', 'kind', 'what', 'signatures', 'broken')}, indent=1))
    desc = d.get('minimal') or d.get('original') or d.get('first_disagreement')
    if desc and 'blt' in desc and 'case' in desc:
        try:
            outcome, E, snaps = implrun.count_record(desc['blt'], desc['options'])
            line = implrun.canonical_line(E, snaps) if outcome == 'OK' else outcome
        except Exception as e:
            line = 'CRASH-INIT ' + type(e).__name__
        out = common.run_driver([desc['case'] + ' @@ ' + line])[0]
        print('implementation:', line[:1500])
        print('driver:', out)
        m = campaign.ORACLE_RE.match(out)
        bad = (not m) or any(v != '1' for v in campaign.parse_kv(m.group(2)).values()) or m.group(3) != '1'
        return 1 if bad else 0
    if 'case' in d and d['case'].startswith('OP '):
        t = d['case'].split(' ')
        it = (d.get('arithmetic', t[1]), int(t[2]), int(t[3]), t[4], t[5], t[6:])
        import implops, props2
        i = implops.run_op(it); m = common.run_driver([d['case']])[0]; s = props2.spec_op(*it)
        print('implementation:', i, 'model:', m, 'specification:', s)
        return 0 if i == m == s else 1
    if 'comparisons' in d:
        import implops
        seq = [(op, int(a), int(b)) for op, a, b in d['comparisons']]
        i = implops.run_cmpstats((d['precision'], d['guard'], d['display'], seq))
        print('implementation:', i, 'expected:', d['expected'])
        return 0 if i == d['expected'] else 1
    if 'text' in d:
        import props3
        r = props3.parse_text((d['text'], False)); m = common.run_driver(['PARSE ' + d['text'].encode('utf-8').hex()])[0]
        print('implementation:', r[0][:600], r[1], r[2]); print('model:', m[:600])
        return 0 if (r[0] == m and not r[1] and not r[2] and not r[0].startswith('CRASH')) else 1
    print('replay file holds the full input; re-run the check to re-evaluate it')
    return 0
