#!/venv/bin/python
"""Extractor for C06: which ballots a transfer touches.

Every iteration over `E.ballots` with a filter in the rule modules - `for b in (b for b in E.ballots if P)`, `for b in [b for b in E.ballots if P]`,
`do(f(b) for b in E.ballots if P)`, `sum((e for b in E.ballots if P), V0)` - is listed as (rule, P) in line order.  P must be one of the accepted
predicates: `b.topRank == <x>.cid`, `b.topRank in cids`, `b.topRank in [c.cid for c in <list>]`, `b.topCand`, `b.topCand.isUndeclared`, `not b.exhausted`.
Kernel-checked equal to `C06.moveTable` (lean/Props/C06Moves.lean), which proves that the model's `tstep` touches a ballot exactly when its
current top candidate is in the list handed to `transferAll`.  usage: gen_moves.py <repo> <out.lean>"""
import ast, os, re, sys


class TranslationError(Exception):
    pass


RULES = ['cfer', 'meek', 'meek_prf', 'mpls', 'qpq', 'scotland', 'wigm', 'wigm_prf']
ACCEPT = [r'b\.topRank == \w+\.cid', r'b\.topRank in cids', r'b\.topRank in \[c\.cid for c in \w+\]', r'b\.topCand', r'b\.topCand\.isUndeclared',
          r'not b\.exhausted']


def table(repo):
    rows = []
    for r in RULES:
        path = os.path.join(repo, 'droop', 'rules', r + '.py')
        tree = ast.parse(open(path).read(), path)
        for n in ast.walk(tree):
            if isinstance(n, (ast.GeneratorExp, ast.ListComp, ast.SetComp)):
                for g in n.generators:
                    if ast.unparse(g.iter) in ('E.ballots', 'E.ballotsEqual', 'self.E.ballots') and g.ifs:
                        if ast.unparse(g.target) != 'b' or len(g.ifs) != 1:
                            raise TranslationError('%s:%d: filtered ballot iteration of another form' % (r, n.lineno))
                        p = ast.unparse(g.ifs[0])
                        if not any(re.fullmatch(a, p) for a in ACCEPT):
                            raise TranslationError('%s:%d: ballot filter not accepted: %s' % (r, n.lineno, p))
                        rows.append((r, n.lineno, p))
            if isinstance(n, ast.For) and ast.unparse(n.iter) in ('E.ballots', 'E.ballotsEqual') and n.body and isinstance(n.body[0], ast.If) \
                    and len(n.body) == 1 and not n.body[0].orelse and 'topRank' in ast.unparse(n.body[0].test):
                raise TranslationError('%s:%d: ballot filter written as `for b in E.ballots: if ...`' % (r, n.lineno))
    rows.sort()
    return [(a, c) for a, b, c in rows]


def position_uses(repo):
    """every use of the ballot list that could depend on a ballot's *position*: subscripts `E.ballots[...]`, `enumerate(E.ballots)`, `zip(..E.ballots..)`,
    `sorted(E.ballots...)`, `reversed(E.ballots)`, `E.ballots.sort/.reverse/.index/.pop/.insert`, `len(E.ballots)`, over droop/rules/*.py and droop/election.py
    (Election.__init__ only appends).  The unchanged package has none: the rules only ever iterate over the list."""
    import glob
    uses = []
    files = sorted(glob.glob(os.path.join(repo, 'droop', 'rules', '*.py'))) + [os.path.join(repo, 'droop', 'election.py')]
    names = ('E.ballots', 'E.ballotsEqual', 'self.ballots', 'self.ballotsEqual', 'self.E.ballots')
    for path in files:
        rel = os.path.relpath(path, os.path.join(repo, 'droop'))
        tree = ast.parse(open(path).read(), path)
        for n in ast.walk(tree):
            if isinstance(n, ast.Subscript) and ast.unparse(n.value) in names:
                uses.append((rel, ast.unparse(n)[:60]))
            if isinstance(n, ast.Call):
                f = ast.unparse(n.func)
                if f in ('enumerate', 'zip', 'sorted', 'reversed', 'len', 'list', 'tuple') and any(ast.unparse(a) in names for a in n.args):
                    uses.append((rel, ast.unparse(n)[:60]))
                if isinstance(n.func, ast.Attribute) and ast.unparse(n.func.value) in names and n.func.attr in ('sort', 'reverse', 'index', 'pop', 'insert', 'remove'):
                    uses.append((rel, ast.unparse(n)[:60]))
    for u in uses:
        if '"' in u[1] or '\\' in u[1]:
            raise TranslationError('text not accepted: %s' % u[1])
    return sorted(set(uses))


def tables(repo):
    return dict(moves=table(repo), position=position_uses(repo))


def lean_file(t):
    if isinstance(t, list):
        t = dict(moves=t, position=[])
    lines = ['import Props.C06Moves', 'namespace Gen', 'open Droop Droop.C06', '']
    lines.append('def moveTable : List (String × String) := [%s]' % ', '.join('("%s", "%s")' % r for r in t['moves']))
    lines.append('theorem moveTable_is_committed : moveTable = C06.moveTable := by rfl')
    lines.append('#print axioms moveTable_is_committed')
    lines.append('def ballotPositionUses : List (String × String) := [%s]' % ', '.join('("%s", "%s")' % r for r in t['position']))
    lines.append('theorem ballotPositionUses_is_committed : ballotPositionUses = C06.ballotPositionUses := by rfl')
    lines.append('#print axioms ballotPositionUses_is_committed')
    lines.append('end Gen')
    return '\n'.join(lines) + '\n'


if __name__ == '__main__':
    repo, outp = sys.argv[1], sys.argv[2]
    open(outp, 'w').write(lean_file(tables(repo)))
