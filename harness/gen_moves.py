#!/venv/bin/python
"""Extractor for C06: which ballots a transfer touches.

Every iteration over `E.ballots` with a filter in the rule modules - `for b in (b for b in E.ballots if P)`, `for b in [b for b in E.ballots if P]`,
`do(f(b) for b in E.ballots if P)`, `sum((e for b in E.ballots if P), V0)` - is listed as (rule, P) in line order.  P must be one of the accepted
predicates: `b.topRank == <x>.cid`, `b.topRank in cids`, `b.topRank in [c.cid for c in <list>]`, `b.topCand`, `b.topCand.isUndeclared`, `not b.exhausted`.
Kernel-checked equal to `C06.moveTable` (lean/Props/C06Moves.lean), which proves that the model's `tstep` touches a ballot exactly when its
current top candidate is in the list handed to `transferAll`.  usage: gen_moves.py <repo> <out.lean>"""
import ast, os, re, sys


class TranslationError(Exception):
    pass


RULES = ['cfer', 'meek', 'meek_prf', 'mpls', 'qpq', 'scotland', 'wigm', 'wigm_prf']
ACCEPT = [r'b\.topRank == \w+\.cid', r'b\.topRank in cids', r'b\.topRank in \[c\.cid for c in \w+\]', r'b\.topCand', r'b\.topCand\.isUndeclared',
          r'not b\.exhausted']


def table(repo):
    rows = []
    for r in RULES:
        path = os.path.join(repo, 'droop', 'rules', r + '.py')
        tree = ast.parse(open(path).read(), path)
        for n in ast.walk(tree):
            if isinstance(n, (ast.GeneratorExp, ast.ListComp, ast.SetComp)):
                for g in n.generators:
                    if ast.unparse(g.iter) in ('E.ballots', 'E.ballotsEqual', 'self.E.ballots') and g.ifs:
                        if ast.unparse(g.target) != 'b' or len(g.ifs) != 1:
                            raise TranslationError('%s:%d: filtered ballot iteration of another form' % (r, n.lineno))
                        p = ast.unparse(g.ifs[0])
                        if not any(re.fullmatch(a, p) for a in ACCEPT):
                            raise TranslationError('%s:%d: ballot filter not accepted: %s' % (r, n.lineno, p))
                        rows.append((r, n.lineno, p))
            if isinstance(n, ast.For) and ast.unparse(n.iter) in ('E.ballots', 'E.ballotsEqual') and n.body and isinstance(n.body[0], ast.If) \
                    and len(n.body) == 1 and not n.body[0].orelse and 'topRank' in ast.unparse(n.body[0].test):
                raise TranslationError('%s:%d: ballot filter written as `for b in E.ballots: if ...`' % (r, n.lineno))
    rows.sort()
    return [(a, c) for a, b, c in rows]


def lean_file(rows):
    lines = ['import Props.C06Moves', 'namespace Gen', 'open Droop Droop.C06', '']
    lines.append('def moveTable : List (String × String) := [%s]' % ', '.join('("%s", "%s")' % r for r in rows))
    lines.append('theorem moveTable_is_committed : moveTable = C06.moveTable := by rfl')
    lines.append('#print axioms moveTable_is_committed')
    lines.append('end Gen')
    return '\n'.join(lines) + '\n'


if __name__ == '__main__':
    repo, outp = sys.argv[1], sys.argv[2]
    open(outp, 'w').write(lean_file(table(repo)))
