"""Known findings: the committed list (KNOWN_FINDINGS.json) and the predicates that recognise each listed
defect by input class and failure signature.  Nothing here is written at run time."""
import json, os
import gen
from common import VERIF


def load():
    p = os.path.join(VERIF, 'KNOWN_FINDINGS.json')
    if not os.path.exists(p):
        return []
    return json.load(open(p))['findings']


def open_for(prop):
    return [f for f in load() if f.get('status') == 'open' and prop in f['properties']]


# ---- input classes -----------------------------------------------------------------------------

def supported(p):
    """non-withdrawn candidates named on at least one ballot"""
    s = set()
    for m, r in p['lines']:
        for g in r:
            for c in (g if isinstance(g, list) else [g]):
                if c not in p['wd']:
                    s.add(c)
    return s


def meek_collapse_class(p, o):
    """inputs on which the Meek/Warren iteration cannot converge within its arithmetic:
    S: fewer supported candidates than seats (quota and keep factors decay geometrically towards zero);
    P: keep-factor resolution 10^-(p+g) coarser than omega/nballots;
    L: five or fewer digits in all;
    G: guarded with g > 0 and 2*nballots >= 10^g (rounding error summed over the ballots exceeds the tolerance)"""
    if o['rule'] not in ('meek', 'warren'):
        return None
    c = gen.config(o)
    if c['arith'] == 'rational':
        return None
    nb = gen.denote(p)[0]
    digits = c['p'] + c['g']
    if len(supported(p)) < p['s']:
        return 'S'
    if nb * 10 ** c['omega'] >= 10 ** digits:
        return 'P'
    if digits <= 5:
        return 'L'
    if c['arith'] == 'guarded' and c['g'] > 0 and 2 * nb >= 10 ** c['g']:
        return 'G'      # accumulated rounding error (one unit per ballot) can exceed the comparison tolerance 10^g/2 units
    return None


def mpls_underdeclared(p, o):
    decl = [c for c in range(1, p['n'] + 1) if c not in p['wd'] and c not in p['und']]
    return o['rule'] == 'mpls' and len(decl) < p['s']


def has_stable_exit(impl_line):
    return 'Iterate (stable)'.encode().hex() in impl_line


# ---- matcher -------------------------------------------------------------------------------------

def exemplar(fid, prop):
    """the exemplar of finding `fid` kept for property `prop` in KNOWN_FINDINGS.json (key 'exemplars': {prop: {...}}), or None"""
    for f in load():
        if f['id'] == fid:
            return (f.get('exemplars') or {}).get(prop)
    return None


def coarse_guarded(o):
    """guarded arithmetic with guard digits (a non-zero comparison tolerance): the configurations in which builtin min()/max() over Guarded's
    non-transitive comparison can pick a reference that is not the extreme (finding G2)"""
    try:
        if o.get('arithmetic') != 'guarded' or 'precision' not in o:
            return False
        p = int(o['precision'])
        g = int(o['guard']) if o.get('guard') is not None else p      # Guarded.initialize: guard defaults to the precision
        return g > 0          # seen at precision 0; the mechanism (a chain of tallies each within the tolerance of the next) exists at any precision
    except (TypeError, ValueError):
        return False


def match(prop, r, signature):
    """r: campaign Result; signature: 'CRASH <Exc>' or an oracle key that is false on the implementation's record.
    Returns the id of the listed finding that explains it, or None."""
    p, o = r.p, r.o
    if mpls_underdeclared(p, o) and signature == 'CRASH AssertionError':
        return 'F7'
    if o['rule'] in ('meek', 'warren') and signature == 'C05' and has_stable_exit(r.impl):
        return 'M5'
    cls = meek_collapse_class(p, o)
    if cls is not None:
        if signature in ('CRASH ZeroDivisionError', 'CRASH AssertionError', 'CRASH IndexError', 'CRASH Hang'):
            return 'M1'
        if signature in ('C08k', 'C09', 'C01', 'C04c', 'C05', 'EXC', 'EXCQ'):
            return 'M2'
    if signature == 'EXC' and prop == 'C07' and coarse_guarded(o) and o['rule'] not in ('meek', 'warren', 'meek-prf'):
        return 'G2'
    return None
