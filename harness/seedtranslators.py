#!/venv/bin/python
"""Which translator / extractor notices which seeded change?  For every kept change under seeded/, apply it to a scratch worktree of /repo
(never to /repo itself), run every harness/gen_*.py reader on it and compare with what the same reader produces on the unchanged tree:
'same' (the change is outside what that reader reads), 'different' (the kernel-checked equality with the committed program would fail) or
'refused' (the source left the accepted forms).  No Lean is run here; the table says which proof obligations a change breaks before any
election is counted.  usage: seedtranslators.py <out.json>"""
import sys, os, json, glob, subprocess, importlib

VERIF = os.path.dirname(os.path.dirname(os.path.abspath(__file__)))
sys.path.insert(0, os.path.join(VERIF, 'harness'))
READERS = [('gen_options', 'table'), ('gen_getopt', 'tables'), ('gen_quota', 'programs'), ('gen_elect', 'table'), ('gen_formula', 'formulas'),
           ('gen_guard', 'guards'), ('gen_keys', 'keys'), ('gen_tie', 'table'), ('gen_choice', 'table'), ('gen_select', 'program'),
           ('gen_status', 'tables'), ('gen_transfer', 'table'), ('gen_moves', 'tables'), ('gen_fixed', 'programs'), ('gen_ctor', 'programs'),
           ('gen_cmp', 'programs'), ('gen_str', 'programs'), ('gen_rstr', 'programs'), ('gen_validate', 'program'), ('gen_bltopts', 'table'), ('gen_code', 'program'),
           ('gen_asdict', 'table'), ('gen_actions', 'tables'), ('gen_dump', 'tables'), ('gen_needs', 'tables'), ('gen_initwrites', 'programs'), ('gen_begin', 'tables'), ('gen_addlog', 'table')]


def read_all(repo):
    out = {}
    for mod, getter in READERS:
        m = importlib.import_module(mod)
        try:
            out[mod] = ('ok', repr(getattr(m, getter)(repo)))
        except m.TranslationError as e:
            out[mod] = ('refused', str(e)[:160])
        except Exception as e:
            out[mod] = ('refused', '%s: %s' % (type(e).__name__, str(e)[:140]))
    return out


def main():
    base = read_all('/repo')
    assert all(v[0] == 'ok' for v in base.values()), {k: v for k, v in base.items() if v[0] != 'ok'}
    wt = '/tmp/seedtr-%d' % os.getpid()
    subprocess.run('git -C /repo worktree add -q --detach %s HEAD' % wt, shell=True, check=True)
    result = {}
    try:
        for d in sorted(glob.glob(os.path.join(VERIF, 'seeded', 'C??-*'))):
            sid = os.path.basename(d)
            subprocess.run('git checkout -q -- . && git clean -fdq', shell=True, cwd=wt)
            r = subprocess.run('git apply %s' % os.path.join(d, 'patch.diff'), shell=True, cwd=wt, capture_output=True)
            if r.returncode != 0:
                result[sid] = dict(error='patch does not apply'); continue
            got = read_all(wt)
            row = {}
            for mod in base:
                if got[mod][0] == 'refused':
                    row[mod] = 'refused'
                elif got[mod][1] != base[mod][1]:
                    row[mod] = 'different'
            result[sid] = row
    finally:
        subprocess.run('git -C /repo worktree remove --force %s' % wt, shell=True)
    noticed = sum(1 for v in result.values() if v and 'error' not in v)
    summary = dict(changes=len(result), noticed_by_at_least_one_reader=noticed,
                   per_reader={mod: sum(1 for v in result.values() if mod in v) for mod, _ in READERS})
    json.dump(dict(note='same = not listed; see harness/seedtranslators.py', summary=summary, rows=result), open(sys.argv[1], 'w'), indent=1)
    print(json.dumps(summary, indent=1))


if __name__ == '__main__':
    main()
