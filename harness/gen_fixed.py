#!/venv/bin/python
"""Symbolic executor for C12: `Fixed.__add__`, `__sub__`, `__mul__`, `__floordiv__`, `mul`, `div`, `muldiv`
(<repo>/droop/values/fixed.py) -> the integer expression each returns, in the language of lean/Props/C12Prog.lean
(`Gen.<op> = C12.<op>Prog`, `by rfl`).

Accepted statements: docstring; `v = Fixed(self|other)` / `v = cls(argN)`; `v._value += / -= / *= / //= <atom>`;
`v._value = <atom> - <atom>`; `v._value, rem = divmod(<e>, <e>)`; `if isinstance(other, int): ... return v` (the integer branch is
skipped: it is the exact `value * int` / `value // int` case, covered by the OP correspondence); the rounding-argument guard
`if round not in ('down', 'up'): raise ValueError(...)`; `if rem and round == 'up': v._value += 1`; `return v`.
Atoms: `self._value`, `other._value`, `vN._value`, `self.__scale` / `cls.__scale`.  Anything else is refused.
usage: gen_fixed.py <repo> <out.lean>"""
import ast, os, sys


class TranslationError(Exception):
    pass


def _path(node):
    parts = []
    while isinstance(node, ast.Attribute):
        parts.append(node.attr); node = node.value
    if isinstance(node, ast.Name):
        parts.append(node.id)
        return '.'.join(reversed(parts))
    return None


ARG = {'self': '.a', 'other': '.b', 'arg1': '.a', 'arg2': '.b', 'arg3': '.c'}


def run(fn, clsname='Fixed'):
    rem = [None]

    def atom(n, env):
        p = _path(n)
        if p in ('self._value',): return '.a'
        if p in ('other._value',): return '.b'
        if p in ('self._%s__scale' % clsname, 'cls._%s__scale' % clsname, 'self.__scale', 'cls.__scale'): return '.S'
        if p and p.endswith('._value') and p[:-7] in env: return env[p[:-7]]
        if isinstance(n, ast.BinOp):
            op = {ast.Add: 'add', ast.Sub: 'sub', ast.Mult: 'mul', ast.FloorDiv: 'floordiv'}.get(type(n.op))
            if op:
                return '(.%s %s %s)' % (op, atom(n.left, env), atom(n.right, env))
        raise TranslationError('%s: operand not accepted: %s' % (fn.name, ast.dump(n)[:120]))

    def block(stmts, env):
        """executes the statements on env (mutated); returns the returned expression or None"""
        for st in stmts:
            if isinstance(st, ast.Expr) and isinstance(st.value, ast.Constant):
                continue
            if isinstance(st, ast.Assign) and len(st.targets) == 1 and isinstance(st.targets[0], ast.Name) and isinstance(st.value, ast.Call) \
                    and _path(st.value.func) in (clsname, 'cls') and len(st.value.args) == 1 and isinstance(st.value.args[0], ast.Name) \
                    and st.value.args[0].id in ARG:
                env[st.targets[0].id] = ARG[st.value.args[0].id]
            elif isinstance(st, ast.AugAssign) and _path(st.target) and _path(st.target).endswith('._value') and _path(st.target)[:-7] in env:
                v = _path(st.target)[:-7]
                op = {ast.Add: 'add', ast.Sub: 'sub', ast.Mult: 'mul', ast.FloorDiv: 'floordiv'}.get(type(st.op))
                if op is None:
                    raise TranslationError('%s: operator not accepted' % fn.name)
                env[v] = '(.%s %s %s)' % (op, env[v], atom(st.value, env))
            elif isinstance(st, ast.Assign) and len(st.targets) == 1 and _path(st.targets[0]) and _path(st.targets[0]).endswith('._value') \
                    and _path(st.targets[0])[:-7] in env:
                env[_path(st.targets[0])[:-7]] = atom(st.value, env)
            elif isinstance(st, ast.Assign) and len(st.targets) == 1 and isinstance(st.targets[0], ast.Tuple) and len(st.targets[0].elts) == 2 \
                    and isinstance(st.value, ast.Call) and getattr(st.value.func, 'id', None) == 'divmod' and len(st.value.args) == 2 \
                    and getattr(st.targets[0].elts[1], 'id', None) == 'rem':
                v = _path(st.targets[0].elts[0])[:-7]
                x, y = atom(st.value.args[0], env), atom(st.value.args[1], env)
                env[v] = '(.floordiv %s %s)' % (x, y); rem[0] = '(.mod %s %s)' % (x, y)
            elif isinstance(st, ast.If) and isinstance(st.test, ast.Call) and getattr(st.test.func, 'id', None) == 'isinstance' \
                    and getattr(st.test.args[1], 'id', None) == 'int' and isinstance(st.body[-1], ast.Return) and not st.orelse:
                continue                                   # the `value op int` branch
            elif isinstance(st, ast.If) and isinstance(st.test, ast.Compare) and getattr(st.test.left, 'id', None) == 'round' \
                    and isinstance(st.test.ops[0], ast.NotIn) and len(st.body) == 1 and isinstance(st.body[0], ast.Raise):
                continue                                   # the rounding-argument guard
            elif isinstance(st, ast.If) and isinstance(st.test, ast.BoolOp) and isinstance(st.test.op, ast.And) and len(st.test.values) == 2 \
                    and getattr(st.test.values[0], 'id', None) == 'rem' and isinstance(st.test.values[1], ast.Compare) \
                    and getattr(st.test.values[1].left, 'id', None) == 'round' and isinstance(st.test.values[1].ops[0], ast.Eq) \
                    and getattr(st.test.values[1].comparators[0], 'value', None) == 'up' and len(st.body) == 1 and not st.orelse \
                    and isinstance(st.body[0], ast.AugAssign) and isinstance(st.body[0].op, ast.Add) \
                    and getattr(st.body[0].value, 'value', None) == 1 and rem[0] is not None:
                v = _path(st.body[0].target)[:-7]
                env[v] = '(.upAdj %s %s)' % (env[v], rem[0])
            elif isinstance(st, ast.If) and _path(st.test) == 'cls.guard' and st.orelse:
                e1, e2 = dict(env), dict(env)
                r1, r2 = block(st.body, e1), block(st.orelse, e2)
                if r1 is not None or r2 is not None:
                    raise TranslationError('%s: return inside `if cls.guard:` not accepted' % fn.name)
                for k in set(e1) | set(e2):
                    if e1.get(k) != e2.get(k):
                        env[k] = '(.ifGuard %s %s)' % (e1[k], e2[k])
                    else:
                        env[k] = e1[k]
            elif isinstance(st, ast.Return) and isinstance(st.value, ast.Name) and st.value.id in env:
                return env[st.value.id]
            elif isinstance(st, ast.Return) and isinstance(st.value, ast.Call) and _path(st.value.func) == clsname and len(st.value.args) == 2 \
                    and getattr(st.value.args[1], 'value', None) is True:
                return atom(st.value.args[0], env)
            else:
                raise TranslationError('%s: statement not accepted: %s' % (fn.name, ast.dump(st)[:140]))
        return None

    r = block(fn.body, {})
    if r is None:
        raise TranslationError('%s: no return' % fn.name)
    return r


OPS = {'__add__': 'add', '__sub__': 'sub', '__mul__': 'mulOp', '__floordiv__': 'divOp', 'mul': 'mul', 'div': 'div', 'muldiv': 'muldiv'}


def _class_programs(repo, fname, clsname, prefix):
    path = os.path.join(repo, 'droop', 'values', fname)
    tree = ast.parse(open(path).read(), path)
    cls = [n for n in tree.body if isinstance(n, ast.ClassDef) and n.name == clsname]
    if len(cls) != 1:
        raise TranslationError('%s: class %s not found once' % (path, clsname))
    out = {}
    for n in cls[0].body:
        if isinstance(n, ast.FunctionDef) and n.name in OPS:
            name = OPS[n.name]
            out[(prefix + name[0].upper() + name[1:]) if prefix else name] = run(n, clsname)
    if len(out) != len(OPS):
        raise TranslationError('%s: arithmetic methods missing (found %s)' % (path, sorted(out)))
    # `__truediv__ = __floordiv__`: `/` is `//`
    alias = {t.id: getattr(n.value, 'id', None) for n in cls[0].body if isinstance(n, ast.Assign) for t in n.targets if isinstance(t, ast.Name)}
    if alias.get('__truediv__') != '__floordiv__':
        raise TranslationError('%s: `__truediv__ = __floordiv__` not found' % path)
    return out


def _rational(repo):
    path = os.path.join(repo, 'droop', 'values', 'rational.py')
    tree = ast.parse(open(path).read(), path)
    cls = [n for n in tree.body if isinstance(n, ast.ClassDef) and n.name == 'Rational']
    if len(cls) != 1:
        raise TranslationError('%s: class Rational not found once' % path)

    def tr(n):
        if isinstance(n, ast.Name) and n.id in ('arg1', 'arg2', 'arg3'):
            return {'arg1': '.a', 'arg2': '.b', 'arg3': '.c'}[n.id]
        if isinstance(n, ast.Call) and _path(n.func) in ('Rational.__mul__', 'Rational.__truediv__') and len(n.args) == 2 and not n.keywords:
            return '(.%s %s %s)' % ('mul' if _path(n.func).endswith('__mul__') else 'div', tr(n.args[0]), tr(n.args[1]))
        raise TranslationError('%s: expression not accepted: %s' % (path, ast.dump(n)[:140]))
    out = {}
    for n in cls[0].body:
        if isinstance(n, ast.FunctionDef) and n.name in ('mul', 'div', 'muldiv'):
            body = [st for st in n.body if not (isinstance(st, ast.Expr) and isinstance(st.value, ast.Constant))]
            if not (len(body) == 1 and isinstance(body[0], ast.Return) and body[0].value is not None):
                raise TranslationError('%s: Rational.%s is not a single return' % (path, n.name))
            out['r' + n.name[0].upper() + n.name[1:]] = ('REx', tr(body[0].value))
    if len(out) != 3:
        raise TranslationError('%s: Rational.mul/div/muldiv not all found' % path)
    return out


def programs(repo):
    out = _class_programs(repo, 'fixed.py', 'Fixed', '')
    out.update(_class_programs(repo, 'guarded.py', 'Guarded', 'g'))
    out.update(_rational(repo))
    return out


def lean_file(progs):
    lines = ['import Props.C12Prog', 'namespace Gen', 'open Droop Droop.C12', '']
    for name, text in sorted(progs.items()):
        ty = 'FEx'
        if isinstance(text, tuple):
            ty, text = text
        lines.append('def %s : %s := %s' % (name, ty, text))
        lines.append('theorem %s_is_committed : %s = C12.%sProg := by rfl' % (name, name, name))
        lines.append('#print axioms %s_is_committed' % name)
        lines.append('')
    lines.append('end Gen')
    return '\n'.join(lines) + '\n'


if __name__ == '__main__':
    open(sys.argv[2], 'w').write(lean_file(programs(sys.argv[1])))
