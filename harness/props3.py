"""Parser checks (C15, C16) and option checks (C17)."""
import random, collections, os, sys, unicodedata, re, tempfile
import common, gen, campaign, findings, implrun
from props import prop, rng_for, budget, THEOREMS, first_diff
from check import lean_gate


def hx(s):
    return s.encode('utf-8').hex() + '.'


# =================================================================================================
# implementation side of PARSE

def canon_profile(p):
    tie = ','.join('%d=%d' % (c, o) for c, o in sorted(p.tieOrder.items()))
    nick = ','.join('%d=%s' % (c, hx(n)) for c, n in sorted(p.nickName.items()))
    B = ';'.join('%d:%s' % (b.multiplier, ','.join(map(str, b.ranking))) for b in p.ballotLines)
    Q = ';'.join('%d:%s' % (b.multiplier, '|'.join(','.join(map(str, g)) for g in b.ranking)) for b in p.ballotLinesEqual)
    names = ','.join(hx(p.candidateName[c]) for c in range(1, p.nCand + 1))
    return 'OK %d %d %d E:%s W:%s U:%s T:%s N:%s O:%s B:%s Q:%s C:%s t:%s s:%s c:%s' % (
        p.nCand, p.nSeats, p.nBallots, ','.join(map(str, sorted(p.eligible))), ','.join(map(str, sorted(p.withdrawn))),
        ','.join(map(str, sorted(p.undeclared))), tie, nick, ','.join(hx(o) for o in p.options), B, Q, names, hx(p.title),
        hx(p.source) if p.source is not None else '-', hx(p.comment) if p.comment is not None else '-')


def valid_inv(p):
    errs = []
    allc = set(range(1, p.nCand + 1))
    if (p.eligible | p.withdrawn) != allc: errs.append('candidate sets do not cover 1..n')
    if p.eligible & p.withdrawn: errs.append('eligible and withdrawn overlap')
    if not (0 < p.nSeats <= len(p.eligible)): errs.append('seats out of range')
    if p.nBallots < len(p.eligible): errs.append('fewer ballots than eligible candidates')
    tot = 0
    for bl in p.ballotLines:
        tot += bl.multiplier; r = list(bl.ranking)
        if len(set(r)) != len(r): errs.append('repeated candidate in a ranking')
        if any(c in p.withdrawn or c not in allc for c in r): errs.append('withdrawn or out-of-range candidate in a ranking')
        if not r: errs.append('empty ranking kept')
    for bl in p.ballotLinesEqual:
        tot += bl.multiplier; r = [c for g in bl.ranking for c in g]
        if len(set(r)) != len(r): errs.append('repeated candidate in an equal-rank ranking')
        if any(c in p.withdrawn or c not in allc for c in r): errs.append('withdrawn or out-of-range candidate in an equal-rank ranking')
    if tot != p.nBallots: errs.append('ballot total is not the sum of the multipliers kept')
    # the tie order must rank every candidate, without ties ('[tie 2 1 1]' is accepted with ranks 1,3: still a strict order)
    if sorted(p.tieOrder.keys()) != sorted(allc) or len(set(p.tieOrder.values())) != p.nCand:
        errs.append('tie order is not a strict order on all candidates')
    if len(set(p.nickName.values())) != p.nCand: errs.append('nicknames not unique')
    if not (p.undeclared <= allc): errs.append('undeclared out of range')
    return errs


def parse_text(item):
    """(text, via_path) -> (canonical outcome, invariant errors, constructor failures)"""
    text, via_path = item
    from droop.profile import ElectionProfile, ElectionProfileError
    import droop
    try:
        if via_path:
            d = os.path.join(common.WORK, 'blt-%d' % os.getpid())
            os.makedirs(d, exist_ok=True)
            path = os.path.join(d, 'f.blt')
            with open(path, 'wb') as f:
                f.write(b'\xef\xbb\xbf' + text.encode('utf-8'))
            p = ElectionProfile(path=path)
        else:
            p = ElectionProfile(data=text)
    except ElectionProfileError:
        return ('PE', [], [])
    except RecursionError:
        return ('CRASH RecursionError', [], [])
    except Exception as e:
        return ('CRASH ' + type(e).__name__, [], [])
    try:
        c = canon_profile(p)
        inv = valid_inv(p)
    except Exception as e:
        return ('CRASH-ATTR ' + type(e).__name__, [], [])
    ctor = []
    if not p.options:
        from droop.election import Election
        for r in droop.electionRuleNames():
            try:
                Election(p, dict(rule=r))
            except Exception as e:
                ctor.append('%s:%s' % (r, type(e).__name__))
    return (c, inv, ctor)


# =================================================================================================
# grammar-based renderer of well-formed files

SEPS = [' ', ' ', ' ', '\n', '\n', '  ', '\t', '\r\n', ' \n ', '\x0b', '\x0c', '\x1c', '\x1d', '\x85', ' ', ' ', ' ', '　']
LINEBREAKS = ['\n', '\r\n', '\r', '\x0b', '\x0c', '\x1c', '\x1d', '\x1e', '\x85', ' ', ' ']
NAMEWORDS = ['Ann', 'Bob', 'Cy', 'Di', '/*', '*/', '#', '#x', 'é', '李', 'O\'Neil', 'a=b', '[x]', '(y)', '0', '-1', 'Zoë', '/*x*/', 'w']
NICKS = ['a', 'b', 'c', 'd', 'e', 'f', 'g', 'h', 'x1', 'é', 'n-1', 'q_q']


def abstract_election(rng):
    n = rng.randint(1, 7)
    wd = sorted(c for c in range(1, n + 1) if rng.random() < 0.15)
    elig = [c for c in range(1, n + 1) if c not in wd]
    if not elig:
        wd = []; elig = list(range(1, n + 1))
    s = rng.randint(1, len(elig))
    und = sorted(c for c in elig if rng.random() < 0.1)
    use_ids = rng.random() < 0.2
    lines = []
    for _ in range(rng.randint(1, 10)):
        r = rng.sample(range(1, n + 1), rng.randint(1, n))
        if not use_ids and rng.random() < 0.25 and len(r) > 1:
            g = []; i = 0
            while i < len(r):
                k = 1 if rng.random() < 0.6 else rng.randint(2, 3)
                grp = r[i:i + k]; i += k
                g.append(list(grp) if len(grp) > 1 else grp[0])
            r = g
        if use_ids:
            r = [c for c in r if c not in wd] or [rng.choice(elig)]    # with ballot ids no line may be dropped
        lines.append((1 if use_ids else rng.choice([1, 1, 2, 3, 10, 1000]), r))
    p = dict(n=n, s=s, wd=wd, und=und, lines=lines, tie=list(range(1, n + 1)))
    nb = gen.denote(p)[0]
    while nb < len(elig):
        lines.append((1 if use_ids else len(elig), [rng.choice(elig)])); nb = gen.denote(p)[0]
    names = []
    for c in range(n):
        names.append(' '.join(rng.choice(NAMEWORDS) for _ in range(rng.randint(1, 3))))
    e = dict(p)
    e['names'] = names
    e['title'] = ' '.join(rng.choice(NAMEWORDS) for _ in range(rng.randint(1, 3)))
    e['source'] = ' '.join(rng.choice(NAMEWORDS) for _ in range(rng.randint(1, 2))) if rng.random() < 0.4 else None
    e['comment'] = ' '.join(rng.choice(NAMEWORDS) for _ in range(rng.randint(1, 2))) if (e['source'] and rng.random() < 0.5) else None
    e['tie'] = rng.sample(range(1, n + 1), n) if rng.random() < 0.5 else None
    e['nick'] = rng.sample(NICKS, n) if rng.random() < 0.4 else None
    e['options'] = rng.choice([[], [], ['rule=meek', 'precision=6'], ['arithmetic=fixed'], ['dump'], ['x=y', 'omega=3']])
    e['use_ids'] = use_ids
    e['wd_style'] = rng.choice(['option', 'minus', 'mixed'])
    return e


def q(s):
    return '"%s"' % s


def render_tokens(rng, e):
    """the token list of a well-formed file for the abstract election e (comments/layout are added separately)"""
    n = e['n']
    ref = (lambda c: e['nick'][c - 1] if (e['nick'] and rng.random() < 0.6) else str(c))
    toks = [str(n), str(e['s'])]
    opts = []
    if e['nick']:
        opts.append(['[nick'] + e['nick'][:-1] + [e['nick'][-1] + ']'] if rng.random() < 0.5 else ['[nick'] + e['nick'] + [']'])
    rest = []
    if e['tie']:
        rest.append(['[tie'] + [ref(c) for c in e['tie']] + [']'])
    wd_opt = [c for c in e['wd'] if e['wd_style'] == 'option' or (e['wd_style'] == 'mixed' and c % 2 == 0)]
    wd_minus = [c for c in e['wd'] if c not in wd_opt]
    if wd_opt:
        rest.append(['[withdrawn'] + [ref(c) for c in wd_opt] + [']'])
    if e['und']:
        rest.append(['[undeclared'] + [ref(c) for c in e['und']] + [']'])
    if e['options']:
        if len(e['options']) > 1 and rng.random() < 0.5:
            # several [droop ...] blocks accumulate
            k = rng.randint(1, len(e['options']) - 1)
            opts.append(['[droop'] + e['options'][:k] + [']'])
            opts.append(['[droop'] + e['options'][k:-1] + [e['options'][-1] + ']'])
        else:
            rest.append(['[droop'] + e['options'][:-1] + [e['options'][-1] + ']'])
    for c in wd_minus:
        rest.append(['-%d' % c])
    rng.shuffle(rest)
    for o in opts + rest:       # [nick] must precede any use of nicknames
        toks += o
    k = 0
    for m, r in e['lines']:
        k += 1
        toks.append('(b%d)' % k if (e['use_ids'] and rng.random() < 0.7) else ('(b %d)' % k if e['use_ids'] else str(m)))
        if toks[-1].startswith('(b '):
            toks[-1:] = ['(b', '%d)' % k]
        for g in r:
            toks.append('='.join(ref(c) for c in g) if isinstance(g, list) else ref(g))
        toks.append('0')
    toks.append('0')
    for nm in e['names']:
        toks.append(('Q', q(nm).split(' ')))
    toks.append(('Q', q(e['title']).split(' ')))
    if e['source'] is not None:
        toks.append(('Q', q(e['source']).split(' ')))
    if e['comment'] is not None:
        toks.append(('Q', q(e['comment']).split(' ')))
    return toks


def layout(rng, toks):
    """join tokens with random separators; comments only between items (never inside a quoted string)"""
    out = []
    for t in toks:
        if rng.random() < 0.08:
            out.append(rng.choice(['/* c */', '/*c*/', '/* a /* nested */ b */', '/* "q" */', '/* # */', '/* 1 2 0 */']))
            out.append(rng.choice(SEPS))
        if isinstance(t, tuple):
            words = t[1]
            for k, w in enumerate(words):
                out.append(w)
                if k + 1 < len(words):
                    out.append(rng.choice(SEPS))       # any whitespace run inside quotes reads as one space
        else:
            out.append(t)
        if rng.random() < 0.05:
            out.append(' # trailing comment ' + rng.choice(['x', '"y"', '/*', '0'])); out.append(rng.choice(LINEBREAKS))
        else:
            out.append(rng.choice(SEPS))
    return ''.join(out)


def denote_canon(e):
    """the canonical string the election e denotes (same format as canon_profile)"""
    n = e['n']
    nb, strict, equal = gen.denote(e)
    elig = [c for c in range(1, n + 1) if c not in e['wd']]
    tie = e['tie'] or list(range(1, n + 1))
    tied = {c: i + 1 for i, c in enumerate(tie)}
    nick = e['nick'] or [str(c) for c in range(1, n + 1)]
    T = ','.join('%d=%d' % (c, tied[c]) for c in range(1, n + 1))
    N = ','.join('%d=%s' % (c, hx(nick[c - 1])) for c in range(1, n + 1))
    B = ';'.join('%d:%s' % (m, ','.join(map(str, r))) for m, r in strict)
    Q = ';'.join('%d:%s' % (m, '|'.join(','.join(map(str, g)) for g in r)) for m, r in equal)
    names = ','.join(hx(x) for x in e['names'])
    return 'OK %d %d %d E:%s W:%s U:%s T:%s N:%s O:%s B:%s Q:%s C:%s t:%s s:%s c:%s' % (
        n, e['s'], nb, ','.join(map(str, elig)), ','.join(map(str, e['wd'])), ','.join(map(str, e['und'])), T, N,
        ','.join(hx(o) for o in e['options']), B, Q, names, hx(e['title']),
        hx(e['source']) if e['source'] is not None else '-', hx(e['comment']) if e['comment'] is not None else '-')


def wellformed(rng):
    while True:
        e = abstract_election(rng)
        # names whose first word is the closing quote alone etc. are fine; avoid words that end a quoted string early
        if any(w.endswith('"') for nm in e['names'] + [e['title'], e['source'] or '', e['comment'] or ''] for w in nm.split(' ')):
            continue
        toks = render_tokens(rng, e)
        return e, layout(rng, toks)


def many_candidates(n):
    """a well-formed file with n candidates whose ballots rank the last ones"""
    lines = ['%d 2' % n, '3 %d 1 0' % n, '2 1 %d %d 0' % (n, n - 1), '1 %d 0' % (n - 1), '0']
    lines += ['"c%d"' % i for i in range(1, n + 1)] + ['"t"']
    return '\n'.join(lines) + '\n'


def near_valid(rng):
    """a well-formed election with exactly one acceptance condition broken; every such file must be rejected"""
    while True:
        e = abstract_election(rng)
        if any(w.endswith('"') for nm in e['names'] + [e['title'], e['source'] or '', e['comment'] or ''] for w in nm.split(' ')):
            continue
        n = e['n']; elig = [c for c in range(1, n + 1) if c not in e['wd']]
        kind = rng.choice(['seats>eligible', 'seats>eligible', 'seats=0', 'ballots<eligible', 'repeat', 'out-of-range'])
        e = dict(e); e['lines'] = list(e['lines'])
        if kind == 'seats>eligible':
            if len(elig) == n:
                e['s'] = n + rng.randint(1, 2)
            else:
                e['s'] = rng.randint(len(elig) + 1, n)      # within the candidate count, beyond the eligible ones
        elif kind == 'seats=0':
            e['s'] = 0
        elif kind == 'ballots<eligible':
            if len(elig) < 2 or e['use_ids']:
                continue
            e['lines'] = [(1, [rng.choice(elig)])] * rng.randint(1, len(elig) - 1)
        elif kind == 'repeat':
            i = rng.randrange(len(e['lines'])); m, r = e['lines'][i]
            flat = [c for g in r for c in (g if isinstance(g, list) else [g])]
            live = [c for c in flat if c in elig]
            if not live:
                continue
            e['lines'][i] = (m, list(r) + [rng.choice(live)])
        else:
            i = rng.randrange(len(e['lines'])); m, r = e['lines'][i]
            e['lines'][i] = (m, list(r) + [n + rng.randint(1, 3)])
        try:
            toks = render_tokens(rng, e)
        except Exception:
            continue
        return kind, layout(rng, toks)


# =================================================================================================
# malformed stream

VALID = ['''4 2
[tie 4 3 2 1]
[nick a b c d]
-2
3 a c 0
(x y) 3 1 0
2 d=c a 0
1 4 0
0
"Ann A" "Bob" "Cy # x" "Di /* y */"
"Title here" "src" "a comment"
''', '''3 1 # comment
/* nested /* comment */ still */ 1 1 2 0
2 2 0 1 3=1 0
0 "A" "B" "C" "T"
''', '''5 3
[withdrawn 5] [undeclared 4] [droop rule=meek precision=6]
10 1 2 3 0
5 3 2 0
2 4 0
3 2 1 0
0
"a" "b" "c" "d" "e"
"t"
''', '''2 1
(a) 1 2 0
(b) 2 0
0
"x" "y" "ids"
''']
ALPH = ['0', '1', '2', '3', '4', '5', '-1', '-2', '-9', '[tie', '[nick', '[withdrawn', '[undeclared', '[droop', ']', '1]', '(', ')', '(a)', '(a',
        'b)', '"', '"a', 'a"', '"a"', '/*', '*/', '#', '=', '1=2', '1=', '=2', 'a', '٣', '１', '0x1', '1_0', '+1', '﻿1', '\x1c', ' ',
        'xxxxx', '999999999999999999999', '00', '01', '[', '[]', '[x]', 'rule=wigm', '[droop]', '²', '①', '3=3', '256', '65536', '-0',
        '"xé"', '2=1=3', '/*x*/', '#c', '\x85', '\xa0', '[tie]', '[nick]', '-', '--1', '1-', '(id', '1)']


def malformed(rng, corpus):
    mode = rng.random()
    if mode < 0.25:
        toks = [rng.choice(ALPH) for _ in range(rng.randint(1, 25))]
        return rng.choice([' ', '\n', '  \n', '\t', '\r\n', '\x0b']).join(toks)
    base = rng.choice(corpus)
    if mode < 0.5:
        b = base.split(); return ' '.join(b[:rng.randint(0, len(b))])
    if mode < 0.55:
        return ''.join(chr(rng.choice([rng.randint(0, 0x2ff), rng.randint(0x2000, 0x206f), rng.randint(0x660, 0x669), rng.randint(0x10000, 0x10fff)]))
                       for _ in range(rng.randint(0, 30))).replace('\ud800', '')
    toks = base.replace('\n', ' \n ').split(' ')
    for _ in range(rng.randint(1, 3)):
        op = rng.random(); i = rng.randrange(len(toks))
        if op < 0.4: toks[i] = rng.choice(ALPH)
        elif op < 0.7: toks.insert(i, rng.choice(ALPH))
        else: del toks[i]
        if not toks: toks = ['1']
    return ' '.join(toks)


# =================================================================================================
# Unicode tables of the model vs the running interpreter

def unicode_tables_check():
    """the model's str.isspace / decimal-digit / line-boundary tables against CPython for every code point"""
    lines = []
    # probe through PARSE would be slow: the driver has a dedicated verb
    out = common.run_driver(['UNITABLES'])
    got = out[0]
    sp = [c for c in range(0x110000) if chr(c).isspace()]
    dg = [(c, unicodedata.decimal(chr(c))) for c in range(0x110000) if unicodedata.decimal(chr(c), None) is not None and re.match(r'\d', chr(c))]
    lb = [c for c in range(0x110000) if len(('a' + chr(c) + 'b').splitlines()) == 2]
    want = 'S:%s D:%s L:%s' % (','.join(map(str, sp)), ','.join('%d=%d' % x for x in dg), ','.join(map(str, lb)))
    return got == want, (got[:200], want[:200])


def parse_campaign(run, texts, expect=None):
    """texts: [(text, via_path)]; expect: optional list of canonical strings the text denotes"""
    res = common.pmap(parse_text, texts, limit=5.0, chunksize=50)
    model = common.run_driver_parallel(['PARSE ' + t.encode('utf-8').hex() for t, _ in texts])
    stats = collections.Counter()
    out = []
    for i, ((t, vp), r, m) in enumerate(zip(texts, res, model)):
        if r[0] == 'TIMEOUT':
            r = ('CRASH Timeout', [], [])
        c, inv, ctor = r
        stats[c.split(' ')[0] + (' ' + c.split(' ')[1] if c.startswith('CRASH') else '')] += 1
        out.append((t, vp, c, inv, ctor, m, expect[i] if expect else None))
    return out, stats


@prop('C15')
def C15(run):
    broken = lean_gate(run, THEOREMS['C15'])
    if not broken:
        from props import gen_gate
        broken = broken + gen_gate(run, 'translator_validate', 'gen_validate', 'program',
                                   'Gen.validate = C15.validateProg by rfl; validate_is_program (lean/Props/C15Prog.lean)',
                                   'ElectionProfile.__validate of droop/profile.py, translated, is no longer the list lean/Props/C15Prog.lean proves the model to check')
        broken = broken + gen_gate(run, 'translator_bltopts', 'gen_bltopts', 'table',
                                   'Gen.bltDispatch = C15.bltDispatch by rfl; unknown_option_is_rejected, droop_block_appends, droop_blocks_accumulate '
                                   '(lean/Props/C15Opts.lean)',
                                   'the dispatch of [..] options in ElectionProfile.__bltOption, extracted, is no longer the table lean/Props/C15Opts.lean '
                                   'proves the model to dispatch on')
    rng = rng_for(run)
    n = budget(run, 8000, 200000)
    es, texts = [], []
    for _ in range(n):
        e, t = wellformed(rng)
        es.append(e); texts.append((t, rng.random() < 0.1))
    out, stats = parse_campaign(run, texts, [denote_canon(e) for e in es])
    nfail = ncorr = 0
    firstc = None
    for (t, vp, c, inv, ctor, m, want) in out:
        if c != want:
            nfail += 1
            if nfail <= 3:
                run.violation(dict(kind='implementation', what='a well-formed file is not read as the election it denotes',
                                   text=t, via_path_with_bom=vp, implementation=c, denotation=want, model=m,
                                   first_difference=_field_diff(c, want)))
        elif inv:
            nfail += 1
            if nfail <= 3:
                run.violation(dict(kind='implementation', what='accepted profile violates: %s' % inv, text=t, implementation=c))
        if c != m:
            ncorr += 1; firstc = firstc or (t, c, m)
    # one acceptance condition broken: every such file must be rejected (last sentence of C15)
    nv = [near_valid(rng) for _ in range(budget(run, 3000, 60000))]
    out2, stats2 = parse_campaign(run, [(t, False) for k, t in nv])
    nvk = collections.Counter()
    for (k, _), (t, vp, c, inv, ctor, m, want) in zip(nv, out2):
        nvk[k] += 1
        if c != 'PE':
            nfail += 1
            if nfail <= 3:
                run.violation(dict(kind='implementation', what='a file with %s is not rejected with the profile error' % k,
                                   text=t, implementation=c, invariants_violated=inv, model=m))
        if c != m:
            ncorr += 1; firstc = firstc or (t, c, m)
    if ncorr and not nfail:
        run.violation(dict(kind='correspondence', broken=['correspondence PARSE (lean/DroopModel/Blt.lean vs droop/profile.py)'],
                           text=firstc[0], implementation=firstc[1], model=firstc[2], disagreeing_cases=ncorr), 'no-failing-input-found')
    if broken and not run.violations:
        run.violation(dict(kind='theorem', broken=broken), 'no-failing-input-found')
    cov = run.coverage
    cov['near_valid_files_rejected'] = dict(nvk)
    cov['evaluations'] = len(out) + len(out2)
    cov['distinct_nontrivial'] = len({t for (t, vp, c, inv, ctor, m, want) in out if c.startswith('OK') and (';' in c)})
    cov['traces_validated_against_impl'] = len(out) - ncorr
    cov['rule'] = ('abstract elections (options, -n and [withdrawn], nicknames, ballot ids, equal ranks, quoted multi-word names containing comment '
                   'markers and UTF-8) rendered with random token layout, nested /* */ and # comments, exotic line boundaries, 10% through a file '
                   'with BOM; compared with the denotation and with the Lean parser; non-trivial = at least two ballot lines kept')
    cov['distribution'] = dict(stats)
    cov['features'] = dict(collections.Counter(k for e in es for k in ('nick', 'tie', 'source', 'comment') if e[k]) +
                           collections.Counter('ids' for e in es if e['use_ids']) + collections.Counter('withdrawn' for e in es if e['wd']) +
                           collections.Counter('equal-ranks' for e in es if any(isinstance(g, list) for m, r in e['lines'] for g in r)))
    cov['samples'] = [texts[0][0], texts[1][0]]
    run.assumptions = ['denotation computed by harness/gen.py denote() and props3.denote_canon()']


def _field_diff(a, b):
    for x, y in zip(a.split(' '), b.split(' ')):
        if x != y:
            return dict(implementation=x[:300], expected=y[:300])
    return None


def proj_C16(c):
    """what C16 is about: the outcome class and the structural attributes the validity invariants read
    (not names, title, source, comment, nickname strings: those are C15's)"""
    if not c.startswith('OK '):
        return c
    f = c.split(' ')
    keep = [x for x in f[:4]] + [x for x in f[4:] if x[:2] in ('E:', 'W:', 'U:', 'T:', 'B:', 'Q:', 'O:')]
    return ' '.join(keep)


@prop('C16')
def C16(run):
    broken = lean_gate(run, THEOREMS['C16'])
    if not broken:
        from props import gen_gate
        broken = broken + gen_gate(run, 'translator_validate', 'gen_validate', 'program',
                                   'Gen.validate = C15.validateProg by rfl; validate_is_program (lean/Props/C15Prog.lean)',
                                   'ElectionProfile.__validate of droop/profile.py, translated, is no longer the list lean/Props/C15Prog.lean proves the model to check')
        broken = broken + gen_gate(run, 'translator_bltopts', 'gen_bltopts', 'table',
                                   'Gen.bltDispatch = C15.bltDispatch by rfl; unknown_option_is_rejected, droop_block_appends, droop_blocks_accumulate '
                                   '(lean/Props/C15Opts.lean)',
                                   'the dispatch of [..] options in ElectionProfile.__bltOption, extracted, is no longer the table lean/Props/C15Opts.lean '
                                   'proves the model to dispatch on')
    rng = rng_for(run)
    ok_tab, tabs = unicode_tables_check()
    corpus = list(VALID)
    for _ in range(40):
        corpus.append(wellformed(rng)[1])
    texts = []
    # every truncation (token level) of the corpus files
    for base in corpus[:budget(run, 12, 44)]:
        b = base.split()
        for k in range(len(b) + 1):
            texts.append((' '.join(b[:k]), False))
    for _ in range(budget(run, 30000, 800000)):
        texts.append((malformed(rng, corpus), False))
    texts += [('', False), ('2 1 0', False), ('2 1\n-5\n2 1 0\n1 2 0\n0\n"a" "b" "t"\n', False)]
    # candidate counts at the boundaries of the ranking array's element type (ids 1..n must fit: 255 / 256 / 257 candidates;
    # thorough also 65535 / 65536), with ballots that rank the last candidate
    for n in ((255, 256, 257) if run.tier == 'quick' else (255, 256, 257, 65535, 65536)):
        texts.append((many_candidates(n), False))
    out, stats = parse_campaign(run, texts)
    nfail = ncorr = 0
    firstc = None
    for (t, vp, c, inv, ctor, m, _) in out:
        bad = None
        if c.startswith('CRASH'):
            bad = 'reading raised %s (neither a profile nor ElectionProfileError)' % c[6:] if not c.endswith('Timeout') else 'reading did not return within 5 s'
        elif c.startswith('OK') and inv:
            bad = 'accepted profile violates: %s' % inv
        elif c.startswith('OK') and ctor:
            bad = 'accepted profile without options makes the election constructor fail: %s' % ctor[:3]
        if bad:
            nfail += 1
            if nfail <= 3:
                run.violation(dict(kind='implementation', what=bad, text=t, implementation=c[:500], model=m[:500]))
        if proj_C16(c) != proj_C16(m):
            ncorr += 1; firstc = firstc or (t, c, m)
    if not ok_tab:
        ncorr += 1; firstc = firstc or ('unicode tables', tabs[1], tabs[0])
    # the constructor on its own (Props/C16Ctor.lean: every_rule_constructs, unknown_rule_is_refused): each rule name, and one unknown
    # name, with no other option, in a pristine process - outcome class of the implementation against the model's electionSetupS
    import props4
    ctor_hist = [[[{'rule': r}, []]] for r in gen.RULES] + [[[{'rule': 'nope'}, []]]]
    cimpl = props4.fresh_map('session_item', ctor_hist)
    cmodel = common.run_driver_parallel(['SESSION ' + ' ;; '.join(' '.join('%s=%s' % (hx(k), ov(v)) for k, v in c.items()) + ' | ' + ' '.join(hx(t) for t in f)
                                                                   for c, f in h) for h in ctor_hist])
    for h, a, b in zip(ctor_hist, cimpl, cmodel):
        rname = h[0][0]['rule']
        oa, ob = a.split(' G:')[0].split(' F:')[0], b.split(' G:')[0].split(' F:')[0]
        stats['constructor:%s:%s' % (rname, oa)] += 1
        if rname in gen.RULES and oa != 'OK':
            nfail += 1
            run.violation(dict(kind='implementation', what='rule %s: the election constructor fails on a profile without options: %s' % (rname, oa), rule=rname))
        elif oa != ob:
            ncorr += 1; firstc = firstc or ('constructor rule=%s' % rname, a, b)
    if ncorr and not nfail:
        run.violation(dict(kind='correspondence', broken=['correspondence PARSE (lean/DroopModel/Blt.lean vs droop/profile.py)'],
                           text=firstc[0], implementation=firstc[1][:800], model=firstc[2][:800], disagreeing_cases=ncorr), 'no-failing-input-found')
    if broken and not run.violations:
        run.violation(dict(kind='theorem', broken=broken), 'no-failing-input-found')
    cov = run.coverage
    cov['evaluations'] = len(out)
    cov['distinct_nontrivial'] = len({t for (t, vp, c, inv, ctor, m, _) in out if len(t.split()) >= 3})
    cov['traces_validated_against_impl'] = len(out) - ncorr
    cov['rule'] = ('token soups over the BLT alphabet, every token-level truncation of corpus files, 1-3 token mutations/insertions/deletions of valid files, '
                   'arbitrary Unicode; outcome class, profile invariants and the constructor of every rule are checked; non-trivial = at least three tokens')
    cov['distribution'] = dict(stats)
    cov['unicode_tables_match_interpreter'] = ok_tab
    cov['samples'] = [texts[5][0], texts[-4][0][:200]]
    run.assumptions = ['5 s per text is the hang criterion']


# =================================================================================================
# C17: options

def ov(v):
    if v is None: return 'n:'
    if isinstance(v, bool): return 'b:%d' % int(v)
    if isinstance(v, int): return 'i:%d' % v
    return 's:' + hx(v)


def sd(d):
    return ','.join('%s=%s' % (hx(k), ov(v)) for k, v in sorted(d.items()))


OPT_VALUES = {
    'arithmetic': ['fixed', 'integer', 'guarded', 'rational', 'bogus', None, 5],
    'precision': [0, 1, 4, 9, '7', 'x', '-3', None, True, 30], 'guard': [0, 3, '2', 'y', None, 12],
    'display': [0, 2, 5, '3', '-1', 'zz', 40, None], 'omega': [1, 3, '6', 'w', None, 12],
    'integer_quota': [True, False, 'true', 'yes', 'no', 'maybe', 1, 0, 2], 'defeat_batch': ['none', 'zero', 'safe', 'x', None],
    'rule': gen.RULES + ['nope'], 'dump': [True, 'yes'], 'foo': ['bar', 3]}


def gen_layers(rng):
    cmd = {}
    if rng.random() < 0.85:
        cmd['rule'] = rng.choice(gen.RULES)
    for k in OPT_VALUES:
        if k != 'rule' and rng.random() < 0.3:
            cmd[k] = rng.choice(OPT_VALUES[k])
    file = []
    for k in OPT_VALUES:
        if rng.random() < 0.25:
            v = rng.choice(OPT_VALUES[k])
            if v is None or (isinstance(v, bool) and rng.random() < 0.5):
                file.append(k)
            else:
                file.append('%s=%s' % (k, v))
    if rng.random() < 0.1:
        file.append(rng.choice(['fixed', 'guarded', 'rational', 'integer', 'meek', 'report', 'somepath', 'other']))
    if rng.random() < 0.05:
        file.append('a=b=c')
    return cmd, file


def opts_impl(item):
    cmd, file = item
    from droop.profile import ElectionProfile
    from droop.election import Election
    from droop.common import UsageError, ElectionError
    from droop.values import ArithmeticValuesError
    # the file layer travels in the ballot file; with two or more options it is split over two [droop ...] blocks (they accumulate)
    if len(file) > 1 and (len(' '.join(file)) % 2 == 0):
        k = 1 + len(file[0]) % (len(file) - 1)
        blocks = '[droop %s]\n[tie 1 2 3]\n[droop %s]\n' % (' '.join(file[:k]), ' '.join(file[k:]))
    else:
        blocks = '[droop %s]\n' % ' '.join(file) if file else ''
    blt = '3 2\n' + blocks + '4 1 2 0\n3 2 1 0\n2 3 0\n0\n"A" "B" "C"\n"t"\n'
    try:
        prof = ElectionProfile(data=blt)
        E = Election(prof, dict(cmd))
    except UsageError: return 'UsageError'
    except ElectionError: return 'ElectionError'
    except ArithmeticValuesError: return 'ArithmeticValuesError'
    except Exception as e: return 'CRASH ' + type(e).__name__
    try:
        r = E.options.record(); V = E.V
        if V.name in ('fixed', 'integer'): a = 'fixed %d %d' % (V.precision, V.display)
        elif V.name == 'guarded': a = 'guarded %d %d %d' % (V.precision, V.guard, V.display)
        else: a = 'rational %d' % V.dp
        line = 'OK eff:%s cmd:%s file:%s default:%s force:%s unused:%s over:%s arith:%s' % (
            sd(r['options']), sd(r['cmd']), sd(r['file_options']), sd(r['default']), sd(r['force']),
            ','.join(hx(k) for k in E.options.unused()), ','.join(hx(k) for k in E.options.overrides()), a)
        # getopt() - the value the count actually uses - follows the same precedence as the layers the record reports
        rep_status = 'skip'
        for k in set(r['cmd']) | set(r['file_options']) | set(r['default']) | set(r['force']):
            want = r['force'][k] if k in r['force'] else r['cmd'][k] if k in r['cmd'] else \
                r['file_options'][k] if k in r['file_options'] else r['default'].get(k)
            got = E.options.getopt(k)
            if got != want or type(got) is not type(want):
                return line + '\tREP:BAD getopt(%r) returns %r; forced > caller > ballot file > default gives %r (layers force=%r cmd=%r file=%r default=%r)' % (
                    k, got, want, r['force'].get(k), r['cmd'].get(k), r['file_options'].get(k), r['default'].get(k))
        # the arithmetic the count runs with is the one the effective options name
        eff = r['options']
        if eff.get('arithmetic') in ('fixed', 'integer', 'guarded') and 'precision' in eff and str(eff['precision']).isdigit():
            if int(eff['precision']) != V.precision:
                return line + '\tREP:BAD the count runs with precision %r, the effective options say %r' % (V.precision, eff['precision'])
        # the report names the unused and the overridden options (header lines), exactly those the option object lists
        try:
            import io, contextlib
            with contextlib.redirect_stdout(io.StringIO()):
                E.count()
            head = E.report().split('\tSeats:')[0]
            un = E.options.unused(); ov = E.options.overrides()
            lu = [l for l in head.split('\n') if l.startswith('\tUnused options: ')]
            lo = [l for l in head.split('\n') if l.startswith('\tOverridden options: ')]
            ok_u = (lu == ['\tUnused options: %s' % ', '.join(un)]) if un else (lu == [])
            ok_o = (lo == ['\tOverridden options: %s' % ', '.join(ov)]) if ov else (lo == [])
            rep_status = 'ok' if (ok_u and ok_o) else 'BAD unused=%r shown=%r overridden=%r shown=%r' % (un, lu, ov, lo)
        except Exception as e:
            rep_status = 'skip ' + type(e).__name__
        return line + '\tREP:' + rep_status
    except Exception as e:
        return 'CRASH-RECORD ' + type(e).__name__


def parse_sd(s):
    d = {}
    if not s:
        return d
    for kv in s.split(','):
        k, v = kv.split('=', 1)
        d[bytes.fromhex(k.rstrip('.')).decode()] = v
    return d


def precedence_ok(line):
    """the four layers reported by the record determine the effective value of every option, and the unused / overridden lists"""
    f = dict(x.split(':', 1) for x in line[3:].split(' ') if ':' in x and x.split(':', 1)[0] in ('eff', 'cmd', 'file', 'default', 'force', 'unused', 'over'))
    eff, cmd, fil, dfl, frc = (parse_sd(f[k]) for k in ('eff', 'cmd', 'file', 'default', 'force'))
    keys = set(eff) | set(cmd) | set(fil) | set(dfl) | set(frc)
    for k in keys:
        want = frc[k] if k in frc else cmd[k] if k in cmd else fil[k] if k in fil else dfl.get(k)
        if eff.get(k) != want:
            return 'effective value of %s is %s, layers say %s' % (k, eff.get(k), want)
    unused = sorted((set(fil) | set(cmd)) - {'rule', 'path'} - set(dfl))
    if [bytes.fromhex(x.rstrip('.')).decode() for x in f['unused'].split(',') if x] != unused:
        return 'unused list %s, expected %s' % (f['unused'], unused)
    merged = dict(fil); merged.update(cmd)
    over = sorted(k for k in frc if k in merged and merged[k] != frc[k])
    if [bytes.fromhex(x.rstrip('.')).decode() for x in f['over'].split(',') if x] != over:
        return 'overridden list %s, expected %s' % (f['over'], over)
    return None


def _obs_with_dump(text, o):
    """canonical record line plus the tab-separated dump (the only place the `display` option shows)"""
    try:
        outcome, E, snaps = implrun.count_record(text, o)
    except Exception as e:
        return 'CRASH-INIT ' + type(e).__name__
    if outcome != 'OK':
        return outcome
    try:
        return implrun.canonical_line(E, snaps) + '\tDUMP ' + E.dump().replace('\n', '|')
    except Exception as e:
        return 'CRASH-RECORD ' + type(e).__name__


def _immune(item):
    p, rule, cmd, file = item
    base = _obs_with_dump(gen.blt(p), dict(rule=rule))
    text = gen.blt(p)
    if file:
        lines = text.split('\n'); lines.insert(1, '[droop %s]' % ' '.join(file)); text = '\n'.join(lines)
    o = dict(cmd); o['rule'] = rule
    other = _obs_with_dump(text, o)
    return base, other


def translator_gate(run):
    """T2: regenerate the forced-option table of the statutory rules from the source under common.REPO (harness/gen_options.py)
    and have the Lean kernel check `Gen.statutory = C17.modelTable` (the table `model_table_agrees` / `model_table_immune` are
    about).  Returns the list of broken obligations."""
    import gen_options, subprocess
    cov = run.coverage
    try:
        tab = gen_options.table(common.REPO)
    except gen_options.TranslationError as e:
        cov['translator'] = dict(status='refused', why=str(e))
        return ['translator harness/gen_options.py refused the source: %s' % e]
    except Exception as e:
        cov['translator'] = dict(status='error', why='%s: %s' % (type(e).__name__, e))
        return ['translator harness/gen_options.py failed: %s: %s' % (type(e).__name__, e)]
    gdir = os.path.join(common.LEAN, '.lake', 'gen')
    os.makedirs(gdir, exist_ok=True)
    path = os.path.join(gdir, 'Statutory_%d.lean' % os.getpid())
    open(path, 'w').write(gen_options.lean_file(tab))
    try:
        r = subprocess.run(['lake', 'env', 'lean', path], cwd=common.LEAN, capture_output=True, text=True, timeout=600)
        out = r.stdout + r.stderr
    finally:
        try: os.remove(path)
        except OSError: pass
    ok = r.returncode == 0 and 'error' not in out.lower()
    axioms_ok = all(set(a.strip() for a in m.split(',') if a.strip()) <= common.STD_AXIOMS
                    for m in re.findall(r"depends on axioms: \[([^\]]*)\]", out, flags=re.S))
    cov['translator'] = dict(status='checked' if ok and axioms_ok else 'mismatch', entries=len(tab),
                             forced=sum(1 for _, es in tab for e in es if e[2]),
                             obligation='Gen.statutory = C17.modelTable by decide; statutory_agrees, statutory_immune instantiated',
                             source=[m + '.py' for m in gen_options.STATUTORY])
    if not (ok and axioms_ok):
        return ['generated table (droop/rules/*.py options()) differs from lean/Props/C17.lean modelTable: '
                + ' '.join(l for l in out.split('\n') if 'error' in l.lower())[:300] + ' regenerated=%s' % (tab,)]
    # the configurable rules (wigm, meek/warren): options() translated into the program language of Props/C17Prog.lean
    try:
        progs = gen_options.programs(common.REPO)
    except gen_options.TranslationError as e:
        cov['translator_programs'] = dict(status='refused', why=str(e))
        return ['translator harness/gen_options.py refused the source: %s' % e]
    except Exception as e:
        cov['translator_programs'] = dict(status='error', why='%s: %s' % (type(e).__name__, e))
        return ['translator harness/gen_options.py failed: %s: %s' % (type(e).__name__, e)]
    path = os.path.join(gdir, 'Programs_%d.lean' % os.getpid())
    open(path, 'w').write(gen_options.lean_prog_file(progs))
    try:
        r = subprocess.run(['lake', 'env', 'lean', path], cwd=common.LEAN, capture_output=True, text=True, timeout=600)
        out = r.stdout + r.stderr
    finally:
        try: os.remove(path)
        except OSError: pass
    ok = r.returncode == 0 and 'error' not in out.lower()
    axioms_ok = all(set(a.strip() for a in m.split(',') if a.strip()) <= common.STD_AXIOMS
                    for m in re.findall(r"depends on axioms: \[([^\]]*)\]", out, flags=re.S))
    cov['translator_programs'] = dict(status='checked' if ok and axioms_ok else 'mismatch', programs=[n for n, _ in progs],
                                      obligation='Gen.wigmProg = C17.wigmProg, Gen.meekProg = C17.meekProg by rfl; wigm_options, meek_options instantiated',
                                      source=['wigm.py', 'meek.py'])
    if ok and axioms_ok:
        return []
    return ['options() of wigm.py / meek.py, translated, is no longer the program lean/Props/C17Prog.lean proves the option model equal to: '
            + ' '.join(l for l in out.split('\n') if 'error' in l.lower())[:300]]


_ARGV_WORDS = ['fixed', 'integer', 'rational', 'guarded', 'cfer', 'cfer-batch', 'meek', 'meek-prf', 'mpls', 'qpq', 'scotland', 'warren', 'wigm',
               'wigm-prf', 'wigm-prf-batch', 'report', 'dump', 'json', 'a.blt', 'b.blt', '', 'x', 'ballots/1.blt', 'Meek', 'FIXED', 'path', 'rule',
               'wigm_prf', 'help', 'réunion.blt']
_ARGV_KEYS = ['rule', 'arithmetic', 'precision', 'guard', 'display', 'omega', 'integer_quota', 'defeat_batch', 'path', 'report', 'dump', 'json',
              'profile', 'x', '', 'Rule']
_ARGV_VALS = ['true', 'TRUE', 'True', 'yes', 'YES', 'yEs', 'false', 'FALSE', 'no', 'No', 'nO', '0', '1', '12', '007', 'abc', '', 'meek', 'fixed', 'none',
              'zero', 'a=b', 'true=x', '=', 'yes ', ' no', 'tru', 'noo', '\uff34\uff32\uff35\uff25', 'stra\u00dfe', '\u212a', 'N\u030co', 'a.blt']


def gen_argv(rng):
    out = []
    for _ in range(rng.choice([0, 1, 1, 2, 2, 3, 3, 4, 5, 7])):
        r = rng.random()
        if r < 0.45:
            out.append(rng.choice(_ARGV_WORDS))
        elif r < 0.95:
            out.append(rng.choice(_ARGV_KEYS) + '=' + rng.choice(_ARGV_VALS))
        else:
            out.append(rng.choice(['=', '==', 'a==b', '=x', 'k=v=w=z']))
    return out


def argv_impl(av):
    from droop.options import Options
    from droop.common import UsageError
    try:
        d = Options.parse(list(av))
    except UsageError:
        return 'UsageError'
    except Exception as e:
        return 'CRASH ' + type(e).__name__
    items = []
    for k in sorted(d):
        v = d[k]
        items.append(hx(k) + '=' + ('T' if v is True else 'F' if v is False else 's' + hx(v)))
    return 'OK ' + ' '.join(items)


@prop('C17')
def C17(run):
    broken = lean_gate(run, THEOREMS['C17'])
    if not broken:
        broken = broken + translator_gate(run)
    if not broken:
        from props import gen_gate
        broken = broken + gen_gate(run, 'translator_getopt', 'gen_getopt', 'tables',
                                   'Gen.{getoptLayers,recordLayers,overridesMerge,unusedUnion,unusedExcluded,unusedMinus,setoptOrder} = C17.* by rfl; '
                                   'getopt_is_program, getopt_program_precedence, overrides_is_program, unused_is_program, setopt_is_program (lean/Props/C17Getopt.lean)',
                                   'Options.getopt / record / overrides / unused / setopt of droop/options.py are no longer of the layered form, or no longer in '
                                   'the layer order, that lean/Props/C17Getopt.lean proves the model to evaluate')
    rng = rng_for(run)
    cases = [gen_layers(rng) for _ in range(budget(run, 12000, 200000))]
    impl = common.pmap(opts_impl, cases, limit=10.0, chunksize=100)
    ins = ['OPTS ' + ' '.join('%s=%s' % (hx(k), ov(v)) for k, v in c.items()) + ' | ' + ' '.join(hx(t) for t in f) for c, f in cases]
    model = common.run_driver_parallel(ins)
    stats = collections.Counter()
    nfail = ncorr = 0
    firstc = None
    nrep = 0
    for (c, f), i, m, ln in zip(cases, impl, model, ins):
        if isinstance(i, tuple):
            i = 'CRASH Timeout'
        if '\tREP:' in i:
            i, rep_status = i.split('\tREP:', 1)
            if rep_status == 'ok':
                nrep += 1
            elif rep_status.startswith('BAD'):
                nfail += 1
                if nfail <= 3:
                    run.violation(dict(kind='implementation', what='options as used / as reported disagree with the precedence law: ' + rep_status[4:],
                                       cmd=c, file=f))
        stats[i.split(' ')[0] + (' ' + i.split(' ')[1] if i.startswith('CRASH') else '')] += 1
        if i.startswith('OK'):
            why = precedence_ok(i)
            if not why:
                # "then an option embedded in the ballot file": every option the harness embedded (in whichever [droop ...] block) is in the
                # file layer the record reports
                fl = dict(x.split(':', 1) for x in i[3:].split(' ') if ':' in x).get('file', '')
                have = set(parse_sd(fl))
                missing = sorted({t.split('=', 1)[0] for t in f if '=' in t} - have)   # a bare token is the ballot path or a flag
                if missing:
                    why = 'embedded in the ballot file but absent from the file layer of the record: %s' % ', '.join(missing)
            if why:
                nfail += 1
                if nfail <= 3:
                    run.violation(dict(kind='implementation', what='option precedence: ' + why, cmd=c, file=f, implementation=i, model=m))
        if i != m:
            ncorr += 1; firstc = firstc or (c, f, i, m, ln)
    # statutory immunity
    items = []
    for _ in range(budget(run, 2000, 40000)):
        rule = rng.choice(list(gen.STATUTORY))
        fam, p = gen.profile(rng, rule)
        cmd = {}; file = []
        for k, vals in dict(arithmetic=['fixed', 'integer', 'guarded', 'rational'], precision=[0, 1, 2, 3, 6, 12], guard=[0, 1, 4],
                            display=[0, 1, 2, 7], omega=[1, 2, 3, 9], integer_quota=[True, False], defeat_batch=['none', 'zero', 'safe']).items():
            r = rng.random()
            if r < 0.3: cmd[k] = rng.choice(vals)
            elif r < 0.5: file.append('%s=%s' % (k, rng.choice(vals)))
        items.append((p, rule, cmd, file))
    res = common.pmap(_immune, items, limit=20.0)
    nim = 0
    for (p, rule, cmd, file), r in zip(items, res):
        if r[0] == 'TIMEOUT':
            continue
        if any(x.startswith('CRASH Timeout') or x.startswith('CRASH Hang') for x in r):
            continue        # a count that did not finish in its budget is C01's business
        if r[0] != r[1]:
            nim += 1; nfail += 1
            if nim <= 3:
                run.violation(dict(kind='implementation', what='a statutory rule was reconfigured by options', rule=rule, cmd=cmd, file=file,
                                   blt=gen.blt(p), first_difference=first_diff(r[0], r[1])))
    if ncorr and not nfail:
        c, f, i, m, ln = firstc
        run.violation(dict(kind='correspondence', broken=['correspondence OPTS (lean/DroopModel/Options.lean vs droop/options.py, rules options(), values initialize())'],
                           cmd=c, file=f, implementation=i, model=m, case=ln, disagreeing_cases=ncorr), 'no-failing-input-found')
    # the command line: Options.parse(argv) against lean/DroopModel/Options.lean Options.parse (verb ARGV)
    arng = rng_for(run, 'argv')
    argvs = [gen_argv(arng) for _ in range(budget(run, 6000, 100000))]
    aimpl = common.pmap(argv_impl, argvs, limit=5.0, chunksize=200)
    amodel = common.run_driver_parallel(['ARGV ' + ' '.join(hx(a) for a in av) for av in argvs])
    nargv = 0; firsta = None; astats = collections.Counter()
    for av, i, m in zip(argvs, aimpl, amodel):
        if isinstance(i, tuple):
            i = 'CRASH Timeout'
        astats[i.split(' ')[0]] += 1
        if i != m:
            nargv += 1; firsta = firsta or (av, i, m)
        if not (i.startswith('OK') or i == 'UsageError'):
            nfail += 1
            if nfail <= 3:
                run.violation(dict(kind='implementation', what='Options.parse raised something other than UsageError: ' + i, argv=av))
    if nargv and not run.violations:
        run.violation(dict(kind='correspondence', broken=['correspondence ARGV (lean/DroopModel/Options.lean Options.parse vs droop/options.py Options.parse)'],
                           argv=firsta[0], implementation=firsta[1], model=firsta[2], disagreeing_cases=nargv), 'no-failing-input-found')
    if broken and not run.violations:
        run.violation(dict(kind='theorem', broken=broken), 'no-failing-input-found')
    cov = run.coverage
    cov['command_lines_compared_with_model'] = len(argvs)
    cov['command_line_outcomes'] = dict(astats)
    cov['command_line_disagreements'] = nargv
    cov['evaluations'] = len(cases) + len(items)
    cov['distinct_nontrivial'] = len({ln for ln, i in zip(ins, impl) if isinstance(i, str) and i.startswith('OK')})
    cov['traces_validated_against_impl'] = len(cases) - ncorr
    cov['rule'] = ('assignments of values (valid and invalid) to the command and file layers for every option name x every rule; the record layers, effective '
                   'values, unused/overridden lists and arithmetic configuration compared with the Lean model and with the precedence law; statutory rules re-run '
                   'with perturbing options from both sources; non-trivial = constructor accepted the assignment')
    cov['distribution'] = dict(stats)
    cov['immunity_runs'] = len(items)
    cov['report_headers_checked'] = nrep
    cov['samples'] = ins[:2]
    run.assumptions = []
