#!/venv/bin/python
"""Extractor for C15 / C16: the dispatch of `[...]` options in `ElectionProfile.__bltOption` (droop/profile.py).

The function must end with one `if option_name == '<n1>': <call> elif option_name == '<n2>': <call> ... else: raise ElectionProfileError(...)`;
extracted: [(name, source text of the single statement of the branch)] in order.  The generated Lean file states the list equal to
`C15.bltDispatch` (kernel, `by rfl`); lean/Props/C15Opts.lean proves the model's `bltApply` dispatches on exactly these names, appends the
`[droop ...]` arguments to the options gathered so far, and rejects every other name with the profile error.
usage: gen_bltopts.py <repo> <out.lean>"""
import ast, os, sys


class TranslationError(Exception):
    pass


def table(repo):
    path = os.path.join(repo, 'droop', 'profile.py')
    tree = ast.parse(open(path).read(), path)
    fs = [n for n in ast.walk(tree) if isinstance(n, ast.FunctionDef) and n.name.endswith('__bltOption')]
    if len(fs) != 1:
        raise TranslationError('%s: %d definitions of __bltOption' % (path, len(fs)))
    last = fs[0].body[-1]
    rows = []
    node = last
    while True:
        if not isinstance(node, ast.If):
            raise TranslationError('__bltOption does not end with the dispatch chain')
        t = node.test
        ok = (isinstance(t, ast.Compare) and len(t.ops) == 1 and isinstance(t.ops[0], ast.Eq) and ast.unparse(t.left) == 'option_name'
              and isinstance(t.comparators[0], ast.Constant) and isinstance(t.comparators[0].value, str))
        if not ok or len(node.body) != 1:
            raise TranslationError('dispatch branch not accepted: %s' % ast.unparse(node.test)[:80])
        txt = ast.unparse(node.body[0])
        if '"' in txt or '\\' in txt:
            raise TranslationError('handler text not accepted: %s' % txt[:80])
        rows.append((t.comparators[0].value, txt))
        if len(node.orelse) == 1 and isinstance(node.orelse[0], ast.If):
            node = node.orelse[0]
            continue
        if len(node.orelse) == 1 and isinstance(node.orelse[0], ast.Raise) and ast.unparse(node.orelse[0].exc).startswith('ElectionProfileError('):
            break
        raise TranslationError('dispatch chain does not end with `else: raise ElectionProfileError(...)`')
    return rows


def lean_file(rows):
    lines = ['import Props.C15Opts', 'namespace Gen', 'open Droop Droop.C15', '']
    lines.append('def bltDispatch : List (String × String) := [%s]' % ', '.join('("%s", "%s")' % r for r in rows))
    lines.append('theorem bltDispatch_is_committed : bltDispatch = C15.bltDispatch := by rfl')
    lines.append('#print axioms bltDispatch_is_committed')
    lines.append('end Gen')
    return '\n'.join(lines) + '\n'


if __name__ == '__main__':
    repo, outp = sys.argv[1], sys.argv[2]
    open(outp, 'w').write(lean_file(table(repo)))
