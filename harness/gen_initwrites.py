#!/venv/bin/python
"""Extractor for C20: the class-attribute assignments of Fixed.initialize, Guarded.initialize and Rational.initialize
(droop/values/{fixed,guarded,rational}.py), in program order, each with its path condition.

For each `initialize` the body is walked statement by statement:
  * `cls.<attr> = ...`, `cls.<attr>._value = ...`, `cls.<attr> += ...`        -> one entry (path condition, attr)
  * `if <test>: A else: B`  -> A walked under (test, True), B under (test, False); an `if` whose branches contain no class-attribute
    assignment contributes nothing (the validation tests that only raise); a test that guards an assignment must be one of TESTS
    (its ast.unparse text) - anything else is refused
  * `try: A except ...: H`  -> A walked; a handler that assigns a class attribute is walked under the path condition it stands in
    (Rational's `except TypeError: cls.__default_denominator = 1`)
  * any other statement that contains an assignment to a `cls.` attribute (a loop, a `with`, setattr(cls, ...), a nested function) is refused.
The generated Lean file states `Gen.<class>Writes = C20.<class>Writes` (kernel, `by rfl`); lean/Props/C20Prog.lean proves that on every
successful initialize the model's trace (DroopModel/Session.lean) writes exactly these attributes.
Besides, over the whole package (process_state): every module-level or class-body-level name bound to a mutable container, every `global`
statement, and every store to a class attribute from inside a function in any class other than the three value classes - state that can outlive
an Election object.  usage: gen_initwrites.py <repo> <out.lean>   (importable: programs(repo) -> dict)"""
import ast, os, sys


class TranslationError(Exception):
    pass


TESTS = {"cls.name == 'integer'": '.nameIsInteger', 'cls.display != cls.precision': '.dispNePrec',
         'cls.display > cls.precision + cls.guard': '.dispGtPrecGuard', 'cls.display > cls.precision': '.dispGtPrec',
         'cls.__geps == 0': '.gepsZero', 'cls.display <= cls.precision': '.dispLePrec', 'cls.guard == 0': '.guardZero'}

CLASSES = [('fixed', 'Fixed', 'fixedWrites'), ('guarded', 'Guarded', 'guardedWrites'), ('rational', 'Rational', 'rationalWrites')]


def _cls_attr(t):
    """attribute name if t is cls.<a> or cls.<a>.<...>"""
    chain = []
    while isinstance(t, ast.Attribute):
        chain.append(t.attr); t = t.value
    if isinstance(t, ast.Name) and t.id == 'cls' and chain:
        return chain[-1]
    return None


def _mentions_cls_store(node):
    for n in ast.walk(node):
        if isinstance(n, (ast.Assign, ast.AugAssign, ast.AnnAssign)):
            ts = n.targets if isinstance(n, ast.Assign) else [n.target]
            for t in ts:
                for e in ast.walk(t):
                    if _cls_attr(e) is not None:
                        return True
        if isinstance(n, ast.Call) and isinstance(n.func, ast.Name) and n.func.id in ('setattr', 'delattr'):
            return True
        if isinstance(n, ast.Delete):
            return True
    return False


def walk(body, path, out):
    for st in body:
        if isinstance(st, (ast.Assign, ast.AugAssign, ast.AnnAssign)):
            ts = st.targets if isinstance(st, ast.Assign) else [st.target]
            for t in ts:
                if isinstance(t, (ast.Tuple, ast.List)):
                    if _mentions_cls_store(st):
                        raise TranslationError('tuple assignment to class attributes: %s' % ast.unparse(st))
                    continue
                a = _cls_attr(t)
                if a is not None:
                    out.append((list(path), a))
        elif isinstance(st, ast.If):
            if not _mentions_cls_store(st):
                continue
            txt = ast.unparse(st.test)
            if txt not in TESTS:
                raise TranslationError('class attribute assigned under a test the model does not know: if %s' % txt)
            walk(st.body, path + [(TESTS[txt], True)], out)
            walk(st.orelse, path + [(TESTS[txt], False)], out)
        elif isinstance(st, ast.Try):
            walk(st.body, path, out)
            for h in st.handlers:
                walk(h.body, path, out)
            walk(st.orelse, path, out)
            walk(st.finalbody, path, out)
        elif _mentions_cls_store(st):
            raise TranslationError('class attribute assigned inside a statement that is not accepted: %s' % ast.unparse(st)[:120])


def programs(repo):
    res = {}
    for mod, cname, lname in CLASSES:
        path = os.path.join(repo, 'droop', 'values', mod + '.py')
        tree = ast.parse(open(path).read(), path)
        cls = [n for n in tree.body if isinstance(n, ast.ClassDef) and n.name == cname]
        if len(cls) != 1:
            raise TranslationError('%s: class %s not found once' % (path, cname))
        inits = [n for n in cls[0].body if isinstance(n, ast.FunctionDef) and n.name == 'initialize']
        if len(inits) != 1:
            raise TranslationError('%s: %d definitions of %s.initialize' % (path, len(inits), cname))
        f = inits[0]
        if [a.arg for a in f.args.args][:1] != ['cls']:
            raise TranslationError('%s: initialize does not take cls first' % path)
        out = []
        walk(f.body, [], out)
        # writes to class attributes anywhere else in the class body that are not per-comparison statistics
        others = []
        for n in cls[0].body:
            if isinstance(n, ast.FunctionDef) and n.name != 'initialize':
                for e in ast.walk(n):
                    if isinstance(e, (ast.Assign, ast.AugAssign)):
                        for t in (e.targets if isinstance(e, ast.Assign) else [e.target]):
                            ch = []
                            tt = t
                            while isinstance(tt, ast.Attribute):
                                ch.append(tt.attr); tt = tt.value
                            if isinstance(tt, ast.Name) and tt.id in ('cls', cname) and ch:
                                others.append((n.name, ch[-1]))
        res[lname] = (out, sorted(set(others)))
    res['__process__'] = process_state(repo)
    return res


MUTABLE_CALLS = ('dict', 'list', 'set', 'defaultdict', 'OrderedDict', 'Counter', 'deque', 'bytearray')


def _is_container(v):
    if isinstance(v, (ast.Dict, ast.List, ast.Set, ast.ListComp, ast.DictComp, ast.SetComp)):
        return True
    if isinstance(v, ast.Call):
        f = v.func
        return (isinstance(f, ast.Name) and f.id in MUTABLE_CALLS) or (isinstance(f, ast.Attribute) and f.attr in MUTABLE_CALLS)
    return False


def process_state(repo):
    """state that outlives an Election object anywhere in the package:
    containers   (module, scope, name) of every module-level or class-body-level name bound to a mutable container, and every `global` statement
    classWrites  (module, Class.method, attribute) of every store to `cls.<a>`, `<KnownClass>.<a>`, `self.__class__.<a>`, `type(self).<a>` inside a
                 function, in any class but the three value classes (those are in *WritesElsewhere)"""
    import glob
    root = os.path.join(repo, 'droop')
    containers, writes = [], []
    for path in sorted(glob.glob(os.path.join(root, '**', '*.py'), recursive=True)):
        rel = os.path.relpath(path, root)
        if rel.startswith('test'):
            continue
        tree = ast.parse(open(path).read(), path)
        classes = {n.name for n in ast.walk(tree) if isinstance(n, ast.ClassDef)}
        def scan(body, scope):
            for st in body:
                if isinstance(st, ast.ClassDef):
                    scan(st.body, (scope + '.' if scope else '') + st.name)
                elif isinstance(st, (ast.Assign, ast.AnnAssign)) and st.value is not None and _is_container(st.value):
                    for t in (st.targets if isinstance(st, ast.Assign) else [st.target]):
                        containers.append((rel, scope or '<module>', ast.unparse(t)))
        scan(tree.body, '')
        for n in ast.walk(tree):
            if isinstance(n, ast.Global):
                containers.append((rel, 'global', ','.join(n.names)))
        def visit(node, owner, in_func):
            for ch in ast.iter_child_nodes(node):
                o, f = owner, in_func
                if isinstance(ch, ast.ClassDef):
                    o = (owner + '.' if owner else '') + ch.name
                elif isinstance(ch, (ast.FunctionDef, ast.AsyncFunctionDef)):
                    o = (owner + '.' if owner else '') + ch.name; f = True
                if f and isinstance(ch, (ast.Assign, ast.AugAssign, ast.AnnAssign)):
                    for t0 in (ch.targets if isinstance(ch, ast.Assign) else [ch.target]):
                        for t in ast.walk(t0):
                            if isinstance(t, (ast.Attribute, ast.Subscript)) and isinstance(getattr(t, 'ctx', None), ast.Store):
                                base = t.value
                                while isinstance(base, (ast.Attribute, ast.Subscript)) and not (
                                        isinstance(base, ast.Attribute) and ast.unparse(base) in ('self.__class__',)):
                                    inner = base.value
                                    if isinstance(inner, ast.Name) or ast.unparse(inner) in ('self.__class__', 'type(self)'):
                                        break
                                    base = inner
                                txt = ast.unparse(t)
                                head = txt.split('.')[0].split('[')[0]
                                if head in classes or head == 'cls' or txt.startswith('self.__class__') or txt.startswith('type(self)'):
                                    if not any(o.startswith(c + '.') or ('.' + c + '.') in o for c in ('Fixed', 'Guarded', 'Rational')):
                                        writes.append((rel, o, txt))
                visit(ch, o, f)
        visit(tree, '', False)
    return sorted(set(containers)), sorted(set(writes))


def _lean_prog(entries):
    def one(e):
        path, a = e
        return '([%s], "%s")' % (', '.join('(%s, %s)' % (t, 'true' if b else 'false') for t, b in path), a)
    return '[' + ', '.join(one(e) for e in entries) + ']'


def lean_file(res):
    lines = ['import Props.C20Prog', 'namespace Gen', 'open Droop Droop.C20', '']
    for lname, (entries, others) in sorted((k, v) for k, v in res.items() if not k.startswith('__')):
        lines.append('def %s : WProg := %s' % (lname, _lean_prog(entries)))
        lines.append('theorem %s_is_committed : %s = C20.%s := by rfl' % (lname, lname, lname))
        lines.append('#print axioms %s_is_committed' % lname)
        lines.append('def %sElsewhere : List (String × String) := [%s]' % (lname, ', '.join('("%s", "%s")' % o for o in others)))
        lines.append('theorem %sElsewhere_is_committed : %sElsewhere = C20.%sElsewhere := by rfl' % (lname, lname, lname))
        lines.append('#print axioms %sElsewhere_is_committed' % lname)
        lines.append('')
    cont, wr = res.get('__process__', ([], []))
    lines.append('def processContainers : List (String × String × String) := [%s]' % ', '.join('("%s", "%s", "%s")' % c for c in cont))
    lines.append('theorem processContainers_is_committed : processContainers = C20.processContainers := by rfl')
    lines.append('#print axioms processContainers_is_committed')
    lines.append('def classWritesOutsideValues : List (String × String × String) := [%s]' % ', '.join('("%s", "%s", "%s")' % c for c in wr))
    lines.append('theorem classWritesOutsideValues_is_committed : classWritesOutsideValues = C20.classWritesOutsideValues := by rfl')
    lines.append('#print axioms classWritesOutsideValues_is_committed')
    lines.append('end Gen')
    return '\n'.join(lines) + '\n'


if __name__ == '__main__':
    repo, outp = sys.argv[1], sys.argv[2]
    open(outp, 'w').write(lean_file(programs(repo)))
