#!/venv/bin/python
"""Extractor for C20: the class-attribute assignments of Fixed.initialize, Guarded.initialize and Rational.initialize
(droop/values/{fixed,guarded,rational}.py), in program order, each with its path condition.

For each `initialize` the body is walked statement by statement:
  * `cls.<attr> = ...`, `cls.<attr>._value = ...`, `cls.<attr> += ...`        -> one entry (path condition, attr)
  * `if <test>: A else: B`  -> A walked under (test, True), B under (test, False); an `if` whose branches contain no class-attribute
    assignment contributes nothing (the validation tests that only raise); a test that guards an assignment must be one of TESTS
    (its ast.unparse text) - anything else is refused
  * `try: A except ...: H`  -> A walked; a handler that assigns a class attribute is walked under the path condition it stands in
    (Rational's `except TypeError: cls.__default_denominator = 1`)
  * any other statement that contains an assignment to a `cls.` attribute (a loop, a `with`, setattr(cls, ...), a nested function) is refused.
The generated Lean file states `Gen.<class>Writes = C20.<class>Writes` (kernel, `by rfl`); lean/Props/C20Prog.lean proves that on every
successful initialize the model's trace (DroopModel/Session.lean) writes exactly these attributes.
usage: gen_initwrites.py <repo> <out.lean>   (importable: programs(repo) -> dict)"""
import ast, os, sys


class TranslationError(Exception):
    pass


TESTS = {"cls.name == 'integer'": '.nameIsInteger', 'cls.display != cls.precision': '.dispNePrec',
         'cls.display > cls.precision + cls.guard': '.dispGtPrecGuard', 'cls.display > cls.precision': '.dispGtPrec',
         'cls.__geps == 0': '.gepsZero', 'cls.display <= cls.precision': '.dispLePrec', 'cls.guard == 0': '.guardZero'}

CLASSES = [('fixed', 'Fixed', 'fixedWrites'), ('guarded', 'Guarded', 'guardedWrites'), ('rational', 'Rational', 'rationalWrites')]


def _cls_attr(t):
    """attribute name if t is cls.<a> or cls.<a>.<...>"""
    chain = []
    while isinstance(t, ast.Attribute):
        chain.append(t.attr); t = t.value
    if isinstance(t, ast.Name) and t.id == 'cls' and chain:
        return chain[-1]
    return None


def _mentions_cls_store(node):
    for n in ast.walk(node):
        if isinstance(n, (ast.Assign, ast.AugAssign, ast.AnnAssign)):
            ts = n.targets if isinstance(n, ast.Assign) else [n.target]
            for t in ts:
                for e in ast.walk(t):
                    if _cls_attr(e) is not None:
                        return True
        if isinstance(n, ast.Call) and isinstance(n.func, ast.Name) and n.func.id in ('setattr', 'delattr'):
            return True
        if isinstance(n, ast.Delete):
            return True
    return False


def walk(body, path, out):
    for st in body:
        if isinstance(st, (ast.Assign, ast.AugAssign, ast.AnnAssign)):
            ts = st.targets if isinstance(st, ast.Assign) else [st.target]
            for t in ts:
                if isinstance(t, (ast.Tuple, ast.List)):
                    if _mentions_cls_store(st):
                        raise TranslationError('tuple assignment to class attributes: %s' % ast.unparse(st))
                    continue
                a = _cls_attr(t)
                if a is not None:
                    out.append((list(path), a))
        elif isinstance(st, ast.If):
            if not _mentions_cls_store(st):
                continue
            txt = ast.unparse(st.test)
            if txt not in TESTS:
                raise TranslationError('class attribute assigned under a test the model does not know: if %s' % txt)
            walk(st.body, path + [(TESTS[txt], True)], out)
            walk(st.orelse, path + [(TESTS[txt], False)], out)
        elif isinstance(st, ast.Try):
            walk(st.body, path, out)
            for h in st.handlers:
                walk(h.body, path, out)
            walk(st.orelse, path, out)
            walk(st.finalbody, path, out)
        elif _mentions_cls_store(st):
            raise TranslationError('class attribute assigned inside a statement that is not accepted: %s' % ast.unparse(st)[:120])


def programs(repo):
    res = {}
    for mod, cname, lname in CLASSES:
        path = os.path.join(repo, 'droop', 'values', mod + '.py')
        tree = ast.parse(open(path).read(), path)
        cls = [n for n in tree.body if isinstance(n, ast.ClassDef) and n.name == cname]
        if len(cls) != 1:
            raise TranslationError('%s: class %s not found once' % (path, cname))
        inits = [n for n in cls[0].body if isinstance(n, ast.FunctionDef) and n.name == 'initialize']
        if len(inits) != 1:
            raise TranslationError('%s: %d definitions of %s.initialize' % (path, len(inits), cname))
        f = inits[0]
        if [a.arg for a in f.args.args][:1] != ['cls']:
            raise TranslationError('%s: initialize does not take cls first' % path)
        out = []
        walk(f.body, [], out)
        # writes to class attributes anywhere else in the class body that are not per-comparison statistics
        others = []
        for n in cls[0].body:
            if isinstance(n, ast.FunctionDef) and n.name != 'initialize':
                for e in ast.walk(n):
                    if isinstance(e, (ast.Assign, ast.AugAssign)):
                        for t in (e.targets if isinstance(e, ast.Assign) else [e.target]):
                            ch = []
                            tt = t
                            while isinstance(tt, ast.Attribute):
                                ch.append(tt.attr); tt = tt.value
                            if isinstance(tt, ast.Name) and tt.id in ('cls', cname) and ch:
                                others.append((n.name, ch[-1]))
        res[lname] = (out, sorted(set(others)))
    return res


def _lean_prog(entries):
    def one(e):
        path, a = e
        return '([%s], "%s")' % (', '.join('(%s, %s)' % (t, 'true' if b else 'false') for t, b in path), a)
    return '[' + ', '.join(one(e) for e in entries) + ']'


def lean_file(res):
    lines = ['import Props.C20Prog', 'namespace Gen', 'open Droop Droop.C20', '']
    for lname, (entries, others) in sorted(res.items()):
        lines.append('def %s : WProg := %s' % (lname, _lean_prog(entries)))
        lines.append('theorem %s_is_committed : %s = C20.%s := by rfl' % (lname, lname, lname))
        lines.append('#print axioms %s_is_committed' % lname)
        lines.append('def %sElsewhere : List (String × String) := [%s]' % (lname, ', '.join('("%s", "%s")' % o for o in others)))
        lines.append('theorem %sElsewhere_is_committed : %sElsewhere = C20.%sElsewhere := by rfl' % (lname, lname, lname))
        lines.append('#print axioms %sElsewhere_is_committed' % lname)
        lines.append('')
    lines.append('end Gen')
    return '\n'.join(lines) + '\n'


if __name__ == '__main__':
    repo, outp = sys.argv[1], sys.argv[2]
    open(outp, 'w').write(lean_file(programs(repo)))
