#!/venv/bin/python
"""Extractor for C18: which keys an action of the election record has — `ElectionRecord.action` (<repo>/droop/record.py) and the
`action` hooks of `MethodMeek` / `MethodWIGM` (<repo>/droop/rules/electionmethods.py) — as the three tables of lean/DroopModel/Json.lean
(`Gen.actionBaseKeys = Droop.actionBaseKeys` ..., `by rfl`).  Accepted: `A = dict(tag=tag, msg=msg, round=E.round)`, the early
`if tag == 'log': ... return`, `A['<key>'] = <expr>` for cstate / votes / quota, and in the hooks `action['<key>'] = self.E.<attr>`.
usage: gen_actions.py <repo> <out.lean>"""
import ast, os, sys


class TranslationError(Exception):
    pass


def _path(node):
    parts = []
    while isinstance(node, ast.Attribute):
        parts.append(node.attr); node = node.value
    if isinstance(node, ast.Name):
        parts.append(node.id)
        return '.'.join(reversed(parts))
    return None


def _src(v):
    p = _path(v)
    if p in ('tag', 'msg', 'E.round', 'E.quota'):
        return p
    if isinstance(v, ast.Call) and _path(v.func) == 'C.cState' and not v.args:
        return 'C.cState()'
    if isinstance(v, ast.Call) and getattr(v.func, 'id', None) == 'sum':
        return 'sum'
    raise TranslationError('value not accepted in action(): %s' % ast.dump(v)[:140])


def tables(repo):
    path = os.path.join(repo, 'droop', 'record.py')
    tree = ast.parse(open(path).read(), path)
    fs = [n for n in ast.walk(tree) if isinstance(n, ast.FunctionDef) and n.name == 'action']
    if len(fs) != 1:
        raise TranslationError('%s: %d definitions of action' % (path, len(fs)))
    base = None; snap = []; saw_log = False
    for st in fs[0].body:
        if isinstance(st, ast.Assign) and len(st.targets) == 1 and getattr(st.targets[0], 'id', None) == 'A' and isinstance(st.value, ast.Call) \
                and getattr(st.value.func, 'id', None) == 'dict' and not st.value.args:
            base = [(k.arg, _src(k.value)) for k in st.value.keywords]
        elif isinstance(st, ast.If) and isinstance(st.test, ast.Compare) and getattr(st.test.left, 'id', None) == 'tag' \
                and isinstance(st.test.ops[0], ast.Eq) and getattr(st.test.comparators[0], 'value', None) == 'log' \
                and isinstance(st.body[-1], ast.Return):
            if snap:
                raise TranslationError('%s: keys are added before the log test' % path)
            saw_log = True
        elif isinstance(st, ast.Assign) and len(st.targets) == 1 and isinstance(st.targets[0], ast.Subscript) \
                and getattr(st.targets[0].value, 'id', None) == 'A' and isinstance(st.targets[0].slice, ast.Constant):
            snap.append((st.targets[0].slice.value, _src(st.value)))
    if base is None or not saw_log:
        raise TranslationError('%s: action() not of the accepted shape' % path)
    path = os.path.join(repo, 'droop', 'rules', 'electionmethods.py')
    tree = ast.parse(open(path).read(), path)
    hooks = {}
    for cls in [n for n in tree.body if isinstance(n, ast.ClassDef) and n.name in ('MethodMeek', 'MethodWIGM')]:
        fn = [n for n in cls.body if isinstance(n, ast.FunctionDef) and n.name == 'action']
        if len(fn) != 1:
            raise TranslationError('%s: %s.action not found once' % (path, cls.name))
        keys = []
        for st in ast.walk(fn[0]):
            if isinstance(st, ast.Assign) and len(st.targets) == 1 and isinstance(st.targets[0], ast.Subscript) \
                    and getattr(st.targets[0].value, 'id', None) == 'action' and isinstance(st.targets[0].slice, ast.Constant):
                p = _path(st.value)
                if not (p and p.startswith('self.E.')):
                    raise TranslationError('%s: %s.action: value not accepted' % (path, cls.name))
                keys.append((st.targets[0].slice.value, p[5:]))
        hooks[cls.name] = keys
    if set(hooks) != {'MethodMeek', 'MethodWIGM'}:
        raise TranslationError('%s: MethodMeek / MethodWIGM not both found' % path)
    # qpq.py has a hook of its own
    qpath = os.path.join(repo, 'droop', 'rules', 'qpq.py')
    qtree = ast.parse(open(qpath).read())
    fn = [n for n in ast.walk(qtree) if isinstance(n, ast.FunctionDef) and n.name == 'action']
    if len(fn) != 1:
        raise TranslationError('%s: action hook not found once' % qpath)
    qkeys = []
    for st in ast.walk(fn[0]):
        if isinstance(st, ast.Assign) and len(st.targets) == 1 and isinstance(st.targets[0], ast.Subscript) \
                and getattr(st.targets[0].value, 'id', None) == 'action' and isinstance(st.targets[0].slice, ast.Constant):
            p = _path(st.value)
            if not (p and p.startswith('self.E.')):
                raise TranslationError('%s: action: value not accepted' % qpath)
            qkeys.append((st.targets[0].slice.value, p[5:]))
    return dict(base=base, snap=snap, meek=hooks['MethodMeek'], wigm=hooks['MethodWIGM'], qpq=qkeys)


def _lst(l):
    return '[' + ', '.join('("%s", "%s")' % kv for kv in l) + ']'


def lean_file(t):
    return '\n'.join(['import DroopModel.Json', 'namespace Gen', 'open Droop', '',
                      'theorem base_is_committed : (%s : List (String × String)) = Droop.actionBaseKeys := by rfl' % _lst(t['base']),
                      'theorem snap_is_committed : (%s : List (String × String)) = Droop.actionSnapKeys := by rfl' % _lst(t['snap']),
                      'theorem meek_is_committed : (%s : List (String × String)) = Droop.actionHookKeys .meek := by rfl' % _lst(t['meek']),
                      'theorem wigm_is_committed : (%s : List (String × String)) = Droop.actionHookKeys .wigm := by rfl' % _lst(t['wigm']),
                      'theorem qpq_is_committed : (%s : List (String × String)) = Droop.actionHookKeys .qpq := by rfl' % _lst(t['qpq']),
                      '#print axioms base_is_committed', '#print axioms snap_is_committed', '#print axioms meek_is_committed',
                      '#print axioms wigm_is_committed', '', 'end Gen', ''])


if __name__ == '__main__':
    open(sys.argv[2], 'w').write(lean_file(tables(sys.argv[1])))
