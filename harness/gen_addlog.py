#!/venv/bin/python
"""Extractor for C18 / C11: what `Candidates.add` logs for each candidate (droop/candidates.py).

`add` must end with `if self.E is not None:` containing one `if <t1>: self.E.log(<fmt> % c.name) elif <t2>: ... else: ...` chain; extracted:
[(test source text or 'else', message format)] in order.  Kernel-checked equal to `C18.addLogTable` (lean/Props/C18AddLog.lean), which proves the
model's `withAddLogs` logs exactly one line per candidate, chosen by these tests in this order.  usage: gen_addlog.py <repo> <out.lean>"""
import ast, os, sys


class TranslationError(Exception):
    pass


def table(repo):
    path = os.path.join(repo, 'droop', 'candidates.py')
    tree = ast.parse(open(path).read(), path)
    cls = [n for n in tree.body if isinstance(n, ast.ClassDef) and n.name == 'Candidates']
    fs = [n for n in cls[0].body if isinstance(n, ast.FunctionDef) and n.name == 'add'] if len(cls) == 1 else []
    if len(fs) != 1:
        raise TranslationError('Candidates.add not found once')
    last = fs[0].body[-1]
    if not (isinstance(last, ast.If) and ast.unparse(last.test) == 'self.E is not None' and len(last.body) == 1 and not last.orelse):
        raise TranslationError('Candidates.add does not end with `if self.E is not None: <chain>`')
    rows = []
    node = last.body[0]
    def msg(body):
        if len(body) != 1:
            raise TranslationError('branch with more than one statement')
        st = body[0]
        ok = (isinstance(st, ast.Expr) and isinstance(st.value, ast.Call) and ast.unparse(st.value.func) == 'self.E.log' and len(st.value.args) == 1
              and isinstance(st.value.args[0], ast.BinOp) and isinstance(st.value.args[0].op, ast.Mod)
              and isinstance(st.value.args[0].left, ast.Constant) and ast.unparse(st.value.args[0].right) == 'c.name')
        if not ok:
            raise TranslationError('branch is not `self.E.log(<fmt> %% c.name)`: %s' % ast.unparse(st)[:80])
        return st.value.args[0].left.value
    while True:
        if not isinstance(node, ast.If):
            raise TranslationError('not an if/elif/else chain')
        rows.append((ast.unparse(node.test), msg(node.body)))
        if len(node.orelse) == 1 and isinstance(node.orelse[0], ast.If):
            node = node.orelse[0]; continue
        rows.append(('else', msg(node.orelse)))
        break
    for r in rows:
        if '"' in r[0] or '"' in r[1]:
            raise TranslationError('text not accepted')
    return rows


def lean_file(rows):
    lines = ['import Props.C18AddLog', 'namespace Gen', 'open Droop Droop.C18', '']
    lines.append('def addLogTable : List (String × String) := [%s]' % ', '.join('("%s", "%s")' % r for r in rows))
    lines.append('theorem addLogTable_is_committed : addLogTable = C18.addLogTable := by rfl')
    lines.append('#print axioms addLogTable_is_committed')
    lines.append('end Gen')
    return '\n'.join(lines) + '\n'


if __name__ == '__main__':
    repo, outp = sys.argv[1], sys.argv[2]
    open(outp, 'w').write(lean_file(table(repo)))
