#!/venv/bin/python
"""Extractor for C19: what the renderers read from the record header, what `_fill` writes, and the shape of the interrupt path.

From droop/record.py (class ElectionRecord):
  headerKeys       the keys `_fill` assigns unconditionally (`self['k'] = ...` at the top level of the body), in program order
  conditionalKeys  the keys `_fill` assigns under an `if`
  reportNeeds      the keys `report` reads with `self['k']` (first occurrence order; 'actions', which `__init__` creates, left out)
  dumpNeeds        the same for `dump`
  jsonNeeds        the same for `json` (it serialises the whole record: normally empty)
  softKeys         keys read with `self.get('k')` anywhere in the three renderers (absence tolerated)
From droop/rules/*.py: hookNeeds = keys read with `record['k']` in any rule module (the report/dump/action hooks), sorted.
Shape (all must hold, else TranslationError):
  * the last statement of `_fill` is `self.filled = True`, and `filled` is assigned nowhere else in `_fill`;
  * `Election._interrupted` (droop/election.py) starts with `if not self.erecord.filled: self.erecord._fill()`;
  * `Election.report/dump/json(self, intr=False)` are `if intr: self._interrupted()` followed by `return self.erecord.<same>(...)`.
The generated Lean file states each list equal to the one of lean/Props/C19.lean / C19Prog.lean (kernel, `by rfl`).
usage: gen_needs.py <repo> <out.lean>"""
import ast, glob, os, sys


class TranslationError(Exception):
    pass


def _key(n, recv):
    """'k' if n is <recv>['k']"""
    if isinstance(n, ast.Subscript) and isinstance(n.value, ast.Name) and n.value.id == recv \
            and isinstance(n.slice, ast.Constant) and isinstance(n.slice.value, str):
        return n.slice.value
    return None


def _method(cls, name, path):
    fs = [n for n in cls.body if isinstance(n, ast.FunctionDef) and n.name == name]
    if len(fs) != 1:
        raise TranslationError('%s: %d definitions of %s' % (path, len(fs), name))
    return fs[0]


def _class(tree, name, path):
    cs = [n for n in tree.body if isinstance(n, ast.ClassDef) and n.name == name]
    if len(cs) != 1:
        raise TranslationError('%s: class %s not found once' % (path, name))
    return cs[0]


def _loads(fn, recv):
    out = []
    for n in sorted((n for n in ast.walk(fn) if isinstance(n, ast.Subscript) and isinstance(n.ctx, ast.Load)),
                    key=lambda n: (n.lineno, n.col_offset)):
        k = _key(n, recv)
        if k is not None and k not in out:
            out.append(k)
    return out


def _gets(fn, recv):
    out = []
    for n in ast.walk(fn):
        if isinstance(n, ast.Call) and isinstance(n.func, ast.Attribute) and n.func.attr == 'get' and isinstance(n.func.value, ast.Name) \
                and n.func.value.id == recv and n.args and isinstance(n.args[0], ast.Constant) and isinstance(n.args[0].value, str):
            out.append(n.args[0].value)
    return out


def tables(repo):
    path = os.path.join(repo, 'droop', 'record.py')
    tree = ast.parse(open(path).read(), path)
    rec = _class(tree, 'ElectionRecord', path)
    fill = _method(rec, '_fill', path)
    header, cond = [], []
    body = [st for st in fill.body if not (isinstance(st, ast.Expr) and isinstance(st.value, ast.Constant))]
    for st in body:
        if isinstance(st, ast.Assign) and len(st.targets) == 1 and _key(st.targets[0], 'self') is not None:
            header.append(_key(st.targets[0], 'self'))
        elif isinstance(st, ast.If):
            for n in ast.walk(st):
                if isinstance(n, ast.Assign):
                    for t in n.targets:
                        if _key(t, 'self') is not None:
                            cond.append(_key(t, 'self'))
        else:
            for n in ast.walk(st):
                if isinstance(n, ast.Subscript) and isinstance(n.ctx, ast.Store) and _key(n, 'self') is not None:
                    raise TranslationError('_fill: header key assigned inside a statement that is not accepted: %s' % ast.unparse(st)[:100])
    def is_filled_true(st):
        return (isinstance(st, ast.Assign) and len(st.targets) == 1 and ast.unparse(st.targets[0]) == 'self.filled'
                and isinstance(st.value, ast.Constant) and st.value.value is True)
    if not body or not is_filled_true(body[-1]):
        raise TranslationError('_fill: the last statement is not `self.filled = True`')
    nfilled = sum(1 for n in ast.walk(fill) if isinstance(n, (ast.Assign, ast.AugAssign))
                  for t in (n.targets if isinstance(n, ast.Assign) else [n.target]) if ast.unparse(t) == 'self.filled')
    if nfilled != 1:
        raise TranslationError('_fill: `self.filled` is assigned %d times' % nfilled)
    needs = {}
    soft = []
    for name in ('report', 'dump', 'json'):
        fn = _method(rec, name, path)
        needs[name] = [k for k in _loads(fn, 'self') if k != 'actions']
        soft += _gets(fn, 'self')
    hook = set()
    for rp in sorted(glob.glob(os.path.join(repo, 'droop', 'rules', '*.py'))):
        rt = ast.parse(open(rp).read(), rp)
        for n in ast.walk(rt):
            if isinstance(n, ast.Subscript) and isinstance(n.ctx, ast.Load) and _key(n, 'record') is not None:
                hook.add(_key(n, 'record'))
    # the interrupt path of Election
    epath = os.path.join(repo, 'droop', 'election.py')
    etree = ast.parse(open(epath).read(), epath)
    el = _class(etree, 'Election', epath)
    intr = _method(el, '_interrupted', epath)
    ib = [st for st in intr.body if not (isinstance(st, ast.Expr) and isinstance(st.value, ast.Constant))]
    if not ib or not (isinstance(ib[0], ast.If) and ast.unparse(ib[0].test) == 'not self.erecord.filled' and not ib[0].orelse
                      and len(ib[0].body) == 1 and ast.unparse(ib[0].body[0]) == 'self.erecord._fill()'):
        raise TranslationError('Election._interrupted does not start with `if not self.erecord.filled: self.erecord._fill()`')
    for name in ('report', 'dump', 'json'):
        fn = _method(el, name, epath)
        b = [st for st in fn.body if not (isinstance(st, ast.Expr) and isinstance(st.value, ast.Constant))]
        ok = (len(b) == 2 and isinstance(b[0], ast.If) and ast.unparse(b[0].test) == 'intr' and not b[0].orelse and len(b[0].body) == 1
              and ast.unparse(b[0].body[0]) == 'self._interrupted()' and isinstance(b[1], ast.Return)
              and ast.unparse(b[1].value).startswith('self.erecord.%s(' % name))
        if not ok:
            raise TranslationError('Election.%s is not `if intr: self._interrupted()` followed by `return self.erecord.%s(...)`' % (name, name))
    return dict(headerKeys=header, conditionalKeys=cond, reportNeeds=needs['report'], dumpNeeds=needs['dump'], jsonNeeds=needs['json'],
                softKeys=sorted(set(soft)), hookNeeds=sorted(hook))


def lean_file(t):
    lines = ['import Props.C19Prog', 'namespace Gen', 'open Droop Droop.C19', '']
    for name in sorted(t):
        lines.append('def %s : List String := [%s]' % (name, ', '.join('"%s"' % k for k in t[name])))
        lines.append('theorem %s_is_committed : %s = C19.%s := by rfl' % (name, name, name))
        lines.append('#print axioms %s_is_committed' % name)
        lines.append('')
    lines.append('end Gen')
    return '\n'.join(lines) + '\n'


if __name__ == '__main__':
    repo, outp = sys.argv[1], sys.argv[2]
    open(outp, 'w').write(lean_file(tables(repo)))
