"""Record / rendering checks (C18), interrupts (C19), process history (C20), presentation (C10), neutrality (C11)."""
import random, collections, os, sys, re, json, io, contextlib, hashlib, subprocess
import common, gen, campaign, findings, implrun
from props import prop, rng_for, budget, THEOREMS, first_diff, count_property, proj_C18, ALL, describe
from check import lean_gate


# =================================================================================================
# C18

def expected_display(o):
    c = gen.config(o)
    if o['rule'] in gen.STATUTORY:
        return c['p'] if o['rule'] != 'qpq' else 9
    d = o.get('display')
    if c['arith'] in ('fixed', 'integer'):
        return c['p'] if (d is None or d < 0 or d > c['p']) else d
    if c['arith'] == 'guarded':
        d = c['p'] if d is None else d
        return min(d, c['p'] + c['g'])
    return 12 if d is None else d


def _render_check(item):
    """count, then compare report / dump / JSON with the record and with what the election object reports"""
    p, o = item
    try:
        outcome, E, _ = implrun.count_record(gen.blt(p), o, want_weights=False)
    except Exception as e:
        return ('skip', 'init ' + type(e).__name__, None)
    if outcome != 'OK':
        return ('skip', outcome, None)
    errs = []
    try:
        rec = E.record(); acts = rec['actions']; cd = rec['cdict']; meth = E.rule.method
        S = str
        # final step = what the election object reports
        end = acts[-1]
        if end['tag'] != 'end':
            errs.append('last action is not end')
        st = {cid: c['state'] for cid, c in end['cstate'].items()}
        for name, objs in (('elected', E.elected), ('defeated', E.defeated), ('withdrawn', E.withdrawn)):
            if {c.cid for c in objs} != {cid for cid, s in st.items() if s == name}:
                errs.append('end snapshot %s differs from E.%s' % (name, name))
        # dump
        d = E.dump()
        rows = [r.split('\t') for r in d.split('\n')[:-1]]
        hdr = rows[0]
        if len(rows) - 1 != len(acts):
            errs.append('dump has %d rows for %d actions' % (len(rows) - 1, len(acts)))
        for a, r in zip(acts, rows[1:]):
            if a['tag'] in ('round', 'log', 'iterate'):
                if len(r) != 3 or r[1] != a['tag'] or r[2] != a['msg'] or r[0] != S(a['round']):
                    errs.append('dump message row %r' % (r[:3],)); break
                continue
            if len(r) != len(hdr):
                errs.append('dump row has %d columns, header %d' % (len(r), len(hdr))); break
            if r[1] != a['tag'] or r[2] != S(a['quota']) or r[0] != ('X' if a['tag'] == 'end' else S(a['round'])):
                errs.append('dump row head %r' % (r[:3],)); break
            per = 3 if meth != 'meek' else 4
            base = 3 + (1 if meth == 'wigm' else 3 if meth == 'meek' else 0)
            if meth == 'wigm' and r[3] != S(a['nt_votes']): errs.append('dump nt_votes')
            if meth == 'meek' and r[3:6] != [S(a['votes']), S(a['surplus']), S(a['residual'])]: errs.append('dump meek totals')
            for k, cid in enumerate(rec['ecids']):
                c = a['cstate'][cid]; f = r[base + per * k: base + per * (k + 1)]
                want = [cd[cid]['name'], c['code']] + ([S(c['vote'])] if meth == 'wigm' else [S(c['vote']), S(c.get('kf'))] if meth == 'meek' else [S(c.get('quotient'))])
                if f != want:
                    errs.append('dump fields of %s: %r vs record %r' % (cd[cid]['name'], f, want)); break
        # JSON
        J = json.loads(E.json())
        if len(J['actions']) != len(acts):
            errs.append('json action count')
        for a, b in zip(acts, J['actions']):
            if (a['tag'], a['msg'], a['round']) != (b['tag'], b['msg'], b['round']):
                errs.append('json action head'); break
            if a['tag'] == 'log':
                continue
            for k in ('quota', 'votes', 'nt_votes', 'residual', 'surplus'):
                if k in a and b.get(k) != S(a[k]):
                    errs.append('json %s' % k)
            for cid, c in a['cstate'].items():
                jb = b['cstate'][str(cid)]
                for k, v in c.items():
                    jv = jb.get(k)
                    if k in ('vote', 'kf', 'quotient'):
                        v = S(v)
                    if jv != v:
                        errs.append('json cstate %s.%s: %r vs %r' % (cid, k, jv, v)); break
        if J['seats'] != rec['seats'] or J['nballots'] != rec['nballots'] or J['quota'] != S(rec['quota']):
            errs.append('json header')
        # report
        rep = E.report()
        blocks = rep.split('Action: ')[1:]
        shown = [a for a in acts if a['tag'] not in ('log', 'round')]
        if len(blocks) != len(shown):
            errs.append('report has %d action blocks for %d actions' % (len(blocks), len(shown)))
        listing = ('begin', 'count', 'elect', 'defeat', 'pend', 'transfer', 'end') if meth != 'qpq' else ('begin', 'elect', 'defeat', 'transfer', 'end')
        for a, blk in zip(shown, blocks):
            lines = blk.split('\n')
            if lines[0] != a['msg']:
                errs.append('report block title %r vs %r' % (lines[0][:60], a['msg'][:60])); break
            if a['tag'] not in listing:
                continue
            got = {}
            for ln in lines[1:]:
                m = re.match(r'\t(Elected|Pending|Hopeful|Defeated): +(.*) \(([^()]*)\)$', ln)
                if m:
                    for nm in m.group(2).split(', ') if m.group(1) == 'Defeated' else [m.group(2)]:
                        got[nm] = (m.group(1), m.group(3))
            want = {}
            for cid, c in a['cstate'].items():
                if c['state'] == 'withdrawn':
                    continue
                cat = {'hopeful': 'Hopeful', 'defeated': 'Defeated', 'elected': 'Pending' if c.get('pending') else 'Elected'}[c['state']]
                want[cd[cid]['name']] = (cat, S(c['quotient']) if meth == 'qpq' else S(c['vote']))
            if got != want:
                errs.append('report block "%s": %r vs record %r' % (a['msg'][:40], sorted(got.items())[:4], sorted(want.items())[:4])); break
        # title, source and comment of the file are the ones in the record (and so in the header compared below)
        for key, want_v in (('title', p.get('title', 't')), ('profile_source', p.get('source')), ('profile_comment', p.get('comment') if p.get('source') is not None else None)):
            if want_v is not None:
                want_v = ' '.join(want_v.split())     # a quoted string is read token by token: runs of blanks denote one blank
            if rec.get(key) != want_v:
                errs.append('record %s is %r, the file says %r' % (key, rec.get(key), want_v))
        hexdump = d.encode('utf-8').hex() + '.'
        # the action section of the report, for the comparison with lean/DroopModel/Report.lean: the header is rebuilt from
        # the record exactly as ElectionRecord.report() writes it and cut off
        hd = "\nElection: %s\n\n" % rec['title']
        hd += "\tDroop package: %s v%s\n" % (rec['droop_name'], rec['droop_version'])
        hd += "\tRule: %s\n" % rec['rule_info']
        hd += "\tArithmetic: %s\n" % rec['arithmetic_info']
        if E.options.unused():
            hd += "\tUnused options: %s\n" % ", ".join(E.options.unused())
        if E.options.overrides():
            hd += "\tOverridden options: %s\n" % ", ".join(E.options.overrides())
        hd += "\tSeats: %d\n" % rec['seats'] + "\tBallots: %d\n" % rec['nballots']
        hd += "\t%s: %s\n" % (E.rule.quota_name, rec['quota'])
        if meth == 'meek':
            hd += "\tOmega: %s\n" % rec.get('omega')
        if rec.get('profile_source') is not None:
            hd += "Source: %s\n" % rec.get('profile_source')
        if rec.get('profile_comment') is not None:
            hd += "{%s}\n" % rec.get('profile_comment')
        hd += "\n"
        if rec.get('arithmetic_report') is not None:
            hd += rec.get('arithmetic_report')
        if not rep.startswith(hd):
            errs.append('report header is not the one the record describes: %r vs %r' % (rep[:len(hd)][-80:], hd[-80:]))
            hexrep = None
        else:
            hexrep = (rep[len(hd):].encode('utf-8').hex() + '.', ','.join(a['msg'].encode('utf-8').hex() + '.' for a in acts))
        # the "actions" array of the JSON text, for the comparison with lean/DroopModel/Json.lean (sort_keys puts it first)
        hexjson = None
        js = E.json()
        mark = '{\n  "actions": [\n'
        if not js.startswith(mark) or '\n  ],\n' not in js:
            hexjson = js[:4000].encode('utf-8').hex() + '.'     # laid out differently: the correspondence reports it
        else:
            hexjson = js[len(mark):js.index('\n  ],\n')].encode('utf-8').hex() + '.'
        # the three renderings of one (interrupted) record are renderings of the same record: asking for all of them, as
        # Droop.main does, adds the interruption note once
        n0 = len(acts)
        r3 = E.report(True); d3 = E.dump(True); j3 = json.loads(E.json(True))
        n3 = len(E.record()['actions'])
        if n3 != n0 + 1:
            errs.append('report+dump+json of an interrupted record add %d actions to the record (expected the one note)' % (n3 - n0))
        if len(d3.split('\n')) - 2 != n3 or len(j3['actions']) != n3:
            errs.append('renderings of the interrupted record disagree on the number of actions: dump %d, json %d, record %d'
                        % (len(d3.split('\n')) - 2, len(j3['actions']), n3))
    except Exception as e:
        import traceback
        return ('exc', type(e).__name__ + ' ' + traceback.format_exc()[-300:], None, None, None)
    return ('bad' if errs else 'ok', errs[:4], hexdump, hexrep, hexjson)


def code_gate(run):
    """C18 translator: Candidate.code() regenerated from droop/candidate.py (harness/gen_code.py), kernel-checked equal to
    C18.codeProg, which lean/Props/C18Prog.lean proves to be the model's status code."""
    import gen_code, subprocess
    cov = run.coverage
    try:
        prog = gen_code.program(common.REPO)
    except gen_code.TranslationError as e:
        cov['translator_code'] = dict(status='refused', why=str(e))
        return ['translator harness/gen_code.py refused the source: %s' % e]
    except Exception as e:
        cov['translator_code'] = dict(status='error', why='%s: %s' % (type(e).__name__, e))
        return ['translator harness/gen_code.py failed: %s: %s' % (type(e).__name__, e)]
    gdir = os.path.join(common.LEAN, '.lake', 'gen')
    os.makedirs(gdir, exist_ok=True)
    path = os.path.join(gdir, 'Code_%d.lean' % os.getpid())
    open(path, 'w').write(gen_code.lean_file(prog))
    try:
        r = subprocess.run(['lake', 'env', 'lean', path], cwd=common.LEAN, capture_output=True, text=True, timeout=600)
        out = r.stdout + r.stderr
    finally:
        try: os.remove(path)
        except OSError: pass
    ok = r.returncode == 0 and 'error' not in out.lower()
    axioms_ok = all(set(a.strip() for a in m.split(',') if a.strip()) <= common.STD_AXIOMS
                    for m in re.findall(r"depends on axioms: \[([^\]]*)\]", out, flags=re.S))
    cov['translator_code'] = dict(status='checked' if ok and axioms_ok else 'mismatch',
                                  obligation='Gen.code = C18.codeProg by rfl; code_is_program (lean/Props/C18Prog.lean)')
    if ok and axioms_ok:
        return []
    return ['Candidate.code() of droop/candidate.py, translated, is no longer the table lean/Props/C18Prog.lean proves the model status code equal to: '
            + ' '.join(l for l in out.split('\n') if 'error' in l.lower())[:300]]


def asdict_gate(run):
    from props import gen_gate
    return gen_gate(run, 'translator_asdict', 'gen_asdict', 'table',
                    'Gen.asDictTable = Droop.asDictTable by rfl; the JSON model (lean/DroopModel/Json.lean jsonCand) emits the keys of that table',
                    'Candidate.as_dict of droop/candidate.py, extracted, is no longer the table the JSON model is driven by')


def actions_gate(run):
    from props import gen_gate
    return gen_gate(run, 'translator_actions', 'gen_actions', 'tables',
                    'the key tables of ElectionRecord.action and the MethodMeek / MethodWIGM / qpq action hooks = Droop.actionBaseKeys, actionSnapKeys, actionHookKeys by rfl; '
                    'the JSON model (jsonAction) emits the keys of those tables',
                    'ElectionRecord.action / the rule action hooks, extracted, are no longer the tables the JSON model is driven by')


def addlog_gate(run):
    from props import gen_gate
    return gen_gate(run, 'translator_addlog', 'gen_addlog', 'table',
                    'Gen.addLogTable = C18.addLogTable by rfl; withAddLogs_is_table, withAddLogs_frame, withAddLogs_length (lean/Props/C18AddLog.lean)',
                    'the log lines of Candidates.add (droop/candidates.py), extracted, are no longer the chain lean/Props/C18AddLog.lean proves the model to follow')


def dump_gate(run):
    from props import gen_gate
    return gen_gate(run, 'translator_dump', 'gen_dump', 'tables',
                    'Gen.dumpHooks / dumpBase / dumpCand / dumpMsgTags = C18.* by rfl; dumpHeader_is_table, dumpRow_is_table (lean/Props/C18Dump.lean)',
                    'ElectionRecord.dump or the dump hooks of MethodMeek / MethodWIGM / qpq, extracted, are no longer the column tables '
                    'lean/Props/C18Dump.lean proves the dump model to evaluate')


@prop('C18')
def C18(run):
    count_property(run, dict(rules=ALL, keys=['C18'], proj=proj_C18, quick=4000, thorough=100000,
                             extra_gate=lambda run: code_gate(run) + asdict_gate(run) + actions_gate(run) + dump_gate(run) + addlog_gate(run)))
    rng = rng_for(run, 'render')
    cases = campaign.make_cases(rng, budget(run, 3000, 80000), ALL)
    items = []
    for fam, p, o in cases:
        if o['rule'] in ('wigm', 'meek', 'warren') and rng.random() < 0.4 and o.get('arithmetic') in ('fixed', 'guarded', 'rational'):
            o = dict(o); o['display'] = rng.choice([0, 1, 2, 3, 5, 8, 12])
        if rng.random() < 0.3:
            p = dict(p); p['title'] = rng.choice(['An election', 'x', 'Ward 7 by-election 2011'])
            p['source'] = rng.choice(['returning officer', 'a b  c', 's'])
            if rng.random() < 0.6:
                p['comment'] = rng.choice(['recount', 'two  words', 'c'])
        items.append((p, o))
    # minimised past failures first
    try:
        for c in json.load(open(os.path.join(common.VERIF, 'corpus', 'render_cases.json'))):
            items.insert(0, (gen.unblt(c['blt']), c['options']))
    except (OSError, ValueError):
        pass
    res = common.pmap(_render_check, items, limit=20.0)
    ins, idx = [], []
    rins, ridx = [], []
    jins, jidx = [], []
    nb = 0
    for k, ((p, o), r) in enumerate(zip(items, res)):
        if r[0] == 'bad' or r[0] == 'exc':
            nb += 1
            if nb <= 3:
                run.violation(dict(kind='implementation', what='renderings disagree with the record: %s' % (r[1],), blt=gen.blt(p), options=o))
        elif r[0] == 'ok':
            ins.append('DUMP %d %s' % (expected_display(o), gen.case_line(p, o))); idx.append(k)
            if len(r) > 3 and r[3]:
                rins.append('REPORT %d %s @@ %s' % (expected_display(o), gen.case_line(p, o), r[3][1])); ridx.append(k)
            if len(r) > 4 and r[4] and r[3]:
                jins.append('JSON %d %s @@ %s' % (expected_display(o), gen.case_line(p, o), r[3][1])); jidx.append(k)
    model = common.run_driver_parallel(ins)
    rmodel = common.run_driver_parallel(rins)
    jmodel = common.run_driver_parallel(jins)
    njc = 0; firstj = None
    for k, m in zip(jidx, jmodel):
        if m != res[k][4]:
            njc += 1
            if firstj is None:
                try:
                    gm = bytes.fromhex(m.rstrip('.')).decode(); em = bytes.fromhex(res[k][4].rstrip('.')).decode()
                    diff = next(((x, y) for x, y in zip(gm.split('\n'), em.split('\n')) if x != y), (gm[-200:], em[-200:]))
                except ValueError:
                    diff = (m[:200], '')
                firstj = dict(blt=gen.blt(items[k][0]), options=items[k][1], model_line=diff[0][:300], implementation_line=diff[1][:300])
    run.coverage['json_action_arrays_compared_with_model'] = len(jins)
    run.coverage['json_disagreements'] = njc
    nrc = 0; firstr = None
    for k, m in zip(ridx, rmodel):
        if m != res[k][3][0]:
            nrc += 1
            if firstr is None:
                try:
                    gm = bytes.fromhex(m.rstrip('.')).decode(); em = bytes.fromhex(res[k][3][0].rstrip('.')).decode()
                    diff = next(((x, y) for x, y in zip(gm.split('\n'), em.split('\n')) if x != y), (gm[-200:], em[-200:]))
                except ValueError:
                    diff = (m[:200], '')
                firstr = dict(blt=gen.blt(items[k][0]), options=items[k][1], model_line=diff[0][:300], implementation_line=diff[1][:300])
    run.coverage['report_action_sections_compared_with_model'] = len(rins)
    run.coverage['report_disagreements'] = nrc
    ncorr = 0; firstc = None
    for k, m in zip(idx, model):
        if m != res[k][2]:
            ncorr += 1
            if firstc is None:
                try:
                    gm = bytes.fromhex(m.rstrip('.')).decode(); em = bytes.fromhex(res[k][2].rstrip('.')).decode()
                    diff = next(((x, y) for x, y in zip(gm.split('\n'), em.split('\n')) if x != y), ('?', '?'))
                except ValueError:
                    diff = (m[:200], '')
                firstc = dict(blt=gen.blt(items[k][0]), options=items[k][1], model_row=diff[0][:400], implementation_row=diff[1][:400])
    if ncorr and not run.violations:
        firstc.update(kind='correspondence', broken=['correspondence DUMP (lean/DroopModel/Render.lean vs ElectionRecord.dump)'], disagreeing_cases=ncorr)
        run.violation(firstc, 'no-failing-input-found')
    if nrc and not run.violations:
        firstr.update(kind='correspondence', broken=['correspondence REPORT (lean/DroopModel/Report.lean vs ElectionRecord.report, action section)'], disagreeing_cases=nrc)
        run.violation(firstr, 'no-failing-input-found')
    if njc and not run.violations:
        firstj.update(kind='correspondence', broken=['correspondence JSON (lean/DroopModel/Json.lean vs ElectionRecord.json, actions array)'], disagreeing_cases=njc)
        run.violation(firstj, 'no-failing-input-found')
    run.coverage['renderings_checked'] = len(items)
    run.coverage['dump_bytes_compared_with_model'] = len(ins)
    run.coverage['dump_disagreements'] = ncorr
    run.coverage['evaluations'] += len(items)


# =================================================================================================
# C19

def _interrupt_points(item):
    """every sampled interruption point of one election: renderers work, are marked, and show a prefix of the full record"""
    p, o, ks_seed, maxpoints = item
    from droop.profile import ElectionProfile
    from droop.election import Election
    text = gen.blt(p)
    droopdir = os.path.join(common.REPO, 'droop')

    def run_to(k):
        E = Election(ElectionProfile(data=text), dict(o))
        cnt = [0]
        def tracer(frame, event, arg):
            if not frame.f_code.co_filename.startswith(droopdir):
                return None
            if event == 'line' or event == 'call':
                if event == 'line':
                    cnt[0] += 1
                    if cnt[0] == k:
                        raise KeyboardInterrupt
            return tracer
        intr = False
        sys.settrace(tracer)
        try:
            with contextlib.redirect_stdout(io.StringIO()):
                E.count()
        except KeyboardInterrupt:
            intr = True
        except Exception as e:
            sys.settrace(None)
            return None, 'crash ' + type(e).__name__, cnt[0]
        finally:
            sys.settrace(None)
        return E, intr, cnt[0]

    E, intr, total = run_to(-1)
    if E is None:
        return ('skip', intr, 0, 0)
    view = lambda a: (a['tag'], a['msg'], a['round'], json.dumps(a.get('cstate'), default=str, sort_keys=True), str(a.get('quota')))
    full = [view(a) for a in E.record()['actions']]
    rng = random.Random(ks_seed)
    ks = list(range(1, total + 1))
    if len(ks) > maxpoints:
        head = ks[:maxpoints // 3]
        ks = head + sorted(rng.sample(ks[maxpoints // 3:], maxpoints - len(head)))
    bad = []
    for k in ks:
        E, intr, _ = run_to(k)
        if E is None or not intr:
            continue
        for name in ('report', 'dump', 'json'):
            try:
                out = getattr(E, name)(True)
                acts = [view(a) for a in E.record()['actions']]
                if not (acts and acts[-1][0] == 'log' and 'interrupted' in acts[-1][1]):
                    bad.append((k, name, 'interruption not logged')); continue
                if acts[:-1] != full[:len(acts) - 1]:
                    bad.append((k, name, 'actions are not a prefix of the uninterrupted count')); continue
                if name == 'report' and 'terminated prematurely by user interrupt' not in out:
                    bad.append((k, name, 'report not marked as interrupted'))
                if name != 'report' and 'count interrupted' not in out:
                    bad.append((k, name, 'rendering not marked as interrupted'))
                if name == 'json':
                    json.loads(out)
                if name == 'dump':
                    n_rows = len(out.split('\n')) - 2
                    if n_rows != len(acts):
                        bad.append((k, name, 'dump rows %d for %d actions' % (n_rows, len(acts))))
            except Exception as e:
                bad.append((k, name, '%s: %s' % (type(e).__name__, str(e)[:60])))
        if len(bad) > 5:
            break
    return ('ok' if not bad else 'bad', bad[:5], total, len(ks))


def _main_interrupts(item):
    """the user's path: Droop.main(options) interrupted inside Election.count(); whatever renderings were asked for (report,
    dump, JSON, alone or together) must come out, each marked as interrupted"""
    p, o, ks_seed, maxpoints = item
    import importlib.util
    spec = importlib.util.spec_from_file_location('DroopMain_%d' % os.getpid(), os.path.join(common.REPO, 'Droop.py'))
    Droop = importlib.util.module_from_spec(spec)
    with contextlib.redirect_stdout(io.StringIO()):
        spec.loader.exec_module(Droop)
    d = os.path.join(common.WORK, 'main-%d' % os.getpid())
    os.makedirs(d, exist_ok=True)
    path = os.path.join(d, 'e.blt')
    with open(path, 'w') as f:
        f.write(gen.blt(p))
    droopdir = os.path.join(common.REPO, 'droop')
    electionpy = os.path.join(droopdir, 'election.py')

    def run_to(k, sel):
        opts = dict(o); opts['path'] = path; opts.update(sel)
        cnt = [0]; inside = [False]
        def tracer(frame, event, arg):
            fn = frame.f_code.co_filename
            if not fn.startswith(droopdir):
                return tracer if fn.endswith('Droop.py') else None
            if frame.f_code.co_name == 'count' and fn == electionpy:
                if event == 'call':
                    inside[0] = True
                elif event == 'return':
                    inside[0] = False
            if event == 'line' and inside[0]:
                cnt[0] += 1
                if cnt[0] == k:
                    inside[0] = False
                    raise KeyboardInterrupt
            return tracer
        sys.settrace(tracer)
        try:
            with contextlib.redirect_stdout(io.StringIO()):
                out = Droop.main(opts)
            return out, None, cnt[0]
        except KeyboardInterrupt:
            return None, 'KeyboardInterrupt escaped main', cnt[0]
        except Exception as e:
            return None, '%s: %s' % (type(e).__name__, str(e)[:60]), cnt[0]
        finally:
            sys.settrace(None)

    SELS = [dict(), dict(report=False, dump=True), dict(report=False, json=True), dict(dump=True, json=True)]
    out, err, total = run_to(-1, {})
    if out is None:
        return ('skip', err, 0, 0)
    rng = random.Random(ks_seed)
    ks = list(range(1, total + 1))
    if len(ks) > maxpoints:
        ks = ks[:maxpoints // 3] + sorted(rng.sample(ks[maxpoints // 3:], maxpoints - maxpoints // 3))
    bad = []
    for k in ks:
        sel = rng.choice(SELS)
        out, err, _ = run_to(k, sel)
        if err:
            bad.append((k, sel, err))
        else:
            want_report = sel.get('report', True) is not False
            if want_report and 'terminated prematurely by user interrupt' not in out:
                bad.append((k, sel, 'report not marked as interrupted'))
            if (sel.get('dump') or sel.get('json')) and 'count interrupted' not in out:
                bad.append((k, sel, 'dump/JSON not marked as interrupted'))
            if sel.get('json') and not want_report and not sel.get('dump'):
                try:
                    json.loads(out)
                except Exception as e:
                    bad.append((k, sel, 'JSON unreadable: %s' % type(e).__name__))
        if len(bad) > 5:
            break
    return ('ok' if not bad else 'bad', bad[:5], total, len(ks))


def header_fill_order(rule):
    """the keys ElectionRecord._fill assigns, in order, and whether `filled` is set only afterwards"""
    from droop.profile import ElectionProfile
    from droop.election import Election
    from droop import record as rec
    E = Election(ElectionProfile(data='2 1\n2 1 0\n1 2 0\n0\n"a" "b" "t"\n'), dict(rule=rule))
    seen = []
    class Spy(rec.ElectionRecord):
        def __setitem__(self, k, v):
            seen.append((k, self.filled))
            dict.__setitem__(self, k, v)
    E.erecord.__class__ = Spy
    E.erecord._fill()
    keys = [k for k, f in seen if k not in ('omega', 'profile_source', 'profile_comment')]
    return keys, all(not f for k, f in seen) and E.erecord.filled


@prop('C19')
def C19(run):
    broken = lean_gate(run, THEOREMS['C19'])
    if not broken:
        from props import gen_gate
        broken = broken + gen_gate(run, 'translator_needs', 'gen_needs', 'tables',
                                   'Gen.{headerKeys,conditionalKeys,reportNeeds,dumpNeeds,jsonNeeds,softKeys,hookNeeds} = C19.* by rfl; shape of _fill / '
                                   'Election._interrupted / Election.report,dump,json accepted; interrupted_can_render, interrupted_hooks_can_render, '
                                   'conditional_keys_not_needed (lean/Props/C19.lean, C19Prog.lean)',
                                   'the header keys written by ElectionRecord._fill, the keys read by the renderers and rule hooks, or the shape of the interrupt '
                                   'path (droop/record.py, election.py, rules/*.py), extracted, are no longer what lean/Props/C19.lean is about')
    model_keys = common.run_driver(['HEADERKEYS'])[0].split(',')
    for rule in ('wigm', 'meek', 'qpq', 'mpls'):
        keys, last = header_fill_order(rule)
        if keys != model_keys or not last:
            broken.append('correspondence HEADERKEYS: _fill assigns %s (filled set last: %s), the model of Props/C19.lean has %s' % (keys, last, model_keys))
            break
    rng = rng_for(run)
    n = budget(run, 48, 1500)
    per = budget(run, 260, 400)
    items = []
    for i in range(n):
        rule = gen.RULES[i % len(gen.RULES)]
        fam, p = gen.profile(rng, rule, ['plain', 'symmetric', 'chains', 'few_supported'])
        if rng.random() < 0.7:
            p = gen.plain(rng, maxc=4, maxb=5, undeclared=(rule == 'mpls'))
        o = gen.options(rng, rule)
        if o.get('arithmetic') == 'rational' and rule in ('meek', 'warren'):
            o['arithmetic'] = 'guarded'; o['precision'] = 9
        items.append((p, o, rng.randrange(10 ** 9), per))
    res = common.pmap(_interrupt_points, items, limit=600.0, chunksize=1)
    npts = nb = 0
    stats = collections.Counter()
    for (p, o, _, _), r in zip(items, res):
        if r[0] == 'TIMEOUT':
            stats['timeout'] += 1; continue
        stats[o['rule'] + ':' + r[0]] += 1
        npts += r[3] if len(r) > 3 else 0
        if r[0] == 'bad':
            nb += 1
            if nb <= 3:
                k, name, why = r[1][0]
                run.violation(dict(kind='implementation', what='interrupted count: %s(True) -> %s' % (name, why), interrupt_at_line_event=k,
                                   of_line_events=r[2], blt=gen.blt(p), options=o, all=r[1]))
    # the command-line path
    mitems = [(p, o, rng.randrange(10 ** 9), budget(run, 60, 150)) for (p, o, _, _) in items[:budget(run, 24, 400)]]
    mres = common.pmap(_main_interrupts, mitems, limit=600.0, chunksize=1)
    mpts = 0
    for (p, o, _, _), r in zip(mitems, mres):
        if r[0] == 'TIMEOUT':
            stats['main:timeout'] += 1; continue
        stats['main:' + r[0]] += 1
        mpts += r[3] if len(r) > 3 else 0
        if r[0] == 'bad':
            nb += 1
            if nb <= 3:
                k, sel, why = r[1][0]
                run.violation(dict(kind='implementation', what='Droop.main interrupted during the count: %s' % why, renderings_asked_for=sel or 'report',
                                   interrupt_at_line_event=k, of_line_events=r[2], blt=gen.blt(p), options=o, all=[list(map(str, b)) for b in r[1]]))
    npts += mpts
    if broken and not run.violations:
        run.violation(dict(kind='theorem', broken=broken), 'no-failing-input-found')
    cov = run.coverage
    cov['evaluations'] = npts
    cov['distinct_nontrivial'] = npts
    cov['elections'] = len(items)
    cov['command_line_interrupt_points'] = mpts
    cov['rule'] = ('interruption point = k-th executed line of package code inside Election.count() (sys.settrace raises KeyboardInterrupt there); the first '
                   'third of each election\'s points is enumerated, the rest sampled; after each interrupt report(True), dump(True), json(True) are rendered '
                   'and the action list is compared with the uninterrupted record; every point is non-trivial (a distinct (election, k))')
    cov['distribution'] = dict(stats)
    cov['samples'] = [dict(blt=gen.blt(items[0][0]), options=items[0][1], points=res[0][3] if len(res[0]) > 3 else None)]
    cov['exhaustive'] = False
    run.assumptions = ['KeyboardInterrupt delivery is modelled as an exception raised at a traced line of package code; delivery inside C code is not modelled']


# =================================================================================================
# C20

def probe_text(p, o):
    """the probe's ballot file; options under the key '_file' are written into it as a [droop ...] block"""
    t = gen.blt(p)
    fo = o.get('_file')
    if fo:
        first, rest = t.split('\n', 1)
        t = first + '\n[droop ' + ' '.join('%s=%s' % kv for kv in fo.items()) + ']\n' + rest
    return t


def digest_election(p, o, profile=None):
    """construct, count, report (as the package's drivers do); returns the three renderings' digest and the record view"""
    from droop.profile import ElectionProfile
    from droop.election import Election
    try:
        opts = {k: v for k, v in o.items() if k != '_file'}
        E = Election(profile if profile is not None else ElectionProfile(data=probe_text(p, o)), opts)
        implrun.limited_count(E, 4.0)
        out = E.report() + '\x00' + E.dump() + '\x00' + E.json()
        return hashlib.sha256(out.encode()).hexdigest()
    except Exception as e:
        return 'EXC ' + type(e).__name__


def _history(item):
    """-> (digest after the history, digest of a second election on the *same* profile object, digest of a third on a new one)"""
    from droop.profile import ElectionProfile
    hist, probe = item
    for p, o in hist:
        digest_election(p, o)
    try:
        prof = ElectionProfile(data=probe_text(*probe))
    except Exception as e:
        x = 'EXC ' + type(e).__name__
        return x, x, x
    a = digest_election(probe[0], probe[1], prof)
    b = digest_election(probe[0], probe[1], prof)
    c = digest_election(*probe)
    return a, b, c


def fresh_map(func_name, items):
    """props4.<func_name>(item) for each item, each in a pristine child process (forked from an interpreter that imported
    droop but never initialised a value class); results come back as JSON"""
    code = r'''
import sys, os, json
sys.path.insert(0, %r)
import common, props4
common.setup_repo_import()
import droop.election, droop.profile, droop.values
f = getattr(props4, %r)
for line in sys.stdin:
    item = json.loads(line)
    r, w = os.pipe()
    pid = os.fork()
    if pid == 0:
        os.close(r)
        try:
            out = json.dumps(f(item))
        except BaseException as e:
            out = json.dumps('EXC ' + type(e).__name__)
        os.write(w, out.encode())
        os._exit(0)
    os.close(w)
    buf = b''
    while True:
        chunk = os.read(r, 65536)
        if not chunk:
            break
        buf += chunk
    os.close(r); os.waitpid(pid, 0)
    print(buf.decode(), flush=True)
''' % (os.path.dirname(os.path.abspath(__file__)), func_name)
    if not items:
        return []
    k = min(common.NPROC, max(1, len(items) // 20))
    size = (len(items) + k - 1) // k
    chunks = [items[i:i + size] for i in range(0, len(items), size)]
    from concurrent.futures import ThreadPoolExecutor
    def one(ch):
        r = subprocess.run([sys.executable, '-c', code], input='\n'.join(json.dumps(x) for x in ch) + '\n',
                           capture_output=True, text=True, cwd=common.VERIF)
        out = r.stdout.split('\n')[:-1]
        if len(out) != len(ch):
            raise RuntimeError('fresh process failed: ' + r.stderr[-400:])
        return [json.loads(x) for x in out]
    with ThreadPoolExecutor(len(chunks)) as ex:
        return [x for part in ex.map(one, chunks) for x in part]


def digest_item(item):
    p, o = item
    p['lines'] = [(m, r) for m, r in p['lines']]
    return digest_election(p, o)


def fresh_digests(probes):
    return fresh_map('digest_item', [[p, o] for p, o in probes])


def class_snapshot():
    """the class attributes of the three value classes, canonicalised like the model's showClassState"""
    import re as _re
    from droop.values.fixed import Fixed
    from droop.values.guarded import Guarded
    from droop.values.rational import Rational
    def oi(v): return str(v) if (isinstance(v, int) and not isinstance(v, bool)) else 'n'
    def osx(v): return (v.encode('utf-8').hex() + '.') if isinstance(v, str) else 'n'
    def raw(v): return oi(getattr(v, '_value', None))
    def w1(s):
        m = _re.match(r'%d\.%0(\d+)d$', s or '') if isinstance(s, str) else None
        return m.group(1) if m else 'n'
    def w2(s):
        if not isinstance(s, str): return ('n', 'n')
        m = _re.match(r'%d\.%0(\d+)d_%0(\d+)d$', s)
        if m: return (m.group(1), m.group(2))
        m = _re.match(r'%d\.%0(\d+)d$', s)
        return (m.group(1), 'n') if m else ('n', 'n')
    g = lambda c, n: getattr(c, n, None)
    F = 'F:' + ','.join([osx(Fixed.name), oi(Fixed.precision), oi(Fixed.display), oi(g(Fixed, '_Fixed__scale')), oi(g(Fixed, '_Fixed__scaled')),
                         oi(g(Fixed, '_Fixed__scaledd')), oi(g(Fixed, '_Fixed__scaledr')), raw(Fixed.epsilon), w1(g(Fixed, '_Fixed__dfmt')), osx(Fixed.info)])
    wp, wg = w2(g(Guarded, '_Guarded__dfmt'))
    G = 'G:' + ','.join([oi(Guarded.precision), oi(Guarded.guard), oi(Guarded.display), oi(g(Guarded, '_Guarded__scalep')), oi(g(Guarded, '_Guarded__scaleg')),
                         oi(g(Guarded, '_Guarded__scale')), oi(g(Guarded, '_Guarded__scaledd')), oi(g(Guarded, '_Guarded__scaledr')),
                         oi(g(Guarded, '_Guarded__scaled')), oi(g(Guarded, '_Guarded__scaledg')), oi(g(Guarded, '_Guarded__geps')),
                         oi(g(Guarded, 'maxDiff')), oi(g(Guarded, 'minDiff')), wp, wg, osx(Guarded.info),
                         '1' if Guarded.quasi_exact else '0', '1' if Guarded.exact else '0', raw(g(Guarded, 'epsilon'))])
    R = 'R:' + ','.join([oi(Rational.dp), oi(g(Rational, '_dps')), w1(g(Rational, '_dfmt'))])
    return F + ' ' + G + ' ' + R


def session_item(item):
    """a history of election constructors: outcome class and class snapshot after each (counting in between)"""
    from droop.profile import ElectionProfile
    from droop.election import Election
    from droop.common import UsageError, ElectionError
    from droop.values import ArithmeticValuesError
    out = []
    for cmd, file in item:
        blt = '3 2\n' + ('[droop %s]\n' % ' '.join(file) if file else '') + '4 1 2 0\n3 2 1 0\n2 3 0\n0\n"A" "B" "C"\n"t"\n'
        E = None
        try:
            E = Election(ElectionProfile(data=blt), dict(cmd)); oc = 'OK'
        except UsageError: oc = 'UsageError'
        except ElectionError: oc = 'ElectionError'
        except ArithmeticValuesError: oc = 'ArithmeticValuesError'
        except Exception as e: oc = 'CRASH ' + type(e).__name__
        out.append(oc + ' ' + class_snapshot())
        if E is not None:
            try:
                with contextlib.redirect_stdout(io.StringIO()):
                    E.count()
                E.report()
            except Exception:
                pass
    return ' ;; '.join(out)


def history_options(rng, rule):
    o = gen.options(rng, rule)
    if o.get('arithmetic') == 'rational' and rule in ('meek', 'warren'):
        o['arithmetic'] = 'fixed'; o['precision'] = 9
    if rule in ('wigm', 'meek', 'warren') and rng.random() < 0.5 and o.get('arithmetic') != 'integer':
        o['display'] = rng.choice([0, 1, 2, 3, 5, 8, 12, 20])
    return o


@prop('C20')
def C20(run):
    broken = lean_gate(run, THEOREMS['C20'])
    if not broken:
        from props import gen_gate
        broken = broken + gen_gate(run, 'translator_initwrites', 'gen_initwrites', 'programs',
                                   'Gen.{fixed,guarded,rational}Writes = C20.*Writes and Gen.*WritesElsewhere = C20.*WritesElsewhere by rfl; '
                                   'fixed_writes_are_source, guarded_writes_are_source, rational_writes_are_source, elsewhere_is_reset (lean/Props/C20Prog.lean)',
                                   'the class-attribute assignments of initialize() in droop/values/*.py, extracted with their path conditions, are no longer '
                                   'the lists lean/Props/C20Prog.lean ties to the model')
        from props import begin_gate
        broken = broken + begin_gate(run)
    rng = rng_for(run)
    n = budget(run, 1500, 30000)
    items = []
    for _ in range(n):
        hist = []
        for _ in range(rng.randint(1, budget(run, 4, 8))):
            rule = rng.choice(gen.RULES)
            hp = gen.plain(rng, maxc=5, maxb=6, undeclared=(rule == 'mpls'))
            ho = history_options(rng, rule)
            if rng.random() < 0.1:
                ho['precision'] = rng.choice(['x', -1, None])      # failing initialisations belong to histories too
            hist.append((hp, ho))
        rule = rng.choice(gen.RULES)
        po = history_options(rng, rule)
        if rng.random() < 0.4:
            # some of the probe's options travel in the ballot file
            keys = [k for k in po if k in ('arithmetic', 'precision', 'guard', 'display', 'omega', 'defeat_batch', 'integer_quota') and rng.random() < 0.7]
            if keys:
                po['_file'] = {k: str(po.pop(k)).lower() for k in keys}
        pp = gen.plain(rng, maxc=6, maxb=8, undeclared=(rule == 'mpls'))
        if rule in ('meek', 'warren') and rng.random() < 0.6:
            pp = gen.add_equal_ranks(rng, pp)          # equal rankings: the rules keep per-profile rank lists
        items.append((hist, (pp, po)))
    res = common.pmap(_history, items, limit=60.0, chunksize=4)
    fresh = fresh_digests([probe for _, probe in items])
    nb = 0
    stats = collections.Counter()
    for (hist, probe), r, f in zip(items, res, fresh):
        if r[0] == 'TIMEOUT':
            stats['timeout'] += 1; continue
        a, b, c3 = r
        stats['probe:' + probe[1]['rule']] += 1
        stats['history-length:%d' % len(hist)] += 1
        if probe[1].get('_file'):
            stats['probe with options in the file'] += 1
        if a != f or b != f or c3 != f:
            nb += 1
            if nb <= 3:
                run.violation(dict(kind='implementation', what='the record depends on earlier elections in the process' if a != f else
                                   ('a second election object on the same profile gives a different record' if b != f else 'counting the same profile again differs'),
                                   history=[dict(blt=gen.blt(p), options=o) for p, o in hist], probe=dict(blt=gen.blt(probe[0]), options=probe[1]),
                                   digest_after_history=a, digest_same_profile_object_again=b, digest_new_profile_again=c3, digest_fresh_process=f))
    # the class-state model (lean/DroopModel/Session.lean) against the real class attributes, history by history
    import props3
    sess = []
    for _ in range(budget(run, 3000, 60000)):
        h = []
        for _ in range(rng.randint(1, 5)):
            cmd, file = props3.gen_layers(rng)
            if rng.random() < 0.6:
                cmd['rule'] = rng.choice(['wigm', 'meek', 'warren', 'wigm', rng.choice(gen.RULES)])
            h.append([cmd, file])
        sess.append(h)
    simpl = fresh_map('session_item', sess)
    sins = ['SESSION ' + ' ;; '.join(' '.join('%s=%s' % (props3.hx(k), props3.ov(v)) for k, v in c.items()) + ' | ' + ' '.join(props3.hx(t) for t in f)
                                        for c, f in h) for h in sess]
    smodel = common.run_driver_parallel(sins)
    ncorr = 0; firstc = None
    def nostats(line):
        # Guarded.maxDiff / minDiff are statistics of every comparison executed since initialize(): not compared with the model
        out = []
        for part in line.split(' ;; '):
            f = part.split(' ')
            for i, x in enumerate(f):
                if x.startswith('G:'):
                    g = x.split(','); g[11] = g[12] = '-'; f[i] = ','.join(g)
            out.append(' '.join(f))
        return ' ;; '.join(out)
    for h, a, b, ln in zip(sess, simpl, smodel, sins):
        a = nostats(a); b = nostats(b)
        if a != b:
            ncorr += 1
            if firstc is None:
                d = next(((x, y) for x, y in zip(a.split(' ;; '), b.split(' ;; ')) if x != y), (a[:300], b[:300]))
                firstc = dict(history=h, implementation=d[0], model=d[1], case=ln)
    if ncorr and not run.violations:
        firstc.update(kind='correspondence', broken=['correspondence SESSION (lean/DroopModel/Session.lean vs the class attributes of droop/values/*)'],
                      disagreeing_cases=ncorr)
        run.violation(firstc, 'no-failing-input-found')
    if broken and not run.violations:
        run.violation(dict(kind='theorem', broken=broken), 'no-failing-input-found')
    cov = run.coverage
    cov['evaluations'] = len(items) + len(sess)
    cov['class_state_histories_compared_with_model'] = len(sess)
    cov['traces_validated_against_impl'] = len(sess) - ncorr
    cov['distinct_nontrivial'] = len({json.dumps([h, p], default=str) for h, p in items})
    cov['rule'] = ('history = 1-4 (thorough: 1-8) elections of random rule/arithmetic/precision/display (some failing to initialise) run back to back in one '
                   'process, then the probe election twice; sha256 of report+dump+JSON compared with the same probe in a pristine forked interpreter; '
                   'every (history, probe) pair is non-trivial')
    cov['distribution'] = dict(stats)
    cov['samples'] = [dict(history=[o for _, o in items[0][0]], probe=items[0][1][1])]
    run.assumptions = ['a child forked from an interpreter that imported droop but never called initialize() stands for "a fresh process"']


# =================================================================================================
# C10: presentation

def full_view(p_text, o):
    """(canonical record lines, report, dump) of one presentation"""
    from droop.profile import ElectionProfile
    from droop.election import Election
    E = Election(ElectionProfile(data=p_text), dict(o))
    implrun.limited_count(E, 4.0)
    acts = []
    for a in E.record()['actions']:
        acts.append(json.dumps({k: v for k, v in a.items()}, default=str, sort_keys=True))
    rep = E.report()
    stat = ''
    ar = E.record().get('arithmetic_report')
    if ar:
        rep = rep.replace(ar, '<arithmetic statistics>\n'); stat = ar
    return acts, rep, E.dump(), stat


def render_variant(rng, p, kind):
    """another presentation of the same election"""
    q = dict(p); lines = list(p['lines'])
    if kind == 'permute':
        rng.shuffle(lines)
    elif kind == 'split':
        out = []
        for m, r in lines:
            if m > 1 and rng.random() < 0.6:
                a = rng.randint(1, m - 1); out += [(a, r), (m - a, r)]
            else:
                out.append((m, r))
        lines = out
    elif kind == 'merge':
        acc = collections.OrderedDict()
        for m, r in lines:
            k = json.dumps(r); acc[k] = acc.get(k, 0) + m
        lines = [(m, json.loads(k)) for k, m in acc.items()]
    q['lines'] = lines
    return q


def layout_variant(rng, p):
    import props3
    text = gen.blt(p)
    toks = text.split()
    # candidate names and the title are single tokens in gen.blt ("C1" ... "t")
    nick = rng.random() < 0.5
    if nick:
        nicks = rng.sample(props3.NICKS, p['n'])
        head = toks[:2]; rest = toks[2:]
        out = head + ['[nick'] + nicks + [']']
        # replace candidate numbers inside ballot lines and options by nicknames
        i = 0; inopt = False; ball = False
        # options: [tie ...] [withdrawn ...] [undeclared ...]
        body = []
        k = 0
        while k < len(rest) and rest[k].startswith('['):
            j = k
            while not rest[j].endswith(']'):
                j += 1
            seg = rest[k:j + 1]
            name = seg[0]; ids = [t.rstrip(']') for t in seg[1:]]
            ids = [t for t in ids if t]
            body += [name] + [nicks[int(t) - 1] if rng.random() < 0.7 else t for t in ids] + [']']
            k = j + 1
        # ballot lines until the lone 0
        while True:
            m = rest[k]; body.append(m); k += 1
            if m == '0':
                break
            while rest[k] != '0':
                t = rest[k]
                body.append('='.join(nicks[int(x) - 1] if rng.random() < 0.7 else x for x in t.split('=')))
                k += 1
            body.append('0'); k += 1
        toks = out + body + rest[k:]
    return props3.layout(rng, toks)


def _present(item):
    base_text, var_text, o, ignore_w = item
    try:
        a = full_view(base_text, o)
    except Exception as e:
        return ('skip', type(e).__name__)
    try:
        b = full_view(var_text, o)
    except Exception as e:
        return ('bad', 'variant raised %s' % type(e).__name__)
    if a[0] != b[0]:
        d = next(((x, y) for x, y in zip(a[0], b[0]) if x != y), ('len %d' % len(a[0]), 'len %d' % len(b[0])))
        return ('bad', 'record differs: %s | %s' % (d[0][:300], d[1][:300]))
    if a[1] != b[1]:
        return ('bad', 'report differs')
    if a[2] != b[2]:
        return ('bad', 'dump differs')
    if a[3] != b[3]:
        return ('stats', 'arithmetic statistics differ: %r vs %r' % (a[3][:80], b[3][:80]))
    return ('ok', '')


@prop('C10')
def C10(run):
    broken = lean_gate(run, THEOREMS['C10'])
    if not broken:
        from props import moves_gate
        broken = broken + moves_gate(run)      # which ballots a transfer touches; no rule uses a ballot's position in the list
    rng = rng_for(run)
    n = budget(run, 3000, 60000)
    cases = campaign.make_cases(rng, n, ALL, equal_ranks=0.2)
    # equal rankings with multipliers under the Meek family in rounding arithmetic: the opening tally of an equal-ranked line is
    # (1/n) x multiplier, rounded before the multiplication - splitting or merging such lines must not move a digit
    for _ in range(n // 8):
        p = gen.add_equal_ranks(rng, gen.plain(rng, maxc=6, maxb=6, mults=[1, 2, 3, 3, 5, 7, 30]))
        if rng.random() < 0.5:
            # make sure one line opens with an equal-rank group of 3 and carries a multiplier
            cs = list(range(1, p['n'] + 1)); rng.shuffle(cs)
            if len(cs) >= 3:
                p = dict(p); p['lines'] = list(p['lines']) + [(rng.choice([2, 3, 5, 7]), [cs[:3]] + cs[3:])]
        rule = rng.choice(['meek', 'warren'])
        o = dict(rule=rule, arithmetic='fixed', precision=rng.choice([3, 4, 6, 9])) if rng.random() < 0.7 else \
            dict(rule=rule, arithmetic='guarded', precision=rng.choice([4, 6]), guard=0)
        cases.append(('equal_rank_multipliers', p, o))
    items, meta = [], []
    for fam, p, o in cases:
        base = gen.blt(p)
        for kind in ('permute', 'split', 'merge', 'layout'):
            if kind == 'layout':
                try:
                    var = layout_variant(rng, p)
                except Exception:
                    continue
            else:
                var = gen.blt(render_variant(rng, p, kind))
            if var == base:
                continue
            items.append((base, var, o, True)); meta.append((kind, p, o))
    res = common.pmap(_present, items, limit=30.0)
    stats = collections.Counter(); nb = 0
    for (kind, p, o), it, r in zip(meta, items, res):
        stats[kind + ':' + r[0]] += 1
        if r[0] == 'stats':
            run.known('G1', findings_text('G1'))
        elif r[0] == 'bad':
            nb += 1
            if nb <= 3:
                run.violation(dict(kind='implementation', what='presentation (%s) changes the count: %s' % (kind, r[1]), options=o,
                                   base_text=it[0], variant_text=it[1]))
    if broken and not run.violations:
        run.violation(dict(kind='theorem', broken=broken), 'no-failing-input-found')
    cov = run.coverage
    cov['evaluations'] = len(items)
    cov['distinct_nontrivial'] = len({(a, b) for a, b, _, _ in items})
    cov['rule'] = ('base profile x {permuted lines, split multipliers, merged identical lines, re-laid-out text with comments / exotic whitespace / nicknames}; '
                   'full action list (all fields), report (Guarded statistics lines masked) and dump compared between the two presentations on the real code; '
                   'a pair is non-trivial when the two texts differ')
    cov['distribution'] = dict(stats)
    cov['samples'] = [dict(base=items[0][0], variant=items[0][1], options=items[0][2])]
    run.assumptions = ['Guarded maxDiff/minDiff lines of the report are compared separately (known finding G1)']


def findings_text(fid):
    for f in findings.load():
        if f['id'] == fid:
            return f['what']
    return fid


# =================================================================================================
# C11: neutrality

def named_view(text, o):
    from droop.profile import ElectionProfile
    from droop.election import Election
    E = Election(ElectionProfile(data=text), dict(o))
    implrun.limited_count(E, 4.0)
    rec = E.record(); cd = rec['cdict']; out = []
    for a in rec['actions']:
        if a['tag'] == 'log':
            continue
        row = [a['tag'], a['msg'], a['round'], str(a['quota'])]
        for cid in rec['ecids']:
            c = a['cstate'][cid]
            row.append((cd[cid]['name'], c['code'], str(c['vote']), str(c.get('kf')), str(c.get('quotient'))))
        for k in ('nt_votes', 'residual', 'surplus', 'votes'):
            if k in a:
                row.append(str(a[k]))
        out.append(tuple(row))
    winners = sorted(c.name for c in E.elected)
    final = sorted((cd[cid]['name'], str(c['vote'])) for cid, c in rec['actions'][-1]['cstate'].items() if 'vote' in c)
    return out, winners, final


def _neutral(item):
    kind, t1, t2, o = item
    try:
        a = named_view(t1, o)
    except Exception as e:
        return ('skip', type(e).__name__)
    try:
        b = named_view(t2, o)
    except Exception as e:
        return ('bad', 'transformed profile raised %s' % type(e).__name__)
    if kind == 'renumber':
        if a[1] != b[1]:
            return ('bad', 'winners differ: %s vs %s' % (a[1], b[1]))
        if a[2] != b[2]:
            return ('bad', 'final tallies differ: %s vs %s' % (a[2][:4], b[2][:4]))
        return ('ok', '')
    # withdrawn = deleted: whole record by name (rows list eligible candidates in ballot order, which renumbering by deletion preserves)
    if a[0] != b[0]:
        d = next(((x, y) for x, y in zip(a[0], b[0]) if x != y), ('len %d' % len(a[0]), 'len %d' % len(b[0])))
        return ('bad', 'record differs: %r | %r' % (d[0], d[1]))
    return ('ok', '')


def names_for(n):
    return {c: 'C%d' % c for c in range(1, n + 1)}


@prop('C11')
def C11(run):
    broken = lean_gate(run, THEOREMS['C11'])
    rng = rng_for(run)
    n = budget(run, 12000, 150000)
    items, meta = [], []
    fams = ['plain', 'symmetric', 'symmetric', 'crossover', 'threeway', 'threeway', 'sure_losers', 'on_quota', 'few_supported', 'chains']
    for _ in range(n):
        rule = rng.choice(ALL)
        fam, p = gen.profile(rng, rule, fams + (['write_ins'] if rule == 'mpls' else []))
        o = gen.options(rng, rule)
        if o.get('arithmetic') == 'rational' and rule in ('meek', 'warren'):
            continue
        names = names_for(p['n'])
        # (1) renumbering
        perm = list(range(1, p['n'] + 1)); rng.shuffle(perm)
        f = {c: perm[c - 1] for c in range(1, p['n'] + 1)}
        q = dict(n=p['n'], s=p['s'], wd=sorted(f[c] for c in p['wd']), und=sorted(f[c] for c in p['und']),
                 tie=[f[c] for c in p['tie']], lines=[(m, [f[c] for c in r]) for m, r in p['lines']])
        qnames = {f[c]: names[c] for c in names}
        items.append(('renumber', gen.blt(p, names), gen.blt(q, qnames), o)); meta.append((p, o, 'renumber'))
        # (2) withdrawn = deleted
        if p['wd']:
            keep = [c for c in range(1, p['n'] + 1) if c not in p['wd']]
            g = {c: i + 1 for i, c in enumerate(keep)}
            d = dict(n=len(keep), s=p['s'], wd=[], und=sorted(g[c] for c in p['und'] if c in g), tie=[g[c] for c in p['tie'] if c in g],
                     lines=[(m, [g[c] for c in r if c in g]) for m, r in p['lines']])
            d['lines'] = [(m, r) for m, r in d['lines'] if r]
            dnames = {g[c]: names[c] for c in keep}
            items.append(('withdrawn', gen.blt(p, names), gen.blt(d, dnames), o)); meta.append((p, o, 'withdrawn'))
    # exemplar of finding G2 for this property (kept in KNOWN_FINDINGS.json): renumbering changes the order in which the builtin min() meets
    # tallies that are within Guarded's tolerance of each other
    g2 = findings.exemplar('G2', 'C11')
    if g2:
        items.append(('renumber', g2['text'], g2['transformed_text'], g2['options'])); meta.append((g2['profile'], g2['options'], 'renumber'))
    res = common.pmap(_neutral, items, limit=30.0)
    stats = collections.Counter(); nb = 0
    for (p, o, kind), it, r in zip(meta, items, res):
        stats[kind + ':' + r[0] + (':guarded' if gen.config(o)['arith'] == 'guarded' and gen.config(o)['g'] > 0 else '')] += 1
        if r[0] == 'bad':
            if findings.meek_collapse_class(p, o):
                run.known('M2', findings_text('M2')); continue
            if kind == 'renumber' and findings.coarse_guarded(o) and o['rule'] not in ('meek', 'warren', 'meek-prf'):
                run.known('G2', findings_text('G2')); continue
            nb += 1
            if nb <= 3:
                run.violation(dict(kind='implementation', what='%s: %s' % (kind, r[1]), options=o, text=it[1], transformed_text=it[2]))
    if broken and not run.violations:
        run.violation(dict(kind='theorem', broken=broken), 'no-failing-input-found')
    cov = run.coverage
    cov['evaluations'] = len(items)
    cov['distinct_nontrivial'] = len({(a, b) for _, a, b, _ in items})
    cov['rule'] = ('profile x random permutation of candidate ids (names, tie order, withdrawn/undeclared sets and ballots carried along): winners and final '
                   'tallies compared by name; profile with withdrawn candidates x the profile with them deleted: every non-log action compared by name')
    cov['distribution'] = dict(stats)
    cov['samples'] = [dict(kind=items[0][0], text=items[0][1], transformed=items[0][2], options=items[0][3])]
    run.assumptions = ['Guarded arithmetic (guard > 0): renumbering is compared, not proved (non-transitive comparisons inside sorted)']
