"""Generators: election profiles (by family), rule configurations, BLT rendering, denotation.
Every random choice comes from the `random.Random` passed in."""
import random, itertools

RULES = ['wigm', 'wigm-prf', 'wigm-prf-batch', 'cfer', 'cfer-batch', 'scotland', 'mpls', 'meek', 'warren', 'meek-prf', 'qpq']
GREGORY = ['wigm', 'wigm-prf', 'wigm-prf-batch', 'cfer', 'cfer-batch', 'scotland', 'mpls']
MEEKFAM = ['meek', 'warren', 'meek-prf']
STATUTORY = {  # rule -> (arithmetic, precision, guard, omega)
    'wigm-prf': ('fixed', 4, 0, 0), 'wigm-prf-batch': ('fixed', 4, 0, 0),
    'cfer': ('fixed', 5, 0, 0), 'cfer-batch': ('fixed', 5, 0, 0),
    'scotland': ('fixed', 5, 0, 0), 'mpls': ('fixed', 4, 0, 0),
    'meek-prf': ('fixed', 9, 0, 6), 'qpq': ('guarded', 9, 9, 0),
}
MULTS = [1, 1, 1, 2, 3, 5, 10]


def method_of(rule):
    return 'qpq' if rule == 'qpq' else 'meek' if rule in MEEKFAM else 'wigm'


# ---------------------------------------------------------------------------------------------
# profiles: dict(n, s, wd, und, tie, lines=[(mult, ranking)]) ; a ranking entry is a cid or a list of cids (equal rank)

def _finish(rng, n, s, wd, und, lines):
    elig = [c for c in range(1, n + 1) if c not in wd]
    nb = sum(m for m, r in lines if any((c in elig) for g in r for c in (g if isinstance(g, list) else [g])))
    while nb < len(elig):
        lines.append((len(elig), [rng.choice(elig)])); nb += len(elig)
    tie = list(range(1, n + 1)); rng.shuffle(tie)
    return dict(n=n, s=s, wd=sorted(wd), und=sorted(und), lines=lines, tie=tie)


def plain(rng, maxc=7, maxb=14, undeclared=False, withdrawn=True, mults=MULTS):
    n = rng.randint(2, maxc)
    wd = [c for c in range(1, n + 1) if withdrawn and rng.random() < 0.12]
    elig = [c for c in range(1, n + 1) if c not in wd]
    if not elig:
        wd = []; elig = list(range(1, n + 1))
    s = rng.randint(1, len(elig))
    # an undeclared write-in may also be withdrawn (both markers on one candidate)
    und = [c for c in range(1, n + 1) if undeclared and rng.random() < 0.25]
    lines = []
    for _ in range(rng.randint(1, maxb)):
        lines.append((rng.choice(mults), rng.sample(range(1, n + 1), rng.randint(1, n))))
    return _finish(rng, n, s, wd, und, lines)


def on_quota(rng, undeclared=False):
    """ballot total divisible by seats+1, several candidates landing exactly on the quota"""
    n = rng.randint(3, 7); s = rng.randint(1, n - 1)
    q = rng.choice([1, 2, 3, 5, 10])
    nb = q * (s + 1)
    lines = []; left = nb
    cands = list(range(1, n + 1)); rng.shuffle(cands)
    for c in cands:
        if left <= 0:
            break
        m = min(left, rng.choice([q, q, q + 1, max(1, q - 1), 2 * q]))
        rest = [x for x in range(1, n + 1) if x != c]; rng.shuffle(rest)
        k = rng.randint(0, len(rest))
        # split the candidate's first preferences over up to two continuations
        if m > 1 and rng.random() < 0.5:
            a = rng.randint(1, m - 1)
            lines.append((a, [c] + rest[:k])); rng.shuffle(rest)
            lines.append((m - a, [c] + rest[:rng.randint(0, len(rest))]))
        else:
            lines.append((m, [c] + rest[:k]))
        left -= m
    if left > 0:
        lines.append((left, [rng.choice(cands)]))
    und = [c for c in range(1, n + 1) if undeclared and rng.random() < 0.2]
    return _finish(rng, n, s, [], und, lines)


def symmetric(rng, undeclared=False):
    """few distinct rankings with equal multipliers: forced ties, prior-stage ties"""
    n = rng.randint(3, 6); s = rng.randint(1, n - 1)
    m = rng.choice([1, 2, 3, 4])
    lines = []
    base = list(range(1, n + 1))
    for c in base:
        if rng.random() < 0.85:
            rest = [x for x in base if x != c]
            if rng.random() < 0.5:
                rng.shuffle(rest)
            else:
                k = base.index(c); rest = base[k + 1:] + base[:k]
            lines.append((m if rng.random() < 0.8 else m + 1, [c] + rest[:rng.randint(0, len(rest))]))
    if not lines:
        lines.append((m, [1, 2]))
    und = [c for c in base if undeclared and rng.random() < 0.2]
    return _finish(rng, n, s, [], und, lines)


def few_supported(rng, undeclared=False):
    """more seats than supported candidates, zero-vote candidates"""
    n = rng.randint(3, 8); sup = rng.randint(1, max(1, n - 2))
    s = rng.randint(min(sup, n - 1), n - 1) if n > 1 else 1
    s = max(1, s)
    supported = rng.sample(range(1, n + 1), sup)
    lines = []
    for _ in range(rng.randint(1, 8)):
        k = rng.randint(1, len(supported))
        r = rng.sample(supported, k)
        if rng.random() < 0.3:
            r += rng.sample([c for c in range(1, n + 1) if c not in supported], rng.randint(0, n - sup))
        lines.append((rng.choice(MULTS), r))
    und = [c for c in range(1, n + 1) if undeclared and rng.random() < 0.3]
    return _finish(rng, n, s, [], und, lines)


def chains(rng, undeclared=False):
    """long rankings, big first-preference piles: several surplus transfers through the same ballots"""
    n = rng.randint(4, 8); s = rng.randint(2, n - 1)
    lines = []
    lead = rng.sample(range(1, n + 1), rng.randint(1, 3))
    for c in lead:
        for _ in range(rng.randint(1, 3)):
            rest = [x for x in range(1, n + 1) if x != c]; rng.shuffle(rest)
            lines.append((rng.choice([7, 11, 20, 33, 50]), [c] + rest))
    for _ in range(rng.randint(1, 6)):
        lines.append((rng.choice(MULTS), rng.sample(range(1, n + 1), rng.randint(1, n))))
    und = [c for c in range(1, n + 1) if undeclared and rng.random() < 0.15]
    return _finish(rng, n, s, [], und, lines)


def sure_losers(rng, undeclared=False):
    """many small candidates below a few big ones: batch exclusions, CfER (k)(3), mpls certain losers"""
    n = rng.randint(5, 8); s = rng.randint(1, 3)
    big = rng.sample(range(1, n + 1), rng.randint(2, 3))
    lines = []
    for c in range(1, n + 1):
        rest = [x for x in range(1, n + 1) if x != c]; rng.shuffle(rest)
        m = rng.choice([20, 30, 41, 55]) if c in big else rng.choice([0, 1, 1, 2, 3, 4])
        if m:
            lines.append((m, [c] + rest[:rng.randint(0, len(rest))]))
    und = [c for c in range(1, n + 1) if undeclared and c not in big and rng.random() < 0.3]
    return _finish(rng, n, s, [], und, lines)


def write_ins(rng):
    """mpls: undeclared write-ins, sometimes outnumbering the declared candidates or at the threshold"""
    n = rng.randint(3, 7)
    und = rng.sample(range(1, n + 1), rng.randint(1, n - 1))
    decl = [c for c in range(1, n + 1) if c not in und]
    # sometimes a withdrawn candidate, declared or not (a write-in can be withdrawn too)
    wd = [c for c in range(1, n + 1) if rng.random() < 0.15] if rng.random() < 0.4 else []
    if len(wd) >= n - 1:
        wd = wd[:1]
    elig = [c for c in range(1, n + 1) if c not in wd]
    s = rng.randint(1, len(elig)) if rng.random() < 0.3 else rng.randint(1, max(1, len([c for c in decl if c not in wd])))
    s = min(s, len(elig))
    lines = []
    for _ in range(rng.randint(2, 10)):
        r = rng.sample(range(1, n + 1), rng.randint(1, n))
        if rng.random() < 0.4:
            r = [rng.choice(und)] + [x for x in r if x not in und]
        lines.append((rng.choice(MULTS + [20]), r))
    return _finish(rng, n, s, wd, und, lines)


def coalitions(rng):
    """solid coalitions sized within one vote of k quotas (C05)"""
    n = rng.randint(3, 7); s = rng.randint(1, min(4, n - 1))
    S = rng.sample(range(1, n + 1), rng.randint(1, min(4, n - 1)))
    others = [c for c in range(1, n + 1) if c not in S]
    k = rng.randint(1, min(s, len(S)))
    unit = rng.choice([1, 2, 5, 10])
    total = unit * (s + 1) * rng.randint(2, 6)
    coal = total * k // (s + 1) + rng.choice([-1, 0, 1, 1, 2])
    coal = max(1, min(total - 1, coal))
    lines = []; left = coal
    if rng.random() < 0.4 and len(S) > 1:
        # the coalition's members tie with one another: equal blocks, each member first on one of them
        m0 = max(1, coal // len(S))
        for i in range(len(S)):
            head = S[i:] + S[:i]
            tail = others[:]; rng.shuffle(tail)
            lines.append((m0, head + tail[:rng.randint(0, len(tail))]))
        left = coal - m0 * len(S)
    while left > 0:
        m = rng.randint(1, left)
        head = S[:]; rng.shuffle(head)
        tail = others[:]; rng.shuffle(tail)
        lines.append((m, head + tail[:rng.randint(0, len(tail))])); left -= m
    left = total - coal
    while left > 0:
        m = rng.randint(1, left)
        r = rng.sample(range(1, n + 1), rng.randint(1, n))
        if set(r[:len(S)]) == set(S):
            r = [rng.choice(others)] + r[:-1] if others and r[0] in S else r
            r = list(dict.fromkeys(r))
        lines.append((m, r)); left -= m
    wd = []
    if rng.random() < 0.25:
        # two withdrawn candidates written next to each other inside the rankings (also inside the coalition's block):
        # withdrawn means absent, so the coalition stays solid
        wd = [n + 1, n + 2]; n += 2
        nl = []
        for m, r in lines:
            if rng.random() < 0.7:
                k = rng.randint(0, len(r)); pair = wd[:] if rng.random() < 0.5 else wd[::-1]
                r = r[:k] + pair + r[k:]
            nl.append((m, r))
        lines = nl
    return _finish(rng, n, s, wd, [], lines)


def big(rng, undeclared=False):
    p = plain(rng, maxc=6, maxb=8, undeclared=undeclared, mults=[10 ** 6, 10 ** 6 + 1, 3 * 10 ** 8, 10 ** 9, 999999, 1])
    return p


def majority(rng):
    """one seat, one candidate ranked first on more than half of the ballots"""
    n = rng.randint(2, 7)
    w = rng.randint(1, n)
    lines = []
    tot_other = 0
    for _ in range(rng.randint(0, 6)):
        c = rng.choice([x for x in range(1, n + 1) if x != w])
        rest = [x for x in range(1, n + 1) if x != c]; rng.shuffle(rest)
        m = rng.choice(MULTS); tot_other += m
        lines.append((m, [c] + rest[:rng.randint(0, len(rest))]))
    need = tot_other + 1
    while need > 0:
        m = rng.randint(1, need)
        rest = [x for x in range(1, n + 1) if x != w]; rng.shuffle(rest)
        lines.append((m, [w] + rest[:rng.randint(0, len(rest))])); need -= m
    rng.shuffle(lines)
    return _finish(rng, n, 1, [], [], lines)


def crossover(rng, undeclared=False):
    """two candidates whose tallies cross over at earlier stages and then tie (Scottish prior-stage tie-breaks at depth >= 2):
    X starts d behind Y, an early exclusion hands X p > d votes, a later one hands Y exactly p - d"""
    nbig = rng.randint(1, 2)
    n = nbig + 4 + rng.randint(0, 1)
    ids = list(range(1, n + 1)); rng.shuffle(ids)
    big, (X, Y, Pc, Qc), extra = ids[:nbig], ids[nbig:nbig + 4], ids[nbig + 4:]
    d = rng.randint(1, 2); e = rng.randint(1, 3); p = d + e          # P -> X : p votes ; Q -> Y : p - d = e votes
    q = p + rng.randint(1, 2)                                         # Q is excluded after P
    x0 = q + rng.randint(1, 3)
    lines = [(x0, [X]), (x0 + d, [Y]), (p, [Pc, X]), (e, [Qc, Y])]
    if q - e > 0:
        lines.append((q - e, [Qc, big[0]]))
    tot_small = 2 * x0 + d + p + q
    for b in big:
        lines.append((tot_small + rng.randint(0, 3), [b]))
    for c in extra:
        lines.append((rng.randint(0, 1) or 1, [c, rng.choice([X, Y])]) if rng.random() < 0.3 else (1, [c]))
    rng.shuffle(lines)
    s = rng.randint(1, max(1, nbig))
    return _finish(rng, n, s, [], [], lines)


def blocs(rng, undeclared=False):
    """huge equal blocs behind one leader: vote granularity (multiplier x 10^-p) coarser than omega, surplus that stalls"""
    n = rng.randint(3, 6); s = rng.randint(1, n - 1)
    ids = list(range(1, n + 1)); rng.shuffle(ids)
    lead = ids[0]
    m = rng.choice([10 ** 5, 10 ** 6, 10 ** 7, 10 ** 7 + 3, 3 * 10 ** 7, 10 ** 8]) + rng.choice([0, 0, 1, 3, 7])
    lines = []
    for c in ids[1:rng.randint(2, min(4, n))]:
        lines.append((m + rng.choice([0, 0, 0, 1]), [lead, c] + ([rng.choice(ids)] if rng.random() < 0.3 else [])))
    for _ in range(rng.randint(0, 3)):
        lines.append((rng.choice([1, 2, 5, m // 10, m]), rng.sample(ids, rng.randint(1, n))))
    lines = [(mm, list(dict.fromkeys(r))) for mm, r in lines]
    return _finish(rng, n, s, [], [], lines)


def threeway(rng, undeclared=False):
    """a three-way tie for exclusion in which two of the three were jointly lower at the previous stage: the prior-stage rule
    finds no *unique* lowest there and must go on (to earlier stages, then to the lot)"""
    nbig = rng.randint(1, 2)
    ids = list(range(1, nbig + 5)); rng.shuffle(ids)
    big, (X, Y, Z, Pc) = ids[:nbig], ids[nbig:nbig + 4]
    d = rng.randint(1, 3)
    a = 3 * d + rng.randint(1, 4)
    lines = [(a - d, [X]), (a - d, [Y]), (a, [Z]), (d, [Pc, X]), (d, [Pc, Y])]
    if rng.random() < 0.3:      # variant: the two were jointly *higher*
        lines = [(a, [X]), (a, [Y]), (a - d, [Z]), (d, [Pc, Z])]
        if d > 1:
            lines[-1] = (d - 1, [Pc, Z]); lines.append((1, [Pc, Z, X]))
    tot = sum(m for m, _ in lines)
    for b in big:
        lines.append((tot + rng.randint(0, 3), [b]))
    rng.shuffle(lines)
    # with nbig + 2 seats two of the three tied candidates win: the tie-break decides the winners
    seats = nbig + 2 if rng.random() < 0.5 else rng.randint(1, max(1, nbig))
    return _finish(rng, len(ids), seats, [], [], lines)


_EXACT_P = {'cfer': 5, 'cfer-batch': 5, 'wigm-prf': 4, 'wigm-prf-batch': 4, 'scotland': 5, 'mpls': 4, 'wigm': 4}
_EXACT_INT = ('scotland', 'mpls')


def exact_threshold(rng, rule='cfer', undeclared=False):
    """a candidate lands *exactly* on a fractional threshold through a surplus transfer: first preferences b plus k
    ballots at transfer value tv give b + k*tv == quota, to the last digit of the rule's fixed-point arithmetic (for
    wigm the case only bites at precision 4).  Separates `>=` from `>` at the election step."""
    import math
    S = 10 ** _EXACT_P.get(rule, 5)
    for _ in range(150):
        s = rng.randint(1, 3); n = rng.randint(30, 500)
        T = (n // (s + 1) + 1) * S if rule in _EXACT_INT else (n * S) // (s + 1) + 1
        lo = T // S + 1
        if lo >= n:
            continue
        avals = list(range(lo, n)); rng.shuffle(avals)
        for a in avals:
            sur = a * S - T; tv = sur // a
            if tv <= 0:
                continue
            g = math.gcd(tv, S)
            if T % g:
                continue
            m = S // g
            k = ((T // g) * pow(tv // g, -1, m)) % m if m > 1 else 1
            if k == 0:
                k = m
            if k > a:
                continue
            rest = T - k * tv
            if rest < 0 or rest % S:
                continue
            b = rest // S
            if a + b > n:
                continue
            extra = rng.randint(1, 3)
            nc = s + 1 + extra
            ids = list(range(1, nc + 1)); rng.shuffle(ids)
            A, B, others = ids[0], ids[1], ids[2:]
            lines = [(k, [A, B] + rng.sample(others, rng.randint(0, len(others))))]
            if a - k:
                lines.append((a - k, [A] + rng.sample(others, rng.randint(0, min(1, len(others))))))
            if b:
                lines.append((b, [B] + rng.sample(others, rng.randint(0, len(others)))))
            left = n - a - b
            for c in others:
                if left <= 0:
                    break
                mlt = rng.randint(0, min(left, max(1, T // S - 1)))
                if mlt:
                    lines.append((mlt, [c] + rng.sample([x for x in ids if x != c], rng.randint(0, 2)))); left -= mlt
            if left > 0:
                lines.append((left, [rng.choice(others)]))
            rng.shuffle(lines)
            return _finish(rng, nc, s, [], [], lines)
    return plain(rng)


def slow_cycle(rng, undeclared=False):
    """K candidates elected together whose ballots rank all K of them cyclically before one of h hopefuls competing for the last
    seat: the surplus circulates among the elected and shrinks by a few percent per Meek iteration (hundreds of iterations in a
    round for K around 10) -- exercises iteration limits and the convergence tests"""
    K = rng.randint(5, 11); h = rng.randint(2, 3); base = rng.randint(20, 40)
    n = K + h
    lines = []
    for i in range(K):
        lines.append((base + i, [(i + j) % K + 1 for j in range(K)] + [K + 1 + (i % h)]))
    for j in range(h):
        lines.append((base - 10 - j, [K + 1 + j]))
    return _finish(rng, n, K + 1, [], [], lines)


FAMILIES = {
    'slow_cycle': slow_cycle,
    'plain': plain, 'on_quota': on_quota, 'symmetric': symmetric, 'few_supported': few_supported,
    'chains': chains, 'sure_losers': sure_losers, 'big': big, 'crossover': crossover, 'blocs': blocs, 'threeway': threeway, 'exact_threshold': exact_threshold,
}


def profile(rng, rule, families=None):
    """(family name, profile) for a rule"""
    fams = list(families or FAMILIES)
    if rule == 'mpls' and 'write_ins' not in fams and families is None:
        fams.append('write_ins')
    f = rng.choice(fams)
    und = (rule == 'mpls' and rng.random() < 0.4)
    if f == 'write_ins':
        return f, (write_ins(rng) if rule == 'mpls' else plain(rng))
    if f == 'coalitions':
        return f, coalitions(rng)
    if f == 'majority':
        return f, majority(rng)
    if f == 'exact_threshold':
        return f, exact_threshold(rng, rule)
    if f == 'plain':
        return f, plain(rng, undeclared=und)
    return f, FAMILIES[f](rng, undeclared=und)


def add_equal_ranks(rng, p):
    """merge neighbouring ranks of some lines into equal-rank groups (meek / warren only read them)"""
    nl = []
    for m, r in p['lines']:
        if rng.random() < 0.5 and len(r) > 1:
            g = []; i = 0
            while i < len(r):
                k = 1 if rng.random() < 0.6 else rng.randint(2, 3)
                grp = r[i:i + k]; i += k
                g.append(list(grp) if len(grp) > 1 else grp[0])
            nl.append((m, g))
        else:
            nl.append((m, r))
    q = dict(p); q['lines'] = nl
    return q


def unblt(text):
    """inverse of blt() on the texts blt() writes (used to keep minimised failures as a corpus)"""
    ls = text.split('\n')
    n, s = map(int, ls[0].split())
    p = dict(n=n, s=s, wd=[], und=[], lines=[], tie=list(range(1, n + 1)))
    i = 1
    while ls[i].startswith('['):
        w = ls[i].strip('[]').split()
        key = {'tie': 'tie', 'withdrawn': 'wd', 'undeclared': 'und'}[w[0]]
        p[key] = [int(x) for x in w[1:]]; i += 1
    while ls[i].strip() != '0':
        w = ls[i].split()[:-1]
        rank = [[int(y) for y in x.split('=')] if '=' in x else int(x) for x in w[1:]]
        p['lines'].append((int(w[0]), rank)); i += 1
    return p


# ---------------------------------------------------------------------------------------------
# rendering and denotation

def blt(p, names=None, title='t'):
    out = ['%d %d' % (p['n'], p['s'])]
    out.append('[tie %s]' % ' '.join(map(str, p['tie'])))
    if p['wd']:
        out.append('[withdrawn %s]' % ' '.join(map(str, p['wd'])))
    if p['und']:
        out.append('[undeclared %s]' % ' '.join(map(str, p['und'])))
    for m, r in p['lines']:
        out.append('%d %s 0' % (m, ' '.join('='.join(map(str, g)) if isinstance(g, list) else str(g) for g in r)))
    out.append('0')
    for c in range(1, p['n'] + 1):
        out.append('"%s"' % (names[c] if names else 'C%d' % c))
    out.append('"%s"' % p.get('title', title))
    if p.get('source') is not None:
        out.append('"%s"' % p['source'])
        if p.get('comment') is not None:
            out.append('"%s"' % p['comment'])
    return '\n'.join(out) + '\n'


def denote(p):
    """what the profile means: (nballots, strict lines [(m, [cid])], equal lines [(m, [[cid]])]) after stripping withdrawn"""
    wd = set(p['wd'])
    strict, equal, nb = [], [], 0
    for m, r in p['lines']:
        groups = [[c for c in (g if isinstance(g, list) else [g]) if c not in wd] for g in r]
        is_eq = any(len(g) > 1 for g in groups)
        groups = [g for g in groups if g]
        if not groups:
            continue
        nb += m
        if is_eq:
            equal.append((m, groups))
        else:
            strict.append((m, [g[0] for g in groups]))
    return nb, strict, equal


def tie_order(p):
    return {cid: i + 1 for i, cid in enumerate(p['tie'])}


# ---------------------------------------------------------------------------------------------
# rule configurations

def options(rng, rule, lowprec=False, rational_meek=False):
    """caller options for a rule (only options the rule reads, with values it accepts)"""
    if rule == 'wigm':
        a = rng.choice(['fixed', 'integer', 'guarded', 'rational'])
        o = dict(rule=rule, arithmetic=a)
        if a in ('fixed', 'guarded'):
            o['precision'] = rng.choice([0, 1, 2, 4, 6, 9])
        if a == 'guarded':
            o['guard'] = rng.choice([0, 1, 3, 6])
        o['integer_quota'] = rng.choice([True, False]); o['defeat_batch'] = rng.choice(['none', 'zero'])
        return o
    if rule in ('meek', 'warren'):
        a = rng.choice(['fixed', 'guarded', 'guarded'] + (['rational'] if rational_meek else []))
        o = dict(rule=rule, arithmetic=a)
        if a != 'rational':
            o['precision'] = rng.choice([1, 2, 3, 4]) if lowprec else rng.choice([6, 9, 12])
        if a == 'guarded':
            o['guard'] = rng.choice([0, 1, 2]) if lowprec else rng.choice([0, 2, 6])
        if rng.random() < 0.5 or a == 'rational':
            o['omega'] = rng.choice([2, 3, 5])
        o['defeat_batch'] = rng.choice(['safe', 'none'])
        return o
    return dict(rule=rule)


def config(o):
    """effective configuration the rule must run with: (arith, p, g, intq, batch, omega)"""
    rule = o['rule']
    if rule in STATUTORY:
        a, p, g, om = STATUTORY[rule]
        return dict(arith=a, p=p, g=g, intq=False, batch='none', omega=om)
    a = o.get('arithmetic', 'guarded')
    if a == 'guarded':
        p = o.get('precision', 18); g = o.get('guard', p // 2)
    elif a == 'fixed':
        p = o.get('precision', 9); g = 0
        if p == 0:
            a = 'integer'
    elif a == 'integer':
        p = 0; g = 0
    else:
        p = 0; g = 0
    if rule == 'wigm':
        return dict(arith=a, p=p, g=g, intq=bool(o.get('integer_quota', False)), batch=o.get('defeat_batch', 'none'), omega=0)
    # meek / warren
    if a == 'guarded':
        om = o.get('omega', p // 2)
    elif a in ('fixed', 'integer'):
        om = o.get('omega', p * 2 // 3)
    else:
        om = o.get('omega', 10)
    return dict(arith=a, p=p, g=g, intq=False, batch=o.get('defeat_batch', 'safe'), omega=om)


def case_line(p, o):
    """COUNT protocol line (without the verb) from the profile's denotation and the expected configuration"""
    c = config(o)
    nb, strict, equal = denote(p)
    tie = tie_order(p)
    toks = [o['rule'], c['arith'], c['p'], c['g'], 1 if c['intq'] else 0, c['batch'], c['omega'], p['n'], p['s'], nb]
    for cid in range(1, p['n'] + 1):
        toks += [cid, tie[cid], 1 if cid in p['wd'] else 0, 1 if cid in p['und'] else 0]
    for m, r in strict:
        toks += ['B', m, len(r)] + r
    for m, r in equal:
        toks += ['Q', m, len(r)]
        for g in r:
            toks += [len(g)] + g
    return ' '.join(map(str, toks))
