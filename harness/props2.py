"""Checks that are not count campaigns: arithmetic (C12, C13), printing (C14)."""
import os, random, collections, itertools, time, fractions
from fractions import Fraction
import common, gen, campaign, findings, implrun, implops
from props import prop, rng_for, budget, THEOREMS, first_diff, describe
from check import lean_gate


# =================================================================================================
# specification of the arithmetic operations over exact rationals (the reading of C12 / C13)

def fl(q):
    q = Fraction(q)
    return q.numerator // q.denominator


def sgn(x):
    return (x > 0) - (x < 0)


def spec_op(arith, p, g, op, rnd, args):
    if arith == 'rational':
        v = [Fraction(x) for x in args]
        sh = lambda q: '%d/%d' % (Fraction(q).numerator, Fraction(q).denominator)
        try:
            if op == 'add': return sh(v[0] + v[1])
            if op == 'sub': return sh(v[0] - v[1])
            if op in ('mulv', 'mul'): return sh(v[0] * v[1])
            if op in ('divv', 'div'): return sh(v[0] / v[1])
            if op == 'muldiv': return sh(v[0] * v[1] / v[2])
            if op == 'neg': return sh(-v[0])
            if op == 'abs': return sh(abs(v[0]))
            if op == 'min': return sh(min(v))
            if op == 'bool': return '1' if v[0] != 0 else '0'
            if op == 'cmp': return str(sgn(v[0] - v[1]))
        except ZeroDivisionError:
            return 'ZeroDivisionError'
        return 'BAD-OP'
    if arith == 'integer':
        p = 0
    if arith != 'guarded':
        g = 0
    S = 10 ** (p + g)
    a = [int(x) for x in args]
    forced_down = (arith == 'guarded' and g > 0)
    try:
        if op == 'add': return str(a[0] + a[1])
        if op == 'sub': return str(a[0] - a[1])
        if op == 'neg': return str(-a[0])
        if op == 'abs': return str(abs(a[0]))
        if op == 'muli': return str(a[0] * a[1])
        if op == 'ofint': return str(a[0] * S)
        if op == 'divi': return str(fl(Fraction(a[0], a[1])))
        if op == 'mulv': return str(fl(Fraction(a[0] * a[1], S)))
        if op == 'divv': return str(fl(Fraction(a[0] * S, a[1])))
        if op == 'min': return str(min(a))
        if op == 'bool': return '1' if a[0] != 0 else '0'
        if op in ('mul', 'div', 'muldiv'):
            q = Fraction(a[0] * a[1], S) if op == 'mul' else Fraction(a[0] * S, a[1]) if op == 'div' else Fraction(a[0] * a[1], a[2])
            r = fl(q)
            if rnd == 'up' and not forced_down and q != r:
                r += 1
            return str(r)
        if op == 'cmp':
            if arith == 'guarded':
                return '0' if 2 * abs(a[0] - a[1]) < 10 ** g else str(sgn(a[0] - a[1]))
            return str(sgn(a[0] - a[1]))
    except ZeroDivisionError:
        return 'ZeroDivisionError'
    return 'BAD-OP'


OPS = [('add', 2), ('sub', 2), ('mulv', 2), ('divv', 2), ('mul', 2), ('div', 2), ('muldiv', 3), ('cmp', 2),
       ('neg', 1), ('abs', 1), ('muli', 2), ('divi', 2), ('ofint', 1), ('min', 3), ('bool', 1)]
RAT_OPS = [o for o in OPS if o[0] not in ('muli', 'divi', 'ofint')]


def op_line(it):
    arith, p, g, op, rnd, args = it
    return 'OP %s %d %d %s %s %s' % ('fixed' if arith == 'integer' else arith, 0 if arith == 'integer' else p, g, op, rnd, ' '.join(args))


def gen_ops(rng, n, ariths, maxp=12, maxg=9):
    items = []
    for _ in range(n):
        arith = rng.choice(ariths)
        op, ar = rng.choice(RAT_OPS if arith == 'rational' else OPS)
        rnd = rng.choice(['up', 'down'])
        mag = rng.choice([3, 30, 10 ** 4, 10 ** 12, 10 ** 40, 10 ** 200])
        p = rng.randint(0, maxp); g = rng.randint(0, maxg) if arith == 'guarded' else 0
        if arith == 'rational':
            args = ['%d/%d' % (rng.randint(-mag, mag), rng.randint(1, mag)) for _ in range(ar)]
            if op in ('cmp', 'min') and rng.random() < 0.5:
                # values closer together than any float can tell apart, the larger one often first
                n0 = rng.randint(-mag, mag); d0 = rng.randint(1, mag); k = 10 ** rng.choice([17, 20, 30, 60])
                xs = [(n0 * k + rng.choice([0, 1, -1, 2]), d0 * k) for _ in range(ar)]
                if rng.random() < 0.5:
                    big = 10 ** rng.choice([16, 25, 40])
                    xs = [(big + rng.choice([0, 1, 2, -1]), 1) for _ in range(ar)]
                xs.sort(key=lambda t: t[0] * 1.0 / t[1], reverse=rng.random() < 0.7)
                args = ['%d/%d' % t for t in xs]
        else:
            args = [str(rng.choice([0, 1, -1, rng.randint(-mag, mag), rng.randint(-mag, mag)])) for _ in range(ar)]
            if op == 'cmp' and arith == 'guarded' and rng.random() < 0.7:
                # aim at the tolerance boundary
                a0 = rng.randint(-mag, mag); half = 10 ** g // 2
                d = rng.choice([half - 1, half, half + 1, 0, 1, -half, -half + 1, -half - 1, 10 ** g])
                args = [str(a0), str(a0 + d)]
        items.append((arith, p, g, op, rnd, args))
    return items


def grid_ops(ariths, R=6, ps=(0, 1, 2), gs=(0, 1, 2)):
    items = []
    vals = list(range(-R, R + 1))
    for arith in ariths:
        for p in ps:
            for g in (gs if arith == 'guarded' else (0,)):
                for op, ar in OPS:
                    if ar == 3 and op != 'muldiv':
                        continue
                    rnds = ['up', 'down'] if op in ('mul', 'div', 'muldiv') else ['down']
                    scale = 10 ** max(0, p + g - 1)
                    for rnd in rnds:
                        for args in itertools.product(vals, repeat=ar):
                            if ar == 3 and (abs(args[0]) > 4 or abs(args[1]) > 4):
                                continue
                            a = [str(x * scale + (x % 3)) if op not in ('muli', 'divi', 'ofint') else str(x) for x in args]
                            if op in ('muli', 'divi'):
                                a = [str(args[0] * scale + 1), str(args[1])]
                            items.append((arith, p, g, op, rnd, a))
    return items


def arithmetic_check(run, items, label):
    """implementation vs Lean model vs the rational specification, operation by operation"""
    impl = common.pmap(implops.run_op, items, limit=10.0, chunksize=200)
    model = common.run_driver_parallel([op_line(it) for it in items])
    stats = collections.Counter()
    bad_spec, bad_model = [], []
    for it, i, m in zip(items, impl, model):
        if isinstance(i, tuple):
            i = 'TIMEOUT'
        s = spec_op(*it)
        stats['%s:%s' % (it[0], it[3])] += 1
        if i == 'ZeroDivisionError':
            stats['ZeroDivisionError'] += 1
        if i != s:
            bad_spec.append((it, i, s, m))
        if i != m:
            bad_model.append((it, i, s, m))
    for it, i, s, m in bad_spec[:3]:
        run.violation(dict(kind='implementation', what='%s: result differs from the exact-rational specification' % label,
                           arithmetic=it[0], precision=it[1], guard=it[2], op=it[3], round=it[4], operands_raw=it[5],
                           implementation=i, specification=s, model=m, case=op_line(it)))
    if bad_model and not bad_spec:
        it, i, s, m = bad_model[0]
        run.violation(dict(kind='correspondence', broken=['correspondence OP (lean/DroopModel/Values.lean vs droop/values)'],
                           case=op_line(it), implementation=i, model=m, specification=s, disagreeing_cases=len(bad_model)),
                      'no-failing-input-found')
    return stats, len(bad_spec), len(bad_model)


@prop('C12')
def C12(run):
    broken = lean_gate(run, THEOREMS['C12'])
    if not broken:
        from props import gen_gate
        broken = broken + gen_gate(run, 'translator_fixed', 'gen_fixed', 'programs',
                                   'Gen.add/sub/mulOp/divOp/mul/div/muldiv = C12.*Prog (Fixed), Gen.g* = C12.g*Prog (Guarded) by rfl; fixed_*_is_program, guarded_*_is_program (lean/Props/C12Prog.lean)',
                                   'the arithmetic methods of droop/values/fixed.py, executed symbolically, no longer return the expressions '
                                   'lean/Props/C12Prog.lean proves the model to compute')
        broken = broken + gen_gate(run, 'translator_ctor', 'gen_ctor', 'programs',
                                   'Gen.fixedOfInt = Gen.guardedOfInt = C12.ofIntProg, Gen.minKinds = C12.minKinds by rfl; fixed_ofInt_is_program, '
                                   'guarded_ofInt_is_program, guarded_vMin_is_loop, fixed_vMin_is_builtin (lean/Props/C12Ctor.lean)',
                                   '__init__ (integer scaling) or min() of the value classes are no longer of the form lean/Props/C12Ctor.lean ties to the model')
    rng = rng_for(run)
    items = gen_ops(rng, budget(run, 40000, 600000), ['fixed', 'fixed', 'integer', 'rational'])
    items += grid_ops(['fixed'], R=budget(run, 5, 12), ps=(0, 1, 2) if run.tier == 'quick' else (0, 1, 2, 3, 4))
    stats, nspec, nmodel = arithmetic_check(run, items, 'C12')
    # rational values combined with plain ints and Fractions, on either side (reflected operators included)
    mixed = []
    for _ in range(budget(run, 6000, 60000)):
        mag = rng.choice([3, 30, 10 ** 4, 10 ** 12])
        xs = '%d/%d' % (rng.randint(-mag, mag), rng.randint(1, mag))
        ys = str(rng.randint(-mag, mag)) if rng.random() < 0.5 else '%d/%d' % (rng.randint(-mag, mag), rng.randint(1, mag))
        mixed.append((rng.choice(['add', 'sub', 'mul', 'div', 'floordiv', 'mod']), rng.random() < 0.6, xs, ys))
    mres = common.pmap(implops.run_mixed, mixed, limit=10.0, chunksize=200)
    nmixed_bad = 0
    for it, r in zip(mixed, mres):
        op, left, xs, ys = it
        fx = fractions.Fraction(*map(int, xs.split('/')))
        fy = fractions.Fraction(*map(int, ys.split('/'))) if '/' in ys else fractions.Fraction(int(ys))
        a, b = (fy, fx) if left else (fx, fy)
        try:
            e = {'add': lambda: a + b, 'sub': lambda: a - b, 'mul': lambda: a * b, 'div': lambda: a / b,
                 'floordiv': lambda: fractions.Fraction(a // b), 'mod': lambda: a % b}[op]()
            want = '%d/%d' % (e.numerator, e.denominator)
        except ZeroDivisionError:
            want = 'ZeroDivisionError'
        if r != want:
            nmixed_bad += 1
            if nmixed_bad <= 2:
                run.violation(dict(kind='implementation', what='C12: Rational combined with a plain %s on the %s: result is not the exact value of its own class'
                                   % ('Fraction' if '/' in ys else 'int', 'left' if left else 'right'),
                                   op=op, rational=xs, other=ys, other_is_left_operand=left, implementation=r, specification=want))
    stats['rational:mixed-operands'] = len(mixed)
    # integer arithmetic is the zero-place case
    same0 = 0
    for it in items[:4000]:
        if it[0] == 'fixed' and it[1] == 0:
            same0 += 1
    if broken and not run.violations:
        run.violation(dict(kind='theorem', broken=broken), 'no-failing-input-found')
    cov = run.coverage
    cov['evaluations'] = len(items)
    cov['distinct_nontrivial'] = len({op_line(it) for it in items if it[3] in ('mulv', 'divv', 'mul', 'div', 'muldiv', 'divi')})
    cov['traces_validated_against_impl'] = len(items) - nmodel
    cov['rule'] = ('operand tuples: random (all signs, 0, +-1, magnitudes 3..10^200, precision 0..12) plus an exhaustive small grid; '
                   'each is run on the real class, on the Lean model and on the exact-rational specification; non-trivial = an operation that rounds')
    cov['distribution'] = dict(stats)
    cov['samples'] = [op_line(it) for it in items[:3]] + [op_line(items[-1])]
    run.assumptions = ['Python Fraction arithmetic is the reference for exact rationals', 'closure (type(result) is cls) is asserted on the implementation side']


@prop('C13')
def C13(run):
    broken = lean_gate(run, THEOREMS['C13'])
    if not broken:
        from props import gen_gate
        broken = broken + gen_gate(run, 'translator_fixed', 'gen_fixed', 'programs',
                                   'Gen.g* = C12.g*Prog (Guarded) and Gen.* = C12.*Prog (Fixed) by rfl; guarded_*_is_program, fixed_*_is_program',
                                   'the arithmetic methods of droop/values/guarded.py / fixed.py, executed symbolically, no longer return the '
                                   'expressions lean/Props/C12Prog.lean proves the model to compute')
        broken = broken + gen_gate(run, 'translator_ctor', 'gen_ctor', 'programs',
                                   'Gen.fixedOfInt = Gen.guardedOfInt = C12.ofIntProg, Gen.minKinds = C12.minKinds by rfl; fixed_ofInt_is_program, '
                                   'guarded_ofInt_is_program, guarded_vMin_is_loop, fixed_vMin_is_builtin (lean/Props/C12Ctor.lean)',
                                   '__init__ (integer scaling) or min() of the value classes are no longer of the form lean/Props/C12Ctor.lean ties to the model')
        broken = broken + gen_gate(run, 'translator_cmp', 'gen_cmp', 'programs',
                                   'Gen.cmpProg = C13.cmpProg, Gen.guardedOps = C13.guardedOps, Gen.fixedOps = C13.fixedOps by rfl; cmp_is_program, '
                                   'guarded_ops_are_cmp, fixed_ops_are_int (lean/Props/C13Prog.lean)',
                                   'Guarded.__cmp__ (executed symbolically) or the rich comparisons of Guarded / Fixed are no longer the program and '
                                   'tables lean/Props/C13Prog.lean proves equal to the model')
    rng = rng_for(run)
    items = gen_ops(rng, budget(run, 40000, 500000), ['guarded'])
    items += grid_ops(['guarded'], R=budget(run, 4, 8))
    stats, nspec, nmodel = arithmetic_check(run, items, 'C13')
    # guard = 0 is fixed: every operation (implementation vs implementation)
    g0 = [it for it in gen_ops(rng, budget(run, 20000, 200000), ['guarded'])]
    g0 = [(a, p, 0, op, rnd, args) for (a, p, g, op, rnd, args) in g0]
    fx = [('fixed', p, 0, op, rnd, args) for (a, p, g, op, rnd, args) in g0]
    rg = common.pmap(implops.run_op, g0, limit=10.0, chunksize=200)
    rf = common.pmap(implops.run_op, fx, limit=10.0, chunksize=200)
    nb = 0
    for it, x, y in zip(g0, rg, rf):
        if x != y:
            nb += 1
            if nb <= 2:
                run.violation(dict(kind='implementation', what='guarded with guard=0 differs from fixed', case=op_line(it), guarded=x, fixed=y))
    # the tolerance does not depend on the display setting, and the class statistics record every comparison
    ncs = cmpstats_check(run, rng)
    # ... and every count
    nce, ncd = equivalence_counts(run, rng)
    # quasi-exact equals exact when the statistics are clear (explored)
    qstats = quasi_exact(run, rng)
    if broken and not run.violations:
        run.violation(dict(kind='theorem', broken=broken), 'no-failing-input-found')
    cov = run.coverage
    cov['evaluations'] = len(items) + len(g0) + ncs + nce + qstats.get('runs', 0)
    cov['distinct_nontrivial'] = len({op_line(it) for it in items if it[3] == 'cmp'})
    cov['traces_validated_against_impl'] = len(items) - nmodel
    cov['rule'] = ('guarded operand tuples aimed at the tolerance boundary (|a-b| = 10^g/2 -1/0/+1) plus random and grid tuples; guard=0 vs fixed on '
                   'operations and on whole counts; guarded vs rational counts when the comparison statistics are clear; non-trivial = a comparison')
    cov['distribution'] = dict(stats)
    cov['comparison_sequences_with_statistics'] = ncs
    cov['g0_vs_fixed_ops'] = len(g0); cov['g0_vs_fixed_counts'] = nce; cov['g0_vs_fixed_count_differences'] = ncd
    cov['quasi_exact'] = qstats
    cov['samples'] = [op_line(it) for it in items[:3]]
    run.assumptions = ['third clause (quasi-exact = exact) is explored, not proved: see DESIGN.md C13']


_CMP_OPS = {'lt': lambda c: c < 0, 'le': lambda c: c <= 0, 'eq': lambda c: c == 0, 'ne': lambda c: c != 0,
            'gt': lambda c: c > 0, 'ge': lambda c: c >= 0}


def cmpstats_check(run, rng):
    """sequences of comparisons through the six operators, under every display setting: outcome = the model's guardedCmp,
    Guarded.maxDiff / minDiff afterwards = the model's statsRun (lean/DroopModel/Values.lean; theorems stats_*_bounds, stats_clear_exact)"""
    items = []
    for _ in range(budget(run, 3000, 40000)):
        p = rng.randint(0, 9); g = rng.randint(0, 9)
        display = rng.choice([None, 0, p, p + g, rng.randint(0, p + g + 2)])
        half = 10 ** g // 2
        seq = []
        for _ in range(rng.randint(1, 6)):
            a0 = rng.randint(-10 ** rng.choice([2, 6, 14]), 10 ** rng.choice([2, 6, 14]))
            d = rng.choice([half - 1, half, half + 1, 0, 1, -1, -half, -half + 1, -half - 1, 10 ** g, -10 ** g,
                            rng.randint(-half - 2, half + 2), rng.randint(-10 ** (g + 1), 10 ** (g + 1))])
            seq.append((rng.choice(sorted(_CMP_OPS)), a0, a0 + d))
        items.append((p, g, display, seq))
    impl = common.pmap(implops.run_cmpstats, items, limit=10.0, chunksize=200)
    model = common.run_driver_parallel(['CMPSTATS %d %d %s' % (p, g, ' '.join('%d %d' % (a, b) for _, a, b in seq)) for p, g, _, seq in items])
    nb = 0
    for it, i, m in zip(items, impl, model):
        if isinstance(i, tuple):
            continue
        try:
            cs, mx, mn = m.split(' ')
            want = '%s %s %s' % (','.join('1' if _CMP_OPS[op](int(c)) else '0' for (op, _, _), c in zip(it[3], cs.split(','))), mx, mn)
        except Exception:
            want = 'MODEL:' + m
        if i != want:
            nb += 1
            if nb <= 2:
                p, g, display, seq = it
                geps = max(1, 10 ** g // 2)
                subtol = [abs(a - b) for _, a, b in seq if abs(a - b) < geps]
                run.violation(dict(kind='implementation', what='Guarded comparisons / comparison statistics differ from the tolerance law '
                                   '(equal iff |a-b| < 10^guard/2 whatever the display; maxDiff = largest sub-tolerance difference, minDiff = smallest other)',
                                   precision=p, guard=g, display=display, comparisons=[[op, str(a), str(b)] for op, a, b in seq],
                                   implementation=i, expected=want, largest_subtolerance_difference=max(subtol) if subtol else 0))
    return len(items)


def _count_pair(item):
    p, o1, o2 = item
    return implrun.count_line((p, o1)), implrun.count_line((p, o2))


def equivalence_counts(run, rng):
    """guarded(p, 0) and fixed(p) give the same record under wigm / meek / warren"""
    n = budget(run, 1500, 30000)
    items = []
    for _ in range(n):
        rule = rng.choice(['wigm', 'meek', 'warren'])
        fam, p = gen.profile(rng, rule)
        if rule != 'wigm' and rng.random() < 0.3:
            p = gen.add_equal_ranks(rng, p)
        pr = rng.choice([2, 4, 6, 9]) if rule == 'wigm' else rng.choice([6, 9, 12])
        o1 = dict(rule=rule, arithmetic='guarded', precision=pr, guard=0)
        o2 = dict(rule=rule, arithmetic='fixed', precision=pr)
        if rule != 'wigm':
            om = rng.choice([3, 4, 5]); o1['omega'] = om; o2['omega'] = om
            db = rng.choice(['safe', 'none']); o1['defeat_batch'] = db; o2['defeat_batch'] = db
        else:
            iq = rng.choice([True, False]); o1['integer_quota'] = iq; o2['integer_quota'] = iq
        items.append((p, o1, o2))
    res = common.pmap(_count_pair, items, limit=20.0)
    nd = 0
    for (p, o1, o2), r in zip(items, res):
        if isinstance(r, tuple) and r[0] == 'TIMEOUT':
            continue
        a, b = r
        if a != b:
            nd += 1
            if nd <= 2:
                run.violation(dict(kind='implementation', what='a count with guarded guard=0 differs from the count with fixed',
                                   blt=gen.blt(p), guarded_options=o1, fixed_options=o2, first_difference=first_diff(a, b)))
    return len(items), nd


def _quasi(item):
    p, og, orr = item
    import io, contextlib
    from fractions import Fraction
    try:
        _, Eg = implrun.new_election(gen.blt(p), og)
        implrun.limited_count(Eg, 4.0)
        from droop.values.guarded import Guarded
        maxd, mind = Guarded.maxDiff, Guarded.minDiff
        pr, g = Guarded.precision, Guarded.guard
        sc = 10 ** (pr + g)
        vg = _view(Eg, sc)
        _, Er = implrun.new_election(gen.blt(p), orr)
        implrun.limited_count(Er, 4.0)
        vr = _view(Er, 1)
    except Exception as e:
        return ('exc', type(e).__name__)
    geps = max(1, 10 ** g // 2)
    near = (maxd * 1000 > geps) or (mind < geps * 1000)
    same = [r for r, _ in vg] == [r for r, _ in vr]
    close = same and all(abs(a - b) <= Fraction(1, 10 ** pr) for (_, x), (_, y) in zip(vg, vr) for a, b in zip(x, y))
    return ('near' if near else 'clear', 'same' if same else 'DIFF', 'close' if close else 'far')


def _view(E, scale):
    out = []
    for a in E.record()['actions']:
        if a['tag'] == 'log':
            continue
        row = [a['tag']]; vals = []
        for cid, c in sorted(a['cstate'].items()):
            row.append(c['state'])
            if 'vote' in c:
                v = c['vote']; vals.append(Fraction(v._value, scale) if hasattr(v, '_value') else Fraction(v))
        q = a['quota']; vals.append(Fraction(q._value, scale) if hasattr(q, '_value') else Fraction(q))
        out.append((tuple(row), vals))
    return out


def quasi_exact(run, rng):
    n = budget(run, 400, 6000)
    items = []
    for _ in range(n):
        rule = rng.choice(['wigm', 'meek', 'warren'])
        p = gen.plain(rng, maxc=5, maxb=8)
        if rule != 'wigm' and rng.random() < 0.4:
            p = gen.add_equal_ranks(rng, gen.plain(rng, maxc=4, maxb=5))
        pr = rng.choice([6, 9, 12]); g = rng.choice([3, 6, 9])
        og = dict(rule=rule, arithmetic='guarded', precision=pr, guard=g); orr = dict(rule=rule, arithmetic='rational')
        if rule != 'wigm':
            om = rng.choice([3, 4, 5]); og['omega'] = om; orr['omega'] = om
        items.append((p, og, orr))
    res = common.pmap(_quasi, items, limit=8.0)
    st = collections.Counter()
    nb = 0
    for it, r in zip(items, res):
        if r[0] == 'TIMEOUT':
            st['budget-overrun (not explored)'] += 1; continue
        st['/'.join(r)] += 1
        if r[0] == 'clear' and r[2] != 'close':
            if findings.meek_collapse_class(it[0], it[1]):
                continue
            nb += 1
            if nb <= 2:
                run.violation(dict(kind='implementation', what='guarded count with clear comparison statistics differs from the rational count',
                                   blt=gen.blt(it[0]), guarded_options=it[1], rational_options=it[2], verdict=r))
    d = dict(st); d['runs'] = len(items)
    return d


# =================================================================================================
# C14: printed numbers

def spec_str(arith, p, g, d, x):
    """exact value rounded half-up to d display digits, in the class's format"""
    if arith == 'rational':
        val = Fraction(x)
    else:
        val = Fraction(int(x), 10 ** (p + (g if arith == 'guarded' else 0)))
    if arith in ('fixed', 'integer') and (arith == 'integer' or p == 0):
        return str(int(x))
    n = fl(val * 10 ** d + Fraction(1, 2))        # round half up
    sign = '-' if n < 0 else ''
    n = abs(n)
    ip, fp = divmod(n, 10 ** d)
    if arith == 'guarded' and d > p:
        a, b = divmod(fp, 10 ** (d - p))
        return '%s%d.%0*d_%0*d' % (sign, ip, p, a, d - p, b)
    return '%s%d.%0*d' % (sign, ip, d, fp)


def str_line(it, eff):
    arith, p, g, d, x = it
    if arith in ('fixed', 'integer'):
        return 'STR fixed %d %d %s' % (0 if arith == 'integer' else p, eff, x)
    if arith == 'guarded':
        return 'STR guarded %d %d %d %s' % (p, g, eff, x)
    return 'STR rational %d %s' % (eff, x)


@prop('C14')
def C14(run):
    broken = lean_gate(run, THEOREMS['C14'])
    if not broken:
        from props import gen_gate
        broken = broken + gen_gate(run, 'translator_str', 'gen_str', 'programs',
                                   'Gen.fixedStr = C14.fixedStrProg, Gen.guardedStr = C14.guardedStrProg by rfl; fixed_str_is_program, '
                                   'guarded_str_is_program (lean/Props/C14Prog.lean)',
                                   'Fixed.__str__ / Guarded.__str__ of droop/values, executed symbolically, are no longer the decision trees '
                                   'lean/Props/C14Prog.lean proves equal to the model')
        broken = broken + gen_gate(run, 'translator_rstr', 'gen_rstr', 'programs',
                                   'Gen.rationalUnits = C14.rationalUnitsProg, Gen.rationalRender = C14.rationalRenderProg by rfl; rational_units_is_program, '
                                   'rational_render_is_program, rational_str_is_program (lean/Props/C14Rat.lean)',
                                   'Rational.__str__ (or the _dps / _dpr assignments of Rational.initialize), executed symbolically, is no longer the pair of '
                                   'programs lean/Props/C14Rat.lean proves equal to the model')
    rng = rng_for(run)
    items = []
    for _ in range(budget(run, 30000, 500000)):
        arith = rng.choice(['fixed', 'fixed', 'guarded', 'guarded', 'rational', 'integer'])
        p = rng.randint(0, 8); g = rng.randint(0, 6)
        mag = rng.choice([1, 10, 1000, 10 ** 6, 10 ** 30])
        if arith == 'rational':
            d = rng.randint(0, 12); x = '%d/%d' % (rng.randint(-mag, mag), rng.randint(1, mag))
        elif arith == 'guarded':
            d = rng.randint(0, p + g + 2); x = str(rng.randint(-mag, mag))
        else:
            d = rng.randint(0, p + 2); x = str(rng.randint(-mag, mag))
        if rng.random() < 0.15 and arith != 'rational':
            # exactly on a rounding boundary
            dd = max(0, p + (g if arith == 'guarded' else 0) - min(d, p + g))
            x = str(rng.randint(-50, 50) * 10 ** dd + rng.choice([0, 1, -1]) * (10 ** dd // 2))
        items.append((arith, p, g, d, x))
    # exhaustive small range
    R = budget(run, 2, 3)
    for p in range(0, R + 1):
        for d in range(0, p + 1):
            for v in range(-3 * 10 ** p, 3 * 10 ** p + 1):
                items.append(('fixed', p, 0, d, str(v)))
    for p in range(0, 2):
        for g in range(0, 3):
            for d in range(0, p + g + 1):
                for v in range(-2 * 10 ** (p + g), 2 * 10 ** (p + g) + 1, max(1, 10 ** (p + g) // 200)):
                    items.append(('guarded', p, g, d, str(v)))
    res = common.pmap(implops.run_str, items, limit=10.0, chunksize=500)
    lines = []
    for it, r in zip(items, res):
        eff = r[0] if (isinstance(r, tuple) and r[0] not in (None, 'TIMEOUT')) else it[3]
        lines.append(str_line(it, eff))
    model = common.run_driver_parallel(lines)
    nspec = nmodel = nimpure = 0
    stats = collections.Counter()
    for it, r, m, ln in zip(items, res, model, lines):
        eff, s, pure = r if r[0] != 'TIMEOUT' else (it[3], 'TIMEOUT', False)
        stats[it[0] + ('<0' if it[4].startswith('-') else '>=0')] += 1
        if eff is None:
            eff = it[3]
        expect = spec_str(it[0], it[1], it[2], eff, it[4])
        if s != expect:
            nspec += 1
            if nspec <= 3:
                run.violation(dict(kind='implementation', what='str() is not the exact value rounded half-up at the display precision',
                                   arithmetic=it[0], precision=it[1], guard=it[2], display=eff, raw_value=it[4],
                                   implementation=s, specification=expect, model=m, case=ln))
        if not pure:
            nimpure += 1
            if nimpure <= 2:
                run.violation(dict(kind='implementation', what='str() altered the value or is not repeatable', case=ln, implementation=s))
        if s != m:
            nmodel += 1
            first_m = first_m if nmodel > 1 else (ln, s, m)
    if nmodel and not nspec:
        run.violation(dict(kind='correspondence', broken=['correspondence STR (lean/DroopModel/Str.lean vs droop/values __str__)'],
                           case=first_m[0], implementation=first_m[1], model=first_m[2], disagreeing_cases=nmodel), 'no-failing-input-found')
    nfig = figures_in_renderings(run, rng)
    if broken and not run.violations:
        run.violation(dict(kind='theorem', broken=broken), 'no-failing-input-found')
    cov = run.coverage
    cov['evaluations'] = len(items) + nfig
    cov['distinct_nontrivial'] = len({l for l, it in zip(lines, items) if it[4].lstrip('-') not in ('0',)})
    cov['traces_validated_against_impl'] = len(items) - nmodel
    cov['rule'] = ('values of all signs and magnitudes to 10^30 under every precision/guard/display setting, rounding-boundary values, and an exhaustive '
                   'small range; str() on the real class vs the Lean model vs exact half-up rounding; non-trivial = non-zero value')
    cov['distribution'] = dict(stats)
    cov['renderings_checked'] = nfig
    cov['samples'] = lines[:3]
    run.assumptions = ['round half up means floor(x*10^d + 1/2)/10^d for every sign']


def _figures(item):
    """every figure in dump equals str() of the recorded value; str() leaves the recorded value unchanged"""
    p, o = item
    try:
        outcome, E, _ = implrun.count_record(gen.blt(p), o, want_weights=False)
        if outcome != 'OK':
            return ('skip', outcome)
        rec = E.record()
        before = [implrun.raw(a['quota']) for a in rec['actions'] if a['tag'] != 'log']
        d = E.dump(); rep = E.report(); js = E.json()
        after = [implrun.raw(a['quota']) for a in rec['actions'] if a['tag'] != 'log']
        if before != after:
            return ('impure', '')
        rows = d.split('\n')[1:]
        # the report block of each action (the text between its "Action:" line and the next one)
        blocks = {}
        parts = rep.split('Action: ')[1:]
        shown = [a for a in rec['actions'] if a['tag'] not in ('log', 'round')]
        if len(parts) == len(shown):
            for a, blk in zip(shown, parts):
                blocks[id(a)] = blk
        k = 0
        for a in rec['actions']:
            row = rows[k].split('\t'); k += 1
            if a['tag'] in ('round', 'log', 'iterate'):
                continue
            if row[2] != str(a['quota']):
                return ('bad-figure', 'dump quota %s vs %s' % (row[2], str(a['quota'])))
            blk = blocks.get(id(a), rep)
            for cid, c in a['cstate'].items():
                if 'vote' in c and str(c['vote']) not in row and E.rule.method != 'qpq':
                    return ('bad-figure', 'dump row lacks vote %s' % str(c['vote']))
                if 'vote' in c and E.rule.method == 'wigm' and ('(%s)' % str(c['vote'])) not in blk:
                    if a['tag'] in ('begin', 'count', 'elect', 'defeat', 'transfer', 'end'):
                        return ('bad-figure', 'report block "%s" lacks (%s)' % (a['msg'][:30], str(c['vote'])))
        import json
        J = json.loads(js)
        ja = [x for x in J['actions']]
        for a, b in zip(rec['actions'], ja):
            if a['tag'] == 'log':
                continue
            if b['quota'] != str(a['quota']):
                return ('bad-figure', 'json quota')
            for cid, c in a['cstate'].items():
                if 'vote' in c and b['cstate'][str(cid)]['vote'] != str(c['vote']):
                    return ('bad-figure', 'json vote')
        return ('ok', '')
    except Exception as e:
        return ('exc', type(e).__name__)


def figures_in_renderings(run, rng):
    n = budget(run, 600, 15000)
    cases = campaign.make_cases(rng, n, gen.RULES)
    items = []
    for fam, p, o in cases:
        if o['rule'] in ('wigm', 'meek', 'warren') and rng.random() < 0.5 and o.get('arithmetic') != 'integer':
            o = dict(o); o['display'] = rng.choice([0, 1, 2, 3, 5, 8, 12])
        items.append((p, o))
    # guard digits on display: tallies that are zero at the declared precision but not in the stored value
    for fam, p, o in campaign.make_cases(rng, budget(run, 200, 4000), ['wigm']):
        pp = rng.choice([0, 1, 2]); gg = rng.choice([3, 4, 5])
        items.append((p, dict(rule='wigm', arithmetic='guarded', precision=pp, guard=gg, display=pp + gg,
                              defeat_batch=o.get('defeat_batch', 'none'))))
    # minimised past failures of the renderings first (tallies that are non-zero only in the guard digits, negative tallies, ...)
    try:
        import json as _json
        for c in _json.load(open(os.path.join(common.VERIF, 'corpus', 'render_cases.json'))):
            items.insert(0, (gen.unblt(c['blt']), c['options']))
    except (OSError, ValueError):
        pass
    res = common.pmap(_figures, items, limit=20.0)
    nb = 0
    for (p, o), r in zip(items, res):
        if r[0] in ('bad-figure', 'impure'):
            nb += 1
            if nb <= 2:
                run.violation(dict(kind='implementation', what='a rendered figure is not str() of the recorded value: %s' % (r[1],), blt=gen.blt(p), options=o))
    return len(items)
