#!/venv/bin/python
"""Symbolic executor for C13: `Guarded.__cmp__` (droop/values/guarded.py) and the rich comparisons of Guarded and Fixed.

`__cmp__` is executed symbolically, forking at every `if`: integer terms over `self._value` (a), `other._value` (b), the class attributes
`__geps`, `maxDiff`, `minDiff`, `abs(x - y)` and literals; tests are comparisons (chained ones become conjunctions); an assignment to
`Guarded.maxDiff` / `Guarded.minDiff` becomes a state update followed by the rest of the body; leaves are the returned integer literals.
The six rich comparisons of Guarded must each be `return self.__cmp__(other) <op> 0`, those of Fixed `return int(self._value).__<op>__(int(other._value))`;
the (method, operator) tables are emitted too.  Everything is kernel-checked equal to lean/Props/C13Prog.lean (`by rfl`), which proves the
program equal to the model's `guardedCmp` + `statsStep`.  usage: gen_cmp.py <repo> <out.lean>"""
import ast, os, sys


class TranslationError(Exception):
    pass


ATTR = {'__geps': '.geps', 'maxDiff': '.maxDiff', 'minDiff': '.minDiff'}
RICH = ['__eq__', '__ne__', '__lt__', '__le__', '__gt__', '__ge__']
OPS = {ast.Eq: '==', ast.NotEq: '!=', ast.Lt: '<', ast.LtE: '<=', ast.Gt: '>', ast.GtE: '>='}
CMPK = {ast.Lt: 'lt', ast.LtE: 'le', ast.Gt: 'gt', ast.GtE: 'ge', ast.Eq: 'eq', ast.NotEq: 'ne'}


def ce(n, env):
    if isinstance(n, ast.Attribute) and isinstance(n.value, ast.Name):
        if n.attr == '_value' and n.value.id == 'self':
            return '.a'
        if n.attr == '_value' and n.value.id == 'other':
            return '.b'
        if n.value.id in ('Guarded', 'cls') and n.attr in ATTR:
            return ATTR[n.attr]
    if isinstance(n, ast.Name) and n.id in env:
        return env[n.id]
    if isinstance(n, ast.Constant) and isinstance(n.value, int) and not isinstance(n.value, bool):
        return '(.lit %d)' % n.value
    if isinstance(n, ast.UnaryOp) and isinstance(n.op, ast.USub) and isinstance(n.operand, ast.Constant) and isinstance(n.operand.value, int):
        return '(.lit (%d))' % -n.operand.value
    if isinstance(n, ast.Call) and isinstance(n.func, ast.Name) and n.func.id == 'abs' and len(n.args) == 1 \
            and isinstance(n.args[0], ast.BinOp) and isinstance(n.args[0].op, ast.Sub):
        return '(.absdiff %s %s)' % (ce(n.args[0].left, env), ce(n.args[0].right, env))
    raise TranslationError('term not accepted: %s' % ast.unparse(n)[:100])


def cb(n, env):
    if isinstance(n, ast.Compare):
        parts = []
        left = n.left
        for op, right in zip(n.ops, n.comparators):
            k = CMPK.get(type(op))
            if k is None:
                raise TranslationError('comparison not accepted: %s' % ast.unparse(n)[:100])
            parts.append('(.%s %s %s)' % (k, ce(left, env), ce(right, env)))
            left = right
        out = parts[-1]
        for p in reversed(parts[:-1]):
            out = '(.and %s %s)' % (p, out)
        return out
    raise TranslationError('test not accepted: %s' % ast.unparse(n)[:100])


def lit(n):
    if isinstance(n, ast.Constant) and isinstance(n.value, int) and not isinstance(n.value, bool):
        return n.value
    if isinstance(n, ast.UnaryOp) and isinstance(n.op, ast.USub) and isinstance(n.operand, ast.Constant) and isinstance(n.operand.value, int):
        return -n.operand.value
    raise TranslationError('__cmp__ returns something other than an integer literal: %s' % ast.unparse(n)[:80])


def run(body, env):
    for i, st in enumerate(body):
        if isinstance(st, ast.Expr) and isinstance(st.value, ast.Constant) and isinstance(st.value.value, str):
            continue
        if isinstance(st, ast.Assign) and len(st.targets) == 1:
            t = st.targets[0]
            if isinstance(t, ast.Name):
                env = dict(env); env[t.id] = ce(st.value, env)
                continue
            if isinstance(t, ast.Attribute) and isinstance(t.value, ast.Name) and t.value.id in ('Guarded', 'cls') and t.attr in ('maxDiff', 'minDiff'):
                k = 'setMax' if t.attr == 'maxDiff' else 'setMin'
                return '(.%s %s %s)' % (k, ce(st.value, env), run(body[i + 1:], env))
        if isinstance(st, ast.Return) and st.value is not None:
            v = lit(st.value)
            return '(.ret %s)' % (('(%d)' % v) if v < 0 else str(v))
        if isinstance(st, ast.If):
            rest = body[i + 1:]
            return '(.ite %s %s %s)' % (cb(st.test, env), run(st.body + rest, env), run(st.orelse + rest, env))
        raise TranslationError('statement not accepted in __cmp__: %s' % ast.unparse(st)[:100])
    raise TranslationError('a path of __cmp__ ends without return')


def _class(path, name):
    tree = ast.parse(open(path).read(), path)
    cs = [n for n in tree.body if isinstance(n, ast.ClassDef) and n.name == name]
    if len(cs) != 1:
        raise TranslationError('%s: class %s not found once' % (path, name))
    return cs[0]


def _method(cls, name, path):
    fs = [n for n in cls.body if isinstance(n, ast.FunctionDef) and n.name == name]
    if len(fs) != 1:
        raise TranslationError('%s: %d definitions of %s' % (path, len(fs), name))
    return fs[0]


def _single_return(fn, path):
    body = [st for st in fn.body if not (isinstance(st, ast.Expr) and isinstance(st.value, ast.Constant))]
    if len(body) != 1 or not isinstance(body[0], ast.Return) or body[0].value is None:
        raise TranslationError('%s: %s is not a single return' % (path, fn.name))
    return body[0].value


def programs(repo):
    gpath = os.path.join(repo, 'droop', 'values', 'guarded.py')
    G = _class(gpath, 'Guarded')
    cmpf = _method(G, '__cmp__', gpath)
    if [a.arg for a in cmpf.args.args] != ['self', 'other']:
        raise TranslationError('__cmp__ signature not accepted')
    prog = run(cmpf.body, {})
    gops = []
    for m in RICH:
        v = _single_return(_method(G, m, gpath), gpath)
        ok = (isinstance(v, ast.Compare) and len(v.ops) == 1 and ast.unparse(v.left) == 'self.__cmp__(other)'
              and isinstance(v.comparators[0], ast.Constant) and v.comparators[0].value == 0 and type(v.ops[0]) in OPS)
        if not ok:
            raise TranslationError('Guarded.%s is not `return self.__cmp__(other) <op> 0`: %s' % (m, ast.unparse(v)[:80]))
        gops.append((m, OPS[type(v.ops[0])]))
    fpath = os.path.join(repo, 'droop', 'values', 'fixed.py')
    F = _class(fpath, 'Fixed')
    fops = []
    for m in RICH:
        v = _single_return(_method(F, m, fpath), fpath)
        ok = (isinstance(v, ast.Call) and isinstance(v.func, ast.Attribute) and ast.unparse(v.func.value) == 'int(self._value)'
              and len(v.args) == 1 and ast.unparse(v.args[0]) == 'int(other._value)' and not v.keywords)
        if not ok:
            raise TranslationError('Fixed.%s is not `return int(self._value).__op__(int(other._value))`: %s' % (m, ast.unparse(v)[:80]))
        fops.append((m, v.func.attr))
    return dict(cmpProg=prog, guardedOps=gops, fixedOps=fops)


def lean_file(r):
    lines = ['import Props.C13Prog', 'namespace Gen', 'open Droop Droop.C13', '']
    lines.append('def cmpProg : CP := %s' % r['cmpProg'])
    lines.append('def guardedOps : List (String × String) := [%s]' % ', '.join('("%s", "%s")' % x for x in r['guardedOps']))
    lines.append('def fixedOps : List (String × String) := [%s]' % ', '.join('("%s", "%s")' % x for x in r['fixedOps']))
    for nm in ('cmpProg', 'guardedOps', 'fixedOps'):
        lines.append('theorem %s_is_committed : %s = C13.%s := by rfl' % (nm, nm, nm))
        lines.append('#print axioms %s_is_committed' % nm)
    lines.append('end Gen')
    return '\n'.join(lines) + '\n'


if __name__ == '__main__':
    repo, outp = sys.argv[1], sys.argv[2]
    open(outp, 'w').write(lean_file(programs(repo)))
