"""Count campaigns: generate elections, run the implementation, run the model, evaluate the Lean oracles on both."""
import re, collections
import gen, implrun, findings
from common import pmap, run_driver_parallel

ORACLE_RE = re.compile(r'MODEL (.*) ;; IMPL (.*) ;; SAME=(\d)(?: DOM=(\d))?$')


def parse_kv(s):
    return dict(kv.split('=', 1) for kv in s.split())


class Result:
    __slots__ = ('family', 'p', 'o', 'case', 'impl', 'model_or', 'impl_or', 'same', 'raw', 'model_line', 'partial', 'dom')

    def __init__(self, family, p, o, case, impl):
        self.family = family; self.p = p; self.o = o; self.case = case; self.impl = impl
        self.model_or = {}; self.impl_or = {}; self.same = None; self.raw = None; self.model_line = None; self.partial = None; self.dom = None


def make_cases(rng, n, rules, families=None, lowprec=0.0, equal_ranks=0.3, rational_meek=0.0, options_fn=None):
    cases = []
    for _ in range(n):
        rule = rng.choice(rules)
        fam, p = gen.profile(rng, rule, families)
        lp = rule in ('meek', 'warren') and rng.random() < lowprec
        o = (options_fn or gen.options)(rng, rule, lowprec=lp, rational_meek=(rng.random() < rational_meek))
        if rule in ('meek', 'warren') and rng.random() < equal_ranks:
            p = gen.add_equal_ranks(rng, p); fam += '+eq'
        if o.get('arithmetic') == 'rational' and rule in ('meek', 'warren'):
            # exact Meek is exponentially slow: keep these tiny
            p = gen.plain(rng, maxc=4, maxb=5)
            fam = 'plain-small'
        if fam.startswith('blocs') and rule in ('meek', 'warren') and findings.meek_collapse_class(p, o):
            # keep most huge-electorate cases inside the rules' numerical range (outside it: known findings M1/M2)
            if rng.random() < 0.85:
                o = dict(o); o['arithmetic'] = rng.choice(['fixed', 'guarded'])
                o['precision'] = rng.choice([9, 12]) if o['arithmetic'] == 'fixed' else 9
                if o['arithmetic'] == 'guarded':
                    o['guard'] = 9
                else:
                    o.pop('guard', None)
                o['omega'] = rng.choice([2, 3])
        if lp:
            fam += '+lowprec'
        cases.append((fam, p, o))
    return cases


def evaluate(cases, limit=20.0):
    """cases: [(family, profile, options)] -> [Result]"""
    impl_lines = pmap(implrun.count_line, [(p, o) for _, p, o in cases], limit=limit + 12.0)
    results = []
    ins = []
    sent = []
    for (fam, p, o), il in zip(cases, impl_lines):
        case = gen.case_line(p, o)
        if isinstance(il, tuple):
            il = 'CRASH Timeout'
        partial = None
        if '\t' in il:
            il, partial = il.split('\t', 1)
        r = Result(fam, p, o, case, il)
        r.partial = partial
        results.append(r)
        if il.startswith('CRASH Timeout') or il.startswith('CRASH Hang'):
            # the implementation did not finish within its budget: the model (which has no budget) is not run on the case
            r.same = True; r.raw = 'not compared: implementation over budget'
            continue
        ins.append('COUNT ' + case + ' @@ ' + (partial or il)); sent.append(r)
    outs = run_driver_parallel(ins)
    for r, g in zip(sent, outs):
        r.raw = g
        m = ORACLE_RE.match(g)
        if m:
            r.model_or = parse_kv(m.group(1)); r.impl_or = parse_kv(m.group(2)); r.same = (m.group(3) == '1'); r.dom = m.group(4)
            if r.partial is not None:       # crashed run: the outcome class is what is compared with the model
                r.same = (r.model_or.get('CRASH') == r.impl.split(' ', 1)[1])
        else:
            r.same = False
    return results


def model_lines(results):
    """fetch the model's full observation line for the given results (only needed for mismatches)"""
    if not results:
        return
    outs = run_driver_parallel(['COUNT ' + r.case for r in results])
    for r, g in zip(results, outs):
        r.model_line = g


def branch_counters(results):
    """what the implementation's own records exercised"""
    c = collections.Counter()
    for r in results:
        c['rule:' + r.o['rule']] += 1
        if r.dom is not None:
            c['theorem_domain(caseOK):' + ('in' if r.dom == '1' else 'out')] += 1
        c['family:' + r.family] += 1
        c['arith:' + str(r.o.get('arithmetic', 'statutory'))] += 1
        if not r.impl.startswith('OK '):
            c['outcome:' + r.impl.split(' | ')[0][:40]] += 1
            continue
        c['outcome:OK'] += 1
        tags = [a.split(' ', 2)[:2] for a in r.impl[3:].split(' | ')]
        verbs = collections.Counter()
        for t, vh in tags:
            try:
                v = bytes.fromhex(vh.rstrip('.')).decode()
            except ValueError:
                v = '?'
            verbs[t + ':' + v] += 1
        for k in verbs:
            c['act:' + k] += 1
    return c


def nontrivial(r):
    """a case is non-trivial when its implementation record has at least one transfer or exclusion"""
    return r.impl.startswith('OK ') and (' | transfer ' in r.impl or ' | defeat ' in r.impl)
