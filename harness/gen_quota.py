#!/venv/bin/python
"""Translator for C04: regenerate, from the source of every rule module under <repo>/droop/rules, the quota formula
(`calcQuota()`; for meek_prf.py the two inline `E.quota = ...` assignments) and the quota test (`hasQuota()`) as programs of the
expression language of lean/Props/C04Prog.lean.  The generated Lean file states, for every rule, `Gen.<rule>Quota = C04.<rule>QuotaProg`
and `Gen.<rule>HasQuota = C04.hasQuota{X,GE}Prog`, checked by the Lean kernel (`by rfl`) on every run; lean/Props/C04Prog.lean proves
that the committed programs evaluate to the model's quota and quota test.  So a change to a quota formula or to a `>` / `>=` in the
source breaks a proof obligation (and the correspondence run then looks for the failing count).

Accepted source (anything else is refused with TranslationError - reported as a broken obligation, never skipped):
  function body = docstring / comments, then `if <cond>: return <expr>` ... `return <expr>`, <cond> in {V.exact, E.V.exact,
  self.integer_quota};  integer expressions: E.nBallots, E.nSeats, E.electionProfile.nSeats, literals, +, //;
  value expressions: V(<int>), E.V(<int>), E.votes, E.va, E.tx, V.epsilon, E.V.epsilon, E.quota, candidate.vote, +, -, /, //;
  tests: <value> > <value>, <value> >= <value>.
usage: gen_quota.py <repo> <out.lean>   (also importable: programs(repo) -> dict)"""
import ast, os, sys


class TranslationError(Exception):
    pass


def _attr_path(node):
    parts = []
    while isinstance(node, ast.Attribute):
        parts.append(node.attr); node = node.value
    if isinstance(node, ast.Name):
        parts.append(node.id)
        return '.'.join(reversed(parts))
    return None


INT_ATOMS = {'E.nBallots': '.nBallots', 'E.nSeats': '.nSeats', 'E.electionProfile.nSeats': '.nSeats'}
VAL_ATOMS = {'E.votes': '.votes', 'E.va': '.va', 'E.tx': '.tx', 'V.epsilon': '.eps', 'E.V.epsilon': '.eps', 'E.quota': '.quota',
             'candidate.vote': '.candVote'}


def tr_int(n):
    p = _attr_path(n)
    if p in INT_ATOMS:
        return INT_ATOMS[p]
    if isinstance(n, ast.Constant) and isinstance(n.value, int) and not isinstance(n.value, bool):
        return '(.lit %d)' % n.value
    if isinstance(n, ast.BinOp) and isinstance(n.op, ast.Add):
        return '(.add %s %s)' % (tr_int(n.left), tr_int(n.right))
    if isinstance(n, ast.BinOp) and isinstance(n.op, ast.FloorDiv):
        return '(.floordiv %s %s)' % (tr_int(n.left), tr_int(n.right))
    raise TranslationError('not an integer expression of the accepted form: %s' % ast.dump(n)[:160])


def tr_val(n):
    p = _attr_path(n)
    if p in VAL_ATOMS:
        return VAL_ATOMS[p]
    if isinstance(n, ast.Call) and _attr_path(n.func) in ('V', 'E.V') and len(n.args) == 1 and not n.keywords:
        return '(.ofI %s)' % tr_int(n.args[0])
    if isinstance(n, ast.BinOp):
        op = {ast.Add: 'add', ast.Sub: 'sub', ast.Div: 'div', ast.FloorDiv: 'fdiv'}.get(type(n.op))
        if op:
            return '(.%s %s %s)' % (op, tr_val(n.left), tr_val(n.right))
    raise TranslationError('not a value expression of the accepted form: %s' % ast.dump(n)[:160])


def tr_bool(n):
    if isinstance(n, ast.Compare) and len(n.ops) == 1 and len(n.comparators) == 1:
        op = {ast.Gt: 'gt', ast.GtE: 'ge'}.get(type(n.ops[0]))
        if op:
            return '(.%s %s %s)' % (op, tr_val(n.left), tr_val(n.comparators[0]))
    raise TranslationError('not a quota test of the accepted form: %s' % ast.dump(n)[:160])


def _strip_doc(body):
    return [st for st in body if not (isinstance(st, ast.Expr) and isinstance(st.value, ast.Constant) and isinstance(st.value.value, str))]


def tr_body(body, tr):
    body = _strip_doc(body)
    if not body:
        raise TranslationError('empty body')
    st = body[0]
    if isinstance(st, ast.Return) and st.value is not None:
        if len(body) != 1:
            raise TranslationError('statements after return')
        return '(.ret %s)' % tr(st.value)
    if isinstance(st, ast.If) and not st.orelse:
        c = _attr_path(st.test)
        kind = {'V.exact': 'ifExact', 'E.V.exact': 'ifExact', 'self.integer_quota': 'ifIntegerQuota'}.get(c)
        if kind is None:
            raise TranslationError('condition not accepted: %s' % ast.dump(st.test)[:120])
        return '(.%s %s %s)' % (kind, tr_body(st.body, tr), tr_body(body[1:], tr))
    raise TranslationError('statement not accepted: %s' % ast.dump(st)[:160])


RULES = ['wigm', 'wigm_prf', 'cfer', 'scotland', 'mpls', 'meek', 'qpq']
LEAN_NAME = {'wigm': 'wigm', 'wigm_prf': 'wigmPrf', 'cfer': 'cfer', 'scotland': 'scotland', 'mpls': 'mpls', 'meek': 'meek', 'qpq': 'qpq'}
HASQUOTA = {'wigm': 'hasQuotaXProg', 'meek': 'hasQuotaXProg', 'wigm_prf': 'hasQuotaGEProg', 'cfer': 'hasQuotaGEProg',
            'scotland': 'hasQuotaGEProg', 'mpls': 'hasQuotaGEProg'}


def _functions(tree, name):
    return [n for n in ast.walk(tree) if isinstance(n, ast.FunctionDef) and n.name == name]


def programs(repo):
    """{lean name: (kind, program text)} for every quota formula and quota test in the source"""
    out = {}
    for r in RULES:
        path = os.path.join(repo, 'droop', 'rules', r + '.py')
        tree = ast.parse(open(path).read(), path)
        fs = _functions(tree, 'calcQuota')
        if len(fs) != 1:
            raise TranslationError('%s: %d definitions of calcQuota' % (path, len(fs)))
        out[LEAN_NAME[r] + 'Quota'] = ('VEx', tr_body(fs[0].body, tr_val), 'C04.%sQuotaProg' % LEAN_NAME[r])
        if r in HASQUOTA:
            hs = _functions(tree, 'hasQuota')
            if len(hs) != 1:
                raise TranslationError('%s: %d definitions of hasQuota' % (path, len(hs)))
            out[LEAN_NAME[r] + 'HasQuota'] = ('BEx', tr_body(hs[0].body, tr_bool), 'C04.' + HASQUOTA[r])
    # meek_prf.py assigns E.quota inline, twice: in the iteration (B.2.b) and before round 0; its election test is inline too
    path = os.path.join(repo, 'droop', 'rules', 'meek_prf.py')
    tree = ast.parse(open(path).read(), path)
    assigns = [n for n in ast.walk(tree) if isinstance(n, ast.Assign) and len(n.targets) == 1 and _attr_path(n.targets[0]) == 'E.quota']
    if len(assigns) != 2:
        raise TranslationError('%s: %d assignments to E.quota (expected the iteration one and the round-0 one)' % (path, len(assigns)))
    assigns.sort(key=lambda n: n.lineno)
    out['prfIterQuota'] = ('VEx', '(.ret %s)' % tr_val(assigns[0].value), 'C04.prfIterQuotaProg')
    out['prfStartQuota'] = ('VEx', '(.ret %s)' % tr_val(assigns[1].value), 'C04.prfStartQuotaProg')
    tests = [n for n in ast.walk(tree) if isinstance(n, ast.Compare) and _attr_path(n.left) == 'c.vote'
             and len(n.comparators) == 1 and _attr_path(n.comparators[0]) == 'E.quota']
    if len(tests) != 1:
        raise TranslationError('%s: %d comparisons of c.vote with E.quota (expected the election test of B.2.c)' % (path, len(tests)))
    t = tests[0]
    t2 = ast.Compare(left=ast.Attribute(value=ast.Name(id='candidate'), attr='vote'), ops=t.ops, comparators=t.comparators)
    out['prfHasQuota'] = ('BEx', '(.ret %s)' % tr_bool(t2), 'C04.hasQuotaGEProg')
    return out


def lean_file(progs):
    lines = ['import Props.C04Prog', 'namespace Gen', 'open Droop Droop.C04', '']
    for name, (kind, text, target) in sorted(progs.items()):
        lines.append('def %s : Prog %s := %s' % (name, kind, text))
        lines.append('theorem %s_is_committed : %s = %s := by rfl' % (name, name, target))
        lines.append('#print axioms %s_is_committed' % name)
        lines.append('')
    lines.append('end Gen')
    return '\n'.join(lines) + '\n'


if __name__ == '__main__':
    repo, outp = sys.argv[1], sys.argv[2]
    open(outp, 'w').write(lean_file(programs(repo)))
