#!/venv/bin/python
"""Extractor for C04 (second clause: whoever reaches the quota is elected): the election loop of each rule.

In wigm.py, wigm_prf.py, scotland.py, cfer.py, meek.py, meek_prf.py there must be exactly one loop of the form
    for c in [c for c in C.hopeful(<order args>) if <test>]:
        c.elect(<args>)
        ...
Extracted per rule: order ('vote' / 'none'), reverse ('True' / 'False'), the test's source text, the `pending=` argument's source text ('' when
absent).  cfer's `hasSurplus(candidate)` (the pending flag) is translated with gen_quota's expression translator.
(mpls elects one candidate per round through other code: Props/C04Mpls.lean.)
The generated Lean file states the table equal to `C04.electTable` and the program equal to `C04.hasSurplusProg` (kernel, `by rfl`);
lean/Props/C04Loop.lean proves the model's election steps are the evaluation of these rows.  usage: gen_elect.py <repo> <out.lean>"""
import ast, os, sys
import gen_quota


class TranslationError(Exception):
    pass


RULES = ['wigm', 'wigm_prf', 'scotland', 'cfer', 'meek', 'meek_prf']


def table(repo):
    rows = []
    for r in RULES:
        path = os.path.join(repo, 'droop', 'rules', r + '.py')
        tree = ast.parse(open(path).read(), path)
        found = []
        for n in ast.walk(tree):
            if isinstance(n, ast.For) and isinstance(n.iter, ast.ListComp) and n.body and isinstance(n.body[0], ast.Expr) \
                    and isinstance(n.body[0].value, ast.Call) and ast.unparse(n.body[0].value.func) == ast.unparse(n.target) + '.elect':
                lc = n.iter
                if len(lc.generators) != 1 or len(lc.generators[0].ifs) != 1:
                    continue
                g = lc.generators[0]
                if not (isinstance(g.iter, ast.Call) and ast.unparse(g.iter.func) == 'C.hopeful' and ast.unparse(lc.elt) == ast.unparse(g.target) == ast.unparse(n.target)):
                    continue
                kw = {k.arg: ast.unparse(k.value) for k in g.iter.keywords}
                if g.iter.args or set(kw) - {'order', 'reverse'}:
                    raise TranslationError('%s: C.hopeful(%s) not accepted' % (path, ast.unparse(g.iter)))
                call = n.body[0].value
                ekw = {k.arg: ast.unparse(k.value) for k in call.keywords}
                if call.args or set(ekw) - {'pending', 'msg'}:
                    raise TranslationError('%s: %s not accepted' % (path, ast.unparse(call)))
                if 'msg' in ekw:
                    continue        # the epilogue's "Elect remaining" loops are not the election step
                found.append((r, kw.get('order', "'none'").strip("'"), kw.get('reverse', 'False'), ast.unparse(g.ifs[0]), ekw.get('pending', '')))
        if len(found) != 1:
            raise TranslationError('%s: %d election loops of the accepted form' % (path, len(found)))
        rows.append(found[0])
    # cfer: hasSurplus
    path = os.path.join(repo, 'droop', 'rules', 'cfer.py')
    tree = ast.parse(open(path).read(), path)
    hs = [n for n in ast.walk(tree) if isinstance(n, ast.FunctionDef) and n.name == 'hasSurplus']
    if len(hs) != 1:
        raise TranslationError('%s: %d definitions of hasSurplus' % (path, len(hs)))
    try:
        prog = gen_quota.tr_body(hs[0].body, gen_quota.tr_bool)
    except gen_quota.TranslationError as e:
        raise TranslationError('cfer hasSurplus: %s' % e)
    return dict(rows=rows, hasSurplus=prog)


def lean_file(t):
    lines = ['import Props.C04Loop', 'namespace Gen', 'open Droop Droop.C04', '']
    lines.append('def electTable : List (String × String × String × String × String) := [%s]'
                 % ', '.join('("%s", "%s", "%s", "%s", "%s")' % x for x in t['rows']))
    lines.append('theorem electTable_is_committed : electTable = C04.electTable := by rfl')
    lines.append('#print axioms electTable_is_committed')
    lines.append('def hasSurplus : Prog BEx := %s' % t['hasSurplus'])
    lines.append('theorem hasSurplus_is_committed : hasSurplus = C04.hasSurplusProg := by rfl')
    lines.append('#print axioms hasSurplus_is_committed')
    lines.append('end Gen')
    return '\n'.join(lines) + '\n'


if __name__ == '__main__':
    repo, outp = sys.argv[1], sys.argv[2]
    open(outp, 'w').write(lean_file(table(repo)))
