#!/venv/bin/python
"""Extractor for C07: `breakTie` of the rules that break ties by the predetermined tie order only
(wigm, wigm_prf, cfer, meek, meek_prf, mpls, qpq; scotland's look-back variant is not covered here).

Accepted body (docstring, comments and `assert` statements aside), in any order of the two middle assignments:
    if len(tied) == 1:
        return tied.pop()
    t = C.byTieOrder(tied)[0]
    names = ', '.join([c.name for c in tied])
    E.logAction('tie', <format string> % (<args>))
    return t
Extracted per rule: (rule module, the format string of the log line, the argument list as source text).
The generated Lean file states the table equal to `C07.tieTable` (kernel, `by rfl`); lean/Props/C07Tie.lean proves the model's `breakTie`
is the evaluation of that shape.  usage: gen_tie.py <repo> <out.lean>"""
import ast, os, sys


class TranslationError(Exception):
    pass


RULES = ['cfer', 'meek', 'meek_prf', 'mpls', 'qpq', 'wigm', 'wigm_prf']


def table(repo):
    out = []
    for r in RULES:
        path = os.path.join(repo, 'droop', 'rules', r + '.py')
        tree = ast.parse(open(path).read(), path)
        fs = [n for n in ast.walk(tree) if isinstance(n, ast.FunctionDef) and n.name == 'breakTie']
        if len(fs) != 1:
            raise TranslationError('%s: %d definitions of breakTie' % (path, len(fs)))
        params = [a.arg for a in fs[0].args.args]
        if 'tied' not in params:
            raise TranslationError('%s: breakTie has no parameter `tied`' % path)
        body = [st for st in fs[0].body if not (isinstance(st, ast.Expr) and isinstance(st.value, ast.Constant)) and not isinstance(st, ast.Assert)]
        src = [ast.unparse(st) for st in body]
        if len(body) != 5:
            raise TranslationError('%s: breakTie has %d statements, expected 5' % (path, len(body)))
        if src[0] != 'if len(tied) == 1:\n    return tied.pop()':
            raise TranslationError('%s: breakTie does not start with the single-candidate return: %s' % (path, src[0][:80]))
        mid = sorted(src[1:3])
        if mid != ["names = ', '.join([c.name for c in tied])", 't = C.byTieOrder(tied)[0]']:
            raise TranslationError('%s: breakTie choice / names not of the accepted form: %r' % (path, src[1:3]))
        if src[4] != 'return t':
            raise TranslationError('%s: breakTie does not return the chosen candidate: %s' % (path, src[4]))
        st = body[3]
        ok = (isinstance(st, ast.Expr) and isinstance(st.value, ast.Call) and ast.unparse(st.value.func) == 'E.logAction' and len(st.value.args) == 2
              and isinstance(st.value.args[0], ast.Constant) and st.value.args[0].value == 'tie'
              and isinstance(st.value.args[1], ast.BinOp) and isinstance(st.value.args[1].op, ast.Mod)
              and isinstance(st.value.args[1].left, ast.Constant) and isinstance(st.value.args[1].left.value, str))
        if not ok:
            raise TranslationError('%s: breakTie log line not of the accepted form: %s' % (path, src[3][:100]))
        fmt = st.value.args[1].left.value
        args = ast.unparse(st.value.args[1].right)
        if '"' in fmt or '\\' in fmt or '"' in args:
            raise TranslationError('%s: format string not accepted' % path)
        out.append((r, fmt, args))
    return out


def lean_file(t):
    lines = ['import Props.C07Tie', 'namespace Gen', 'open Droop Droop.C07', '']
    lines.append('def tieTable : List (String × String × String) := [%s]' % ', '.join('("%s", "%s", "%s")' % x for x in t))
    lines.append('theorem tieTable_is_committed : tieTable = C07.tieTable := by rfl')
    lines.append('#print axioms tieTable_is_committed')
    lines.append('end Gen')
    return '\n'.join(lines) + '\n'


if __name__ == '__main__':
    repo, outp = sys.argv[1], sys.argv[2]
    open(outp, 'w').write(lean_file(table(repo)))
