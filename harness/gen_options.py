#!/venv/bin/python
"""Translator for C17: regenerate, from the source of the statutory rules under <repo>/droop/rules, the table of options each
rule's `options()` forces, as a Lean file.  The Lean side (lean/Props/C17.lean) proves that the hand-written option model
(`ruleOptions`) is the replay of `modelTable`; the generated file states `statutory = modelTable` and is checked by the Lean
kernel (`decide`) on every run, so a change to what a statutory rule forces breaks a proof obligation.

The translator accepts only straight-line `options()` bodies made of
    a docstring, `self.name = self.E.options.getopt('rule')`, `self.defeat_batch = self.name.endswith('batch')`,
    `[self.E.]options.setopt(<name>, default=<literal | self.<class constant>>[, force=True])`
and refuses anything else (TranslationError) - a refusal is reported as a broken obligation, never silently skipped.
usage: gen_options.py <repo> <out.lean>   (also importable: table(repo) -> list)"""
import ast, os, sys

STATUTORY = ['cfer', 'meek_prf', 'mpls', 'qpq', 'scotland', 'wigm_prf']


class TranslationError(Exception):
    pass


def _const(node, consts):
    if isinstance(node, ast.Constant) and isinstance(node.value, (int, str, bool)):
        return node.value
    if isinstance(node, ast.Attribute) and isinstance(node.value, ast.Name) and node.value.id in ('self', 'cls') and node.attr in consts:
        return consts[node.attr]
    raise TranslationError('not a literal or class constant: %s' % ast.dump(node)[:120])


def _is_setopt(call):
    return isinstance(call, ast.Call) and isinstance(call.func, ast.Attribute) and call.func.attr == 'setopt'


def translate_module(path):
    tree = ast.parse(open(path).read(), path)
    rules = [n for n in tree.body if isinstance(n, ast.ClassDef) and n.name == 'Rule']
    if len(rules) != 1:
        raise TranslationError('%s: expected one class Rule' % path)
    cls = rules[0]
    consts = {}
    for n in cls.body:
        if isinstance(n, ast.Assign) and len(n.targets) == 1 and isinstance(n.targets[0], ast.Name) \
                and isinstance(n.value, ast.Constant) and isinstance(n.value.value, (int, str, bool)):
            consts[n.targets[0].id] = n.value.value
    names = None; entries = None
    for n in cls.body:
        if isinstance(n, ast.FunctionDef) and n.name == 'ruleNames':
            rets = [s for s in ast.walk(n) if isinstance(s, ast.Return)]
            if len(rets) != 1:
                raise TranslationError('%s: ruleNames has %d returns' % (path, len(rets)))
            v = rets[0].value
            if isinstance(v, ast.Tuple):
                names = [_const(e, consts) for e in v.elts]
            else:
                names = [_const(v, consts)]
        if isinstance(n, ast.FunctionDef) and n.name == 'options':
            entries = []
            for st in n.body:
                if isinstance(st, ast.Expr) and isinstance(st.value, ast.Constant) and isinstance(st.value.value, str):
                    continue                                              # docstring
                if isinstance(st, ast.Assign) and len(st.targets) == 1 and isinstance(st.targets[0], ast.Attribute) \
                        and isinstance(st.targets[0].value, ast.Name) and st.targets[0].value.id == 'self':
                    src = ast.unparse(st.value)
                    if src in ("self.E.options.getopt('rule')", "self.name.endswith('batch')"):
                        continue
                    raise TranslationError('%s: options(): unrecognised assignment %s' % (path, ast.unparse(st)))
                if isinstance(st, ast.Expr) and _is_setopt(st.value):
                    call = st.value
                    if len(call.args) != 1:
                        raise TranslationError('%s: setopt with %d positional arguments' % (path, len(call.args)))
                    name = _const(call.args[0], consts)
                    kw = {k.arg: k.value for k in call.keywords}
                    if set(kw) - {'default', 'force'} or 'default' not in kw:
                        raise TranslationError('%s: setopt(%r) keywords %s' % (path, name, sorted(kw)))
                    force = _const(kw['force'], consts) if 'force' in kw else False
                    if not isinstance(force, bool):
                        raise TranslationError('%s: setopt(%r) force is not a bool' % (path, name))
                    entries.append((name, _const(kw['default'], consts), force))
                    continue
                raise TranslationError('%s: options(): statement outside the translated fragment: %s' % (path, ast.unparse(st)[:100]))
    if names is None or entries is None:
        raise TranslationError('%s: ruleNames or options not found' % path)
    return [(nm, entries) for nm in names]


def table(repo):
    out = []
    for m in STATUTORY:
        out.extend(translate_module(os.path.join(repo, 'droop', 'rules', m + '.py')))
    return sorted(out)


def lean_ov(v):
    if isinstance(v, bool):
        return '.b %s' % ('true' if v else 'false')
    if isinstance(v, int):
        return '.i %d' % v if v >= 0 else '.i (%d)' % v
    return '.s "%s"' % v.replace('\\', '\\\\').replace('"', '\\"')


def lean_table(tab):
    rows = []
    for nm, es in tab:
        rows.append('  ("%s", [%s])' % (nm, ', '.join('("%s", %s, %s)' % (n, lean_ov(v), 'true' if f else 'false') for n, v, f in es)))
    return '[\n' + ',\n'.join(rows) + ']'


# ------------------------------------------------------------------------------------------------------------------------------
# the configurable rules: options() bodies with branches and computed defaults -> the program language of lean/Props/C17Prog.lean

CONFIGURABLE = [('wigm', 'wigmProg'), ('meek', 'meekProg')]


def _is_options_obj(node):
    """`options` (the local alias) or `self.E.options`"""
    if isinstance(node, ast.Name) and node.id == 'options':
        return True
    return ast.unparse(node) == 'self.E.options'


def _pex(node, where):
    if isinstance(node, ast.Constant) and isinstance(node.value, (int, str, bool)):
        return '(.lit (%s))' % lean_ov(node.value)
    if isinstance(node, ast.Name):
        return '(.var "%s")' % node.id
    if isinstance(node, ast.Attribute) and isinstance(node.value, ast.Name) and node.value.id == 'self':
        return '(.var "self.%s")' % node.attr
    if isinstance(node, ast.Call) and isinstance(node.func, ast.Attribute) and _is_options_obj(node.func.value):
        if node.func.attr == 'getopt':
            if len(node.args) != 1 or node.keywords or not (isinstance(node.args[0], ast.Constant) and isinstance(node.args[0].value, str)):
                raise TranslationError('%s: getopt call outside the fragment: %s' % (where, ast.unparse(node)))
            return '(.getopt "%s")' % node.args[0].value
        if node.func.attr == 'setopt':
            if len(node.args) != 1 or not (isinstance(node.args[0], ast.Constant) and isinstance(node.args[0].value, str)):
                raise TranslationError('%s: setopt call outside the fragment: %s' % (where, ast.unparse(node)))
            kw = {k.arg: k.value for k in node.keywords}
            if set(kw) - {'default', 'allowed'} or 'default' not in kw:
                raise TranslationError('%s: setopt(%r) keywords %s (a configurable rule must not force)' % (where, node.args[0].value, sorted(kw)))
            allowed = '[]'
            if 'allowed' in kw:
                a = kw['allowed']
                if not isinstance(a, (ast.Tuple, ast.List)) or not all(isinstance(e, ast.Constant) and isinstance(e.value, (int, str, bool)) for e in a.elts):
                    raise TranslationError('%s: allowed= is not a tuple of literals' % where)
                allowed = '[' + ', '.join(lean_ov(e.value) for e in a.elts) + ']'
            return '(.setopt "%s" %s %s)' % (node.args[0].value, _pex(kw['default'], where), allowed)
    if isinstance(node, ast.BinOp) and isinstance(node.op, ast.FloorDiv) and isinstance(node.right, ast.Constant) \
            and type(node.right.value) is int:
        if isinstance(node.left, ast.BinOp) and isinstance(node.left.op, ast.Mult) and isinstance(node.left.right, ast.Constant) \
                and type(node.left.right.value) is int:
            return '(.mulfdiv %s %d %d)' % (_pex(node.left.left, where), node.left.right.value, node.right.value)
        return '(.fdiv %s %d)' % (_pex(node.left, where), node.right.value)
    if isinstance(node, ast.Compare) and len(node.ops) == 1 and isinstance(node.ops[0], ast.Eq) \
            and isinstance(node.comparators[0], ast.Constant) and isinstance(node.comparators[0].value, (int, str, bool)):
        return '(.eq %s (%s))' % (_pex(node.left, where), lean_ov(node.comparators[0].value))
    raise TranslationError('%s: expression outside the translated fragment: %s' % (where, ast.unparse(node)[:100]))


def _pblock(stmts, where):
    out = []
    for st in stmts:
        if isinstance(st, ast.Expr) and isinstance(st.value, ast.Constant) and isinstance(st.value.value, str):
            continue                                                          # docstring
        if isinstance(st, ast.Assign) and len(st.targets) == 1:
            t = st.targets[0]
            if isinstance(t, ast.Name) and t.id == 'options' and ast.unparse(st.value) == 'self.E.options':
                continue                                                      # the alias
            if isinstance(t, ast.Name):
                out.append('(.assign "%s" %s)' % (t.id, _pex(st.value, where))); continue
            if isinstance(t, ast.Attribute) and isinstance(t.value, ast.Name) and t.value.id == 'self':
                out.append('(.assign "self.%s" %s)' % (t.attr, _pex(st.value, where))); continue
        if isinstance(st, ast.Expr) and isinstance(st.value, ast.Call):
            out.append('(.expr %s)' % _pex(st.value, where)); continue
        if isinstance(st, ast.If):
            if not isinstance(st.test, ast.Compare):
                raise TranslationError('%s: if-test is not a comparison: %s' % (where, ast.unparse(st.test)))
            out.append('(.ite %s %s %s)' % (_pex(st.test, where), _pblock(st.body, where), _pblock(st.orelse, where))); continue
        raise TranslationError('%s: options(): statement outside the translated fragment: %s' % (where, ast.unparse(st)[:100]))
    r = '.nil'
    for x in reversed(out):
        r = '(.cons %s %s)' % (x, r)
    return r


def translate_prog(path):
    tree = ast.parse(open(path).read(), path)
    rules = [n for n in tree.body if isinstance(n, ast.ClassDef) and n.name == 'Rule']
    if len(rules) != 1:
        raise TranslationError('%s: expected one class Rule' % path)
    fns = [n for n in rules[0].body if isinstance(n, ast.FunctionDef) and n.name == 'options']
    if len(fns) != 1:
        raise TranslationError('%s: expected one options()' % path)
    return _pblock(fns[0].body, os.path.basename(path))


def programs(repo):
    return [(name, translate_prog(os.path.join(repo, 'droop', 'rules', mod + '.py'))) for mod, name in CONFIGURABLE]


def lean_prog_file(progs):
    out = ['import Props.C17Prog', '/-! generated by harness/gen_options.py from droop/rules/wigm.py and meek.py - do not edit -/',
           'namespace Droop.Gen', 'open Droop.C17']
    for name, text in progs:
        out.append('def %s : PBlock := %s' % (name, text))
        out.append('/-- the program regenerated from the source is the program the theorems of `Props/C17Prog.lean` are about -/')
        out.append('theorem %s_eq : %s = Droop.C17.%s := rfl' % (name, name, name))
    out.append('theorem wigm_options (o : Droop.Options) : Droop.ruleOptions "wigm" o = (runProg wigmProg o).map wigmResult :=')
    out.append('  wigmProg_eq ▸ wigm_options_are_the_program o')
    out.append('theorem meek_options (rule : String) (hr : rule = "meek" ∨ rule = "warren") (o : Droop.Options) :')
    out.append('    Droop.ruleOptions rule o = (runProg meekProg o).map meekResult := meekProg_eq ▸ meek_options_are_the_program rule hr o')
    out.append('end Droop.Gen')
    out.append('#print axioms Droop.Gen.wigm_options')
    out.append('#print axioms Droop.Gen.meek_options')
    return '\n'.join(out) + '\n'


def lean_file(tab):
    return ('import Props.C17\n/-! generated by harness/gen_options.py from droop/rules/*.py - do not edit -/\nnamespace Droop.Gen\n'
            'def statutory : List (String × List (String × OV × Bool)) := ' + lean_table(tab) + '\n'
            '/-- the table regenerated from the source is the table the theorems of `Props/C17.lean` are about -/\n'
            'theorem statutory_eq : statutory = Droop.C17.modelTable := by decide\n'
            'theorem statutory_agrees : Droop.C17.TableAgrees statutory := statutory_eq ▸ Droop.C17.model_table_agrees\n'
            'theorem statutory_immune : Droop.C17.TableImmune statutory := statutory_eq ▸ Droop.C17.model_table_immune\n'
            'end Droop.Gen\n#print axioms Droop.Gen.statutory_agrees\n#print axioms Droop.Gen.statutory_immune\n')


if __name__ == '__main__':
    tab = table(sys.argv[1])
    open(sys.argv[2], 'w').write(lean_file(tab))
    print(lean_table(tab))
    if len(sys.argv) > 3:
        open(sys.argv[3], 'w').write(lean_prog_file(programs(sys.argv[1])))
