#!/venv/bin/python
"""Translator for C17: regenerate, from the source of the statutory rules under <repo>/droop/rules, the table of options each
rule's `options()` forces, as a Lean file.  The Lean side (lean/Props/C17.lean) proves that the hand-written option model
(`ruleOptions`) is the replay of `modelTable`; the generated file states `statutory = modelTable` and is checked by the Lean
kernel (`decide`) on every run, so a change to what a statutory rule forces breaks a proof obligation.

The translator accepts only straight-line `options()` bodies made of
    a docstring, `self.name = self.E.options.getopt('rule')`, `self.defeat_batch = self.name.endswith('batch')`,
    `[self.E.]options.setopt(<name>, default=<literal | self.<class constant>>[, force=True])`
and refuses anything else (TranslationError) - a refusal is reported as a broken obligation, never silently skipped.
usage: gen_options.py <repo> <out.lean>   (also importable: table(repo) -> list)"""
import ast, os, sys

STATUTORY = ['cfer', 'meek_prf', 'mpls', 'qpq', 'scotland', 'wigm_prf']


class TranslationError(Exception):
    pass


def _const(node, consts):
    if isinstance(node, ast.Constant) and isinstance(node.value, (int, str, bool)):
        return node.value
    if isinstance(node, ast.Attribute) and isinstance(node.value, ast.Name) and node.value.id in ('self', 'cls') and node.attr in consts:
        return consts[node.attr]
    raise TranslationError('not a literal or class constant: %s' % ast.dump(node)[:120])


def _is_setopt(call):
    return isinstance(call, ast.Call) and isinstance(call.func, ast.Attribute) and call.func.attr == 'setopt'


def translate_module(path):
    tree = ast.parse(open(path).read(), path)
    rules = [n for n in tree.body if isinstance(n, ast.ClassDef) and n.name == 'Rule']
    if len(rules) != 1:
        raise TranslationError('%s: expected one class Rule' % path)
    cls = rules[0]
    consts = {}
    for n in cls.body:
        if isinstance(n, ast.Assign) and len(n.targets) == 1 and isinstance(n.targets[0], ast.Name) \
                and isinstance(n.value, ast.Constant) and isinstance(n.value.value, (int, str, bool)):
            consts[n.targets[0].id] = n.value.value
    names = None; entries = None
    for n in cls.body:
        if isinstance(n, ast.FunctionDef) and n.name == 'ruleNames':
            rets = [s for s in ast.walk(n) if isinstance(s, ast.Return)]
            if len(rets) != 1:
                raise TranslationError('%s: ruleNames has %d returns' % (path, len(rets)))
            v = rets[0].value
            if isinstance(v, ast.Tuple):
                names = [_const(e, consts) for e in v.elts]
            else:
                names = [_const(v, consts)]
        if isinstance(n, ast.FunctionDef) and n.name == 'options':
            entries = []
            for st in n.body:
                if isinstance(st, ast.Expr) and isinstance(st.value, ast.Constant) and isinstance(st.value.value, str):
                    continue                                              # docstring
                if isinstance(st, ast.Assign) and len(st.targets) == 1 and isinstance(st.targets[0], ast.Attribute) \
                        and isinstance(st.targets[0].value, ast.Name) and st.targets[0].value.id == 'self':
                    src = ast.unparse(st.value)
                    if src in ("self.E.options.getopt('rule')", "self.name.endswith('batch')"):
                        continue
                    raise TranslationError('%s: options(): unrecognised assignment %s' % (path, ast.unparse(st)))
                if isinstance(st, ast.Expr) and _is_setopt(st.value):
                    call = st.value
                    if len(call.args) != 1:
                        raise TranslationError('%s: setopt with %d positional arguments' % (path, len(call.args)))
                    name = _const(call.args[0], consts)
                    kw = {k.arg: k.value for k in call.keywords}
                    if set(kw) - {'default', 'force'} or 'default' not in kw:
                        raise TranslationError('%s: setopt(%r) keywords %s' % (path, name, sorted(kw)))
                    force = _const(kw['force'], consts) if 'force' in kw else False
                    if not isinstance(force, bool):
                        raise TranslationError('%s: setopt(%r) force is not a bool' % (path, name))
                    entries.append((name, _const(kw['default'], consts), force))
                    continue
                raise TranslationError('%s: options(): statement outside the translated fragment: %s' % (path, ast.unparse(st)[:100]))
    if names is None or entries is None:
        raise TranslationError('%s: ruleNames or options not found' % path)
    return [(nm, entries) for nm in names]


def table(repo):
    out = []
    for m in STATUTORY:
        out.extend(translate_module(os.path.join(repo, 'droop', 'rules', m + '.py')))
    return sorted(out)


def lean_ov(v):
    if isinstance(v, bool):
        return '.b %s' % ('true' if v else 'false')
    if isinstance(v, int):
        return '.i %d' % v if v >= 0 else '.i (%d)' % v
    return '.s "%s"' % v.replace('\\', '\\\\').replace('"', '\\"')


def lean_table(tab):
    rows = []
    for nm, es in tab:
        rows.append('  ("%s", [%s])' % (nm, ', '.join('("%s", %s, %s)' % (n, lean_ov(v), 'true' if f else 'false') for n, v, f in es)))
    return '[\n' + ',\n'.join(rows) + ']'


def lean_file(tab):
    return ('import Props.C17\n/-! generated by harness/gen_options.py from droop/rules/*.py - do not edit -/\nnamespace Droop.Gen\n'
            'def statutory : List (String × List (String × OV × Bool)) := ' + lean_table(tab) + '\n'
            '/-- the table regenerated from the source is the table the theorems of `Props/C17.lean` are about -/\n'
            'theorem statutory_eq : statutory = Droop.C17.modelTable := by decide\n'
            'theorem statutory_agrees : Droop.C17.TableAgrees statutory := statutory_eq ▸ Droop.C17.model_table_agrees\n'
            'theorem statutory_immune : Droop.C17.TableImmune statutory := statutory_eq ▸ Droop.C17.model_table_immune\n'
            'end Droop.Gen\n#print axioms Droop.Gen.statutory_agrees\n#print axioms Droop.Gen.statutory_immune\n')


if __name__ == '__main__':
    tab = table(sys.argv[1])
    open(sys.argv[2], 'w').write(lean_file(tab))
    print(lean_table(tab))
