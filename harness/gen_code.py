#!/venv/bin/python
"""Translator for C18: `Candidate.code()` of <repo>/droop/candidate.py as the table of lean/Props/C18Prog.lean
(`Gen.code = C18.codeProg`, `by rfl`).  Accepted: a docstring, then `if self.state == '<status>': return '<letter>'` statements, where the
body may instead be `if self.E.rule.method == 'wigm' and self.pending: return '<a>'` followed by `return '<b>'`, then a final
`return '<letter>'`.  Anything else is refused.
usage: gen_code.py <repo> <out.lean>"""
import ast, os, sys


class TranslationError(Exception):
    pass


def _path(node):
    parts = []
    while isinstance(node, ast.Attribute):
        parts.append(node.attr); node = node.value
    if isinstance(node, ast.Name):
        parts.append(node.id)
        return '.'.join(reversed(parts))
    return None


def _ret_str(st):
    if isinstance(st, ast.Return) and isinstance(st.value, ast.Constant) and isinstance(st.value.value, str):
        return st.value.value
    raise TranslationError('not `return <letter>`: %s' % ast.dump(st)[:120])


def _is_eq(test, path, const=None):
    return isinstance(test, ast.Compare) and len(test.ops) == 1 and isinstance(test.ops[0], ast.Eq) and _path(test.left) == path \
        and isinstance(test.comparators[0], ast.Constant) and (const is None or test.comparators[0].value == const)


def program(repo):
    path = os.path.join(repo, 'droop', 'candidate.py')
    tree = ast.parse(open(path).read(), path)
    fs = [n for n in ast.walk(tree) if isinstance(n, ast.FunctionDef) and n.name == 'code']
    if len(fs) != 1:
        raise TranslationError('%s: %d definitions of code()' % (path, len(fs)))
    body = [st for st in fs[0].body if not (isinstance(st, ast.Expr) and isinstance(st.value, ast.Constant))]
    cases = []
    for st in body[:-1]:
        if not (isinstance(st, ast.If) and not st.orelse and _is_eq(st.test, 'self.state')):
            raise TranslationError('statement not accepted in code(): %s' % ast.dump(st)[:140])
        status = st.test.comparators[0].value
        if len(st.body) == 1:
            cases.append('("%s", .plain "%s")' % (status, _ret_str(st.body[0])))
        elif len(st.body) == 2 and isinstance(st.body[0], ast.If) and not st.body[0].orelse and len(st.body[0].body) == 1 \
                and isinstance(st.body[0].test, ast.BoolOp) and isinstance(st.body[0].test.op, ast.And) and len(st.body[0].test.values) == 2 \
                and _is_eq(st.body[0].test.values[0], 'self.E.rule.method', 'wigm') and _path(st.body[0].test.values[1]) == 'self.pending':
            cases.append('("%s", .wigmPending "%s" "%s")' % (status, _ret_str(st.body[0].body[0]), _ret_str(st.body[1])))
        else:
            raise TranslationError('body not accepted for status %r' % status)
    return '{ cases := [%s], dflt := "%s" }' % (', '.join(cases), _ret_str(body[-1]))


def lean_file(prog):
    return '\n'.join(['import Props.C18Prog', 'namespace Gen', 'open Droop Droop.C18', '',
                      'def code : CodeProg := ' + prog,
                      'theorem code_is_committed : code = C18.codeProg := by rfl',
                      '#print axioms code_is_committed', '', 'end Gen', ''])


if __name__ == '__main__':
    open(sys.argv[2], 'w').write(lean_file(program(sys.argv[1])))
