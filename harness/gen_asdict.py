#!/venv/bin/python
"""Extractor for C18: the read-write half of `Candidate.as_dict` (<repo>/droop/candidate.py) as the table `Droop.asDictTable` of
lean/DroopModel/Json.lean — which key shows which attribute, and under which condition.  Accepted: inside `if rw:`, statements
`cdict['<key>'] = self.<attr>` / `= self.code()`, `if self.state != 'withdrawn':` blocks of such statements, and inside those
`if self.<attr> is not None:` blocks of one such statement.  Anything else is refused.
usage: gen_asdict.py <repo> <out.lean>"""
import ast, os, sys


class TranslationError(Exception):
    pass


def _assign(st):
    if isinstance(st, ast.Assign) and len(st.targets) == 1 and isinstance(st.targets[0], ast.Subscript) \
            and getattr(st.targets[0].value, 'id', None) == 'cdict' and isinstance(st.targets[0].slice, ast.Constant):
        key = st.targets[0].slice.value
        v = st.value
        if isinstance(v, ast.Attribute) and getattr(v.value, 'id', None) == 'self':
            return key, v.attr
        if isinstance(v, ast.Call) and isinstance(v.func, ast.Attribute) and getattr(v.func.value, 'id', None) == 'self' \
                and v.func.attr == 'code' and not v.args:
            return key, 'code()'
    raise TranslationError('statement not accepted in as_dict: %s' % ast.dump(st)[:140])


def table(repo):
    path = os.path.join(repo, 'droop', 'candidate.py')
    tree = ast.parse(open(path).read(), path)
    fs = [n for n in ast.walk(tree) if isinstance(n, ast.FunctionDef) and n.name == 'as_dict']
    if len(fs) != 1:
        raise TranslationError('%s: %d definitions of as_dict' % (path, len(fs)))
    rw = [st for st in fs[0].body if isinstance(st, ast.If) and getattr(st.test, 'id', None) == 'rw']
    if len(rw) != 1 or rw[0].orelse:
        raise TranslationError('%s: `if rw:` block not found once' % path)
    rows = []
    for st in rw[0].body:
        if isinstance(st, ast.If):
            t = st.test
            ok = isinstance(t, ast.Compare) and len(t.ops) == 1 and isinstance(t.ops[0], ast.NotEq) and isinstance(t.left, ast.Attribute) \
                and getattr(t.left.value, 'id', None) == 'self' and t.left.attr == 'state' and isinstance(t.comparators[0], ast.Constant) \
                and t.comparators[0].value == 'withdrawn' and not st.orelse
            if not ok:
                raise TranslationError('condition not accepted in as_dict: %s' % ast.dump(t)[:140])
            for s2 in st.body:
                if isinstance(s2, ast.If):
                    t2 = s2.test
                    ok2 = isinstance(t2, ast.Compare) and len(t2.ops) == 1 and isinstance(t2.ops[0], ast.IsNot) \
                        and isinstance(t2.left, ast.Attribute) and getattr(t2.left.value, 'id', None) == 'self' \
                        and isinstance(t2.comparators[0], ast.Constant) and t2.comparators[0].value is None and not s2.orelse \
                        and len(s2.body) == 1
                    if not ok2:
                        raise TranslationError('inner condition not accepted in as_dict: %s' % ast.dump(t2)[:140])
                    k, a = _assign(s2.body[0])
                    rows.append('("%s", "%s", .notWithdrawnAndSet "%s")' % (k, a, t2.left.attr))
                else:
                    k, a = _assign(s2)
                    rows.append('("%s", "%s", .notWithdrawn)' % (k, a))
        else:
            k, a = _assign(st)
            rows.append('("%s", "%s", .always)' % (k, a))
    return '[' + ', '.join(rows) + ']'


def lean_file(tab):
    return '\n'.join(['import DroopModel.Json', 'namespace Gen', 'open Droop', '',
                      'def asDictTable : List (String × String × DCond) := ' + tab,
                      'theorem asDictTable_is_committed : asDictTable = Droop.asDictTable := by rfl',
                      '#print axioms asDictTable_is_committed', '', 'end Gen', ''])


if __name__ == '__main__':
    open(sys.argv[2], 'w').write(lean_file(table(sys.argv[1])))
