#!/venv/bin/python
"""Confirm the changes a seeding round produced and file the confirmed ones under /verif/seeded/.
usage: seedround.py <round dir>        (layout: <round dir>/<Cxx>/wt = scratch worktree, <round dir>/<Cxx>/out/change<k>/{patch.diff,demo.py,NOTES.md})
For each change: in the scratch worktree apply the patch, run the unedited test suite (must be 207 passed), run the demo (must
fail), revert, run the demo (must pass).  Confirmed changes are copied to seeded/<Cxx>-<n>/ (n = next free index) with a meta.json;
the checks are then run against them with harness/seedmatrix.py (each change in its own scratch worktree, never in /repo)."""
import sys, os, subprocess, json, shutil, glob

VERIF = os.path.dirname(os.path.dirname(os.path.abspath(__file__)))
PY = '/venv/bin/python'


def sh(cmd, cwd=None, timeout=1800):
    r = subprocess.run(cmd, shell=True, cwd=cwd, capture_output=True, text=True, timeout=timeout)
    return r.returncode, (r.stdout + r.stderr)


def main():
    rd = sys.argv[1]
    only = sys.argv[2:]
    filed = []
    for pdir in sorted(glob.glob(os.path.join(rd, 'C??'))):
        prop = os.path.basename(pdir)
        if only and prop not in only:
            continue
        wt = os.path.join(pdir, 'wt')
        for ch in sorted(glob.glob(os.path.join(pdir, 'out', 'change*'))):
            patch = os.path.join(ch, 'patch.diff'); demo = os.path.join(ch, 'demo.py')
            if not (os.path.exists(patch) and os.path.exists(demo)):
                print(prop, ch, 'incomplete'); continue
            if os.path.exists(os.path.join(ch, '.filed')):
                continue
            sh('git checkout -- . && git clean -fdq', cwd=wt)
            rc, out = sh('git apply %s' % patch, cwd=wt)
            if rc != 0:
                print(prop, ch, 'patch does not apply', out[-200:]); continue
            rc_t, out_t = sh('%s -m pytest -q -p no:cacheprovider 2>&1 | tail -1' % PY, cwd=wt)
            suite = out_t.strip().split('\n')[-1]
            rc1, o1 = sh('%s %s' % (PY, demo), cwd=wt, timeout=900)
            sh('git checkout -- . && git clean -fdq', cwd=wt)
            rc0, o0 = sh('%s %s' % (PY, demo), cwd=wt, timeout=900)
            sh('git checkout -- . && git clean -fdq', cwd=wt)
            ok = ('207 passed' in suite) and rc1 != 0 and rc0 == 0
            print(prop, os.path.basename(ch), 'CONFIRMED' if ok else 'NOT CONFIRMED', suite, 'demo with/without:', rc1, rc0, flush=True)
            if not ok:
                continue
            n = 1
            while os.path.exists(os.path.join(VERIF, 'seeded', '%s-%d' % (prop, n))):
                n += 1
            dst = os.path.join(VERIF, 'seeded', '%s-%d' % (prop, n))
            os.makedirs(dst)
            shutil.copy(patch, os.path.join(dst, 'patch.diff')); shutil.copy(demo, os.path.join(dst, 'demo.py'))
            if os.path.exists(os.path.join(ch, 'NOTES.md')):
                shutil.copy(os.path.join(ch, 'NOTES.md'), os.path.join(dst, 'NOTES.md'))
            meta = dict(property=prop, breaks=prop, round=os.path.basename(rd.rstrip('/')), source=ch,
                        test_suite_with_change=suite, demo_exit_with_change=rc1, demo_exit_without_change=rc0,
                        demo_output_with_change=o1[-600:], confirmed=True,
                        ran=['git apply patch.diff; pytest (unedited suite); demo.py with and without the change'])
            json.dump(meta, open(os.path.join(dst, 'meta.json'), 'w'), indent=1)
            open(os.path.join(ch, '.filed'), 'w').write(dst)
            filed.append(os.path.basename(dst))
    print('FILED', ' '.join(filed))


if __name__ == '__main__':
    main()
