#!/venv/bin/python
"""Extractor for C07: which candidates are tied for exclusion / for the next surplus transfer.

In every rule module the choice is made in two assignments:
    <x>_vote = min|max|V.min(<c.attr for c in POPULATION>)          (generator or list comprehension)
    <x>_candidates = [c for c in POPULATION if <test involving c.attr and <x>_vote>]
Extracted per occurrence: (rule, 'low' | 'high', aggregate, attribute, population, test of the candidate list).  Accepted aggregates: min, max, V.min.
The table is kernel-checked equal to `C07.choiceTable` (lean/Props/C07Choice.lean), which states what each row means on the model:
the tied set is the population filtered by equality with the extreme value (Gregory rules, QPQ) or by `low + surplus >= vote` (Meek family).
usage: gen_choice.py <repo> <out.lean>"""
import ast, os, sys


class TranslationError(Exception):
    pass


RULES = ['cfer', 'meek', 'meek_prf', 'mpls', 'qpq', 'scotland', 'wigm', 'wigm_prf']


def table(repo):
    rows = []
    for r in RULES:
        path = os.path.join(repo, 'droop', 'rules', r + '.py')
        tree = ast.parse(open(path).read(), path)
        # every statement list in the module
        for node in ast.walk(tree):
            for field in ('body', 'orelse', 'finalbody'):
                body = getattr(node, field, None)
                if not isinstance(body, list):
                    continue
                for i, st in enumerate(body):
                    if not (isinstance(st, ast.Assign) and len(st.targets) == 1 and isinstance(st.targets[0], ast.Name)
                            and isinstance(st.value, ast.Call) and len(st.value.args) == 1 and not st.value.keywords
                            and ast.unparse(st.value.func) in ('min', 'max', 'V.min')
                            and isinstance(st.value.args[0], (ast.GeneratorExp, ast.ListComp))):
                        continue
                    comp = st.value.args[0]
                    if len(comp.generators) != 1 or comp.generators[0].ifs or ast.unparse(comp.generators[0].target) != 'c' \
                            or not (isinstance(comp.elt, ast.Attribute) and ast.unparse(comp.elt.value) == 'c'):
                        continue
                    var = st.targets[0].id
                    if not (var.startswith('low_') or var.startswith('high_')):
                        raise TranslationError('%s:%d: extreme value bound to a name that is neither low_* nor high_*: %s' % (r, st.lineno, var))
                    pop = ast.unparse(comp.generators[0].iter)
                    # the candidate list: the next statement, or the first statement of a following `if <var> > ...:` (qpq)
                    nxt = body[i + 1] if i + 1 < len(body) else None
                    if isinstance(nxt, ast.If) and var in ast.unparse(nxt.test) and nxt.body:
                        guard = ast.unparse(nxt.test)
                        nxt = nxt.body[0]
                    else:
                        guard = ''
                    ok = (isinstance(nxt, ast.Assign) and isinstance(nxt.value, ast.ListComp) and len(nxt.value.generators) == 1
                          and ast.unparse(nxt.value.elt) == 'c' and ast.unparse(nxt.value.generators[0].target) == 'c'
                          and len(nxt.value.generators[0].ifs) == 1)
                    if not ok:
                        raise TranslationError('%s:%d: the statement after `%s = ...` is not the tied-candidate list' % (r, st.lineno, var))
                    pop2 = ast.unparse(nxt.value.generators[0].iter)
                    if pop2 != pop:
                        raise TranslationError('%s:%d: extreme taken over %s but candidates drawn from %s' % (r, st.lineno, pop, pop2))
                    test = ast.unparse(nxt.value.generators[0].ifs[0])
                    rows.append((r, st.lineno, 'low' if var.startswith('low_') else 'high', ast.unparse(st.value.func), comp.elt.attr, pop, test, guard))
    rows.sort()
    out = [(a, c, d, e, f, g, h) for (a, b, c, d, e, f, g, h) in rows]
    for row in out:
        if any('"' in x or '\\' in x for x in row):
            raise TranslationError('text not accepted: %r' % (row,))
    return out


def lean_file(rows):
    lines = ['import Props.C07Choice', 'namespace Gen', 'open Droop Droop.C07', '']
    lines.append('def choiceTable : List (String × String × String × String × String × String × String) := [%s]'
                 % ', '.join('("%s", "%s", "%s", "%s", "%s", "%s", "%s")' % r for r in rows))
    lines.append('theorem choiceTable_is_committed : choiceTable = C07.choiceTable := by rfl')
    lines.append('#print axioms choiceTable_is_committed')
    lines.append('end Gen')
    return '\n'.join(lines) + '\n'


if __name__ == '__main__':
    repo, outp = sys.argv[1], sys.argv[2]
    open(outp, 'w').write(lean_file(table(repo)))
