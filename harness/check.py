#!/venv/bin/python
"""./check: decide one property.  usage: check.py Cxx [--tier quick|thorough] [--replay file]
exit 0 = held on everything explored; exit 1 + `VIOLATION property=<id> replay=<path>`; exit 2 = infrastructure error."""
import sys, os, time, json, random, traceback, argparse
sys.path.insert(0, os.path.dirname(os.path.abspath(__file__)))
import common


class Run:
    """state of one check invocation: verdict bookkeeping and evidence"""

    def __init__(self, prop, tier, seed):
        self.prop = prop; self.tier = tier; self.seed = seed
        self.t0 = time.time()
        self.violations = []        # (replay path, suffix)
        self.known_hits = {}        # finding id -> what
        self.coverage = dict(evaluations=0, distinct_nontrivial=0, samples=[], traces_validated_against_impl=0)
        self.assumptions = []
        self.theorems = []
        self.broken = []            # broken proof obligations / correspondences (names)
        self.nrep = 0
        self.level = 'proof'
        try:    # the evidence level is the level registered in MANIFEST.json for this property
            for c in json.load(open(os.path.join(common.VERIF, 'MANIFEST.json')))['checks']:
                if c['property_id'] == prop:
                    self.level = c['level_claimed']['category']
        except Exception:
            pass

    def violation(self, payload, suffix=''):
        self.nrep += 1
        path = common.write_replay(self.prop, self.seed, self.nrep, payload)
        self.violations.append((path, suffix))
        print('VIOLATION property=%s replay=%s%s' % (self.prop, path, (' ' + suffix) if suffix else ''), flush=True)

    def known(self, fid, what):
        if fid not in self.known_hits:
            self.known_hits[fid] = what
            print('KNOWN-FINDING: property=%s %s: %s' % (self.prop, fid, what), flush=True)

    def finish(self):
        cov = self.coverage
        cov['known_findings_seen'] = sorted(self.known_hits)
        cov['broken'] = self.broken
        try:
            lc = common.linecov_report()
            if lc:
                cov['implementation_lines'] = dict(
                    note='statements of /repo/droop executed while this check ran the real code (sys.monitoring); never_executed = line ranges the comparison has not seen',
                    files=lc, executable=sum(v['executable'] for v in lc.values()), executed=sum(v['executed'] for v in lc.values()))
        except Exception as e:
            cov['implementation_lines'] = dict(error=repr(e))
        common.write_evidence(self.prop, self.tier, self.seed, self.level, cov, time.time() - self.t0,
                              len(self.violations), self.assumptions)
        return 1 if self.violations else 0


def lean_gate(run, theorems):
    """build, hygiene, axioms audit for the property's theorems; fills the proof part of the evidence.
    Returns the list of broken obligations (empty = all discharged)."""
    broken = []
    ok, log = common.ensure_built()
    if not ok:
        broken.append('lake build: ' + log[:600])
    hy = common.hygiene()
    if hy:
        broken.append('forbidden construct: %s' % (hy[:3],))
    ax = {}
    if ok:
        ax, errs = common.audit()
        if errs:
            broken.append('audit errors: %s' % errs[:3])
    discharged = 0
    detail = {}
    for th in theorems:
        if th in ax and set(ax[th]) <= common.STD_AXIOMS:
            discharged += 1; detail[th] = ax[th]
        else:
            broken.append('theorem %s: %s' % (th, 'axioms %s' % ax[th] if th in ax else 'missing from the audit'))
    cov = run.coverage
    cov['obligations'] = len(theorems)
    cov['discharged'] = discharged
    cov['theorems'] = detail
    cov['checker_cmd'] = 'cd lean && lake build DroopModel droopmodel DroopProofs Props && lake env lean .lake/AuditGen.lean (#print axioms of every theorem in lean/theorems.json)' + \
        (' && lake env leanchecker Props DroopProofs' if run.tier == 'thorough' else '')
    cov['trusted_base'] = list(common.TRUSTED_BASE)
    run.theorems = theorems
    if run.level == 'other' and theorems:
        cov['explanation'] = ('partial: the theorems listed under "theorems" are proved (see lean/Props/%s.lean for what they cover and what is left); '
                              'the rest of the property is decided by the correspondence between the Lean model and /repo, the compiled Lean '
                              'oracle on implementation observations and implementation-vs-implementation re-runs (exploration, not proof)' % run.prop)
    if not theorems:
        # no theorem is claimed for this property yet: the evidence says so instead of posing as a proof
        cov['explanation'] = ('no property theorem registered in lean/theorems.json for this property yet: decided by the correspondence between the Lean '
                              'model and /repo plus the compiled Lean oracle evaluated on implementation observations (exploration, not proof)')
    if run.tier == 'thorough' and ok and os.environ.get('VERIF_LEANCHECKER', '1') == '1':
        import subprocess
        r = subprocess.run(['lake', 'env', 'leanchecker', 'Props'], cwd=common.LEAN, capture_output=True, text=True)
        cov['leanchecker'] = 'ok' if r.returncode == 0 else (r.stdout + r.stderr)[-500:]
        if r.returncode != 0:
            broken.append('leanchecker: ' + cov['leanchecker'][:200])
    run.broken.extend(broken)
    return broken


def main():
    ap = argparse.ArgumentParser()
    ap.add_argument('prop')
    ap.add_argument('--tier', default=os.environ.get('VERIF_TIER', 'quick'), choices=['quick', 'thorough'])
    ap.add_argument('--replay')
    a = ap.parse_args()
    seed = int(os.environ.get('VERIF_SEED', '0') or 0)
    os.chdir(common.VERIF)
    os.makedirs(common.WORK, exist_ok=True)
    common.linecov_start()
    import props
    if a.prop not in props.PROPS:
        print('unknown property', a.prop); sys.exit(2)
    run = Run(a.prop, a.tier, seed)
    try:
        if a.replay:
            rc = props.replay(run, a.replay)
            sys.exit(rc)
        props.PROPS[a.prop](run)
        rc = run.finish()
    except Exception:
        traceback.print_exc()
        print('INFRASTRUCTURE-ERROR property=%s' % a.prop)
        rc = 2
    finally:
        common.close_pool()
    print('check %s %s seed=%d: %s in %.1fs' % (a.prop, a.tier, seed, 'VIOLATIONS' if rc == 1 else 'ok' if rc == 0 else 'error', time.time() - run.t0))
    sys.exit(rc)


if __name__ == '__main__':
    main()
