"""Implementation side of the OP / STR protocols: one arithmetic operation or one str() on the real value classes."""
from fractions import Fraction
from common import setup_repo_import
setup_repo_import()


def raw(v):
    if hasattr(v, '_value'):
        return str(v._value)
    f = Fraction(v)
    return '%d/%d' % (f.numerator, f.denominator)


def init_class(arith, p, g, display=None):
    from droop.options import Options
    if arith in ('fixed', 'integer'):
        from droop.values.fixed import Fixed as cls
        o = dict(arithmetic=arith)
        if arith == 'fixed':
            o['precision'] = p
    elif arith == 'guarded':
        from droop.values.guarded import Guarded as cls
        o = dict(arithmetic='guarded', precision=p, guard=g)
    else:
        from droop.values.rational import Rational as cls
        o = dict(arithmetic='rational')
    if display is not None:
        o['display'] = display
    cls.initialize(Options(o))
    return cls


def mk(cls, arith, x):
    if arith == 'rational':
        n, d = x.split('/')
        return cls(int(n), int(d))
    return cls(int(x), True)


def run_op(item):
    """(arith, p, g, op, rnd, args) -> result string"""
    arith, p, g, op, rnd, args = item
    try:
        cls = init_class(arith, p, g)
        if op in ('muli', 'divi'):
            a = mk(cls, arith, args[0]); n = int(args[1])
            r = a * n if op == 'muli' else a // n
        elif op == 'ofint':
            r = cls(int(args[0]))
        else:
            v = [mk(cls, arith, x) for x in args]
            if op == 'add': r = v[0] + v[1]
            elif op == 'sub': r = v[0] - v[1]
            elif op == 'mulv': r = v[0] * v[1]
            elif op == 'divv': r = v[0] / v[1]
            elif op == 'mul': r = cls.mul(v[0], v[1], round=rnd)
            elif op == 'div': r = cls.div(v[0], v[1], round=rnd)
            elif op == 'muldiv': r = cls.muldiv(v[0], v[1], v[2], round=rnd)
            elif op == 'neg': r = -v[0]
            elif op == 'abs': r = abs(v[0])
            elif op == 'min': r = cls.min(v)
            elif op == 'bool': return '1' if v[0] else '0'
            elif op == 'cmp':
                a, b = v
                lt, eq, gt = a < b, a == b, a > b
                if (lt + eq + gt) != 1 or (a <= b) != (lt or eq) or (a >= b) != (gt or eq) or (a != b) != (not eq):
                    return 'INCONSISTENT lt=%s eq=%s gt=%s le=%s ge=%s ne=%s' % (lt, eq, gt, a <= b, a >= b, a != b)
                return str(-1 if lt else (0 if eq else 1))
            else:
                return 'BAD-OP'
            # operands must not have been altered
            if [raw(x) for x in v] != [raw(mk(cls, arith, x)) for x in args]:
                return 'OPERAND-MUTATED'
        if type(r) is not cls:
            return 'NOT-CLOSED ' + type(r).__name__
        return raw(r)
    except ZeroDivisionError:
        return 'ZeroDivisionError'
    except Exception as e:
        return 'EXC ' + type(e).__name__


def run_str(item):
    """(arith, p, g, display, x) -> (effective display, str(value), value unchanged?)"""
    arith, p, g, d, x = item
    try:
        cls = init_class(arith, p, g, d)
        v = mk(cls, arith, x)
        before = raw(v)
        s = str(v)
        s2 = str(v)
        eff = cls.dp if arith == 'rational' else cls.display
        return (eff, s, before == raw(v) and s == s2)
    except Exception as e:
        return (None, 'EXC ' + type(e).__name__, False)


def run_mixed(item):
    """Rational with a plain int / Fraction operand on either side: (op, left?, x 'n/d', y 'n/d' or int string) -> raw result"""
    op, other_left, xs, ys = item
    try:
        cls = init_class('rational', 0, 0)
        x = mk(cls, 'rational', xs)
        if '/' in ys:
            n, d = ys.split('/'); y = Fraction(int(n), int(d))
        else:
            y = int(ys)
        a, b = (y, x) if other_left else (x, y)
        if op == 'add': r = a + b
        elif op == 'sub': r = a - b
        elif op == 'mul': r = a * b
        elif op == 'div': r = a / b
        elif op == 'floordiv': r = a // b
        elif op == 'mod': r = a % b
        else: return 'BAD-OP'
        if raw(x) != raw(mk(cls, 'rational', xs)):
            return 'OPERAND-MUTATED'
        if type(r) is not cls:
            return 'NOT-CLOSED ' + type(r).__name__
        return raw(r)
    except ZeroDivisionError:
        return 'ZeroDivisionError'
    except Exception as e:
        return 'EXC ' + type(e).__name__


def run_cmpstats(item):
    """(p, g, display, [(op, a, b)]) -> 'c1,c2,.. max=M min=m' : a sequence of Guarded comparisons and the class statistics after it.
    Each comparison uses one Python operator (one __cmp__ call); its boolean is translated back to what it says about cmp."""
    p, g, display, seq = item
    try:
        cls = init_class('guarded', p, g, display)
        outs = []
        for op, a, b in seq:
            x, y = cls(int(a), True), cls(int(b), True)
            if op == 'lt': r = x < y
            elif op == 'le': r = x <= y
            elif op == 'eq': r = x == y
            elif op == 'ne': r = x != y
            elif op == 'gt': r = x > y
            else: r = x >= y
            outs.append('1' if r else '0')
        return '%s max=%d min=%d' % (','.join(outs), cls.maxDiff, cls.minDiff)
    except Exception as e:
        return 'EXC ' + type(e).__name__
