import Props.C04Elect
import DroopProofs.PermBMeek
/-!
# C04 for meek and warren: the quota of every iteration is the prescribed one, and whoever reaches it is elected

One iteration of `meek.py` (`meekIterCore`): distribute, recompute the total of the active tallies, recompute the quota from that
total, elect every hopeful candidate that passes the quota test, compute the surplus.

* `meek_quota_prescribed`: the quota the iteration leaves is `meekQuota` of the active total it has just computed — for
  fixed-point arithmetic (`meek_quota_fixed`): that total divided by seats + 1, truncated to the working precision, plus one unit
  in the last place;
* `meek_reaches_quota_is_elected`: every hopeful candidate passing the test is elected in the state the iteration returns;
* `meek_no_hopeful_holds_quota`: every candidate still hopeful afterwards failed the test with the tally and quota of this
  iteration — for fixed-point arithmetic it holds strictly less than the quota (`meek_rest_below_fixed`).
-/
namespace Droop.C04
open Droop
variable {α : Type} [CommRing α] [LinearOrder α] [IsStrictOrderedRing α] (A : Arith α)

theorem foldElect_quota (ws : List (Cand α)) (verb : String) (s : St α) :
    (ws.foldl (fun acc c => acc.elect A c.cid verb false) s).quota = s.quota := by
  induction ws generalizing s with
  | nil => rfl
  | cons w ws ih =>
    simp only [List.foldl_cons]
    rw [ih]
    unfold St.elect
    rw [logAct_quota]
    rfl

/-- the quota after an iteration is the quota formula applied to the active total of this iteration -/
theorem meek_quota_prescribed (o : MeekOpts) (s : St α) :
    (meekIterCore A o s).quota
      = meekQuota A ((distributeVotes A o.warren s).setVotes (activeVotes A (distributeVotes A o.warren s))) := by
  rw [meekIterCore_eq]
  show ((meekWinners A (meekS3 A o s)).foldl (fun acc c => acc.elect A c.cid "Elect" false) (meekS3 A o s)).quota = _
  rw [foldElect_quota]
  rfl

/-- fixed-point: total / (seats + 1), truncated, plus one unit in the last place -/
theorem meek_quota_fixed (p : Nat) (o : MeekOpts) (s : St Int) :
    (meekIterCore (fixedArith p) o s).quota
      = pdiv (activeVotes (fixedArith p) (distributeVotes (fixedArith p) o.warren s) * pow10 p)
          (((distributeVotes (fixedArith p) o.warren s).seats + 1 : Int) * pow10 p) + 1 := by
  rw [meek_quota_prescribed]
  unfold meekQuota
  have hex : (fixedArith p).exact = false := rfl
  simp only [hex, Bool.false_eq_true, if_false]
  show (if (((distributeVotes (fixedArith p) o.warren s).seats + 1 : Int) * pow10 p == 0) = true then 0
      else pdiv (activeVotes (fixedArith p) (distributeVotes (fixedArith p) o.warren s) * pow10 p)
        (((distributeVotes (fixedArith p) o.warren s).seats + 1 : Int) * pow10 p)) + 1 = _
  have hS := pow10_pos p
  have hne : ((((distributeVotes (fixedArith p) o.warren s).seats + 1 : Int) * pow10 p) == 0) = false := by
    have : (0 : Int) < ((distributeVotes (fixedArith p) o.warren s).seats + 1 : Int) * pow10 p := by positivity
    simp only [beq_eq_false_iff_ne, ne_eq]
    omega
  rw [hne]
  rfl

/-- folding `elect` over a sublist of the hopefuls: who is still hopeful afterwards was hopeful before and is not in the list -/
theorem foldElect_rest (verb : String) {s : St α} (ws : List (Cand α)) (hws : ∀ w ∈ ws, w ∈ s.hopeful) :
    ∀ c ∈ (ws.foldl (fun acc c => acc.elect A c.cid verb false) s).hopeful, c ∈ s.hopeful ∧ c ∉ ws := by
  have key : ∀ (ws : List (Cand α)) (t : St α), (∀ c ∈ t.hopeful, c ∈ s.hopeful) →
      ∀ c ∈ (ws.foldl (fun acc c => acc.elect A c.cid verb false) t).hopeful, c ∈ t.hopeful ∧ ∀ w ∈ ws, c.cid ≠ w.cid := by
    intro ws
    induction ws with
    | nil => intro t _ c hc; exact ⟨hc, fun w hw => by cases hw⟩
    | cons w ws ih =>
      intro t ht c hc
      simp only [List.foldl_cons] at hc
      have hstep : ∀ c' ∈ (t.elect A w.cid verb false).hopeful, c' ∈ t.hopeful ∧ c'.cid ≠ w.cid := by
        intro c' hc'
        have hc'' := mem_hopeful.1 hc'
        unfold St.elect at hc''
        rw [logAct_cands] at hc''
        obtain ⟨x, hx, hxe⟩ := mem_upd.1 hc''.1
        by_cases hcc : (x.cid == w.cid) = true
        · rw [if_pos hcc] at hxe
          rw [hxe] at hc''; simp at hc''
        · rw [if_neg hcc] at hxe
          rw [hxe] at hc'' ⊢
          exact ⟨mem_hopeful.2 ⟨hx, hc''.2⟩, by simpa using hcc⟩
      obtain ⟨h1, h2⟩ := ih (t.elect A w.cid verb false) (fun c' hc' => ht c' (hstep c' hc').1) c hc
      refine ⟨(hstep c h1).1, ?_⟩
      intro w' hw'
      rcases List.mem_cons.1 hw' with rfl | hw''
      · exact (hstep c h1).2
      · exact h2 w' hw''
  intro c hc
  obtain ⟨h1, h2⟩ := key ws s (fun c hc => hc) c hc
  exact ⟨h1, fun hin => h2 c hin rfl⟩

/-- every hopeful candidate that passes the quota test of this iteration is elected in the state the iteration returns -/
theorem meek_reaches_quota_is_elected (o : MeekOpts) (s : St α) (w : Cand α) (hw : w ∈ (meekS3 A o s).hopeful)
    (hq : hasQuotaX A (meekS3 A o s) w = true) :
    ∀ x ∈ (meekIterCore A o s).cands, x.cid = w.cid → x.st = .elected := by
  rw [meekIterCore_eq]
  have hm : w ∈ meekWinners A (meekS3 A o s) := by unfold meekWinners; rw [List.mem_filter]; exact ⟨hw, hq⟩
  exact foldElect_all A _ (fun _ => "Elect") (fun _ => false) (meekS3 A o s) w hm

/-- whoever is still hopeful after the iteration failed the quota test with this iteration's tally and quota -/
theorem meek_no_hopeful_holds_quota (o : MeekOpts) (s : St α) :
    ∀ c ∈ (meekIterCore A o s).hopeful, c ∈ (meekS3 A o s).hopeful ∧ hasQuotaX A (meekS3 A o s) c = false := by
  intro c hc
  rw [meekIterCore_eq] at hc
  have hc' : c ∈ ((meekWinners A (meekS3 A o s)).foldl (fun acc c => acc.elect A c.cid "Elect" false) (meekS3 A o s)).hopeful := hc
  obtain ⟨h1, h2⟩ := foldElect_rest A "Elect" (meekWinners A (meekS3 A o s))
    (fun w hw => by unfold meekWinners at hw; exact (List.mem_filter.1 hw).1) c hc'
  refine ⟨h1, ?_⟩
  by_contra hq
  apply h2
  unfold meekWinners
  rw [List.mem_filter]
  exact ⟨h1, by simpa using hq⟩

/-- fixed-point: ... it holds strictly less than the quota -/
theorem meek_rest_below_fixed (p : Nat) (o : MeekOpts) (s : St Int) :
    ∀ c ∈ (meekIterCore (fixedArith p) o s).hopeful, c.vote < (meekS3 (fixedArith p) o s).quota := by
  intro c hc
  have h := (meek_no_hopeful_holds_quota (fixedArith p) o s c hc).2
  have hx : hasQuotaX (fixedArith p) (meekS3 (fixedArith p) o s) c = (fixedArith p).ge c.vote (meekS3 (fixedArith p) o s).quota := rfl
  rw [hx] at h
  exact lt_of_ge_false p _ _ h

end Droop.C04
