import DroopProofs
/-!
# C06 / C08: the re-weighting formula of every Gregory rule and the keep-factor update of the Meek rules, translated from the source

`harness/gen_formula.py` finds, in every Gregory rule module, the one assignment `b.weight = <expr>` that mentions the surplus, and in
`meek.py` / `meek_prf.py` the one assignment `c.kf = V.div(...)`, translates the right-hand sides into the expression language below
and has the kernel check on every run that each is the program committed here (`by rfl`).  This file proves the committed programs
equal to what the model computes: `rewMulDiv` (two truncations: product, then quotient — wigm, wigm-prf, cfer, mpls), `rewMuldivDown`
(one truncation of the exact quotient — scotland), and the keep-factor update (product rounded up, quotient rounded up).
-/
namespace Droop.C06
open Droop

inductive Rnd | up | down
deriving DecidableEq, Repr

/-- value expressions over: the ballot's weight, the surplus, the candidate's tally, its keep factor, the quota -/
inductive WEx
  | weight | surplus | vote | kf | quota | one | zero
  | minus (a b : WEx)                      -- Python `a - b` on values
  | iteLt (a b x y : WEx)                  -- Python `x if a < b else y`
  | times (a b : WEx)                      -- Python `a * b` on values
  | over (a b : WEx)                       -- Python `a / b` on values
  | mul (r : Rnd) (a b : WEx)              -- `V.mul(a, b, round=r)`
  | div (r : Rnd) (a b : WEx)              -- `V.div(a, b, round=r)`
  | muldiv (r : Rnd) (a b c : WEx)         -- `V.muldiv(a, b, c, round=r)`
deriving DecidableEq, Repr

structure WEnv (α : Type) where
  weight : α
  surplus : α
  vote : α
  kf : α
  quota : α

def Rnd.toRound : Rnd → Round
  | .up => .up
  | .down => .down

def WEx.eval {α : Type} (A : Arith α) (env : WEnv α) : WEx → α
  | .weight => env.weight
  | .surplus => env.surplus
  | .vote => env.vote
  | .kf => env.kf
  | .quota => env.quota
  | .one => A.one
  | .zero => A.zero
  | .minus a b => A.sub (a.eval A env) (b.eval A env)
  | .iteLt a b x y => if A.lt (a.eval A env) (b.eval A env) then x.eval A env else y.eval A env
  | .times a b => A.mulV (a.eval A env) (b.eval A env)
  | .over a b => A.divV (a.eval A env) (b.eval A env)
  | .mul r a b => A.mul r.toRound (a.eval A env) (b.eval A env)
  | .div r a b => A.div r.toRound (a.eval A env) (b.eval A env)
  | .muldiv r a b c => A.muldiv r.toRound (a.eval A env) (b.eval A env) (c.eval A env)

/-! ## the committed programs -/

/-- `(b.weight * surplus) / candidate.vote` -/
def rewMulDivProg : WEx := .over (.times .weight .surplus) .vote
/-- `V.muldiv(b.weight, surplus, candidate.vote, round='down')` -/
def rewMuldivDownProg : WEx := .muldiv .down .weight .surplus .vote
/-- `V.div(V.mul(c.kf, E.quota, round='up'), c.vote, round='up')` -/
def kfUpdateProg : WEx := .div .up (.mul .up .kf .quota) .vote

/-- meek.py `kw_warren(kf, weight)`: `(kf if kf < weight else weight, weight - keep)` with `keep` inlined -/
def kwWarrenProg : WEx × WEx := (.iteLt .kf .weight .kf .weight, .minus .weight (.iteLt .kf .weight .kf .weight))
/-- meek.py `kw_meekOpenSTV(kf, weight)`: `(V.mul(weight, kf, round='down'), V.mul(weight, V1-kf, round='down'))` -/
def kwMeekProg : WEx × WEx := (.mul .down .weight .kf, .mul .down .weight (.minus .one .kf))
/-- meek_prf.py B.2.a: `keep_weight = V.mul(b.weight, c.kf, round='up')` -/
def kwPrfProg : WEx := .mul .up .weight .kf

/-- candidate.py `surplus`: `s = self.vote - self.E.quota; return self.E.V0 if s < self.E.V0 else s` (local inlined) -/
def candSurplusProg : WEx := .iteLt (.minus .vote .quota) .zero .zero (.minus .vote .quota)

/-! ## each is the model's formula -/

variable {α : Type} (A : Arith α)

theorem rewMulDiv_is_program (w sp v k q : α) :
    rewMulDiv A w sp v = rewMulDivProg.eval A { weight := w, surplus := sp, vote := v, kf := k, quota := q } := rfl

theorem rewMuldivDown_is_program (w sp v k q : α) :
    rewMuldivDown A w sp v = rewMuldivDownProg.eval A { weight := w, surplus := sp, vote := v, kf := k, quota := q } := rfl

/-- wigm, wigm-prf: the surplus step re-weights with the translated formula -/
theorem wigmSurplusStep_uses_program (s : St α) :
    wigmSurplusStep A s =
      match maxVoteOf A s.pendingL with
      | none => s
      | some hv =>
        match breakTie A s (s.pendingL.filter (fun c => A.eq c.vote hv)) "Break tie (surplus)" with
        | (s1, some hc) =>
          transferSurplus A (s1.unpendLog A hc.cid "Transfer high surplus") hc
            (fun w sp v => rewMulDivProg.eval A { weight := w, surplus := sp, vote := v, kf := A.zero, quota := A.zero }) "Surplus transferred"
        | (s1, none) => s1 := rfl

/-- scotland -/
theorem scotSurplusStep_uses_program (s : St α) :
    scotSurplusStep A s =
      match maxVoteOf A s.pendingL with
      | none => s
      | some hv =>
        match scotBreakTie A s (s.pendingL.filter (fun c => A.eq c.vote hv)) false "largest surplus" with
        | (s3, some hc) =>
          transferSurplus A (s3.unpendLog A hc.cid "Transfer high surplus") hc
            (fun w sp v => rewMuldivDownProg.eval A { weight := w, surplus := sp, vote := v, kf := A.zero, quota := A.zero }) "Surplus transferred"
        | (s3, none) => s3 := rfl

/-- cfer, cfer-batch -/
theorem cferSurplusOne_uses_program (acc : St α) (c : Cand α) :
    cferSurplusOne A acc c =
      match acc.cand? c.cid with
      | some cur => transferSurplus A (acc.unpendLog A c.cid "Transfer surplus") cur
          (fun w sp v => rewMulDivProg.eval A { weight := w, surplus := sp, vote := v, kf := A.zero, quota := A.zero }) "Surplus transferred"
      | none => acc := rfl

/-- meek, warren (capped at one), meek-prf (not capped): the keep-factor update applies the translated formula -/
theorem kfUpdate_uses_program (cap : Bool) (s : St α) :
    kfUpdate A cap s =
      s.elected.foldl (fun acc c =>
        match c.kf with
        | some kf =>
          if A.isZero c.vote then acc.setCrash "ZeroDivisionError"
          else acc.upd c.cid (fun x => { x with kf := some (kfCap A cap
            (kfUpdateProg.eval A { weight := A.zero, surplus := A.zero, vote := c.vote, kf := kf, quota := acc.quota })) })
        | none => acc.setCrash "TypeError") s := rfl

/-- meek and warren share a ballot's weight by the translated functions (`kt = kw_warren if self.warren else kw_meekOpenSTV`) -/
theorem keepWeight_is_program (warren : Bool) (kf w : α) :
    keepWeight A warren kf w =
      if warren then
        (kwWarrenProg.1.eval A { weight := w, surplus := A.zero, vote := A.zero, kf := kf, quota := A.zero },
         kwWarrenProg.2.eval A { weight := w, surplus := A.zero, vote := A.zero, kf := kf, quota := A.zero })
      else
        (kwMeekProg.1.eval A { weight := w, surplus := A.zero, vote := A.zero, kf := kf, quota := A.zero },
         kwMeekProg.2.eval A { weight := w, surplus := A.zero, vote := A.zero, kf := kf, quota := A.zero }) := by
  unfold keepWeight
  split <;> rfl

/-- meek-prf keeps `V.mul(weight, kf, round='up')` of the weight and passes on the rest -/
theorem prfRankStep_uses_program (mult : α) (acc : St α × α × α × Bool) (cid : Nat) :
    prfRankStep A mult acc cid =
      if acc.2.2.2 then acc else
      match kfOf acc.1 cid with
      | some kf =>
        if A.isZero kf then acc else
        (acc.1.addVote A cid (A.mulV (kwPrfProg.eval A { weight := acc.2.1, surplus := A.zero, vote := A.zero, kf := kf, quota := A.zero }) mult),
         A.sub acc.2.1 (kwPrfProg.eval A { weight := acc.2.1, surplus := A.zero, vote := A.zero, kf := kf, quota := A.zero }),
         A.sub acc.2.2.1 (A.mulV (kwPrfProg.eval A { weight := acc.2.1, surplus := A.zero, vote := A.zero, kf := kf, quota := A.zero }) mult),
         A.le (A.sub acc.2.1 (kwPrfProg.eval A { weight := acc.2.1, surplus := A.zero, vote := A.zero, kf := kf, quota := A.zero })) A.zero)
      | none => acc := rfl

/-- a candidate's surplus (scotland, mpls: which surplus is the largest, the total surplus) is the translated property -/
theorem candSurplus_is_program (s : St α) (c : Cand α) :
    candSurplus A s c = candSurplusProg.eval A { weight := A.zero, surplus := A.zero, vote := c.vote, kf := A.zero, quota := s.quota } := rfl

end Droop.C06
