import Props.C11Run
import DroopProofs.DropWPrf
/-!
# C11, second clause, for meek-prf

`prf_withdrawn_is_absent`: for every case with distinct candidate ids under rule `meek-prf` (fixed-point arithmetic of any
precision — the rule forces 9 digits): whenever the count of the full case and the count of the case with the withdrawn candidates
deleted both return, the second state is the first with the withdrawn candidates deleted from the candidate list, the saved rounds
and every snapshot of the record.  No hypothesis on the ballots.  With this, the second clause of C11 is a theorem for all eleven
rule names.
-/
namespace Droop.C11
open Droop

theorem prf_withdrawn_is_absent (p : Nat) (c : Case) (hr : c.rule = "meek-prf") (hnd : (c.cands.map (·.1)).Nodup)
    (t t' : St Int) (h : runRuleSt (fixedArith p) c = some t) (h' : runRuleSt (fixedArith p) (deleteWithdrawn c) = some t') :
    t' = Droop.dropW t := by
  have h0 : WDead (fixedArith p) (initState (fixedArith p) c) := by
    refine ⟨by unfold St.WF; rw [initState_cids]; exact hnd, ?_⟩
    intro x hx _
    obtain ⟨k, _, _, _, _, _, _, hkf⟩ := mem_initState_cands (fixedArith p) hx
    exact Or.inl hkf
  have hr' : (deleteWithdrawn c).rule = "meek-prf" := hr
  unfold runRuleSt at h h'
  rw [initState_deleteWithdrawn] at h'
  simp only [runRuleSt', hr] at h
  simp only [runRuleSt', hr'] at h'
  exact prf_dropW (fixedArith p) 100000 _ t t' h0 h h'

/-- non-vacuity: the sample profile (candidate 3 withdrawn) under meek-prf: both counts return -/
example : (runRuleSt (fixedArith 9) { Driver.sample with rule := "meek-prf" }).isSome = true
    ∧ (runRuleSt (fixedArith 9) (deleteWithdrawn { Driver.sample with rule := "meek-prf" })).isSome = true := by decide +kernel

end Droop.C11
