import DroopModel
import DroopProofs
/-!
# C11 — withdrawn means absent (partial: the reader and the selectors; no run-level theorem yet)

Second clause of C11, in two halves.

* **Reader.** A ballot line read from a file in which `W` is withdrawn is stored with *every* occurrence of every member
  of `W` deleted from its ranking (`stripRank`), lines left empty are dropped and not counted (`addBallot`). So the
  ballots the count sees are those of the profile with `W` deleted from every ballot.
* **Count.** Every selector through which the rule modules look at the candidates — hopeful, elected, pending,
  eligible, "is this id hopeful", the vote total of a snapshot — is blind to withdrawn candidates: it returns the same
  on a state and on the state with the withdrawn candidates deleted (`dropW`). Updates addressed to a non-withdrawn id
  commute with the deletion. The composition of these facts along a whole count (a simulation `run (dropW s) =
  dropW (run s)`) is *not* proved: C11 stays at level `other`; the run-level claim is decided by re-running the real
  code on the profile with the withdrawn candidates deleted (every non-log action compared by name) and by the
  model-vs-code correspondence. The first clause (renumbering) has no theorem.
-/
namespace Droop.C11
open Droop
variable {α : Type}

/-! ## reader -/
theorem strip_is_deletion (wd rank : List Nat) : stripRank wd rank = rank.filter (fun c => !wd.contains c) := rfl

theorem strip_removes_all (wd rank : List Nat) (c : Nat) (hc : c ∈ wd) : c ∉ stripRank wd rank := by
  intro h
  rw [strip_is_deletion, List.mem_filter] at h
  simp [hc] at h

theorem strip_keeps_others (wd rank : List Nat) (c : Nat) (hc : c ∉ wd) : c ∈ stripRank wd rank ↔ c ∈ rank := by
  rw [strip_is_deletion, List.mem_filter]
  simp [hc]

/-- a line whose ranking consists of withdrawn candidates only is dropped: neither stored nor counted -/
theorem addBallot_all_withdrawn (pr : Prof) (mult : Nat) (ranking : List (List Nat))
    (h : ∀ r ∈ ranking, ∀ c ∈ r, c ∈ pr.withdrawn) : addBallot pr mult ranking = .ok pr := by
  unfold addBallot
  have hk : ((ranking.map (stripRank pr.withdrawn)).filter (fun r => !r.isEmpty)) = [] := by
    rw [List.filter_eq_nil_iff]
    intro r hr
    obtain ⟨r0, hr0, rfl⟩ := List.mem_map.1 hr
    have : stripRank pr.withdrawn r0 = [] := by
      rw [strip_is_deletion, List.filter_eq_nil_iff]
      intro c hc; simp [h r0 hr0 c hc]
    simp [this]
  simp only [hk, List.isEmpty_nil, if_true]
  rfl

/-- a strict line is stored with the withdrawn candidates deleted and its multiplier added to the ballot total -/
theorem addBallot_strict (pr : Prof) (mult : Nat) (ranking : List (List Nat))
    (hne : ((ranking.map (stripRank pr.withdrawn)).filter (fun r => !r.isEmpty)) ≠ [])
    (hstrict : (ranking.map (stripRank pr.withdrawn)).any (fun r => r.length > 1) = false) :
    addBallot pr mult ranking = .ok { pr with
      nBallots := pr.nBallots + mult
      ballotLines := (mult, ((ranking.map (stripRank pr.withdrawn)).filter (fun r => !r.isEmpty)).map (fun r => r.headD 0)) :: pr.ballotLines } := by
  unfold addBallot
  have : ((ranking.map (stripRank pr.withdrawn)).filter (fun r => !r.isEmpty)).isEmpty = false := by
    cases h : (ranking.map (stripRank pr.withdrawn)).filter (fun r => !r.isEmpty) with
    | nil => exact absurd h hne
    | cons x xs => rfl
  simp only [this, hstrict, Bool.false_eq_true, if_false]
  rfl

/-! ## count: the selectors are blind to withdrawn candidates -/

/-- the state with the withdrawn candidates deleted -/
def dropW (s : St α) : St α := { s with cands := s.cands.filter (fun c => c.st != .withdrawn) }

theorem filter_filter_st (l : List (Cand α)) (p : Cand α → Bool) (hp : ∀ c, p c = true → (c.st != .withdrawn) = true) :
    (l.filter (fun c => c.st != .withdrawn)).filter p = l.filter p := by
  rw [List.filter_filter]
  apply List.filter_congr
  intro c _
  by_cases h : p c = true
  · simp [h, hp c h]
  · simp [h]

theorem hopeful_dropW (s : St α) : (dropW s).hopeful = s.hopeful := by
  unfold St.hopeful dropW
  exact filter_filter_st _ _ (fun c h => by
    have : c.st = .hopeful := by simpa using h
    rw [this]; rfl)

theorem elected_dropW (s : St α) : (dropW s).elected = s.elected := by
  unfold St.elected dropW
  exact filter_filter_st _ _ (fun c h => by
    have : c.st = .elected := by simpa using h
    rw [this]; rfl)

theorem pendingL_dropW (s : St α) : (dropW s).pendingL = s.pendingL := by
  unfold St.pendingL dropW
  exact filter_filter_st _ _ (fun c h => by
    have : c.st = .elected := by
      simp only [Bool.and_eq_true, beq_iff_eq] at h; exact h.1
    rw [this]; rfl)

theorem eligible_dropW (s : St α) : (dropW s).eligible = s.eligible := by
  unfold St.eligible dropW
  exact filter_filter_st _ _ (fun c h => h)

theorem seatsLeft_dropW (s : St α) : (dropW s).seatsLeft = s.seatsLeft := by
  unfold St.seatsLeft; rw [elected_dropW]; rfl

theorem isHopeful_dropW (s : St α) (cid : Nat) : (dropW s).isHopeful cid = s.isHopeful cid := by
  unfold St.isHopeful dropW
  simp only [List.any_filter]
  congr 1
  funext c
  cases hs : c.st <;> simp

/-- the figures of a snapshot (total votes, quota, non-transferable) do not see withdrawn candidates; its rows are the rows
    of the full snapshot minus the withdrawn ones -/
theorem mkSnap_dropW (A : Arith α) (s : St α) :
    ((dropW s).mkSnap A).votes = (s.mkSnap A).votes ∧ ((dropW s).mkSnap A).quota = (s.mkSnap A).quota
    ∧ ((dropW s).mkSnap A).x1 = (s.mkSnap A).x1
    ∧ ((dropW s).mkSnap A).cs = (s.mkSnap A).cs.filter (fun e => e.2.1 != "W") := by
  unfold St.mkSnap
  refine ⟨?_, rfl, rfl, ?_⟩
  · simp only
    rw [eligible_dropW]; rfl
  · simp only [dropW]
    rw [List.filter_map]
    congr 1
    apply List.filter_congr
    intro c _
    simp only [Function.comp]
    cases hs : c.st <;> simp [Cand.code, hs]
    split <;> simp

/-- an update addressed to an id that no withdrawn candidate carries commutes with the deletion -/
theorem upd_dropW (s : St α) (cid : Nat) (f : Cand α → Cand α)
    (hf : ∀ c, c.st ≠ .withdrawn → (f c).st ≠ .withdrawn) (hno : ∀ c ∈ s.cands, c.cid = cid → c.st ≠ .withdrawn) :
    dropW (s.upd cid f) = (dropW s).upd cid f := by
  unfold dropW St.upd
  simp only
  congr 1
  rw [List.filter_map]
  congr 1
  apply List.filter_congr
  intro c hc
  simp only [Function.comp]
  by_cases he : (c.cid == cid) = true
  · have h1 := hno c hc (by simpa using he)
    have h2 := hf c h1
    have e1 : ((f c).st != CState.withdrawn) = true := by simpa using h2
    have e2 : (c.st != CState.withdrawn) = true := by simpa using h1
    simp only [he, if_true, e1, e2]
  · have hne : (c.cid == cid) = false := by simpa using he
    simp only [hne, Bool.false_eq_true, if_false]
end Droop.C11
