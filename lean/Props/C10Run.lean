import Props.C10
import Props.Driver
import DroopProofs.SplitB
import DroopProofs.PermBMeek
import DroopProofs.PermBPrf
import DroopProofs.PermBQpq
import DroopProofs.CaseInitMeek
/-!
# C10 at run level: the count does not depend on the order of the ballot lines (all seven Gregory rule names)

`π` ranges over the *natural* permutations of lists (`NatPerm`: rearrangements of positions — they commute with `List.map` and
return a permutation of their argument; reversal, rotations, adjacent transpositions and their compositions are instances, and
adjacent transpositions generate every reordering).  For every case whatsoever (no domain hypothesis), every fixed-point
precision, every configuration of wigm, and wigm-prf, wigm-prf-batch, scotland, cfer, cfer-batch, mpls (`gregory_ballot_order`):

  running the case with its ballot lines rearranged by `π` returns exactly the state returned for the original case with its
  ballot list, and the ballot views logged with each action, rearranged by `π` — every action, tally, quota, total, status and
  the winners are identical (`wigm_ballot_order`); what the driver prints differs only in the order of the per-ballot view
  (`finish_permB`).

Proof: `DroopProofs/PermB.lean` (the first count and `transferAll` are folds whose effect on the state is a sum of per-ballot
effects that commute pairwise: `tstate_comm`, `Perm.foldl_eq'`) and `PermBWigm.lean` (every step of the driver commutes with
`permB π`; `PermBMore.lean` for scotland, cfer, mpls).

Splitting and merging through multipliers (`gregory_split`, same seven names, same generality): replacing the `i`-th line `(m, r)`
by the two lines `(min m₁ m, r)` and `(m − min m₁ m, r)` gives exactly the state of the original case with that ballot, and its
entry in every logged view, duplicated; read from right to left (`splitLine_merge`) this is merging two adjacent identical lines.
Together with reordering this covers merging any two lines with the same ranking.  Proof: `DroopProofs/SplitB.lean` (`XF_split`).

meek and warren (`meek_ballot_order`, strict rankings, i.e. every case inside `caseOK`; `DroopProofs/PermBMeek.lean`): what one
ballot credits in a distribution depends on the state only through the keep factors, which no credit changes, and credits are
additions — one induction over a ranking (`foldRank_blind`) gives that two ballots' steps commute and that the step does not care how
the list is stored; every other step of the driver never reads the ballot list.

meek-prf (`prf_ballot_order`, `DroopProofs/PermBPrf.lean`): the same argument for the reference rule's distribution; it never reads
equal rankings, so the statement has no hypothesis on the case at all.

QPQ (`qpq_ballot_order`, `DroopProofs/PermBQpq.lean`, stated for the guarded arithmetic the rule forces and for fixed-point): QPQ maps
per-ballot functions over the list, folds commuting additions over it and sums the multipliers once; no hypothesis on the case.
So reordering the ballot lines is a theorem for all eleven rule names.

Equal rankings, and the file-level presentation (comments, layout, nicknames) are decided by re-running the real
code (C10 check) and by the reader theorems of C15.
-/
namespace Droop.C10
open Droop

/-- the case with its ballot lines rearranged -/
def reorder (π : ∀ {β : Type}, List β → List β) (c : Case) : Case := { c with ballots := π c.ballots }

theorem initState_reorder {α : Type} [CommRing α] [LinearOrder α] [IsStrictOrderedRing α] (A : Arith α)
    {π : ∀ {β : Type}, List β → List β} (hπ : NatPerm π) (c : Case) :
    initState A (reorder π c) = permB π (initState A c) := by
  unfold initState reorder permB xB
  simp only [List.map_nil, hπ.nat]

theorem runRuleSt'_reorder {α : Type} (A : Arith α) (π : ∀ {β : Type}, List β → List β) (c : Case) (s0 : St α) :
    runRuleSt' A (reorder π c) s0 = runRuleSt' A c s0 := rfl

/-- **the order of the ballot lines is irrelevant, wigm family** -/
theorem wigm_ballot_order (p : Nat) (c : Case) (hr : c.rule = "wigm" ∨ c.rule = "wigm-prf" ∨ c.rule = "wigm-prf-batch")
    {π : ∀ {β : Type}, List β → List β} (hπ : NatPerm π) :
    runRuleSt (fixedArith p) (reorder π c) = (runRuleSt (fixedArith p) c).map (permB π) := by
  have h1 : runRuleSt (fixedArith p) (reorder π c) = runRuleSt' (fixedArith p) c (permB π (initState (fixedArith p) c)) := by
    unfold runRuleSt
    rw [runRuleSt'_reorder, initState_reorder (fixedArith p) hπ]
  rw [h1]
  unfold runRuleSt
  obtain ⟨o, ho⟩ : ∃ o, ∀ s0, runRuleSt' (fixedArith p) c s0 = wigmCount (fixedArith p) o s0 := by
    rcases hr with hr | hr | hr
    · exact ⟨{ integerQuota := c.intq, batchZero := c.batch == "zero" }, fun s0 => by simp only [runRuleSt', hr]⟩
    · exact ⟨{ prf := true }, fun s0 => by simp only [runRuleSt', hr]⟩
    · exact ⟨{ prf := true, prfBatch := true }, fun s0 => by simp only [runRuleSt', hr]⟩
  rw [ho, ho]
  exact wigm_permB (fixedArith p) (fixed_lawful p) hπ o _

/-- **the order of the ballot lines is irrelevant, all seven Gregory rule names** (wigm in every configuration, wigm-prf,
    wigm-prf-batch, scotland, cfer, cfer-batch, mpls) — no hypothesis on the case -/
theorem gregory_ballot_order (p : Nat) (c : Case)
    (hr : c.rule ∈ ["wigm", "wigm-prf", "wigm-prf-batch", "scotland", "cfer", "cfer-batch", "mpls"])
    {π : ∀ {β : Type}, List β → List β} (hπ : NatPerm π) :
    runRuleSt (fixedArith p) (reorder π c) = (runRuleSt (fixedArith p) c).map (permB π) := by
  have h1 : runRuleSt (fixedArith p) (reorder π c) = runRuleSt' (fixedArith p) c (permB π (initState (fixedArith p) c)) := by
    unfold runRuleSt
    rw [runRuleSt'_reorder, initState_reorder (fixedArith p) hπ]
  rw [h1]
  unfold runRuleSt
  obtain ⟨count, ho, hperm⟩ : ∃ count : St Int → Option (St Int), (∀ s0, runRuleSt' (fixedArith p) c s0 = count s0)
      ∧ ∀ s0, count (permB π s0) = (count s0).map (permB π) := by
    simp only [List.mem_cons, List.not_mem_nil, or_false] at hr
    rcases hr with hr | hr | hr | hr | hr | hr | hr
    · exact ⟨wigmCount (fixedArith p) { integerQuota := c.intq, batchZero := c.batch == "zero" },
        fun s0 => by simp only [runRuleSt', hr], fun s0 => wigm_permB (fixedArith p) (fixed_lawful p) hπ _ s0⟩
    · exact ⟨wigmCount (fixedArith p) { prf := true }, fun s0 => by simp only [runRuleSt', hr],
        fun s0 => wigm_permB (fixedArith p) (fixed_lawful p) hπ _ s0⟩
    · exact ⟨wigmCount (fixedArith p) { prf := true, prfBatch := true }, fun s0 => by simp only [runRuleSt', hr],
        fun s0 => wigm_permB (fixedArith p) (fixed_lawful p) hπ _ s0⟩
    · exact ⟨scotCount (fixedArith p), fun s0 => by simp only [runRuleSt', hr], fun s0 => scot_permB (fixedArith p) (fixed_lawful p) hπ s0⟩
    · exact ⟨cferCount (fixedArith p) false, fun s0 => by simp only [runRuleSt', hr],
        fun s0 => cfer_permB (fixedArith p) (fixed_lawful p) hπ false s0⟩
    · exact ⟨cferCount (fixedArith p) true, fun s0 => by simp only [runRuleSt', hr],
        fun s0 => cfer_permB (fixedArith p) (fixed_lawful p) hπ true s0⟩
    · exact ⟨mplsCount (fixedArith p), fun s0 => by simp only [runRuleSt', hr], fun s0 => mpls_permB (fixedArith p) (fixed_lawful p) hπ s0⟩
  rw [ho, ho]
  exact hperm _

/-- **the order of the ballot lines is irrelevant, meek and warren** (every case with strict rankings inside `caseOK`, every
    fixed-point precision, every omega and both settings of `defeat_batch`) -/
theorem meek_ballot_order (p : Nat) (c : Case) (hr : c.rule = "meek" ∨ c.rule = "warren") (hok : caseOK c = true)
    {π : ∀ {β : Type}, List β → List β} (hπ : NatPerm π) :
    runRuleSt (fixedArith p) (reorder π c) = (runRuleSt (fixedArith p) c).map (permB π) := by
  have hk := caseOK_iff c hok
  have hm : methodOf c.rule = .meek := by rcases hr with hr | hr <;> rw [hr] <;> rfl
  have h0 := initState_minit (fixedArith p) (fixed_lawful p) c hm hk
  have h1 : runRuleSt (fixedArith p) (reorder π c) = runRuleSt' (fixedArith p) c (permB π (initState (fixedArith p) c)) := by
    unfold runRuleSt
    rw [runRuleSt'_reorder, initState_reorder (fixedArith p) hπ]
  rw [h1]
  unfold runRuleSt
  have hx := XMeek_of_natPerm (fixedArith p) (fixed_lawful p) hπ
  rcases hr with hr | hr
  · simp only [runRuleSt', hr]
    exact meek_xB (fixedArith p) (fixed_lawful p) rfl hx _ _ _ h0
  · simp only [runRuleSt', hr]
    exact meek_xB (fixedArith p) (fixed_lawful p) rfl hx _ _ _ h0

/-- **the order of the ballot lines is irrelevant, meek-prf** — no hypothesis on the case -/
theorem prf_ballot_order (p : Nat) (c : Case) (hr : c.rule = "meek-prf")
    {π : ∀ {β : Type}, List β → List β} (hπ : NatPerm π) :
    runRuleSt (fixedArith p) (reorder π c) = (runRuleSt (fixedArith p) c).map (permB π) := by
  have h1 : runRuleSt (fixedArith p) (reorder π c) = runRuleSt' (fixedArith p) c (permB π (initState (fixedArith p) c)) := by
    unfold runRuleSt
    rw [runRuleSt'_reorder, initState_reorder (fixedArith p) hπ]
  rw [h1]
  unfold runRuleSt
  simp only [runRuleSt', hr]
  exact prf_xB (fixedArith p) (XPrf_of_natPerm (fixedArith p) (fixed_lawful p) hπ) _ _

/-- **the order of the ballot lines is irrelevant, QPQ** — every lawful arithmetic (in particular the guarded arithmetic the rule
    forces, and fixed-point), no hypothesis on the case -/
theorem qpq_ballot_order {α : Type} [CommRing α] [LinearOrder α] [IsStrictOrderedRing α] (A : Arith α) (hA : LawfulArith A)
    (c : Case) (hr : c.rule = "qpq") {π : ∀ {β : Type}, List β → List β} (hπ : NatPerm π) :
    runRuleSt A (reorder π c) = (runRuleSt A c).map (permB π) := by
  have h1 : runRuleSt A (reorder π c) = runRuleSt' A c (permB π (initState A c)) := by
    unfold runRuleSt
    rw [runRuleSt'_reorder, initState_reorder A hπ]
  rw [h1]
  unfold runRuleSt
  simp only [runRuleSt', hr]
  exact qpq_xB A (XQ_of_natPerm A hA hπ) _

/-- the deployed instance: guarded arithmetic with any precision and guard -/
theorem qpq_ballot_order_guarded (p g : Nat) (c : Case) (hr : c.rule = "qpq") {π : ∀ {β : Type}, List β → List β} (hπ : NatPerm π) :
    runRuleSt (guardedArith p g) (reorder π c) = (runRuleSt (guardedArith p g) c).map (permB π) :=
  qpq_ballot_order (guardedArith p g) (guarded_lawful p g) c hr hπ

/-! ## splitting one ballot line in two, merging two identical adjacent lines into one -/

/-- the case with its `i`-th ballot line `(m, r)` replaced by the two lines `(min m1 m, r)` and `(m - min m1 m, r)` -/
def splitLine (i m1 : Nat) (c : Case) : Case :=
  { c with ballots := c.ballots.take i ++ (match c.ballots.drop i with
      | (m, r) :: rest => (min m1 m, r) :: (m - min m1 m, r) :: rest
      | [] => []) }

/-- merging: a case with two adjacent lines carrying the same ranking is the split of the case with the single merged line -/
theorem splitLine_merge (c : Case) (pre rest : List (Nat × List Nat)) (m1 m2 : Nat) (r : List Nat)
    (hb : c.ballots = pre ++ (m1 + m2, r) :: rest) :
    (splitLine pre.length m1 c).ballots = pre ++ (m1, r) :: (m2, r) :: rest := by
  unfold splitLine
  simp only [hb, List.take_left', List.drop_left']
  have h1 : min m1 (m1 + m2) = m1 := by omega
  have h2 : m1 + m2 - m1 = m2 := by omega
  rw [h1, h2]

theorem initState_splitLine {α : Type} [CommRing α] [LinearOrder α] [IsStrictOrderedRing α] (A : Arith α)
    (i m1 : Nat) (c : Case) :
    initState A (splitLine i m1 c) = xB (splitBallots i m1) (splitViews i) (initState A c) := by
  unfold initState splitLine xB splitBallots splitOne
  simp only [List.map_nil, List.map_append]
  rw [← List.map_take, ← List.map_drop]
  congr 2
  cases c.ballots.drop i with
  | nil => rfl
  | cons b r => obtain ⟨m, rk⟩ := b; rfl

theorem runRuleSt'_splitLine {α : Type} (A : Arith α) (i m1 : Nat) (c : Case) (s0 : St α) :
    runRuleSt' A (splitLine i m1 c) s0 = runRuleSt' A c s0 := rfl

/-- **splitting a ballot line through its multiplier changes nothing, all seven Gregory rule names** — the result is the result
    of the original case with that ballot (and its entry in each logged view) duplicated; candidates, tallies, quota, totals,
    actions, statuses and winners are the same -/
theorem gregory_split (p : Nat) (c : Case)
    (hr : c.rule ∈ ["wigm", "wigm-prf", "wigm-prf-batch", "scotland", "cfer", "cfer-batch", "mpls"]) (i m1 : Nat) :
    runRuleSt (fixedArith p) (splitLine i m1 c)
      = (runRuleSt (fixedArith p) c).map (xB (splitBallots i m1) (splitViews i)) := by
  have hx := XF_split (fixedArith p) (fixed_lawful p) i m1
  have h1 : runRuleSt (fixedArith p) (splitLine i m1 c)
      = runRuleSt' (fixedArith p) c (xB (splitBallots i m1) (splitViews i) (initState (fixedArith p) c)) := by
    unfold runRuleSt
    rw [runRuleSt'_splitLine, initState_splitLine (fixedArith p)]
  rw [h1]
  unfold runRuleSt
  obtain ⟨count, ho, hperm⟩ : ∃ count : St Int → Option (St Int), (∀ s0, runRuleSt' (fixedArith p) c s0 = count s0)
      ∧ ∀ s0, count (xB (splitBallots i m1) (splitViews i) s0) = (count s0).map (xB (splitBallots i m1) (splitViews i)) := by
    simp only [List.mem_cons, List.not_mem_nil, or_false] at hr
    rcases hr with hr | hr | hr | hr | hr | hr | hr
    · exact ⟨wigmCount (fixedArith p) { integerQuota := c.intq, batchZero := c.batch == "zero" },
        fun s0 => by simp only [runRuleSt', hr], fun s0 => wigm_xB (fixedArith p) (fixed_lawful p) hx _ s0⟩
    · exact ⟨wigmCount (fixedArith p) { prf := true }, fun s0 => by simp only [runRuleSt', hr],
        fun s0 => wigm_xB (fixedArith p) (fixed_lawful p) hx _ s0⟩
    · exact ⟨wigmCount (fixedArith p) { prf := true, prfBatch := true }, fun s0 => by simp only [runRuleSt', hr],
        fun s0 => wigm_xB (fixedArith p) (fixed_lawful p) hx _ s0⟩
    · exact ⟨scotCount (fixedArith p), fun s0 => by simp only [runRuleSt', hr], fun s0 => scot_xB (fixedArith p) (fixed_lawful p) hx s0⟩
    · exact ⟨cferCount (fixedArith p) false, fun s0 => by simp only [runRuleSt', hr],
        fun s0 => cfer_xB (fixedArith p) (fixed_lawful p) hx false s0⟩
    · exact ⟨cferCount (fixedArith p) true, fun s0 => by simp only [runRuleSt', hr],
        fun s0 => cfer_xB (fixedArith p) (fixed_lawful p) hx true s0⟩
    · exact ⟨mplsCount (fixedArith p), fun s0 => by simp only [runRuleSt', hr], fun s0 => mpls_xB (fixedArith p) (fixed_lawful p) hx s0⟩
  rw [ho, ho]
  exact hperm _

/-- what the split leaves untouched in a state: everything but the ballot list and the per-ballot views -/
theorem xB_split_same {α : Type} (i m1 : Nat) (s : St α) :
    let t := xB (splitBallots i m1) (splitViews i) s
    t.cands = s.cands ∧ t.quota = s.quota ∧ t.votes = s.votes ∧ t.exhausted = s.exhausted ∧ t.residual = s.residual
      ∧ t.surplus = s.surplus ∧ t.round = s.round ∧ t.crash = s.crash
      ∧ t.acts.map (fun a => (a.tag, a.round, a.verb, a.subj, a.snap, a.val)) = s.acts.map (fun a => (a.tag, a.round, a.verb, a.subj, a.snap, a.val)) := by
  refine ⟨rfl, rfl, rfl, rfl, rfl, rfl, rfl, rfl, ?_⟩
  simp only [xB, List.map_map]; rfl

/-- non-vacuity: splitting the first line (2 × [1,2]) of the sample into 1 + 1 -/
example : (splitLine 0 1 Driver.sample).ballots = [(1, [1, 2]), (1, [1, 2]), (1, [2])] := by decide

/-! ## natural permutations exist, and compose -/

theorem natPerm_id : NatPerm (fun {β : Type} (l : List β) => l) := ⟨fun _ _ => rfl, fun l => List.Perm.refl l⟩

theorem natPerm_reverse : NatPerm (fun {β : Type} (l : List β) => l.reverse) :=
  ⟨fun f l => (List.map_reverse).symm, fun l => List.reverse_perm l⟩

theorem natPerm_rotate (n : Nat) : NatPerm (fun {β : Type} (l : List β) => l.rotate n) :=
  ⟨fun f l => (List.map_rotate f l n).symm, fun l => List.rotate_perm l n⟩

theorem natPerm_comp {π ρ : ∀ {β : Type}, List β → List β} (h1 : NatPerm π) (h2 : NatPerm ρ) :
    NatPerm (fun {β : Type} (l : List β) => π (ρ l)) :=
  ⟨fun f l => by rw [h2.nat, h1.nat], fun l => (h1.perm _).trans (h2.perm l)⟩

/-- exchange the entries at positions `i` and `i+1` -/
def swapAt (i : Nat) {β : Type} (l : List β) : List β :=
  l.take i ++ (match l.drop i with
               | a :: b :: r => b :: a :: r
               | r => r)

theorem natPerm_swapAt (i : Nat) : NatPerm (fun {β : Type} (l : List β) => swapAt i l) := by
  constructor
  · intro β γ f l
    unfold swapAt
    rw [List.map_append, ← List.map_take, ← List.map_drop]
    congr 1
    cases l.drop i with
    | nil => rfl
    | cons a r => cases r with
      | nil => rfl
      | cons b r' => rfl
  · intro β l
    unfold swapAt
    conv_rhs => rw [← List.take_append_drop i l]
    apply List.Perm.append_left
    cases l.drop i with
    | nil => exact List.Perm.refl _
    | cons a r => cases r with
      | nil => exact List.Perm.refl _
      | cons b r' => exact List.Perm.swap _ _ _

/-- non-vacuity: reversing the ballot lines of a concrete case -/
example : (reorder (fun {β : Type} (l : List β) => l.reverse) Driver.sample).ballots = [(1, [2]), (2, [1, 2])] := rfl

end Droop.C10

namespace Droop.C10
/-- non-vacuity: the sample profile counted under meek is inside the domain of `meek_ballot_order` -/
example : caseOK { Driver.sample with rule := "meek" } = true := by decide
end Droop.C10
