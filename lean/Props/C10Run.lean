import Props.C10
import Props.Driver
/-!
# C10 at run level: the count does not depend on the order of the ballot lines (all seven Gregory rule names)

`π` ranges over the *natural* permutations of lists (`NatPerm`: rearrangements of positions — they commute with `List.map` and
return a permutation of their argument; reversal, rotations, adjacent transpositions and their compositions are instances, and
adjacent transpositions generate every reordering).  For every case whatsoever (no domain hypothesis), every fixed-point
precision, every configuration of wigm, and wigm-prf, wigm-prf-batch, scotland, cfer, cfer-batch, mpls (`gregory_ballot_order`):

  running the case with its ballot lines rearranged by `π` returns exactly the state returned for the original case with its
  ballot list, and the ballot views logged with each action, rearranged by `π` — every action, tally, quota, total, status and
  the winners are identical (`wigm_ballot_order`); what the driver prints differs only in the order of the per-ballot view
  (`finish_permB`).

Proof: `DroopProofs/PermB.lean` (the first count and `transferAll` are folds whose effect on the state is a sum of per-ballot
effects that commute pairwise: `tstate_comm`, `Perm.foldl_eq'`) and `PermBWigm.lean` (every step of the driver commutes with
`permB π`; `PermBMore.lean` for scotland, cfer, mpls).  Splitting / merging identical ballots through multipliers, the Meek family and QPQ, and the file-level presentation
(comments, layout, nicknames) are decided by re-running the real code (C10 check) and by the reader theorems of C15.
-/
namespace Droop.C10
open Droop

/-- the case with its ballot lines rearranged -/
def reorder (π : ∀ {β : Type}, List β → List β) (c : Case) : Case := { c with ballots := π c.ballots }

theorem initState_reorder {α : Type} [CommRing α] [LinearOrder α] [IsStrictOrderedRing α] (A : Arith α)
    {π : ∀ {β : Type}, List β → List β} (hπ : NatPerm π) (c : Case) :
    initState A (reorder π c) = permB π (initState A c) := by
  unfold initState reorder permB xB
  simp only [List.map_nil, hπ.nat]

theorem runRuleSt'_reorder {α : Type} (A : Arith α) (π : ∀ {β : Type}, List β → List β) (c : Case) (s0 : St α) :
    runRuleSt' A (reorder π c) s0 = runRuleSt' A c s0 := rfl

/-- **the order of the ballot lines is irrelevant, wigm family** -/
theorem wigm_ballot_order (p : Nat) (c : Case) (hr : c.rule = "wigm" ∨ c.rule = "wigm-prf" ∨ c.rule = "wigm-prf-batch")
    {π : ∀ {β : Type}, List β → List β} (hπ : NatPerm π) :
    runRuleSt (fixedArith p) (reorder π c) = (runRuleSt (fixedArith p) c).map (permB π) := by
  have h1 : runRuleSt (fixedArith p) (reorder π c) = runRuleSt' (fixedArith p) c (permB π (initState (fixedArith p) c)) := by
    unfold runRuleSt
    rw [runRuleSt'_reorder, initState_reorder (fixedArith p) hπ]
  rw [h1]
  unfold runRuleSt
  obtain ⟨o, ho⟩ : ∃ o, ∀ s0, runRuleSt' (fixedArith p) c s0 = wigmCount (fixedArith p) o s0 := by
    rcases hr with hr | hr | hr
    · exact ⟨{ integerQuota := c.intq, batchZero := c.batch == "zero" }, fun s0 => by simp only [runRuleSt', hr]⟩
    · exact ⟨{ prf := true }, fun s0 => by simp only [runRuleSt', hr]⟩
    · exact ⟨{ prf := true, prfBatch := true }, fun s0 => by simp only [runRuleSt', hr]⟩
  rw [ho, ho]
  exact wigm_permB (fixedArith p) (fixed_lawful p) hπ o _

/-- **the order of the ballot lines is irrelevant, all seven Gregory rule names** (wigm in every configuration, wigm-prf,
    wigm-prf-batch, scotland, cfer, cfer-batch, mpls) — no hypothesis on the case -/
theorem gregory_ballot_order (p : Nat) (c : Case)
    (hr : c.rule ∈ ["wigm", "wigm-prf", "wigm-prf-batch", "scotland", "cfer", "cfer-batch", "mpls"])
    {π : ∀ {β : Type}, List β → List β} (hπ : NatPerm π) :
    runRuleSt (fixedArith p) (reorder π c) = (runRuleSt (fixedArith p) c).map (permB π) := by
  have h1 : runRuleSt (fixedArith p) (reorder π c) = runRuleSt' (fixedArith p) c (permB π (initState (fixedArith p) c)) := by
    unfold runRuleSt
    rw [runRuleSt'_reorder, initState_reorder (fixedArith p) hπ]
  rw [h1]
  unfold runRuleSt
  obtain ⟨count, ho, hperm⟩ : ∃ count : St Int → Option (St Int), (∀ s0, runRuleSt' (fixedArith p) c s0 = count s0)
      ∧ ∀ s0, count (permB π s0) = (count s0).map (permB π) := by
    simp only [List.mem_cons, List.not_mem_nil, or_false] at hr
    rcases hr with hr | hr | hr | hr | hr | hr | hr
    · exact ⟨wigmCount (fixedArith p) { integerQuota := c.intq, batchZero := c.batch == "zero" },
        fun s0 => by simp only [runRuleSt', hr], fun s0 => wigm_permB (fixedArith p) (fixed_lawful p) hπ _ s0⟩
    · exact ⟨wigmCount (fixedArith p) { prf := true }, fun s0 => by simp only [runRuleSt', hr],
        fun s0 => wigm_permB (fixedArith p) (fixed_lawful p) hπ _ s0⟩
    · exact ⟨wigmCount (fixedArith p) { prf := true, prfBatch := true }, fun s0 => by simp only [runRuleSt', hr],
        fun s0 => wigm_permB (fixedArith p) (fixed_lawful p) hπ _ s0⟩
    · exact ⟨scotCount (fixedArith p), fun s0 => by simp only [runRuleSt', hr], fun s0 => scot_permB (fixedArith p) (fixed_lawful p) hπ s0⟩
    · exact ⟨cferCount (fixedArith p) false, fun s0 => by simp only [runRuleSt', hr],
        fun s0 => cfer_permB (fixedArith p) (fixed_lawful p) hπ false s0⟩
    · exact ⟨cferCount (fixedArith p) true, fun s0 => by simp only [runRuleSt', hr],
        fun s0 => cfer_permB (fixedArith p) (fixed_lawful p) hπ true s0⟩
    · exact ⟨mplsCount (fixedArith p), fun s0 => by simp only [runRuleSt', hr], fun s0 => mpls_permB (fixedArith p) (fixed_lawful p) hπ s0⟩
  rw [ho, ho]
  exact hperm _

/-! ## natural permutations exist, and compose -/

theorem natPerm_id : NatPerm (fun {β : Type} (l : List β) => l) := ⟨fun _ _ => rfl, fun l => List.Perm.refl l⟩

theorem natPerm_reverse : NatPerm (fun {β : Type} (l : List β) => l.reverse) :=
  ⟨fun f l => (List.map_reverse).symm, fun l => List.reverse_perm l⟩

theorem natPerm_rotate (n : Nat) : NatPerm (fun {β : Type} (l : List β) => l.rotate n) :=
  ⟨fun f l => (List.map_rotate f l n).symm, fun l => List.rotate_perm l n⟩

theorem natPerm_comp {π ρ : ∀ {β : Type}, List β → List β} (h1 : NatPerm π) (h2 : NatPerm ρ) :
    NatPerm (fun {β : Type} (l : List β) => π (ρ l)) :=
  ⟨fun f l => by rw [h2.nat, h1.nat], fun l => (h1.perm _).trans (h2.perm l)⟩

/-- exchange the entries at positions `i` and `i+1` -/
def swapAt (i : Nat) {β : Type} (l : List β) : List β :=
  l.take i ++ (match l.drop i with
               | a :: b :: r => b :: a :: r
               | r => r)

theorem natPerm_swapAt (i : Nat) : NatPerm (fun {β : Type} (l : List β) => swapAt i l) := by
  constructor
  · intro β γ f l
    unfold swapAt
    rw [List.map_append, ← List.map_take, ← List.map_drop]
    congr 1
    cases l.drop i with
    | nil => rfl
    | cons a r => cases r with
      | nil => rfl
      | cons b r' => rfl
  · intro β l
    unfold swapAt
    conv_rhs => rw [← List.take_append_drop i l]
    apply List.Perm.append_left
    cases l.drop i with
    | nil => exact List.Perm.refl _
    | cons a r => cases r with
      | nil => exact List.Perm.refl _
      | cons b r' => exact List.Perm.swap _ _ _

/-- non-vacuity: reversing the ballot lines of a concrete case -/
example : (reorder (fun {β : Type} (l : List β) => l.reverse) Driver.sample).ballots = [(1, [2]), (2, [1, 2])] := rfl

end Droop.C10
