import Props.C04Prf
/-!
# C08 for meek-prf: a round's iteration stops only when converged

`prfIterate` (meek_prf.py B.2) ends in one of these ways (`prf_iterate_cases`), read off the state the last step was applied to:

* `elected`: some hopeful candidate reached the quota in the last step;
* `omega`: nobody did, and the total surplus is below omega — converged;
* `stable`: nobody did, the surplus is not below omega and did not decrease against the previous step — logged as
  "Stable state detected" — or the crash flag is up (a zero tally in the keep-factor update, or the model's fuel ran out:
  the implementation raises / never gets there);

and in the two converged endings every candidate still hopeful holds strictly less than the quota (`prf_converged_rest_below_fixed`).
An exclusion happens only after `omega` or `stable` (`prfBody`: an `elected` ending continues with the next round).
-/
namespace Droop.C08
open Droop
variable {α : Type} [CommRing α] [LinearOrder α] [IsStrictOrderedRing α] (A : Arith α)

theorem prf_iterate_cases (omega : α) :
    ∀ (fuel : Nat) (last : α) (s t : St α) (st : PStatus), prfIterate A omega fuel last s = (t, st) →
      match st with
      | .iterate => False
      | .elected => ∃ s', t = prfS6 A s' ∧ (prfWinners A s').isEmpty = false
      | .omega => ∃ s', t = prfS6 A s' ∧ (prfWinners A s').isEmpty = true ∧ A.lt t.surplus omega = true
      | .stable => t.crash.isSome = true
          ∨ ∃ s' last', t = (prfS6 A s').logMsg "Stable state detected" [] (some (prfS6 A s').surplus)
              ∧ (prfWinners A s').isEmpty = true ∧ A.lt (prfS6 A s').surplus omega = false
              ∧ A.ge (prfS6 A s').surplus last' = true := by
  intro fuel
  induction fuel with
  | zero =>
    intro last s t st h
    have : prfIterate A omega 0 last s = (s.setCrash "FUEL", .stable) := rfl
    rw [this] at h
    cases h
    exact Or.inl (setCrash_isSome s _)
  | succ n ih =>
    intro last s t st h
    rw [prfIterate_succ] at h
    by_cases h1 : (!(prfWinners A s).isEmpty) = true
    · rw [if_pos h1] at h
      cases h
      exact ⟨s, rfl, by simpa using h1⟩
    · have h1' : (prfWinners A s).isEmpty = true := by simpa using h1
      rw [if_neg h1] at h
      by_cases h2 : A.lt (prfS6 A s).surplus omega = true
      · rw [if_pos h2] at h
        cases h
        exact ⟨s, rfl, h1', h2⟩
      · have h2' : A.lt (prfS6 A s).surplus omega = false := by simpa using h2
        rw [if_neg h2] at h
        by_cases h3 : A.ge (prfS6 A s).surplus last = true
        · rw [if_pos h3] at h
          cases h
          exact Or.inr ⟨s, last, rfl, h1', h2', h3⟩
        · rw [if_neg h3] at h
          by_cases h5 : (kfUpdate A false (prfS6 A s)).crash.isSome = true
          · rw [if_pos h5] at h
            cases h
            exact Or.inl h5
          · rw [if_neg h5] at h
            exact ih _ _ t st h

/-- nobody reached the quota in the last step: whoever is hopeful holds strictly less than the quota (fixed-point arithmetic) -/
theorem prf_converged_rest_below_fixed (p : Nat) (s' : St Int) :
    ∀ c ∈ (prfS6 (fixedArith p) s').hopeful, c.vote < (prfS4 (fixedArith p) s').quota :=
  C04.prf_rest_below_fixed p s'

/-- C07 for meek-prf: the candidate excluded after a converged iteration is a hopeful whose tally is within the surplus of the
    lowest tally (reference rule B.3) -/
theorem prf_excluded_near_lowest (s : St α) (hd : Cand α) (hs : List (Cand α)) (hh : s.hopeful = hd :: hs) (lc : Cand α)
    (hb : (breakTie A s (s.hopeful.filter (fun c => A.ge (A.add (A.vMin hd.vote (hs.map (·.vote))) s.surplus) c.vote))
      "Break tie (defeat low candidate)").2 = some lc) :
    lc ∈ s.hopeful ∧ A.ge (A.add (A.vMin hd.vote (hs.map (·.vote))) s.surplus) lc.vote = true := by
  have := breakTie_mem A s _ _ lc hb
  rw [List.mem_filter] at this
  exact this

end Droop.C08
