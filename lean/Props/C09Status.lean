import Props.C09
/-!
# C09: every place that writes a candidate's status, as read from the source

`harness/gen_status.py` scans every module of the package for an assignment to an attribute named `state` or `pending` (tuple, augmented
and annotated assignments and `setattr` with a possibly matching name are refused) and lists them, with the enclosing `Class.method` and
the source text of the assigned value; it also lists the modules that call `.unelect()`, and the assertions at the head of
`Candidate.unpend`.  The kernel checks the lists equal to the ones committed here on every C09 run.

So the only writers are the constructor and the four methods of `Candidate`, and the only caller of the backward move `unelect` is
rules/qpq.py.  The theorems below say that the model's mutators (DroopModel/Core.lean, Qpq.lean) perform exactly these writes: the run-level
C09 theorems (`Mon`, `StFwd`) quantify over all the ways the rules *call* them.
-/
namespace Droop.C09
open Droop

/-- (module, Class.method, attribute, assigned value) -/
def statusWrites : List (String × String × String × String) :=
  [("candidate.py", "Candidate.__init__", "state", "'withdrawn' if isWithdrawn else 'hopeful'"),
   ("candidate.py", "Candidate.__init__", "pending", "None"),
   ("candidate.py", "Candidate.elect", "state", "'elected'"),
   ("candidate.py", "Candidate.elect", "pending", "pending"),
   ("candidate.py", "Candidate.unpend", "pending", "False"),
   ("candidate.py", "Candidate.unelect", "state", "'hopeful'"),
   ("candidate.py", "Candidate.defeat", "state", "'defeated'")]

def unelectCallers : List String := ["rules/qpq.py"]
def unpendAsserts : List String := ["self.state == 'elected'", "self.pending"]

variable {α : Type} (A : Arith α)

/-- `Candidate.elect(msg, pending)`: `state = 'elected'`, `pending = pending`, for the one candidate; nobody else is touched -/
theorem elect_is_the_write (s : St α) (cid : Nat) (verb : String) (p : Bool) :
    (s.elect A cid verb p).cands = s.cands.map (fun c => if c.cid == cid then { c with st := .elected, pending := p } else c) := by
  unfold St.elect St.logAct; dsimp only; split <;> rfl

/-- `Candidate.defeat(msg)`: `state = 'defeated'` -/
theorem defeat_is_the_write (s : St α) (cid : Nat) (verb : String) :
    (s.defeat A cid verb).cands = s.cands.map (fun c => if c.cid == cid then { c with st := .defeated } else c) := by
  unfold St.defeat St.logAct; dsimp only; split <;> rfl

/-- `Candidate.unpend(msg)`: `pending = False`; the status itself is not written -/
theorem unpend_is_the_write (s : St α) (cid : Nat) (verb : String) :
    (s.unpendLog A cid verb).cands = s.cands.map (fun c => if c.cid == cid then { c with pending := false } else c)
    ∧ (s.unpendSilent cid).cands = s.cands.map (fun c => if c.cid == cid then { c with pending := false } else c) := by
  refine ⟨?_, rfl⟩
  unfold St.unpendLog St.logAct; dsimp only; split <;> rfl

/-- the statuses after `unpend` are the statuses before -/
theorem unpend_keeps_status (s : St α) (cid : Nat) (verb : String) :
    (s.unpendLog A cid verb).cands.map (·.st) = s.cands.map (·.st) := by
  rw [(unpend_is_the_write A s cid verb).1, List.map_map]
  apply List.map_congr_left
  intro c _
  simp only [Function.comp]
  split <;> rfl

/-- `Candidate.__init__`: `'withdrawn' if isWithdrawn else 'hopeful'`, not pending -/
theorem initial_status (c : Case) :
    (initState A c).cands.map (fun x => (x.st, x.pending))
      = c.cands.map (fun k => (if k.2.2.1 then CState.withdrawn else CState.hopeful, false)) := by
  unfold initState
  simp only [List.map_map]
  apply List.map_congr_left
  intro k _
  obtain ⟨cid, tie, wd, ud⟩ := k
  rfl

end Droop.C09
