import DroopProofs
/-!
# C18: the one-letter status code of a candidate (`Candidate.code()`), translated from candidate.py

The dump, the text report and the JSON text all show a candidate's status through `code()`.  `harness/gen_code.py` translates its body
— a list of `if self.state == <status>: return <letter>`, the elected case split on `self.E.rule.method == 'wigm' and self.pending` —
into the table below; the kernel checks the translation equal to `codeProg` on every C18 run, and `code_is_program` proves the model's
`Cand.code` is the evaluation of that table.
-/
namespace Droop.C18
open Droop

inductive CodeCase
  | plain (letter : String)
  | wigmPending (yes no : String)       -- `if self.E.rule.method == 'wigm' and self.pending: return yes` then `return no`
deriving DecidableEq, Repr

/-- (status name, what to return), in source order; then the fall-through letter -/
structure CodeProg where
  cases : List (String × CodeCase)
  dflt : String
deriving DecidableEq, Repr

def stateName : CState → String
  | .hopeful => "hopeful" | .elected => "elected" | .defeated => "defeated" | .withdrawn => "withdrawn"

def CodeProg.eval {α : Type} (p : CodeProg) (m : Method) (c : Cand α) : String :=
  match p.cases.find? (fun e => e.1 == stateName c.st) with
  | some (_, .plain l) => l
  | some (_, .wigmPending y n) => if m == .wigm && c.pending then y else n
  | none => p.dflt

def codeProg : CodeProg :=
  { cases := [("withdrawn", .plain "W"), ("hopeful", .plain "H"), ("elected", .wigmPending "e" "E"), ("defeated", .plain "D")],
    dflt := "?" }

theorem code_is_program {α : Type} (m : Method) (c : Cand α) : c.code m = codeProg.eval m c := by
  unfold Cand.code CodeProg.eval codeProg
  cases c.st <;> rfl

end Droop.C18
