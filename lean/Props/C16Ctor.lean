import Props.C20
/-!
# C16, second clause: a profile that embeds no counting options can be handed to every rule

`Election.__init__` (droop/election.py) parses the profile's `[droop ...]` options, looks the rule up, lets the rule process its
options, initialises the arithmetic class, and then builds candidate and ballot objects by plain attribute and dictionary access on
the profile (the keys exist for every accepted profile: `parse_valid`). Everything that can *fail* is the first part, which
`electionSetupS` (DroopModel/Session.lean) models on the process-level class state. With no options in the file and none but the
rule name from the caller, that part succeeds for every one of the eleven rule names — from every class state whatsoever earlier
elections may have left behind.
-/
namespace Droop.C16
open Droop

/-- from the pristine class state: every rule name constructs (a finite table, decided by the kernel) -/
theorem every_rule_constructs_fresh :
    ∀ r ∈ Options.ruleNames, ((electionSetupS [("rule", .s r)] [] {}).2.toOption.isSome) = true := by
  decide +kernel

/-- **from any class state** (any history of earlier elections in the process) -/
theorem every_rule_constructs (cs : ClassState) :
    ∀ r ∈ Options.ruleNames, ((electionSetupS [("rule", .s r)] [] cs).2.toOption.isSome) = true := by
  intro r hr
  rw [C20.setup_outcome_indep _ _ cs {}]
  exact every_rule_constructs_fresh r hr

/-- ... in particular after any session -/
theorem every_rule_constructs_after (h : List (Dict × List String)) :
    ∀ r ∈ Options.ruleNames, ((electionSetupS [("rule", .s r)] [] (runSession {} h)).2.toOption.isSome) = true :=
  every_rule_constructs _

/-- a rule name outside the table is refused with the package's own error, whatever the class state -/
theorem unknown_rule_is_refused (cs : ClassState) (r : String) (hr : Options.ruleNames.contains r = false) :
    (electionSetupS [("rule", .s r)] [] cs).2 = .error .election := by
  have hr' : r ∉ Options.ruleNames := by
    intro hm
    have : Options.ruleNames.contains r = true := by simpa using hm
    rw [hr] at this; cases this
  unfold electionSetupS
  by_cases hd : isDigits r = true
  · simp [Options.parse, Options.getopt, Options.layer, OV.normalize, hd]; rfl
  · simp [Options.parse, Options.getopt, Options.layer, OV.normalize, hd, hr']; rfl

end Droop.C16
