import Props.C17
/-!
# C17: the layer order of `getopt`, `record`, `overrides`, `unused`, `setopt`, as read from the source

`harness/gen_getopt.py` accepts `Options.getopt` only in the form of a chain of layered dictionary lookups
(`optvalue = self.<L>.get(optname, <previous>)`, later layers win), `record` as a sequence of `effective.update(self.<L>)`, `overrides` as the
file options updated by the caller's, compared against the forced ones, `unused` as (file ∪ caller) − {path, rule} − defaults, `setopt` as
default / force / getopt / allowed check, and extracts the layer names in order.  The kernel checks the lists equal to the ones committed
here on every C17 run; the theorems say that the model's functions are the evaluation of exactly these lists.
-/
namespace Droop.C17
open Droop

def getoptLayers : List String := ["default", "file_options", "cmd_options", "force"]
def recordLayers : List String := ["default", "file_options", "cmd_options", "force"]
def overridesMerge : List String := ["file_options", "cmd_options"]
def unusedUnion : List String := ["file_options", "cmd_options"]
def unusedExcluded : List String := ["path", "rule"]
def unusedMinus : List String := ["default"]
def setoptOrder : List String := ["default.setdefault", "force", "getopt", "allowed", "return"]

/-- the dictionary a layer name of options.py denotes in the model -/
def layerOf (o : Options) : String → Dict
  | "default" => o.dflt
  | "file_options" => o.file
  | "cmd_options" => o.cmd
  | "force" => o.force
  | _ => []

/-- a chain of layered lookups, evaluated: start from `None`, each layer that has the key replaces the value -/
def evalLayers (o : Options) (k : String) (layers : List String) : OV :=
  layers.foldl (fun acc l => Options.layer (layerOf o l) k acc) .none

/-- **`getopt` is the source's chain**: default, then ballot file, then caller, then forced — the last layer that has the key wins -/
theorem getopt_is_program (o : Options) (k : String) : o.getopt k = evalLayers o k getoptLayers := rfl

/-- ... hence the precedence stated in the property: forced > caller > ballot file > default -/
theorem getopt_program_precedence (o : Options) (k : String) :
    evalLayers o k getoptLayers =
      match o.force.find? (·.1 == k) with
      | some e => e.2
      | none => match o.cmd.find? (·.1 == k) with
        | some e => e.2
        | none => match o.file.find? (·.1 == k) with
          | some e => e.2
          | none => match o.dflt.find? (·.1 == k) with
            | some e => e.2
            | none => .none := by
  rw [← getopt_is_program]; exact getopt_precedence o k

/-- `record()`'s effective options use the same order as `getopt` (the two lists the extractor reads are equal) -/
theorem record_layers_are_getopt_layers : recordLayers = getoptLayers := rfl

/-- `overrides()`: the model merges the caller's options over the file's, as `overridesMerge` says, and compares with the forced ones -/
theorem overrides_is_program (o : Options) :
    o.overrides =
      ((o.force.filter (fun f => match ((layerOf o "cmd_options").foldl (fun d e => dictSet d e.1 e.2) (layerOf o "file_options")).find? (·.1 == f.1) with
                                  | some e => !(e.2.pyEq f.2)
                                  | none => false)).map (·.1)).mergeSort (fun a b => a ≤ b) := rfl

/-- `unused()`: (file ∪ caller) without `path`, `rule` and whatever has a default -/
theorem unused_is_program (o : Options) :
    o.unused =
      (((layerOf o "file_options").map (·.1) ++ (layerOf o "cmd_options").map (·.1)).eraseDups.filter
        (fun k => k != "rule" && k != "path" && !((layerOf o "default").any (·.1 == k)))).mergeSort (fun a b => a ≤ b) := rfl

/-- `setopt`: default recorded first (never replacing an existing default), then the forced value, then `getopt`, then the allowed-values check -/
theorem setopt_is_program (o : Options) (k : String) (d : OV) (force : Bool) :
    o.setopt k d force [] =
      .ok ((if force then { { o with dflt := Options.setDefault o.dflt k d.normalize } with
                              force := dictSet ({ o with dflt := Options.setDefault o.dflt k d.normalize } : Options).force k d.normalize }
            else { o with dflt := Options.setDefault o.dflt k d.normalize }),
           (if force then { { o with dflt := Options.setDefault o.dflt k d.normalize } with
                              force := dictSet ({ o with dflt := Options.setDefault o.dflt k d.normalize } : Options).force k d.normalize }
            else { o with dflt := Options.setDefault o.dflt k d.normalize }).getopt k) := by
  unfold Options.setopt
  simp

end Droop.C17
