import Props.C10Run
import DroopProofs.SplitMeek
/-!
# C10 for the Meek family: splitting a ballot line through its multiplier (and merging identical lines) changes nothing

`meek_split` (meek, warren; cases in the printed domain: strict rankings) and `prf_split` (meek-prf; no hypothesis on the case):
replacing the `i`-th ballot line `(m, r)` by `(min m₁ m, r)` and `(m − min m₁ m, r)` gives the run of the original case with that
ballot duplicated — the same candidates, tallies, keep factors, quota, residual, actions, statuses, winners.  With `splitLine_merge`
this is the merging direction too.  With `gregory_split` and `qpq_split`: all eleven rule names.
-/
namespace Droop.C10
open Droop

theorem meek_split (p : Nat) (c : Case) (hr : c.rule = "meek" ∨ c.rule = "warren") (hok : caseOK c = true) (i m1 : Nat) :
    runRuleSt (fixedArith p) (splitLine i m1 c)
      = (runRuleSt (fixedArith p) c).map (xB (splitBallots i m1) (splitViews i)) := by
  have hk := caseOK_iff c hok
  have hm : methodOf c.rule = .meek := by rcases hr with hr | hr <;> rw [hr] <;> rfl
  have h0 := initState_minit (fixedArith p) (fixed_lawful p) c hm hk
  have h1 : runRuleSt (fixedArith p) (splitLine i m1 c)
      = runRuleSt' (fixedArith p) c (xB (splitBallots i m1) (splitViews i) (initState (fixedArith p) c)) := by
    unfold runRuleSt
    rw [runRuleSt'_splitLine, initState_splitLine (fixedArith p)]
  rw [h1]
  unfold runRuleSt
  have hx := XMeek_split (fixedArith p) (fixed_lawful p) i m1
  rcases hr with hr | hr
  · simp only [runRuleSt', hr]
    exact meek_xB (fixedArith p) (fixed_lawful p) rfl hx _ _ _ h0
  · simp only [runRuleSt', hr]
    exact meek_xB (fixedArith p) (fixed_lawful p) rfl hx _ _ _ h0

theorem prf_split (p : Nat) (c : Case) (hr : c.rule = "meek-prf") (i m1 : Nat) :
    runRuleSt (fixedArith p) (splitLine i m1 c)
      = (runRuleSt (fixedArith p) c).map (xB (splitBallots i m1) (splitViews i)) := by
  have h1 : runRuleSt (fixedArith p) (splitLine i m1 c)
      = runRuleSt' (fixedArith p) c (xB (splitBallots i m1) (splitViews i) (initState (fixedArith p) c)) := by
    unfold runRuleSt
    rw [runRuleSt'_splitLine, initState_splitLine (fixedArith p)]
  rw [h1]
  unfold runRuleSt
  simp only [runRuleSt', hr]
  exact prf_xB (fixedArith p) (XPrf_split (fixedArith p) (fixed_lawful p) i m1) _ _

end Droop.C10
