import Props.C05Run
/-!
# C05 — Droop proportionality at run level, about the function the compiled driver runs

For every case inside the domain `caseOK`, every fixed-point precision `p`, every list `S` of candidate ids and every `k`:
if the ballots that rank exactly the members of `S` (in any order) in their first `|S|` places are worth more than `k`
quotas plus the rounding allowance of two units in the last place per ballot per candidate, then the returned state has at
least `min k (standing members of S)` members of `S` elected, unless the crash flag is up.

Proved for the Scottish rule (`scotland_coalition`) and for wigm / wigm-prf with single exclusions
(`wigm_coalition_fixed`: every option combination without `defeat_batch=zero`; wigm-prf-batch, cfer, mpls and the Meek
family are explored by the oracle `okC05` only).

The proof (`DroopProofs/Coalition*.lean`) follows the coalition's ballots through the count: positions only pass over
non-hopeful candidates (`Pos`), every paper rests on a continuing candidate between steps (`RestX`), so while a member of `S`
is hopeful the coalition's papers rest on members of `S`; a surplus transfer from a member costs them at most the quota it
keeps plus the rounding (`Vval_surplus`), anything else costs nothing; a lowest candidate excluded in a round with no surplus
pending and nobody above the quota cannot be one of the last `k` members (`alive_gt`), and when all seats are taken `k`
members are among the elected (`elS_ge_of_full`).
-/
namespace Droop.C05
open Droop

/-- ballots (with multipliers) that rank exactly the members of `S` in their first `|S|` places -/
def coalitionBallots (c : Case) (S : List Nat) : Nat :=
  ((c.ballots.filter (fun b => isVb S S.length b.2)).map (·.1)).sum

/-- members of `S` standing (listed and not withdrawn) -/
def standing (c : Case) (S : List Nat) : Nat := (c.cands.filter (fun k => S.contains k.1 && !k.2.2.1)).length

theorem fixed_quotaComplete (p : Nat) : QuotaComplete (fixedArith p) := by
  constructor
  · intro a b h
    simp only [Arith.ge, fixedArith, intCmp] at h
    by_contra hlt
    have : b < a := by omega
    have h1 : ¬ a < b := by omega
    have h2 : ¬ a = b := by omega
    simp [h1, h2] at h
  · intro a b h
    simp only [Arith.gt, fixedArith, intCmp] at h
    by_contra hlt
    have : b < a := by omega
    have h1 : ¬ a < b := by omega
    have h2 : ¬ a = b := by omega
    simp [h1, h2] at h

theorem Vmult_initState (p : Nat) (c : Case) (S : List Nat) :
    Vmult S S.length (initState (fixedArith p) c) = (coalitionBallots c S : Int) := by
  unfold Vmult coalitionBallots initState
  simp only [List.map_map]
  generalize c.ballots = l
  induction l with
  | nil => simp
  | cons b l ih =>
    obtain ⟨mu, r⟩ := b
    simp only [List.map_cons, List.sum_cons, Function.comp, List.filter_cons]
    rw [ih]
    by_cases hv : isVb S S.length r = true
    · simp [hv]
    · simp [hv]

theorem hopS_initState (p : Nat) (c : Case) (S : List Nat) : hopS S (initState (fixedArith p) c) = standing c S := by
  unfold hopS standing initState
  simp only
  rw [List.filter_map, List.length_map]
  congr 1
  apply List.filter_congr
  rintro ⟨a, b, d, e⟩ _
  simp only [Function.comp]
  cases d <;> simp

/-- the coalition hypotheses of the run-level theorems hold for the state the driver builds -/
theorem cstart_of_case (p : Nat) (c : Case) (hk : CaseOK c) (S : List Nat) (k : Nat) (q : Int) (hq1 : pow10 p ≤ q)
    (hbig : (k : Int) * q + (c.cands.length : Int) * (2 * (coalitionBallots c S : Int)) < (coalitionBallots c S : Int) * pow10 p) :
    CStart (fixedArith p) S S.length (min k (standing c S)) k 2 q (initState (fixedArith p) c) := by
  refine ⟨?_, ?_, initState_fresh _ c, Nat.min_le_left _ _, by rw [hopS_initState]; exact Nat.min_le_right _ _, hq1, ?_⟩
  · intro b hb d hd
    obtain ⟨kb, hkb, _, hr, hi, _⟩ := mem_initState_ballots (fixedArith p) hb
    have hne := (hk.ballots kb hkb).1
    have hdm : d ∈ kb.2 := by
      unfold Ballot.top at hd
      rw [hi, hr] at hd
      exact List.mem_of_getElem? hd
    obtain ⟨kc, hkc, hkcid, hkwd⟩ := (hk.ballots kb hkb).2 d hdm
    obtain ⟨x, hx, hxc, hxs⟩ := initState_cand_of (fixedArith p) hkc
    rw [hkwd] at hxs
    exact isHopeful_iff.2 ⟨x, hx, hxc.trans hkcid, by simpa using hxs⟩
  · intro b hb
    obtain ⟨_, _, _, _, hi, hw⟩ := mem_initState_ballots (fixedArith p) hb
    exact ⟨hi, hw⟩
  · rw [Vmult_initState]
    have hlen : (initState (fixedArith p) c).cands.length = c.cands.length := by
      unfold initState; simp
    rw [hlen]
    show (k : Int) * q + (c.cands.length : Int) * (2 * (coalitionBallots c S : Int)) < (coalitionBallots c S : Int) * pow10 p
    exact hbig

/-- **Droop proportionality, Scottish rule.** `quota` is the rule's quota `(⌊ballots/(seats+1)⌋ + 1)` in units of `10^-p`. -/
theorem scotland_coalition (p : Nat) (c : Case) (hr : c.rule = "scotland") (hok : caseOK c = true) (S : List Nat) (k : Nat)
    (hbig : (k : Int) * ((pdiv (c.nballots : Int) ((c.seats : Int) + 1) + 1) * pow10 p)
        + (c.cands.length : Int) * (2 * (coalitionBallots c S : Int)) < (coalitionBallots c S : Int) * pow10 p) :
    ∃ t, runRuleSt (fixedArith p) c = some t ∧ (t.crash = none → min k (standing c S) ≤ elS S t) := by
  obtain ⟨t, ⟨hrun, _, _⟩, _⟩ := Driver.scotland p c hr hok
  have hk := caseOK_iff c hok
  have hm : methodOf c.rule = .wigm := Driver.methodOf_gregory (by rw [hr]; simp)
  have hI := initState_init (fixedArith p) (fixed_lawful p) c hm hk
  have hS := pow10_pos p
  have hrun' : scotCount (fixedArith p) (initState (fixedArith p) c) = some t := by
    rw [← hrun]; simp [runRuleSt, runRuleSt', hr]
  have hnn : 0 ≤ pdiv (c.nballots : Int) ((c.seats : Int) + 1) := pdiv_nonneg _ _ (by positivity) (by positivity)
  have hqpos : 0 < (fixedArith p).ofInt (pdiv (initState (fixedArith p) c).nballots ((initState (fixedArith p) c).seats + 1) + 1) := by
    show 0 < (pdiv (c.nballots : Int) ((c.seats : Int) + 1) + 1) * pow10 p
    positivity
  have hst : ScotStart (fixedArith p) (initState (fixedArith p) c) :=
    ⟨hI, hqpos, initState_fresh _ c, initState_enough _ c hk⟩
  have hcs := cstart_of_case p c hk S k ((pdiv (c.nballots : Int) ((c.seats : Int) + 1) + 1) * pow10 p)
    (by nlinarith) hbig
  exact ⟨t, hrun, fun hcr => scot_coalition (fixedArith p) (fixed_lawful p) rfl (fixed_quotaComplete p) (by norm_num)
    (fixed_rewLower_muldiv p) _ t hst hcs hrun' hcr⟩

/-- **Droop proportionality, wigm and wigm-prf with single exclusions** (every option combination of wigm except
    `defeat_batch=zero`; `quota` is the configured rule's quota, `C01.wigmQuota_fixed` gives its value). -/
theorem wigm_coalition_fixed (p : Nat) (c : Case) (hr : c.rule = "wigm" ∨ c.rule = "wigm-prf") (hok : caseOK c = true)
    (hz : c.rule = "wigm" → c.batch ≠ "zero") (hmore : c.seats < c.nballots) (S : List Nat) (k : Nat)
    (o : WigmOpts) (ho : o = (if c.rule = "wigm" then { integerQuota := c.intq, batchZero := c.batch == "zero" } else { prf := true }))
    (hbig : (k : Int) * wigmQuota (fixedArith p) o (initState (fixedArith p) c)
        + (c.cands.length : Int) * (2 * (coalitionBallots c S : Int)) < (coalitionBallots c S : Int) * pow10 p) :
    ∃ t, runRuleSt (fixedArith p) c = some t ∧ (t.crash = none → min k (standing c S) ≤ elS S t) := by
  have hk := caseOK_iff c hok
  have hm : methodOf c.rule = .wigm := Driver.methodOf_gregory (by rcases hr with hr | hr <;> rw [hr] <;> simp)
  have hI := initState_init (fixedArith p) (fixed_lawful p) c hm hk
  have hS := pow10_pos p
  have hrunEq : runRuleSt (fixedArith p) c = wigmCount (fixedArith p) o (initState (fixedArith p) c) := by
    rcases hr with hr | hr
    · rw [ho, if_pos hr]; simp only [runRuleSt, runRuleSt', hr]
    · have hne : ¬ c.rule = "wigm" := by rw [hr]; decide
      rw [ho, if_neg hne]; simp only [runRuleSt, runRuleSt', hr]
  have hoz : o.batchZero = false := by
    rcases hr with hr | hr
    · rw [ho, if_pos hr]; simp only; simpa using hz hr
    · have hne : ¬ c.rule = "wigm" := by rw [hr]; decide
      rw [ho, if_neg hne]
  have hob : o.prfBatch = false := by
    rcases hr with hr | hr
    · rw [ho, if_pos hr]
    · have hne : ¬ c.rule = "wigm" := by rw [hr]; decide
      rw [ho, if_neg hne]
  have hG := C01.wigm_start p o _ hI (initState_fresh _ c) (initState_enough _ c hk) rfl
  obtain ⟨t, ht⟩ := wigmCount_terminates' (fixedArith p) (fixed_lawful p) o hoz (fun _ => rfl) _ hG
  have hq1 : pow10 p ≤ wigmQuota (fixedArith p) o (initState (fixedArith p) c) := by
    rw [C01.wigmQuota_fixed]
    split
    · have hnn : 0 ≤ pdiv ((initState (fixedArith p) c).nballots : Int) (((initState (fixedArith p) c).seats : Int) + 1) :=
        pdiv_nonneg _ _ (by positivity) (by positivity)
      nlinarith
    · exact C02.fractional_quota_ge_one p _ hmore
  have hcs := cstart_of_case p c hk S k _ hq1 hbig
  exact ⟨t, by rw [hrunEq]; exact ht, fun hcr => wigm_coalition (fixedArith p) (fixed_lawful p) (fixed_quotaComplete p)
    (by norm_num) (fixed_rewLower_mulDiv p) o hoz hob (fun _ => rfl) _ t hG hcs ht hcr⟩

/-! ## non-vacuity: a two-seat case in which a coalition of two candidates holds more than two quotas plus the allowance -/

def sample2 : Case :=
  { rule := "scotland", arith := "fixed", p := 5, g := 0, intq := false, batch := "none", omega := 0, seats := 2, nballots := 100,
    cands := [(1, 1, false, false), (2, 2, false, false), (3, 3, false, false), (4, 4, false, false)],
    ballots := [(40, [1, 2, 3]), (30, [2, 1]), (20, [3, 4]), (10, [4])], ballotsEq := [] }

example : caseOK sample2 = true := by decide
example : coalitionBallots sample2 [1, 2] = 70 ∧ standing sample2 [1, 2] = 2 := by decide
/-- 70 ballots against two quotas of 34 and an allowance of 4 candidates x 2 units x 70 ballots (units of 10^-5) -/
example : ((2 : Nat) : Int) * ((pdiv ((sample2.nballots : Nat) : Int) (((sample2.seats : Nat) : Int) + 1) + 1) * pow10 5)
    + ((sample2.cands.length : Nat) : Int) * (2 * ((coalitionBallots sample2 [1, 2] : Nat) : Int))
    < ((coalitionBallots sample2 [1, 2] : Nat) : Int) * pow10 5 := by decide

end Droop.C05
