import DroopProofs
import Mathlib.Algebra.Order.Floor.Ring
import Mathlib.Data.Rat.Floor
/-!
# C04 — the quota is the prescribed one

Quota formulas over exact rationals, for the model's `wigmQuota`, `scotInit`, `meekQuota`.
-/
namespace Droop.C04
open Droop

/-- the first count changes tallies only -/
theorem firstCount_frame {α : Type} [CommRing α] [LinearOrder α] [IsStrictOrderedRing α] (A : Arith α) (s : St α) :
    Frame s (firstCount A s) := by
  unfold firstCount
  apply frame_foldl
  intro t b
  cases b.top with
  | none => exact Frame.refl t
  | some c => exact frame_upd t c _

/-- fixed point (also CfER, PRF, guarded with g = 0): ballots/(seats+1) truncated at `p` places, plus one unit in the last place -/
theorem fixed_quota (p : Nat) (o : WigmOpts) (ho : o.integerQuota = false) (s : St Int) :
    wigmQuota (fixedArith p) o s = ⌊((s.nballots : ℚ) * (pow10 p : ℚ)) / ((s.seats + 1 : Nat) : ℚ)⌋ + 1 := by
  have hS := pow10_pos p
  have hk : ((s.seats + 1 : Nat) : Int) * pow10 p ≠ 0 := by
    have : (0 : Int) < ((s.seats + 1 : Nat) : Int) := by exact_mod_cast Nat.succ_pos _
    exact ne_of_gt (mul_pos this hS)
  have hk0 : ((((s.seats + 1 : Nat) : Int) * pow10 p) == 0) = false := by simpa using hk
  have hq : (fixedArith p).add ((fixedArith p).divV ((fixedArith p).ofInt s.nballots) ((fixedArith p).ofInt ((s.seats + 1 : Nat) : Int))) (fixedArith p).eps
      = ⌊((s.nballots : ℚ) * (pow10 p : ℚ)) / ((s.seats + 1 : Nat) : ℚ)⌋ + 1 := by
    show (if (((s.seats + 1 : Nat) : Int) * pow10 p == 0) = true then 0
          else pdiv ((s.nballots : Int) * pow10 p * pow10 p) (((s.seats + 1 : Nat) : Int) * pow10 p)) + 1 = _
    simp only [hk0, Bool.false_eq_true, if_false]
    rw [pdiv_eq_floor _ _ hk]
    congr 2
    have hSq : (pow10 p : ℚ) ≠ 0 := by exact_mod_cast ne_of_gt hS
    push_cast
    field_simp
  unfold wigmQuota
  by_cases hp : o.prf = true
  · simp only [hp, if_true]; exact hq
  · simp only [hp, ho, Bool.false_eq_true, if_false]
    have : (fixedArith p).exact = false := rfl
    simp only [this, Bool.false_eq_true, if_false]; exact hq

/-- exact arithmetic: the quota is ballots/(seats+1) itself -/
theorem rational_quota (o : WigmOpts) (ho : o.integerQuota = false) (hp : o.prf = false) (s : St Rat) :
    wigmQuota rationalArith o s = (s.nballots : ℚ) / ((s.seats + 1 : Nat) : ℚ) := by
  unfold wigmQuota
  have hne : (((s.seats + 1 : Nat) : Int) : ℚ) ≠ 0 := by
    exact_mod_cast Nat.succ_ne_zero s.seats
  have hne0 : ((((s.seats + 1 : Nat) : Int) : ℚ) == 0) = false := by simpa using hne
  simp only [hp, ho, Bool.false_eq_true, if_false]
  show (if rationalArith.exact = true then
          rationalArith.divV (rationalArith.ofInt s.nballots) (rationalArith.ofInt ((s.seats + 1 : Nat) : Int)) else _) = _
  have : rationalArith.exact = true := rfl
  simp only [this, if_true]
  show (if ((((s.seats + 1 : Nat) : Int) : ℚ) == 0) = true then 0 else ((s.nballots : Int) : ℚ) / (((s.seats + 1 : Nat) : Int) : ℚ)) = _
  simp only [hne0, Bool.false_eq_true, if_false]
  push_cast; rfl

/-- Scottish / Minneapolis / integer_quota: floor(ballots/(seats+1)) + 1 whole votes -/
theorem integer_quota (p : Nat) (s : St Int) :
    (scotInit (fixedArith p) s).quota = (⌊(s.nballots : ℚ) / ((s.seats + 1 : Nat) : ℚ)⌋ + 1) * pow10 p := by
  have hk : ((s.seats + 1 : Nat) : Int) ≠ 0 := by exact_mod_cast Nat.succ_ne_zero s.seats
  have hq : (scotInit (fixedArith p) s).quota = (fixedArith p).ofInt (pdiv s.nballots (s.seats + 1) + 1) := by
    unfold scotInit
    have h1 := frame_logAct (fixedArith p)
      ((firstCount (fixedArith p) (s.setQuota ((fixedArith p).ofInt (pdiv s.nballots (s.seats + 1) + 1)))).setExhausted (fixedArith p).zero)
      "begin" "Begin Count" []
    rw [h1.1]
    show (firstCount (fixedArith p) (s.setQuota _)).quota = _
    exact (firstCount_frame (fixedArith p) _).1
  rw [hq]
  show (pdiv (s.nballots : Int) ((s.seats : Int) + 1) + 1) * pow10 p = _
  have : ((s.seats : Int) + 1) = ((s.seats + 1 : Nat) : Int) := by push_cast; rfl
  rw [this, pdiv_eq_floor _ _ hk]
  push_cast; rfl

theorem wigm_integer_quota (p : Nat) (o : WigmOpts) (ho : o.integerQuota = true) (hp : o.prf = false) (s : St Int) :
    wigmQuota (fixedArith p) o s = (⌊(s.nballots : ℚ) / ((s.seats + 1 : Nat) : ℚ)⌋ + 1) * pow10 p := by
  have hk : ((s.seats + 1 : Nat) : Int) ≠ 0 := by exact_mod_cast Nat.succ_ne_zero s.seats
  unfold wigmQuota
  simp only [hp, ho, Bool.false_eq_true, if_false, if_true]
  show (1 + pdiv (s.nballots : Int) ((s.seats : Int) + 1)) * pow10 p = _
  have : ((s.seats : Int) + 1) = ((s.seats + 1 : Nat) : Int) := by push_cast; rfl
  rw [this, pdiv_eq_floor _ _ hk]
  push_cast; ring

/-- the fixed-point quota satisfies the Droop condition: seats+1 quotas exceed the ballots (so at most `seats` candidates
    can hold one) -/
theorem fixed_quota_is_droop (p n seats : Nat) :
    ((n : Int)) * pow10 p < ((seats + 1 : Nat) : Int) *
      (pdiv ((n : Int) * pow10 p * pow10 p) (((seats + 1 : Nat) : Int) * pow10 p) + 1) :=
  fixed_droopQuota p n seats

/-- non-vacuity: 100 ballots, 3 seats, four places: 25.0001 -/
def s100 : St Int :=
  { method := Method.wigm
    seats := 3
    nballots := 100
    cands := []
    ballots := []
    ballotsEq := []
    quota := 0
    surplus := 0
    votes := 0
    exhausted := 0
    residual := 0
    round := 0
    rounds := []
    acts := []
    crash := none }
example : wigmQuota (fixedArith 4) {} s100 = 250001 := by decide

end Droop.C04
