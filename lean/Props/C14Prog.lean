import Props.C14
/-!
# C14: `Fixed.__str__` and `Guarded.__str__`, obtained from the source by symbolic execution

`harness/gen_str.py` executes the two `__str__` bodies symbolically, forking at every `if`, and emits a decision tree whose tests
compare integer terms over `self._value` and the class attributes and whose leaves are the returned string terms; the kernel checks
the trees equal to the ones committed here on every C14 run.  This file proves that the committed trees, evaluated with the class
attributes `initialize` assigns for a configuration (`fixedEnv p d`, `guardedEnv p g d`), are the model's `strFixed` / `strGuarded`
(DroopModel/Str.lean) — the functions the theorems of Props/C14.lean are about.

`Rational.__str__` has its own executor and file: harness/gen_rstr.py, Props/C14Rat.lean.
The format strings (`"%d.%0<w>d"`, `"%d.%0<p>d_%0<g>d"`) are built by `initialize`; their field widths are compared with the model by
the `SESSION` correspondence of C20; here they are `Env.w1`, `Env.w2`.
-/
namespace Droop.C14
open Droop

inductive At | prec | disp | scaled | scaledd | scaledr | scaledg
deriving DecidableEq, Repr

/-- integer terms over `self._value` (`v`) and the class attributes -/
inductive IE
  | v | cls (a : At) | lit (n : Int)
  | add (x y : IE) | sub (x y : IE) | neg (x : IE) | floordiv (x y : IE) | mod (x y : IE)
deriving DecidableEq, Repr

/-- string terms: `str(e)`, a literal, `+`, `__dfmt % (a, b)`, `__dfmt % (a, b, c)` -/
inductive SE
  | str (e : IE) | lit (s : String) | cat (a b : SE) | fmt2 (a b : IE) | fmt3 (a b c : IE)
deriving DecidableEq, Repr

inductive BE
  | lt (a b : IE) | le (a b : IE) | gt (a b : IE) | ge (a b : IE) | eq (a b : IE) | ne (a b : IE)
deriving DecidableEq, Repr

/-- the decision tree of one `__str__` body -/
inductive SP
  | ret (s : SE) | ite (c : BE) (t e : SP)
deriving DecidableEq, Repr

/-- the class attributes as `initialize` leaves them, and the field widths of `__dfmt` -/
structure Env where
  attr : At → Int
  w1 : Nat
  w2 : Nat

def IE.eval (E : Env) (v : Int) : IE → Int
  | .v => v | .cls a => E.attr a | .lit n => n
  | .add x y => x.eval E v + y.eval E v
  | .sub x y => x.eval E v - y.eval E v
  | .neg x => - x.eval E v
  | .floordiv x y => pdiv (x.eval E v) (y.eval E v)
  | .mod x y => pmod (x.eval E v) (y.eval E v)

/-- Python `"%d.%0Pd_%0Gd" % (a, b, c)` -/
def fmt3 (w1 w2 : Nat) (a b c : Int) : String :=
  toString a ++ "." ++ zpad w1 b.toNat ++ "_" ++ zpad w2 c.toNat

def SE.eval (E : Env) (v : Int) : SE → String
  | .str e => toString (e.eval E v)
  | .lit s => s
  | .cat a b => a.eval E v ++ b.eval E v
  | .fmt2 a b => Droop.fmt2 E.w1 (a.eval E v) (b.eval E v)
  | .fmt3 a b c => Droop.C14.fmt3 E.w1 E.w2 (a.eval E v) (b.eval E v) (c.eval E v)

def BE.eval (E : Env) (v : Int) : BE → Bool
  | .lt a b => decide (a.eval E v < b.eval E v)
  | .le a b => decide (a.eval E v ≤ b.eval E v)
  | .gt a b => decide (a.eval E v > b.eval E v)
  | .ge a b => decide (a.eval E v ≥ b.eval E v)
  | .eq a b => decide (a.eval E v = b.eval E v)
  | .ne a b => decide (a.eval E v ≠ b.eval E v)

def SP.eval (E : Env) (v : Int) : SP → String
  | .ret s => s.eval E v
  | .ite c t e => if c.eval E v then t.eval E v else e.eval E v

/-! ## the committed trees (what the source says today) -/

/-- `(v + __scaledr) // __scaledd` -/
def U : IE := .floordiv (.add .v (.cls .scaledr)) (.cls .scaledd)

def two (u : IE) : SE := .fmt2 (.floordiv u (.cls .scaled)) (.mod u (.cls .scaled))
def three (u : IE) : SE :=
  .fmt3 (.floordiv u (.cls .scaled)) (.floordiv (.mod u (.cls .scaled)) (.cls .scaledg)) (.mod (.mod u (.cls .scaled)) (.cls .scaledg))

def fixedStrProg : SP :=
  .ite (.eq (.cls .prec) (.lit 0)) (.ret (.str .v))
    (.ite (.lt (.cls .disp) (.cls .prec))
      (.ite (.lt U (.lit 0)) (.ret (.cat (.lit "-") (two (.neg U)))) (.ret (two U)))
      (.ite (.lt .v (.lit 0)) (.ret (.cat (.lit "-") (two (.neg .v)))) (.ret (two .v))))

def guardedStrProg : SP :=
  .ite (.lt U (.lit 0))
    (.ite (.le (.cls .disp) (.cls .prec)) (.ret (.cat (.lit "-") (two (.neg U)))) (.ret (.cat (.lit "-") (three (.neg U)))))
    (.ite (.le (.cls .disp) (.cls .prec)) (.ret (.cat (.lit "") (two U))) (.ret (.cat (.lit "") (three U))))

/-! ## the class attributes after `initialize` -/

/-- Fixed with `precision = p`, `display = d ≤ p` (DroopModel/Session.lean `fixedTrace`: `__scaled = 10^d`, `__scaledd = 10^(p-d)`,
    `__scaledr = __scaledd // 2`, `__dfmt = "%d.%0<d>d"`) -/
def fixedEnv (p d : Nat) : Env where
  attr := fun
    | .prec => p | .disp => d | .scaled => pow10 d | .scaledd => pow10 (p - d) | .scaledr => pow10 (p - d) / 2 | .scaledg => 0
  w1 := d
  w2 := 0

/-- Guarded with `precision = p`, `guard = g`, `display = d ≤ p + g` (`guardedTail`) -/
def guardedEnv (p g d : Nat) : Env where
  attr := fun
    | .prec => p | .disp => d | .scaled => pow10 d | .scaledd => pow10 (g + p - d) | .scaledr => pow10 (g + p - d) / 2
    | .scaledg => pow10 (d - p)
  w1 := if d ≤ p then d else p
  w2 := d - p

/-! ## the trees are the model -/

theorem natAbs_neg' (u : Int) (h : u < 0) : ((u.natAbs : Nat) : Int) = -u := by omega
theorem natAbs_nonneg' (u : Int) (h : ¬ u < 0) : ((u.natAbs : Nat) : Int) = u := by omega

theorem renderUnits_neg (d : Nat) (u : Int) (h : u < 0) :
    renderUnits d u = "-" ++ fmt2 d (pdiv (-u) (pow10 d)) (pmod (-u) (pow10 d)) := by
  unfold renderUnits signStr
  rw [if_pos h, natAbs_neg' u h]

theorem renderUnits_nonneg (d : Nat) (u : Int) (h : ¬ u < 0) :
    renderUnits d u = fmt2 d (pdiv u (pow10 d)) (pmod u (pow10 d)) := by
  unfold renderUnits signStr
  rw [if_neg h, natAbs_nonneg' u h]
  exact String.empty_append

/-- **Fixed.__str__** as read from the source is the model's `strFixed`, for every configuration `initialize` can leave and every value -/
theorem fixed_str_is_program (p d : Nat) (v : Int) : fixedStrProg.eval (fixedEnv p d) v = strFixed p d v := by
  unfold strFixed
  by_cases hp : p = 0
  · subst hp
    simp [fixedStrProg, SP.eval, BE.eval, IE.eval, SE.eval, fixedEnv]
  · have hp' : ¬ ((p : Int) = 0) := by exact_mod_cast hp
    have hpb : (p == 0) = false := by simpa using hp
    simp only [fixedStrProg, SP.eval, BE.eval, IE.eval, fixedEnv, hp', decide_false, Bool.false_eq_true, if_false, hpb]
    unfold fixedUnits roundUnits
    by_cases hd : d < p
    · have hd' : (d : Int) < p := by exact_mod_cast hd
      simp only [hd', decide_true, if_true, hd, U, IE.eval]
      by_cases hu : pdiv (v + pow10 (p - d) / 2) (pow10 (p - d)) < 0
      · simp only [hu, decide_true, if_true, SE.eval, two, IE.eval]
        rw [renderUnits_neg _ _ hu]
      · simp only [hu, decide_false, Bool.false_eq_true, if_false, SE.eval, two, IE.eval]
        rw [renderUnits_nonneg _ _ hu]
    · have hd' : ¬ ((d : Int) < p) := by exact_mod_cast hd
      simp only [hd', decide_false, Bool.false_eq_true, if_false, hd]
      by_cases hu : v < 0
      · simp only [hu, decide_true, if_true, SE.eval, two, IE.eval]
        rw [renderUnits_neg _ _ hu]
      · simp only [hu, decide_false, Bool.false_eq_true, if_false, SE.eval, two, IE.eval]
        rw [renderUnits_nonneg _ _ hu]

/-- **Guarded.__str__** as read from the source is the model's `strGuarded` -/
theorem guarded_str_is_program (p g d : Nat) (v : Int) : guardedStrProg.eval (guardedEnv p g d) v = strGuarded p g d v := by
  unfold strGuarded guardedUnits roundUnits
  simp only [guardedStrProg, SP.eval, BE.eval, IE.eval, guardedEnv, U]
  by_cases hu : pdiv (v + pow10 (g + p - d) / 2) (pow10 (g + p - d)) < 0
  · simp only [hu, decide_true, if_true]
    by_cases hd : d ≤ p
    · have hd' : (d : Int) ≤ p := by exact_mod_cast hd
      simp only [hd', decide_true, if_true, hd, SE.eval, two, IE.eval]
      rw [renderUnits_neg _ _ hu]
    · have hd' : ¬ ((d : Int) ≤ p) := by exact_mod_cast hd
      simp only [hd', decide_false, Bool.false_eq_true, if_false, hd, SE.eval, three, IE.eval, fmt3, signStr, if_pos hu, natAbs_neg' _ hu,
        String.append_assoc]
  · simp only [hu, decide_false, Bool.false_eq_true, if_false]
    by_cases hd : d ≤ p
    · have hd' : (d : Int) ≤ p := by exact_mod_cast hd
      simp only [hd', decide_true, if_true, hd, SE.eval, two, IE.eval]
      rw [renderUnits_nonneg _ _ hu]
      exact String.empty_append
    · have hd' : ¬ ((d : Int) ≤ p) := by exact_mod_cast hd
      simp only [hd', decide_false, Bool.false_eq_true, if_false, hd, SE.eval, three, IE.eval, fmt3, signStr, if_neg hu, natAbs_nonneg' _ hu,
        String.append_assoc]

/-- the trees on a concrete value (a test, not the claim): -1.2345678 at 5+2 digits displayed with 6 -/
example : guardedStrProg.eval (guardedEnv 5 2 6) (-12345678) = "-1.23456_8" := by decide +kernel
example : fixedStrProg.eval (fixedEnv 4 2) (-12345) = "-1.23" := by decide +kernel

end Droop.C14
