import Props.C09
import Props.Driver
/-!
# C09 — "status only moves forward", stated once about the function the driver runs

`Mon t`: in the record of `t` every candidate's status code only ever moves forward from one snapshot to the next (hopeful → elected /
defeated, pending → elected, never back), and the newest snapshot is behind the final state. The per-rule theorems
(`Driver.scotland`, `Driver.cfer`, `Driver.wigm`, `Driver.mpls`, `C09.meek_record_forward`, `C09.prf_record_forward`) are put together
here: for every one of the ten rule names that record snapshots this way (QPQ has its own statement, `QPQ.qpq_status_forward`, because
its restarts rewrite tallies, not statuses), every precision and every well-formed case, *whatever* `runRuleSt` returns is forward-only.
Hypotheses are those of the per-rule theorems: Minneapolis without undeclared write-ins (open finding F7 lives there), and for the
wigm family more ballots than seats.
-/
namespace Droop.C09
open Droop

theorem record_forward_every_rule (p : Nat) (c : Case) (hok : caseOK c = true)
    (hr : c.rule ∈ ["wigm", "wigm-prf", "wigm-prf-batch", "scotland", "cfer", "cfer-batch", "mpls", "meek", "warren", "meek-prf"])
    (hw : c.rule ∈ ["wigm", "wigm-prf", "wigm-prf-batch"] → c.seats < c.nballots)
    (hm : c.rule = "mpls" → ∀ k ∈ c.cands, k.2.2.2 = false)
    (t : St Int) (h : runRuleSt (fixedArith p) c = some t) : Mon t := by
  have uniq : ∀ t', Driver.gregoryRun p c t' → Mon t := by
    intro t' ht'
    have : t' = t := Option.some.inj (ht'.1.symm.trans h)
    rw [← this]; exact ht'.2.1
  simp only [List.mem_cons, List.not_mem_nil, or_false] at hr hw
  rcases hr with hr | hr | hr | hr | hr | hr | hr | hr | hr | hr
  · obtain ⟨t', ht', _⟩ := Driver.wigm p c (Or.inl hr) hok (hw (Or.inl hr)); exact uniq t' ht'
  · obtain ⟨t', ht', _⟩ := Driver.wigm p c (Or.inr (Or.inl hr)) hok (hw (Or.inr (Or.inl hr))); exact uniq t' ht'
  · obtain ⟨t', ht', _⟩ := Driver.wigm p c (Or.inr (Or.inr hr)) hok (hw (Or.inr (Or.inr hr))); exact uniq t' ht'
  · obtain ⟨t', ht', _⟩ := Driver.scotland p c hr hok; exact uniq t' ht'
  · obtain ⟨t', ht', _⟩ := Driver.cfer p c (Or.inl hr) hok; exact uniq t' ht'
  · obtain ⟨t', ht', _⟩ := Driver.cfer p c (Or.inr hr) hok; exact uniq t' ht'
  · obtain ⟨t', ht', _⟩ := Driver.mpls p c hr hok (hm hr); exact uniq t' ht'
  · exact (meek_record_forward p c (Or.inl hr) hok t h).1
  · exact (meek_record_forward p c (Or.inr hr) hok t h).1
  · exact prf_record_forward p c hr (caseOK_iff c hok).nodup t h

/-- non-vacuity: the sample case meets every hypothesis for each of these names -/
example : caseOK Driver.sample = true ∧ Driver.sample.seats < Driver.sample.nballots ∧ (∀ k ∈ Driver.sample.cands, k.2.2.2 = false) := by
  decide

end Droop.C09
