import DroopProofs
import DroopModel.Qpq
/-!
# C06: where a ballot comes to rest (`transfer(ballot)` of the rule modules), extracted from the source

Every Gregory rule and QPQ moves a ballot with the same loop: `while not ballot.exhausted and ballot.topCand not in <continuing>:
ballot.advance()`, then (Gregory) credits the ballot's value to the exhausted total or to the candidate reached.  `harness/gen_transfer.py`
recognises that shape and extracts, per rule, which selectors make up `<continuing>` and whether the value is credited; the kernel checks
the extracted table equal to `transferTable` on every C06 run.  Here: the model's `transferBallot` / `qAdvance` are that loop with
"continuing = hopeful", and for the one rule whose source says "hopeful or pending" (mpls) the two predicates agree on every state with no
pending candidate — and the Minneapolis rule never marks anybody pending.
-/
namespace Droop.C06
open Droop

inductive ContSet | hopeful | pending
deriving DecidableEq, Repr

structure TransferSpec where
  rule : String
  continuing : List ContSet
  credits : Bool                  -- `E.exhausted += ballot.vote` / `ballot.topCand.vote += ballot.vote` after the loop
deriving DecidableEq, Repr

def transferTable : List TransferSpec :=
  [ { rule := "wigm", continuing := [.hopeful], credits := true },
    { rule := "wigm_prf", continuing := [.hopeful], credits := true },
    { rule := "cfer", continuing := [.hopeful], credits := true },
    { rule := "scotland", continuing := [.hopeful], credits := true },
    { rule := "mpls", continuing := [.hopeful, .pending], credits := true },
    { rule := "qpq", continuing := [.hopeful], credits := false } ]

variable {α : Type}

def isPending (s : St α) (cid : Nat) : Bool := s.cands.any (fun c => c.cid == cid && c.st == .elected && c.pending)

/-- "`ballot.topCand in <continuing>`" -/
def contPred (sets : List ContSet) (s : St α) (cid : Nat) : Bool :=
  sets.any (fun k => match k with | .hopeful => s.isHopeful cid | .pending => isPending s cid)

/-- the loop of the source: advance to the first ranked candidate in `<continuing>`, or to the end -/
def loopAdvance (sets : List ContSet) (s : St α) (b : Ballot α) : Ballot α := advanceTo (contPred sets s) b

theorem contPred_hopeful (s : St α) : contPred [.hopeful] s = fun cid => s.isHopeful cid := by
  funext cid; simp [contPred]

/-- Gregory rules whose source says "hopeful": the model's `transferBallot` is the extracted loop followed by the credit -/
theorem transferBallot_is_loop (A : Arith α) (s : St α) (b : Ballot α) :
    transferBallot A s b =
      match (loopAdvance [.hopeful] s b).top with
      | some c => (s.addVote A c (bvote A (loopAdvance [.hopeful] s b)), loopAdvance [.hopeful] s b)
      | none => ({ s with exhausted := A.add s.exhausted (bvote A (loopAdvance [.hopeful] s b)) }, loopAdvance [.hopeful] s b) := by
  unfold transferBallot loopAdvance
  rw [contPred_hopeful]
  cases (advanceTo (fun cid => s.isHopeful cid) b).top <;> rfl

/-- QPQ: advance only -/
theorem qAdvance_is_loop (s : St α) (b : Ballot α) : qAdvance s b = loopAdvance [.hopeful] s b := by
  unfold qAdvance loopAdvance
  rw [contPred_hopeful]

/-- mpls: "hopeful or pending" is "hopeful" wherever nobody is pending -/
theorem contPred_mpls (s : St α) (h : s.pendingL = []) : contPred [.hopeful, .pending] s = fun cid => s.isHopeful cid := by
  funext cid
  have hp : isPending s cid = false := by
    unfold isPending
    rw [List.any_eq_false]
    intro c hc hcc
    have : c ∈ s.pendingL := by
      unfold St.pendingL
      rw [List.mem_filter]
      simp only [Bool.and_eq_true] at hcc ⊢
      exact ⟨hc, hcc.1.2, hcc.2⟩
    rw [h] at this; cases this
  simp [contPred, hp]

end Droop.C06
