import Props.C05Run
import Props.C04Meek
import DroopProofs.MeekFirst
import DroopProofs.CaseInitMeek
/-!
# C05, one seat, for meek and warren: a candidate ranked first by more than half of the ballots is elected

For every case with strict rankings inside `caseOK`, one seat, fixed-point arithmetic with at least one digit, every omega and
both settings of `defeat_batch`: **if the count returns, the majority candidate is elected in the state it returns**
(`meek_majority`).  Termination itself is not provable for the Meek family (M1/M2 are non-terminating inputs).

Proof: at the first distribution every standing candidate keeps everything, so the distribution is the first-preference count
(`first_distribution`, `DroopProofs/MeekFirst.lean`); the majority candidate's tally `f·10^p` is at least
`⌊V/2⌋ + 1` for the active total `V ≤ n·10^p` (`quota_reached`); the first iteration therefore elects it
(`meek_reaches_quota_is_elected`) and ends with the `iterate` action whose snapshot shows it elected; whoever a snapshot shows
elected is elected in every later state of a forward-only, append-only record (`elected_sticky`, `meek_record_monotone`,
`meek_record_appendOnly`).  When the loop is not entered at all (a single standing candidate) the epilogue elects it.
-/
namespace Droop.C05
open Droop

/-- the quota arithmetic: a tally of `f` whole votes, `2f > n`, reaches `⌊V/2⌋ + 1` whenever the active total is at most `n` votes -/
theorem quota_reached (S V : Int) (n f : Nat) (hS : 2 ≤ S) (hV : V ≤ (n : Int) * S) (hmaj : n < 2 * f) :
    pdiv (V * S) (2 * S) + 1 ≤ (f : Int) * S := by
  have hS0 : (0 : Int) < S := by omega
  have h2S : (0 : Int) < 2 * S := by omega
  have h1 := pdiv_mul_le (V * S) (2 * S) h2S
  have h2 : (2 * pdiv (V * S) (2 * S)) * S ≤ V * S := by nlinarith
  have h3 : 2 * pdiv (V * S) (2 * S) ≤ V := le_of_mul_le_mul_right h2 hS0
  have h4 : ((n : Int) + 1) * S ≤ (2 * (f : Int)) * S := by
    apply mul_le_mul_of_nonneg_right _ (le_of_lt hS0)
    exact_mod_cast hmaj
  nlinarith

theorem freshBallots_initState (p : Nat) (c : Case) (hk : CaseOK c) : FreshBallots p (initState (fixedArith p) c) := by
  intro b hb
  obtain ⟨k, hkm, _, hr, hi, hw⟩ := mem_initState_ballots (fixedArith p) hb
  obtain ⟨hne, hall⟩ := hk.ballots k hkm
  refine ⟨hi, hw, by rw [hr]; exact hne, ?_⟩
  intro cid hc
  rw [hr] at hc
  obtain ⟨kc, hkc, hkcid, hkw⟩ := hall cid hc
  obtain ⟨x, hx, hxc, hxs⟩ := initState_cand_of (fixedArith p) hkc
  refine ⟨x, hx, hxc.trans hkcid, ?_⟩
  rw [hxs, hkw]; rfl

/-- the majority candidate is a standing candidate of the case -/
theorem majority_stands (p : Nat) (c : Case) (hk : CaseOK c) (w : Nat) (hpos : 0 < firstPrefs c w) :
    ∃ x ∈ (initState (fixedArith p) c).cands, x.cid = w ∧ x.st = .hopeful := by
  have hex : ∃ b ∈ c.ballots, b.2.head? = some w := by
    by_contra hno
    have : c.ballots.filter (fun b => b.2.head? == some w) = [] := by
      rw [List.filter_eq_nil_iff]
      intro b hb hbw
      exact hno ⟨b, hb, by simpa using hbw⟩
    unfold firstPrefs at hpos; rw [this] at hpos; simp at hpos
  obtain ⟨b, hb, hbw⟩ := hex
  have hwr : w ∈ b.2 := List.mem_of_mem_head? (by rw [hbw]; rfl)
  obtain ⟨k, hkc, hkw, hkwd⟩ := (hk.ballots b hb).2 w hwr
  obtain ⟨x, hx, hxc, hxs⟩ := initState_cand_of (fixedArith p) hkc
  exact ⟨x, hx, hxc.trans hkw, by rw [hxs, hkwd]; rfl⟩

/-- in the first iteration the majority candidate passes the quota test -/
theorem majority_wins_first_iteration (p : Nat) (hp : p ≠ 0) (o : MeekOpts) (c : Case) (hm : methodOf c.rule = .meek) (hk : CaseOK c)
    (hseats : c.seats = 1) (w : Nat) (hmaj : c.nballots < 2 * firstPrefs c w) :
    ∃ w2 ∈ (meekS3 (fixedArith p) o ((meekInit (fixedArith p) (initState (fixedArith p) c)).newRound (fixedArith p))).hopeful,
      w2.cid = w ∧ hasQuotaX (fixedArith p)
        (meekS3 (fixedArith p) o ((meekInit (fixedArith p) (initState (fixedArith p) c)).newRound (fixedArith p))) w2 = true := by
  have hA := fixed_lawful p
  have h0 := initState_minit (fixedArith p) hA c hm hk
  have hf := freshBallots_initState p c hk
  obtain ⟨x, hx, hxc, hxh⟩ := majority_stands p c hk w (by omega)
  obtain ⟨hvote, hsk2, hV, hseat2, hs1sk⟩ := first_distribution p o.warren (initState (fixedArith p) c) h0 hf
  -- the candidate in the distributed state
  obtain ⟨w2, hw2, hw2s⟩ := mem_of_skel_eq (hsk2.trans hs1sk).symm hx
  have hcid : w2.cid = w := (skel_cid hw2s).trans hxc
  have hst : w2.st = .hopeful := by rw [(skel_st hw2s).1]; exact hxh
  have hwf2 : (distributeVotes (fixedArith p) o.warren ((meekInit (fixedArith p) (initState (fixedArith p) c)).newRound (fixedArith p))).WF :=
    WF_of_skel (hsk2.trans hs1sk).symm h0.wf
  have hv : w2.vote = (firstPrefs c w : Int) * pow10 p := by
    rw [← voteOf_of_mem hwf2 hw2, hcid, hvote]
    exact tally_initState p c w
  refine ⟨w2, ?_, hcid, ?_⟩
  · unfold meekS3
    exact mem_hopeful.2 ⟨hw2, hst⟩
  · unfold hasQuotaX
    have hex : (fixedArith p).exact = false := rfl
    rw [hex]
    simp only [Bool.false_eq_true, if_false]
    apply ge_of_le
    rw [hv]
    -- the quota of this iteration
    show meekQuota (fixedArith p) _ ≤ _
    unfold meekQuota
    rw [hex]
    simp only [Bool.false_eq_true, if_false]
    have hS := pow10_pos p
    have hS2 : (2 : Int) ≤ pow10 p := by
      obtain ⟨k, rfl⟩ : ∃ k, p = k + 1 := ⟨p - 1, by omega⟩
      have : pow10 (k + 1) = 10 * pow10 k := by simp [pow10, pow_succ, mul_comm]
      have hk := pow10_pos k
      omega
    set D := distributeVotes (fixedArith p) o.warren ((meekInit (fixedArith p) (initState (fixedArith p) c)).newRound (fixedArith p)) with hD
    have hse : ((D.setVotes (activeVotes (fixedArith p) D)).seats : Int) + 1 = 2 := by
      show ((D.seats : Nat) : Int) + 1 = 2
      rw [hseat2]
      show (((c.seats : Nat)) : Int) + 1 = 2
      rw [hseats]; norm_num
    show (if ((((D.setVotes (activeVotes (fixedArith p) D)).seats : Int) + 1) * pow10 p == 0) = true then 0
        else pdiv (activeVotes (fixedArith p) D * pow10 p) ((((D.setVotes (activeVotes (fixedArith p) D)).seats : Int) + 1) * pow10 p)) + 1
        ≤ (firstPrefs c w : Int) * pow10 p
    rw [hse]
    have hne : ((2 : Int) * pow10 p == 0) = false := by
      simp only [beq_eq_false_iff_ne, ne_eq]; omega
    rw [hne]
    simp only [Bool.false_eq_true, if_false]
    exact quota_reached (pow10 p) (activeVotes (fixedArith p) D) c.nballots (firstPrefs c w) hS2 hV hmaj

/-- the first round of the loop, when entered, ends with the majority candidate shown elected in the newest snapshot -/
theorem first_round_shows (p : Nat) (hp : p ≠ 0) (o : MeekOpts) (omega : Int) (n : Nat) (c : Case) (hm : methodOf c.rule = .meek)
    (hk : CaseOK c) (hseats : c.seats = 1) (w : Nat) (hmaj : c.nballots < 2 * firstPrefs c w) :
    Shown w (meekBody (fixedArith p) o omega (n + 1) (meekInit (fixedArith p) (initState (fixedArith p) c))).1 := by
  obtain ⟨w2, hw2, hcid, hq⟩ := majority_wins_first_iteration p hp o c hm hk hseats w hmaj
  set s1 := (meekInit (fixedArith p) (initState (fixedArith p) c)).newRound (fixedArith p) with hs1
  have hwin : w2 ∈ meekWinners (fixedArith p) (meekS3 (fixedArith p) o s1) := by
    unfold meekWinners; rw [List.mem_filter]; exact ⟨hw2, hq⟩
  have hel : meekIterElected (fixedArith p) o s1 = true := by
    rw [meekIterElected_eq]
    cases hl : meekWinners (fixedArith p) (meekS3 (fixedArith p) o s1) with
    | nil => rw [hl] at hwin; cases hwin
    | cons a l => rfl
  have hit : meekIterate (fixedArith p) o omega (n + 1) ((fixedArith p).ofInt s1.nballots) s1
      = (meekIterCore (fixedArith p) o s1, IStatus.elected) := by
    unfold meekIterate
    rw [if_pos hel]
  unfold meekBody
  rw [← hs1, hit]
  show Shown w ((meekIterCore (fixedArith p) o s1).logAct (fixedArith p) "iterate" "Iterate (elected)" [])
  have hall := C04.meek_reaches_quota_is_elected (fixedArith p) o s1 w2 hw2 hq
  rw [hcid] at hall
  -- some candidate with that id is still listed
  have hhas : ∃ x ∈ (meekIterCore (fixedArith p) o s1).cands, x.cid = w := by
    rw [meekIterCore_eq]
    have := foldElect_has (fixedArith p) (meekWinners (fixedArith p) (meekS3 (fixedArith p) o s1)) (fun _ => "Elect") (fun _ => false)
      (meekS3 (fixedArith p) o s1) w ⟨w2, (mem_hopeful.1 hw2).1, hcid⟩
    exact this
  exact ⟨_, head_snap_logAct (fixedArith p) _ _ _ _, allEl_mkSnap (fixedArith p) hall, hasC_mkSnap (fixedArith p) hhas⟩

/-- the first round of a fuelled loop whose rounds preserve an invariant under which they only append -/
theorem loopN_first_inv {α : Type} [CommRing α] [LinearOrder α] [IsStrictOrderedRing α] (P : St α → Prop) (guard : St α → Bool)
    (body : St α → St α × Flow) (hP : ∀ s, P s → P (body s).1) (hX : ∀ s, P s → Ext s (body s).1)
    (n : Nat) (s t : St α) (hs : P s) (hc : s.crash = none) (hg : guard s = true) (h : loopN guard body (n + 1) s = some t) :
    Ext (body s).1 t := by
  unfold loopN at h
  simp only [hc, Option.isSome_none, Bool.false_eq_true, if_false, hg, if_true] at h
  cases hbs : body s with
  | mk s' fl =>
    rw [hbs] at h
    have hs' : P s' := by have := hP s hs; rw [hbs] at this; exact this
    cases fl with
    | cont => exact loopN_ext P guard body (fun u hu _ _ => hP u hu) (fun u hu _ => hX u hu) _ _ _ hs' h
    | brk => simp only [Option.some.injEq] at h; rw [← h]; exact Ext.refl _

/-- **one seat, meek and warren: the majority candidate is elected in whatever state the count returns** -/
theorem meek_majority (p : Nat) (hp : p ≠ 0) (c : Case) (hr : c.rule = "meek" ∨ c.rule = "warren") (hok : caseOK c = true)
    (hseats : c.seats = 1) (w : Nat) (hmaj : c.nballots < 2 * firstPrefs c w)
    (t : St Int) (h : runRuleSt (fixedArith p) c = some t) :
    ∃ x ∈ t.cands, x.cid = w ∧ x.st = .elected := by
  have hA := fixed_lawful p
  have hk := caseOK_iff c hok
  have hm : methodOf c.rule = .meek := by rcases hr with hr | hr <;> rw [hr] <;> rfl
  have h0 := initState_minit (fixedArith p) hA c hm hk
  have hz : (fixedArith p).isZero (fixedArith p).zero = true := rfl
  -- the count, unfolded once
  obtain ⟨o, hcount⟩ : ∃ o : MeekOpts, meekCount (fixedArith p) o 100000 (initState (fixedArith p) c) = some t := by
    unfold runRuleSt at h
    rcases hr with hr | hr
    · exact ⟨_, by simpa only [runRuleSt', hr] using h⟩
    · exact ⟨_, by simpa only [runRuleSt', hr] using h⟩
  have hMon := meek_record_monotone (fixedArith p) hA hz o 100000 _ t h0 hcount
  have hcount' := hcount
  unfold meekCount at hcount
  have hn : ((fixedArith p).name == "integer") = false := by
    have : (fixedArith p).name = if p == 0 then "integer" else "fixed" := rfl
    rw [this]
    have h0' : (p == 0) = false := by simpa using hp
    rw [h0']; decide
  rw [hn] at hcount
  simp only [Bool.false_eq_true, if_false] at hcount
  set sI := meekInit (fixedArith p) (initState (fixedArith p) c) with hsI
  have hII : MInv (fixedArith p) sI := MInv.meekInit (fixedArith p) hA h0
  have hcr : sI.crash = none := by rw [hsI, (meekInit_sc p _ h0.noEq).2]; rfl
  obtain ⟨nf, hnf⟩ : ∃ nf, 2 * (initState (fixedArith p) c).cands.length + 3 = nf + 1 := ⟨_, rfl⟩
  rw [hnf] at hcount
  cases hl : loopN (fun s => !meekCountComplete s) (meekBody (fixedArith p) o ((fixedArith p).divV (fixedArith p).one ((fixedArith p).ofInt (10 ^ o.omega10))) 100000)
      (nf + 1) sI with
  | none => rw [hl] at hcount; cases hcount
  | some s7 =>
    rw [hl] at hcount
    have ht : t = meekEpilogue (fixedArith p) o s7 := (Option.some.inj hcount).symm
    by_cases hg : (!meekCountComplete sI) = true
    · -- the loop is entered: the first round shows the candidate elected
      have hsh := first_round_shows p hp o ((fixedArith p).divV (fixedArith p).one ((fixedArith p).ofInt (10 ^ o.omega10))) 99999 c hm hk hseats w hmaj
      have hx1 := loopN_first_inv (MInv (fixedArith p)) (fun s => !meekCountComplete s)
        (meekBody (fixedArith p) o ((fixedArith p).divV (fixedArith p).one ((fixedArith p).ofInt (10 ^ o.omega10))) 100000)
        (fun s hs => hs.meekBody (fixedArith p) hA hz o _ 100000) (fun s hs => ext_meekBody (fixedArith p) hA hz o _ 100000 s hs)
        nf sI s7 hII hcr hg hl
      have hI7 := (meek_loop_identity (fixedArith p) hA hz o _ 100000 _ _ s7 hII hl).1
      have hx2 := ext_meekEpilogue (fixedArith p) hA hz o s7 hI7
      rw [ht]
      rw [ht] at hMon
      exact hsh.final (hx1.trans hx2) hMon
    · -- a single standing candidate: the epilogue elects it
      have hgf : (!meekCountComplete sI) = false := by simpa using hg
      have h7 : s7 = sI := loopN_guard_false _ _ nf sI s7 hcr hgf hl
      obtain ⟨x, hx, hxc, hxh⟩ := majority_stands p c hk w (by omega)
      have hskI : sI.skel = (initState (fixedArith p) c).skel := meekInit_skel p _ h0.noEq
      obtain ⟨xI, hxI, hxIs⟩ := mem_of_skel_eq hskI.symm hx
      have hxIc : xI.cid = w := (skel_cid hxIs).trans hxc
      have hxIh : xI.st = .hopeful := by rw [(skel_st hxIs).1]; exact hxh
      have hxIhop : xI ∈ sI.hopeful := mem_hopeful.2 ⟨hxI, hxIh⟩
      -- nobody is elected at the start
      have hnoel : sI.elected = [] := by
        unfold St.elected
        rw [List.filter_eq_nil_iff]
        intro y hy hye
        obtain ⟨y0, hy0, hys⟩ := mem_of_skel_eq hskI hy
        have := (h0.fresh y0 hy0).2.2
        have hye' : y.st = .elected := by simpa using hye
        have hst : y0.st = .elected := by
          have e := (skel_st hys).1
          rw [hye'] at e
          first | exact e.symm | exact e
        rw [hst] at this
        rcases this with h | h <;> cases h
      have hseatI : sI.seats = 1 := by rw [hsI, (meekInit_sc p _ h0.noEq).1]; exact hseats
      -- count complete with one seat open: at most one hopeful
      have hone : sI.hopeful = [xI] := by
        have hcc : meekCountComplete sI = true := by simpa using hgf
        unfold meekCountComplete St.seatsLeft at hcc
        rw [hnoel, hseatI] at hcc
        simp only [List.length_nil, Nat.cast_one, Nat.cast_zero, sub_zero, Bool.or_eq_true, decide_eq_true_eq] at hcc
        have hlen : sI.hopeful.length ≤ 1 := by
          rcases hcc with hcc | hcc
          · exact_mod_cast hcc
          · omega
        cases hh : sI.hopeful with
        | nil => rw [hh] at hxIhop; cases hxIhop
        | cons a l =>
          rw [hh] at hlen hxIhop
          cases l with
          | nil => simp only [List.mem_singleton] at hxIhop; rw [hxIhop]
          | cons b l' => simp at hlen
      rw [ht, h7]
      unfold meekEpilogue
      rw [if_neg (by rw [hcr]; simp)]
      rw [hone]
      simp only [List.foldl_cons, List.foldl_nil]
      unfold meekRemainingStep
      have hlt : sI.elected.length < sI.seats := by rw [hnoel, hseatI]; decide
      rw [if_pos hlt]
      -- elected by the epilogue; distribution and the final figures keep ids and statuses
      have hIe := hII.elect (fixedArith p) xI.cid "Elect remaining" false
      have hskD := distributeVotes_skel (fixedArith p) o.warren (sI.elect (fixedArith p) xI.cid "Elect remaining" false) hIe.wf hIe.noEq hA
      obtain ⟨y, hy, hyc⟩ := elect_has (fixedArith p) sI xI.cid "Elect remaining" false xI.cid ⟨xI, hxI, rfl⟩
      have hyel := elect_sets (fixedArith p) sI xI.cid "Elect remaining" false y hy hyc
      obtain ⟨z, hz', hzs⟩ := mem_of_skel_eq hskD.symm hy
      refine ⟨z, ?_, ?_, ?_⟩
      · exact hz'
      · exact ((skel_cid hzs).trans hyc).trans hxIc
      · rw [(skel_st hzs).1]; exact hyel

end Droop.C05

namespace Droop.C05
/-- non-vacuity: the sample profile under meek has one seat and a first-preference majority for candidate 1 -/
example : caseOK { Driver.sample with rule := "meek" } = true ∧ ({ Driver.sample with rule := "meek" } : Case).seats = 1
    ∧ ({ Driver.sample with rule := "meek" } : Case).nballots < 2 * firstPrefs { Driver.sample with rule := "meek" } 1 := by decide
end Droop.C05
