import DroopModel
import DroopProofs
import Props.Driver
/-!
# C18 / C19 — the record is append-only, for every rule the driver can run

`Ext s t`: the (newest-first) action log of `s` is a suffix of that of `t` — everything recorded by the time the count was in state `s`
is still there, in the same order, in `t`, followed by what was recorded later. Stated here about `runRuleSt`, the function the model
driver (and therefore the correspondence run) executes, for all eleven rule names.
-/
namespace Droop.C18
open Droop
variable {α : Type} [CommRing α] [LinearOrder α] [IsStrictOrderedRing α] (A : Arith α)

/-- **every rule but meek-prf, every lawful arithmetic**: whatever the count of a well-formed case returns, its record extends the
    (empty) record the election was constructed with — nothing is ever removed, rewritten or reordered -/
theorem record_append_only (hA : LawfulArith A) (hz : A.isZero A.zero = true) (c : Case) (hok : CaseOK c) (hr : c.rule ≠ "meek-prf")
    (t : St α) (h : runRuleSt A c = some t) : Ext (initState A c) t := by
  unfold runRuleSt runRuleSt' at h
  split at h
  · exact wigmCount_appendOnly A _ _ _ h
  · exact wigmCount_appendOnly A _ _ _ h
  · exact wigmCount_appendOnly A _ _ _ h
  · exact scotCount_appendOnly A _ _ h
  · exact cferCount_appendOnly A _ _ _ h
  · exact cferCount_appendOnly A _ _ _ h
  · exact mplsCount_appendOnly A _ _ h
  · rename_i heq
    exact meek_record_appendOnly A hA hz _ _ _ _ (initState_minit A hA c (by rw [heq]; rfl) hok) h
  · rename_i heq
    exact meek_record_appendOnly A hA hz _ _ _ _ (initState_minit A hA c (by rw [heq]; rfl) hok) h
  · rename_i heq
    exact absurd heq hr
  · exact qpq_record_appendOnly A _ _ h
  · cases h

/-- **all eleven rule names in fixed-point arithmetic** (meek-prf always runs in it) -/
theorem record_append_only_fixed (p : Nat) (c : Case) (hok : CaseOK c) (t : St Int)
    (h : runRuleSt (fixedArith p) c = some t) : Ext (initState (fixedArith p) c) t := by
  by_cases hr : c.rule = "meek-prf"
  · unfold runRuleSt runRuleSt' at h
    rw [hr] at h
    exact prfCount_appendOnly p _ _ _ h
  · exact record_append_only (fixedArith p) (fixed_lawful p) rfl c hok hr t h

/-- guarded arithmetic -/
theorem record_append_only_guarded (p g : Nat) (c : Case) (hok : CaseOK c) (hr : c.rule ≠ "meek-prf") (t : St Int)
    (h : runRuleSt (guardedArith p g) c = some t) : Ext (initState (guardedArith p g) c) t :=
  record_append_only (guardedArith p g) (guarded_lawful p g) rfl c hok hr t h

/-- exact rational arithmetic -/
theorem record_append_only_rational (c : Case) (hok : CaseOK c) (hr : c.rule ≠ "meek-prf") (t : St ℚ)
    (h : runRuleSt rationalArith c = some t) : Ext (initState rationalArith c) t :=
  record_append_only rationalArith rational_lawful rfl c hok hr t h

/-- non-vacuity: the sample profile lies in the domain and each of these counts returns, with a non-empty record -/
example : caseOK Driver.sample = true := by decide
example : (runRuleSt (fixedArith 4) { Driver.sample with rule := "mpls" }).map (fun t => (t.crash, t.acts.length)) = some (none, 4) := by
  decide +kernel
example : (runRuleSt (fixedArith 5) { Driver.sample with rule := "scotland" }).map (fun t => (t.crash, decide (0 < t.acts.length))) = some (none, true) := by
  decide +kernel
example : (runRuleSt (fixedArith 9) { Driver.sample with rule := "meek-prf" }).map (fun t => (t.crash, decide (0 < t.acts.length))) = some (none, true) := by
  decide +kernel

end Droop.C18
