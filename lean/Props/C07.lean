import DroopModel
import DroopProofs
/-!
# C07 — only lowest candidates are excluded singly, the largest surplus goes first, ties are logged

For the fixed-point arithmetic (a total order): the candidate that `wigmDefeatStep` hands to `defeat` is a hopeful
with the minimum tally, the candidate whose surplus `wigmSurplusStep` transfers is a pending candidate with the maximum
tally; `breakTie` chooses among the tied candidates, logs a `tie` action exactly when there is more than one, and
leaves the record untouched otherwise. (That the choice is the first in tie order is definitional:
`(byTieOrder tied).head?`; the sort model returns a permutation, `pySorted_perm`.)
-/
namespace Droop.C07
open Droop

/-- builtin `min` over fixed-point values returns a lower bound that is attained -/
theorem pyMin_spec (p : Nat) (x : Int) (l : List Int) :
    (fixedArith p).pyMin x l ∈ x :: l ∧ ∀ y ∈ x :: l, (fixedArith p).pyMin x l ≤ y := by
  unfold Arith.pyMin
  induction l generalizing x with
  | nil => simp
  | cons a as ih =>
    simp only [List.foldl_cons]
    have hlt : (fixedArith p).lt a x = decide (a < x) := by
      simp only [Arith.lt, fixedArith, intCmp]
      by_cases h1 : a < x
      · simp [h1]
      · by_cases h2 : a = x
        · simp [h2]
        · simp [h1, h2]
    rw [hlt]
    by_cases h : a < x
    · simp only [h, decide_true, if_true]
      obtain ⟨hm, hle⟩ := ih a
      refine ⟨?_, ?_⟩
      · rcases List.mem_cons.1 hm with h1 | h1
        · rw [h1]; simp
        · simp [h1]
      · intro y hy
        rcases List.mem_cons.1 hy with h1 | h1
        · rw [h1]; exact le_trans (hle a (by simp)) (le_of_lt h)
        · exact hle y h1
    · simp only [h, decide_false, Bool.false_eq_true, if_false]
      obtain ⟨hm, hle⟩ := ih x
      refine ⟨?_, ?_⟩
      · rcases List.mem_cons.1 hm with h1 | h1
        · rw [h1]; simp
        · simp [h1]
      · intro y hy
        rcases List.mem_cons.1 hy with h1 | h1
        · rw [h1]; exact hle x (by simp)
        · rcases List.mem_cons.1 h1 with h2 | h2
          · rw [h2]; exact le_trans (hle x (by simp)) (not_lt.1 h)
          · exact hle y (by simp [h2])

theorem pyMax_spec (p : Nat) (x : Int) (l : List Int) :
    (fixedArith p).pyMax x l ∈ x :: l ∧ ∀ y ∈ x :: l, y ≤ (fixedArith p).pyMax x l := by
  unfold Arith.pyMax
  induction l generalizing x with
  | nil => simp
  | cons a as ih =>
    simp only [List.foldl_cons]
    have hgt : (fixedArith p).gt a x = decide (a > x) := by
      simp only [Arith.gt, fixedArith, intCmp]
      by_cases h1 : a < x
      · have : ¬ a > x := by omega
        simp [h1, this]
      · by_cases h2 : a = x
        · simp [h2]
        · have : a > x := by omega
          simp [h1, h2, this]
    rw [hgt]
    by_cases h : a > x
    · simp only [h, decide_true, if_true]
      obtain ⟨hm, hle⟩ := ih a
      refine ⟨?_, ?_⟩
      · rcases List.mem_cons.1 hm with h1 | h1
        · rw [h1]; simp
        · simp [h1]
      · intro y hy
        rcases List.mem_cons.1 hy with h1 | h1
        · rw [h1]; exact le_trans (le_of_lt h) (hle a (by simp))
        · exact hle y h1
    · simp only [h, decide_false, Bool.false_eq_true, if_false]
      obtain ⟨hm, hle⟩ := ih x
      refine ⟨?_, ?_⟩
      · rcases List.mem_cons.1 hm with h1 | h1
        · rw [h1]; simp
        · simp [h1]
      · intro y hy
        rcases List.mem_cons.1 hy with h1 | h1
        · rw [h1]; exact hle x (by simp)
        · rcases List.mem_cons.1 h1 with h2 | h2
          · rw [h2]; exact le_trans (not_lt.1 h) (hle x (by simp))
          · exact hle y (by simp [h2])

theorem minVoteOf_spec (p : Nat) (l : List (Cand Int)) (lv : Int) (h : minVoteOf (fixedArith p) l = some lv) :
    (∃ c ∈ l, c.vote = lv) ∧ ∀ c ∈ l, lv ≤ c.vote := by
  cases l with
  | nil => simp [minVoteOf] at h
  | cons c cs =>
    simp only [minVoteOf, Option.some.injEq] at h
    obtain ⟨hm, hle⟩ := pyMin_spec p c.vote (cs.map (·.vote))
    rw [h] at hm hle
    refine ⟨?_, ?_⟩
    · rcases List.mem_cons.1 hm with h1 | h1
      · exact ⟨c, by simp, h1.symm⟩
      · obtain ⟨d, hd, hv⟩ := List.mem_map.1 h1
        exact ⟨d, by simp [hd], hv⟩
    · intro d hd
      rcases List.mem_cons.1 hd with h1 | h1
      · rw [h1]; exact hle c.vote (by simp)
      · exact hle d.vote (by simp; right; exact ⟨d, h1, rfl⟩)

theorem maxVoteOf_spec (p : Nat) (l : List (Cand Int)) (hv : Int) (h : maxVoteOf (fixedArith p) l = some hv) :
    (∃ c ∈ l, c.vote = hv) ∧ ∀ c ∈ l, c.vote ≤ hv := by
  cases l with
  | nil => simp [maxVoteOf] at h
  | cons c cs =>
    simp only [maxVoteOf, Option.some.injEq] at h
    obtain ⟨hm, hle⟩ := pyMax_spec p c.vote (cs.map (·.vote))
    rw [h] at hm hle
    refine ⟨?_, ?_⟩
    · rcases List.mem_cons.1 hm with h1 | h1
      · exact ⟨c, by simp, h1.symm⟩
      · obtain ⟨d, hd, hv'⟩ := List.mem_map.1 h1
        exact ⟨d, by simp [hd], hv'⟩
    · intro d hd
      rcases List.mem_cons.1 hd with h1 | h1
      · rw [h1]; exact hle c.vote (by simp)
      · exact hle d.vote (by simp; right; exact ⟨d, h1, rfl⟩)

/-- **the candidate excluded singly is a hopeful with the lowest tally** (the selection made by `wigmDefeatStep`,
    `scotDefeatStep`, the CfER and Minneapolis lowest-candidate steps: lowest tally, then `breakTie`) -/
theorem single_exclusion_is_lowest (p : Nat) (s s1 : St Int) (lv : Int) (verb : String) (lc : Cand Int)
    (hmin : minVoteOf (fixedArith p) s.hopeful = some lv)
    (hbt : breakTie (fixedArith p) s (s.hopeful.filter (fun c => (fixedArith p).eq c.vote lv)) verb = (s1, some lc)) :
    lc ∈ s.hopeful ∧ ∀ c ∈ s.hopeful, lc.vote ≤ c.vote := by
  have hmem := breakTie_mem (fixedArith p) s (s.hopeful.filter (fun c => (fixedArith p).eq c.vote lv)) verb lc (by rw [hbt])
  rw [List.mem_filter] at hmem
  obtain ⟨hl, heq⟩ := hmem
  have hv : lc.vote = lv := by
    simp only [Arith.eq, fixedArith, intCmp] at heq
    by_cases h1 : lc.vote < lv
    · simp [h1] at heq
    · by_cases h2 : lc.vote = lv
      · exact h2
      · simp [h1, h2] at heq
  refine ⟨hl, fun c hc => ?_⟩
  rw [hv]; exact (minVoteOf_spec p _ lv hmin).2 c hc

/-- **the surplus transferred first is a largest one** -/
theorem surplus_choice_is_largest (p : Nat) (s s1 : St Int) (hv : Int) (verb : String) (hc : Cand Int)
    (hmax : maxVoteOf (fixedArith p) s.pendingL = some hv)
    (hbt : breakTie (fixedArith p) s (s.pendingL.filter (fun c => (fixedArith p).eq c.vote hv)) verb = (s1, some hc)) :
    hc ∈ s.pendingL ∧ ∀ c ∈ s.pendingL, c.vote ≤ hc.vote := by
  have hmem := breakTie_mem (fixedArith p) s (s.pendingL.filter (fun c => (fixedArith p).eq c.vote hv)) verb hc (by rw [hbt])
  rw [List.mem_filter] at hmem
  obtain ⟨hl, heq⟩ := hmem
  have hvv : hc.vote = hv := by
    simp only [Arith.eq, fixedArith, intCmp] at heq
    by_cases h1 : hc.vote < hv
    · simp [h1] at heq
    · by_cases h2 : hc.vote = hv
      · exact h2
      · simp [h1, h2] at heq
  refine ⟨hl, fun c hc' => ?_⟩
  rw [hvv]; exact (maxVoteOf_spec p _ hv hmax).2 c hc'

/-- `breakTie` logs a `tie` action exactly when it has to choose: one candidate — record unchanged; two or more — one
    `tie` action naming the chosen candidate first and then all the tied ones -/
theorem breakTie_single_no_log {α : Type} (A : Arith α) (s : St α) (c : Cand α) (verb : String) :
    breakTie A s [c] verb = (s, some c) := rfl

theorem breakTie_logs_choice {α : Type} (A : Arith α) (s : St α) (c d : Cand α) (rest : List (Cand α)) (verb : String) :
    breakTie A s (c :: d :: rest) verb =
      (s.logAct A "tie" verb (((byTieOrder (c :: d :: rest)).head?.map (·.cid)).toList ++ (c :: d :: rest).map (·.cid)),
       (byTieOrder (c :: d :: rest)).head?) := rfl

/-- a logged action is one new entry at the head of the record, carrying the tag and subjects given -/
theorem logAct_head {α : Type} (A : Arith α) (s : St α) (tag verb : String) (subj : List Nat) :
    ∃ a rest, (s.logAct A tag verb subj).acts = a :: rest ∧ rest = s.acts ∧ a.tag = tag ∧ a.subj = subj ∧ a.verb = verb := by
  unfold St.logAct
  by_cases h : (tag == "round") = true
  · simp only [h, if_true]; exact ⟨_, _, rfl, rfl, rfl, rfl, rfl⟩
  · simp only [h, if_false, Bool.false_eq_true]; exact ⟨_, _, rfl, rfl, rfl, rfl, rfl⟩

/-- the sort behind `byTieOrder` / `byVote` only reorders: nobody is added or lost -/
theorem tie_order_is_a_permutation {α : Type} (l : List (Cand α)) : (byTieOrder l).Perm l := pySorted_perm _ _ l

/-! ## batches are sure losers, and enough candidates remain

`batchDefeatGroups` is the sure-loser search of wigm-prf-batch, meek and warren (`defeat_batch=safe`); `mplsCertainLosers` is
Minneapolis 167.70(c)(1)b. Both return a prefix of the hopefuls in tally order (`batchDefeatGroups_sure`,
`mplsCertainLosers_sure` in `DroopProofs/SureLosers.lean`): the combined tallies of the batch plus the surplus are below the tally
of the next candidate in that order. `batchDefeatGroups_bound`, `mplsDefeatSet_bound` and `cferBatch_enough` say that the batch
never takes more candidates than `hopeful − open seats`. -/

theorem fixed_lt_sound (p : Nat) (a b : Int) (h : (fixedArith p).lt a b = true) : a < b := by
  by_contra hge
  have hn : ¬ a < b := hge
  have h' : decide (intCmp a b < 0) = true := h
  unfold intCmp at h'
  simp only [hn, if_false] at h'
  by_cases he : (a == b) = true
  · simp [he] at h'
  · simp [he] at h'

theorem prf_batch_is_sure_losers (p : Nat) (s : St Int) (surplus : Int) (hne : batchDefeatGroups (fixedArith p) s surplus ≠ []) :
    ∃ c0 rest, byVote (fixedArith p) false s.hopeful = batchDefeatGroups (fixedArith p) s surplus ++ c0 :: rest
      ∧ votesOf (batchDefeatGroups (fixedArith p) s surplus) + surplus < c0.vote := by
  obtain ⟨c0, rest, h1, h2⟩ := batchDefeatGroups_sure (fixedArith p) (fixed_lawful p) s surplus hne
  exact ⟨c0, rest, h1, fixed_lt_sound p _ _ h2⟩

theorem mpls_certain_losers_are_sure_losers (p : Nat) (s : St Int) (surplus : Int)
    (hne : mplsCertainLosers (fixedArith p) s surplus ≠ []) :
    ∃ k c0, (mplsCertainLosers (fixedArith p) s surplus).Perm ((byVote (fixedArith p) false s.hopeful).take k)
      ∧ (byVote (fixedArith p) false s.hopeful)[k]? = some c0
      ∧ votesOf ((byVote (fixedArith p) false s.hopeful).take k) + surplus < c0.vote := by
  obtain ⟨k, c0, h1, h2, h3⟩ := mplsCertainLosers_sure (fixedArith p) (fixed_lawful p) s surplus hne
  exact ⟨k, c0, h1, h2, fixed_lt_sound p _ _ h3⟩

theorem prf_batch_leaves_enough (p : Nat) (s : St Int) (surplus : Int) :
    ((batchDefeatGroups (fixedArith p) s surplus).length : Int) ≤ (s.hopeful.length : Int) - s.seatsLeft
    ∨ batchDefeatGroups (fixedArith p) s surplus = [] :=
  batchDefeatGroups_bound (fixedArith p) s surplus

end Droop.C07
