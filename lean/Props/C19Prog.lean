import Props.C19
/-!
# C19: the header keys, the renderers' needs and the interrupt path, as read from the source

`harness/gen_needs.py` extracts from droop/record.py, droop/election.py and droop/rules/*.py (Python `ast`):

* `headerKeys` — the keys `ElectionRecord._fill` assigns unconditionally, in program order; `conditionalKeys` — those under an `if`;
* `reportNeeds`, `dumpNeeds`, `jsonNeeds` — the keys `report()`, `dump()`, `json()` read with `self['k']` (a missing key raises);
  `softKeys` — the keys they read with `self.get('k')` (a missing key is tolerated);
* `hookNeeds` — the keys any rule module reads with `record['k']` (the rules' report / dump / action hooks);
* and it refuses the source unless `_fill` ends with its only `self.filled = True`, `Election._interrupted` starts with
  `if not self.erecord.filled: self.erecord._fill()`, and `Election.report/dump/json` are `if intr: self._interrupted()` followed by
  the record's renderer — the three facts the state machine of Props/C19.lean (`fillEvents`, `interrupted`) is a reading of.

The kernel checks every extracted list equal to the committed one (`by rfl`) on every C19 run.  `headerKeys`, `reportNeeds`, `dumpNeeds`
are the definitions the theorems of Props/C19.lean (`interrupted_can_render`) quantify over; the additional lists are covered here.
-/
namespace Droop.C19
open Droop

def conditionalKeys : List String := ["omega", "profile_source", "profile_comment"]
def jsonNeeds : List String := []
def softKeys : List String := ["arithmetic_report", "profile_comment", "profile_source"]
def hookNeeds : List String := ["cdict", "cids", "nballots"]

/-- the header keys of the model are the literal list the source assigns -/
theorem headerKeys_is_source : headerKeys =
    ["title", "droop_name", "droop_version", "rule_name", "rule_info", "method", "arithmetic_name", "arithmetic_info", "seats",
     "nballots", "quota", "cids", "ecids", "cdict", "options"] := rfl

/-- every key a rule hook or `json()` reads with `[...]` is a header key -/
theorem hook_needs_subset : (∀ k ∈ hookNeeds, k ∈ headerKeys) ∧ (∀ k ∈ jsonNeeds, k ∈ headerKeys) := by
  constructor <;> decide

/-- a key written only conditionally is never read with `[...]` by a renderer or a hook: it is read softly or not at all -/
theorem conditional_keys_not_needed :
    ∀ k ∈ conditionalKeys, k ∉ reportNeeds ∧ k ∉ dumpNeeds ∧ k ∉ jsonNeeds ∧ k ∉ hookNeeds := by decide

/-- **after any interruption point the rule hooks find every key they read, too** -/
theorem interrupted_hooks_can_render (r : Rec) (hinv : FilledMeansComplete r) : canRender hookNeeds (interrupted r) = true := by
  have h := interrupted_has_header r hinv
  unfold canRender; rw [List.all_eq_true]
  intro k hk; simpa using h k (hook_needs_subset.1 k hk)

end Droop.C19
