import DroopModel
import DroopProofs
/-!
# C18 — the record is a faithful audit trail; every dump row has the header's column count

* `elect` / `defeat` change the status of exactly the named candidate and log exactly one action, whose snapshot is
  taken *after* the change (so the action names a candidate whose status differs from the previous snapshot);
* a `log` action carries no snapshot; the record only grows (`wigmCount_appendOnly`);
* in the dump (compared byte for byte with `ElectionRecord.dump()` on every C18 run) every row that carries a
  snapshot has exactly as many fields as the header, and message rows have three.
-/
namespace Droop.C18
open Droop
variable {α : Type}

/-- `upd` touches the candidate with the given id only -/
theorem upd_others_unchanged (s : St α) (cid : Nat) (f : Cand α → Cand α) :
    (s.upd cid f).cands = s.cands.map (fun c => if c.cid == cid then f c else c) := rfl

/-- electing logs one `elect` action naming the candidate; its snapshot is the state after the change -/
theorem elect_logs (A : Arith α) (s : St α) (cid : Nat) (verb : String) (p : Bool) :
    (s.elect A cid verb p).acts =
      { tag := "elect", round := s.round, verb := verb, subj := [cid],
        snap := some ((s.upd cid (fun c => { c with st := .elected, pending := p })).mkSnap A),
        ws := s.ballots.map (fun b => (b.idx, b.w)) } :: s.acts := rfl

theorem defeat_logs (A : Arith α) (s : St α) (cid : Nat) (verb : String) :
    (s.defeat A cid verb).acts =
      { tag := "defeat", round := s.round, verb := verb, subj := [cid],
        snap := some ((s.upd cid (fun c => { c with st := .defeated })).mkSnap A),
        ws := s.ballots.map (fun b => (b.idx, b.w)) } :: s.acts := rfl

/-- in the snapshot logged by `elect`, the named candidate is shown elected and every other candidate as before -/
theorem elect_snapshot (A : Arith α) (s : St α) (cid : Nat) (p : Bool) :
    ((s.upd cid (fun c => { c with st := .elected, pending := p })).mkSnap A).cs =
      s.cands.map (fun c => if c.cid == cid
        then (c.cid, ({ c with st := CState.elected, pending := p } : Cand α).code s.method, c.vote, c.kf, c.quotient)
        else (c.cid, c.code s.method, c.vote, c.kf, c.quotient)) := by
  unfold St.mkSnap St.upd
  simp only [List.map_map]
  apply List.map_congr_left
  intro c _
  by_cases h : c.cid = cid
  · simp [h]
  · simp [h]

theorem defeat_snapshot (A : Arith α) (s : St α) (cid : Nat) :
    ((s.upd cid (fun c => { c with st := .defeated })).mkSnap A).cs =
      s.cands.map (fun c => if c.cid == cid
        then (c.cid, "D", c.vote, c.kf, c.quotient)
        else (c.cid, c.code s.method, c.vote, c.kf, c.quotient)) := by
  unfold St.mkSnap St.upd
  simp only [List.map_map]
  apply List.map_congr_left
  intro c _
  by_cases h : c.cid = cid
  · simp [h, Cand.code]
  · simp [h]

/-- a `log` action has no snapshot and changes nothing but the record -/
theorem logMsg_spec (s : St α) (verb : String) (subj : List Nat) (v : Option α) :
    (s.logMsg verb subj v).acts = { tag := "log", round := s.round, verb, subj, snap := none, ws := [], val := v } :: s.acts
    ∧ (s.logMsg verb subj v).cands = s.cands := ⟨rfl, rfl⟩

/-! ## dump -/

theorem flatMap_length_const {β γ : Type} (l : List β) (f : β → List γ) (k : Nat) (h : ∀ x ∈ l, (f x).length = k) :
    (l.flatMap f).length = l.length * k := by
  induction l with
  | nil => simp
  | cons x xs ih =>
    simp only [List.flatMap_cons, List.length_append, List.length_cons]
    rw [ih (fun y hy => h y (by simp [hy])), h x (by simp)]
    ring

def perCand : Method → Nat
  | .wigm => 3 | .meek => 4 | .qpq => 3
def perHead : Method → Nat
  | .wigm => 4 | .meek => 6 | .qpq => 3

theorem dumpHeader_length (m : Method) (ecids : List Nat) :
    (dumpHeader m ecids).length = perHead m + ecids.length * perCand m := by
  unfold dumpHeader
  simp only [List.length_append]
  rw [flatMap_length_const ecids _ (perCand m) (by intro x _; cases m <;> rfl)]
  cases m <;> simp [perHead]

/-- **every dump row that carries a snapshot has the header's column count** (when the snapshot lists every eligible
    candidate, which `mkSnap` does: it lists all candidates) -/
theorem dumpRow_length (strV : α → String) (name : Nat → String) (m : Method) (ecids : List Nat) (a : Act α) (sn : Snap α)
    (hs : a.snap = some sn) (htag : (a.tag == "round" || a.tag == "iterate") = false)
    (hall : ∀ cid ∈ ecids, (sn.cs.find? (fun e => e.1 == cid)).isSome) :
    (dumpRow strV name m ecids a).length = (dumpHeader m ecids).length := by
  rw [dumpHeader_length]
  unfold dumpRow
  simp only [hs, htag, Bool.false_eq_true, if_false, List.length_append]
  rw [flatMap_length_const ecids _ (perCand m)]
  · cases m <;> simp [perHead]
  · intro cid hc
    have := hall cid hc
    cases hf : sn.cs.find? (fun e => e.1 == cid) with
    | none => rw [hf] at this; cases this
    | some e =>
      obtain ⟨c1, code, v, kf, q⟩ := e
      cases m <;> rfl

/-- message rows (`round`, `iterate`, `log`) have three fields -/
theorem dumpRow_message_length (strV : α → String) (name : Nat → String) (m : Method) (ecids : List Nat) (a : Act α)
    (h : a.snap = none ∨ (a.tag == "round" || a.tag == "iterate") = true) :
    (dumpRow strV name m ecids a).length = 3 := by
  unfold dumpRow
  cases hs : a.snap with
  | none => rfl
  | some sn =>
    rcases h with h | h
    · rw [hs] at h; cases h
    · simp only [h, if_true]; rfl

end Droop.C18
