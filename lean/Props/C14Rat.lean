import Props.C14Prog
/-!
# C14: `Rational.__str__`, obtained from the source by symbolic execution

`harness/gen_rstr.py` splits `Rational.__str__` into the computation of the display units (`v`: an integer count of 10^-dp) and the formatting
of `v`; the first part is executed over a small language of rational and integer terms (`self`, `Rational._dpr`, `+`, `.numerator`,
`.denominator`, `Rational._dps`, `*`, `//`), the second with the executor of `gen_str.py`.  It also checks that `initialize` assigns
`_dps = 10 ** dp` and `_dpr = Fraction(1, _dps * 2)`.  Both programs are kernel-checked equal to the ones committed here on every C14 run;
`rational_str_is_program` proves that their composition is the model's `strRational` for every display precision and every rational value.
-/
namespace Droop.C14
open Droop

inductive QE | self | dpr | add (a b : QE)
deriving DecidableEq, Repr
inductive ZE | num (q : QE) | den (q : QE) | dps | lit (n : Int) | mul (a b : ZE) | floordiv (a b : ZE)
deriving DecidableEq, Repr
inductive UB | eq (a b : ZE) | or (p q : UB)
deriving DecidableEq, Repr
inductive UP | ret (z : ZE) | ite (c : UB) (t e : UP)
deriving DecidableEq, Repr

/-- `Fraction(1, cls._dps * 2)` with `_dps = 10 ** dp` -/
def dprOf (dp : Nat) : ℚ := (1 : ℚ) / ((pow10 dp * 2 : Int) : ℚ)

def QE.eval (dp : Nat) (q : ℚ) : QE → ℚ
  | .self => q | .dpr => dprOf dp | .add a b => a.eval dp q + b.eval dp q

def ZE.eval (dp : Nat) (q : ℚ) : ZE → Int
  | .num x => (x.eval dp q).num
  | .den x => ((x.eval dp q).den : Int)
  | .dps => pow10 dp
  | .lit n => n
  | .mul a b => a.eval dp q * b.eval dp q
  | .floordiv a b => pdiv (a.eval dp q) (b.eval dp q)

def UB.eval (dp : Nat) (q : ℚ) : UB → Bool
  | .eq a b => decide (a.eval dp q = b.eval dp q)
  | .or p r => p.eval dp q || r.eval dp q

def UP.eval (dp : Nat) (q : ℚ) : UP → Int
  | .ret z => z.eval dp q
  | .ite c t e => if c.eval dp q then t.eval dp q else e.eval dp q

/-! ## the committed programs -/
def rationalUnitsProg : UP :=
  .ite (.or (.eq (.num .self) (.lit 0)) (.eq (.den .self) (.lit 1))) (.ret (.mul (.num .self) .dps))
    (.ret (.floordiv (.mul (.num (.add .self .dpr)) .dps) (.den (.add .self .dpr))))

def rationalRenderProg : SP :=
  .ite (.lt .v (.lit 0)) (.ret (.cat (.lit "-") (two (.neg .v)))) (.ret (two .v))

/-- `_dps = 10 ** dp`, `_dfmt = "%d.%0<dp>d"` -/
def rationalEnv (dp : Nat) : Env where
  attr := fun
    | .scaled => pow10 dp
    | _ => 0
  w1 := dp
  w2 := 0

/-- the units part is the model's `rationalUnits` -/
theorem rational_units_is_program (dp : Nat) (q : ℚ) : rationalUnitsProg.eval dp q = rationalUnits dp q := by
  have key : pdiv ((q + dprOf dp).num * pow10 dp) ((q + dprOf dp).den : Int)
      = ((q + (1 : ℚ) / ((pow10 dp * 2 : Int) : ℚ)) * (pow10 dp : ℚ)).floor := by
    set x : ℚ := q + dprOf dp with hx
    have hden : ((x.den : Int)) ≠ 0 := by exact_mod_cast x.den_nz
    rw [pdiv_eq_floor _ _ hden]
    show _ = ⌊(q + (1 : ℚ) / ((pow10 dp * 2 : Int) : ℚ)) * (pow10 dp : ℚ)⌋
    congr 1
    have : (q + (1 : ℚ) / ((pow10 dp * 2 : Int) : ℚ)) = x := rfl
    rw [this]
    push_cast
    have hxx : (x.num : ℚ) / (x.den : ℚ) = x := Rat.num_div_den x
    rw [mul_div_right_comm, hxx]
  unfold rationalUnits
  simp only [rationalUnitsProg, UP.eval, UB.eval, ZE.eval, QE.eval]
  by_cases h0 : q.num = 0
  · simp [h0]
  · by_cases h1 : q.den = 1
    · simp [h1]
    · have h1' : ¬ ((q.den : Int) = 1) := by exact_mod_cast h1
      have hR : (q.num == 0 || q.den == 1) = false := by simp [h0, h1]
      simp only [h0, h1', decide_false, Bool.or_self, Bool.false_eq_true, if_false, hR]
      exact key

/-- the formatting part is the model's `renderUnits` -/
theorem rational_render_is_program (dp : Nat) (v : Int) : rationalRenderProg.eval (rationalEnv dp) v = renderUnits dp v := by
  simp only [rationalRenderProg, SP.eval, BE.eval, IE.eval]
  by_cases hu : v < 0
  · simp only [hu, decide_true, if_true, SE.eval, two, IE.eval, rationalEnv]
    rw [renderUnits_neg _ _ hu]
  · simp only [hu, decide_false, Bool.false_eq_true, if_false, SE.eval, two, IE.eval, rationalEnv]
    rw [renderUnits_nonneg _ _ hu]

/-- **`Rational.__str__` as read from the source is the model's `strRational`** -/
theorem rational_str_is_program (dp : Nat) (q : ℚ) :
    rationalRenderProg.eval (rationalEnv dp) (rationalUnitsProg.eval dp q) = strRational dp q := by
  rw [rational_render_is_program, rational_units_is_program]
  rfl

end Droop.C14
