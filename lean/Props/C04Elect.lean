import Props.C05Coalition
/-!
# C04, second sentence: whoever reaches the quota is elected at the next election step, and nobody holding a quota is excluded

For the election step of the Gregory rules (`electWinners`, instantiated by scotland, wigm / wigm-prf, cfer) under fixed-point
arithmetic:

* `reaches_quota_is_elected`: every hopeful candidate that passes the rule's quota test is elected by the step;
* `no_hopeful_holds_quota`: after the step no hopeful candidate holds a quota (strictly less than the quota), with the tally it
  had before the step;
* `scot_excluded_below_quota`, `wigm_excluded_below_quota`: the candidate excluded later in the same round (lowest candidate,
  tie-break included) is one of those hopefuls — it holds less than a quota when it is excluded.

Minneapolis (exclusion of undeclared write-ins excepted by the property itself) and the Meek family: oracle `okC04` only.
-/
namespace Droop.C04
open Droop

theorem lt_of_ge_false (p : Nat) (a b : Int) (h : (fixedArith p).ge a b = false) : a < b := by
  simp only [Arith.ge, fixedArith, intCmp] at h
  by_contra hlt
  have h1 : ¬ a < b := hlt
  by_cases h2 : a = b <;> simp [h1, h2] at h

/-- every hopeful candidate that passes the quota test is elected by the election step -/
theorem reaches_quota_is_elected {α : Type} [CommRing α] [LinearOrder α] [IsStrictOrderedRing α] (A : Arith α)
    (hasQ : St α → Cand α → Bool) (pend : St α → Cand α → Bool) (verb : St α → Cand α → String) (s : St α) (w : Cand α)
    (hw : w ∈ s.hopeful) (hq : hasQ s w = true) :
    (∃ x ∈ (electWinners A hasQ pend verb s).cands, x.cid = w.cid)
    ∧ ∀ x ∈ (electWinners A hasQ pend verb s).cands, x.cid = w.cid → x.st = .elected := by
  unfold electWinners
  have hm : w ∈ (byVote A true s.hopeful).filter (hasQ s) := by
    rw [List.mem_filter]; exact ⟨(mem_pySorted _ _ _ _).2 hw, hq⟩
  exact ⟨foldElect_has A _ (verb s) (pend s) s w.cid ⟨w, (mem_hopeful.1 hw).1, rfl⟩, foldElect_all A _ (verb s) (pend s) s w hm⟩

/-- after the election step nobody hopeful holds a quota (Scottish rule; the same `electWinners` with `>=`) -/
theorem no_hopeful_holds_quota_scot (p : Nat) (s : St Int) (hwf : s.WF) :
    ∀ c ∈ (scotElect (fixedArith p) s).hopeful, c ∈ s.hopeful ∧ c.vote < s.quota := by
  intro c hc
  have := electWinners_rest_below (fixedArith p) (hasQuotaGE (fixedArith p)) (fun _ _ => true)
    (fun _ _ => "Elect, transfer pending") hwf c (by unfold scotElect at hc; exact hc)
  exact ⟨this.1, lt_of_ge_false p _ _ this.2⟩

/-- ... wigm and wigm-prf under fixed-point arithmetic -/
theorem no_hopeful_holds_quota_wigm (p : Nat) (o : WigmOpts) (s : St Int) (hwf : s.WF) :
    ∀ c ∈ (wigmElect (fixedArith p) o s).hopeful, c ∈ s.hopeful ∧ c.vote < s.quota := by
  intro c hc
  have := electWinners_rest_below (fixedArith p) (if o.prf then hasQuotaGE (fixedArith p) else hasQuotaX (fixedArith p))
    (fun _ _ => true) (fun _ _ => "Elect, transfer pending") hwf c (by unfold wigmElect at hc; exact hc)
  refine ⟨this.1, ?_⟩
  have hf := this.2
  have hx : ∀ (t : St Int) (x : Cand Int), hasQuotaX (fixedArith p) t x = hasQuotaGE (fixedArith p) t x := fun _ _ => rfl
  by_cases hp : o.prf = true
  · simp only [hp, if_true] at hf; exact lt_of_ge_false p _ _ hf
  · simp only [hp, Bool.false_eq_true, if_false] at hf; rw [hx] at hf; exact lt_of_ge_false p _ _ hf

/-- ... cfer and cfer-batch -/
theorem no_hopeful_holds_quota_cfer (p : Nat) (s : St Int) (hwf : s.WF) :
    ∀ c ∈ (cferElect (fixedArith p) s).hopeful, c ∈ s.hopeful ∧ c.vote < s.quota := by
  intro c hc
  have := electWinners_rest_below (fixedArith p) (hasQuotaGE (fixedArith p)) (fun st c => (fixedArith p).gt c.vote st.quota)
    (fun st c => if (fixedArith p).gt c.vote st.quota then "Elect, transfer pending" else "Elect") hwf c
    (by unfold cferElect at hc; exact hc)
  exact ⟨this.1, lt_of_ge_false p _ _ this.2⟩

/-- the Scottish exclusion step acts on a hopeful candidate of the state it is given -/
theorem scot_excluded_is_hopeful (p : Nat) (s : St Int) (lc : Cand Int) (tied : List (Cand Int))
    (hsub : ∀ c ∈ tied, c ∈ s.hopeful)
    (h : (scotBreakTie (fixedArith p) s tied true "defeat low candidate").2 = some lc) : lc ∈ s.hopeful :=
  hsub lc (scotBreakTie_mem (fixedArith p) s tied true _ lc h)

/-- **Scottish rule: the candidate excluded in a round holds less than a quota** — the exclusion step is applied to the state
    `scotRound (scotElect s)`, whose hopefuls are those the election step left below the quota -/
theorem scot_excluded_below_quota (p : Nat) (s : St Int) (hwf : s.WF) (lc : Cand Int)
    (hlc : lc ∈ (scotRound (fixedArith p) (scotElect (fixedArith p) s)).hopeful) : lc.vote < s.quota := by
  have hc2 : (scotRound (fixedArith p) (scotElect (fixedArith p) s)).cands = (scotElect (fixedArith p) s).cands := by
    unfold scotRound St.setSurplus St.newRound; simp only [logAct_cands]
  have : lc ∈ (scotElect (fixedArith p) s).hopeful := by unfold St.hopeful at hlc ⊢; rw [← hc2]; exact hlc
  exact (no_hopeful_holds_quota_scot p s hwf lc this).2

/-- **wigm / wigm-prf: every candidate excluded in a round (lowest candidate, zero batch or sure-loser batch) holds less than
    a quota** — all three exclusion paths of `wigmAfterElect` take their candidates from the hopefuls of `wigmElect (newRound s)` -/
theorem wigm_excluded_below_quota (p : Nat) (o : WigmOpts) (s : St Int) (hwf : s.WF) (lc : Cand Int)
    (hlc : lc ∈ (wigmElect (fixedArith p) o (s.newRound (fixedArith p))).hopeful) : lc.vote < s.quota := by
  have hwf1 : (s.newRound (fixedArith p)).WF := by unfold St.newRound; exact WF_logAct (fixedArith p) (by exact hwf) _ _ _
  have := (no_hopeful_holds_quota_wigm p o (s.newRound (fixedArith p)) hwf1 lc hlc).2
  rw [quota_newRound] at this; exact this

/-- the sure losers of wigm-prf-batch are hopefuls (hence below the quota by the theorem above) -/
theorem wigm_sure_losers_hopeful (p : Nat) (o : WigmOpts) (s : St Int) :
    ∀ w ∈ wigmSure (fixedArith p) o s, w ∈ s.hopeful := by
  intro w hw
  unfold wigmSure at hw
  split at hw
  · exact batchDefeatGroups_hopeful (fixedArith p) s _ w hw
  · cases hw

end Droop.C04
