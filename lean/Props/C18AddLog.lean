import Props.C18
/-!
# C18 / C11: what is logged when a candidate is added, as read from the source

`harness/gen_addlog.py` reads the `if / elif / else` chain at the end of `Candidates.add` — (test, message format) in order — kernel-checked equal
to `addLogTable` on every C18 run.  `withAddLogs_is_table`: the model's `withAddLogs` puts exactly one `log` line per candidate in front of the
record, in candidate order, with the verb the chain selects (withdrawn first, then undeclared, else eligible), and touches nothing else.
-/
namespace Droop.C18
open Droop

def addLogTable : List (String × String) :=
  [("c.state == 'withdrawn'", "Add withdrawn: %s"), ("c.isUndeclared", "Add undeclared: %s"), ("else", "Add eligible: %s")]

variable {α : Type}

/-- the verb the chain selects for one candidate (the format string without its `: %s` tail, as the model records verb and subject apart) -/
def addVerb (c : Cand α) : String :=
  if c.st == .withdrawn then "Add withdrawn" else if c.undeclared then "Add undeclared" else "Add eligible"

/-- the table's formats are the three verbs followed by the candidate's name -/
theorem addLogTable_verbs : addLogTable.map (·.2) = ["Add withdrawn", "Add undeclared", "Add eligible"].map (· ++ ": %s") := by decide

theorem withAddLogs_is_table (s : St α) :
    withAddLogs s = s.cands.foldl (fun acc c => acc.logMsg (addVerb c) [c.cid]) s := rfl

/-- only the record grows: candidates, ballots and figures are untouched by the add-log lines -/
theorem withAddLogs_frame (s : St α) :
    (withAddLogs s).cands = s.cands ∧ (withAddLogs s).ballots = s.ballots ∧ (withAddLogs s).quota = s.quota ∧ (withAddLogs s).round = s.round := by
  unfold withAddLogs
  have : ∀ (l : List (Cand α)) (t : St α),
      (l.foldl (fun acc c => acc.logMsg (if c.st == .withdrawn then "Add withdrawn" else if c.undeclared then "Add undeclared" else "Add eligible")
        [c.cid]) t).cands = t.cands ∧
      (l.foldl (fun acc c => acc.logMsg (if c.st == .withdrawn then "Add withdrawn" else if c.undeclared then "Add undeclared" else "Add eligible")
        [c.cid]) t).ballots = t.ballots ∧
      (l.foldl (fun acc c => acc.logMsg (if c.st == .withdrawn then "Add withdrawn" else if c.undeclared then "Add undeclared" else "Add eligible")
        [c.cid]) t).quota = t.quota ∧
      (l.foldl (fun acc c => acc.logMsg (if c.st == .withdrawn then "Add withdrawn" else if c.undeclared then "Add undeclared" else "Add eligible")
        [c.cid]) t).round = t.round := by
    intro l
    induction l with
    | nil => intro t; exact ⟨rfl, rfl, rfl, rfl⟩
    | cons c cs ih =>
      intro t
      simp only [List.foldl_cons]
      obtain ⟨h1, h2, h3, h4⟩ := ih (t.logMsg (if c.st == .withdrawn then "Add withdrawn" else if c.undeclared then "Add undeclared" else "Add eligible") [c.cid])
      exact ⟨h1, h2, h3, h4⟩
  exact this s.cands s

/-- one line per candidate -/
theorem withAddLogs_length (s : St α) : (withAddLogs s).acts.length = s.acts.length + s.cands.length := by
  unfold withAddLogs
  have : ∀ (l : List (Cand α)) (t : St α),
      (l.foldl (fun acc c => acc.logMsg (if c.st == .withdrawn then "Add withdrawn" else if c.undeclared then "Add undeclared" else "Add eligible")
        [c.cid]) t).acts.length = t.acts.length + l.length := by
    intro l
    induction l with
    | nil => intro t; rfl
    | cons c cs ih =>
      intro t
      simp only [List.foldl_cons, List.length_cons]
      rw [ih]
      show (_ :: t.acts).length + cs.length = _
      simp only [List.length_cons]; omega
  exact this s.cands s

end Droop.C18
