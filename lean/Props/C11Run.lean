import Props.C11
import Props.Driver
/-!
# C11, second clause at run level: marking candidates withdrawn = deleting them (wigm, wigm-prf, wigm-prf-batch, cfer, cfer-batch, scotland, mpls)

For every case inside `caseOK` (the reader has already removed withdrawn candidates from the rankings: `Props/C11.lean`,
`Props/C15.lean`), every fixed-point precision and the three wigm rule names in every configuration: the state returned for the
case with the withdrawn candidates *deleted from the candidate list* is exactly the state returned for the full case with the
withdrawn candidates deleted afterwards (`dropW`: from the candidate list, from the saved round snapshots and from every
snapshot of the record) — same actions in the same order, same tallies, quota, totals, winners.

The proof (`DroopProofs/DropW.lean`, `DropWWigm.lean`) is a commutation `dropW (f s) = f (dropW s)` for every step `f` of the
driver: selectors are blind to withdrawn candidates, vote and pending updates keep every status, and `elect` / `defeat` are only
addressed to ids of hopeful candidates.  The same for cfer / cfer-batch (`cfer_withdrawn_is_absent`, `DropWCfer.lean`).
Scotland (`scotland_withdrawn_is_absent`, `DropWScot.lean`): the tie-break by prior stages reads the saved stages, which the
deletion edits too; the extra invariant is that every saved stage lists the current candidates with the same ones withdrawn,
so the look-back never reads a withdrawn entry.  Minneapolis (`mpls_withdrawn_is_absent`, `DropWMpls.lean`, profiles without
undeclared write-ins): its reporting surplus is summed over all candidates, withdrawn ones included; their terms are zero because
a withdrawn candidate holds no votes and the quota is positive (facts the lower-half proof of C02 already carries along).
So all seven Gregory rule names are covered.  The Meek family and QPQ: compared only (re-runs on the real code).
-/
namespace Droop.C11
open Droop

/-- the case with the withdrawn candidates deleted from the candidate list -/
def deleteWithdrawn (c : Case) : Case := { c with cands := c.cands.filter (fun k => !k.2.2.1) }

theorem initState_deleteWithdrawn {α : Type} [CommRing α] [LinearOrder α] [IsStrictOrderedRing α] (A : Arith α) (c : Case) :
    initState A (deleteWithdrawn c) = Droop.dropW (initState A c) := by
  unfold initState deleteWithdrawn Droop.dropW
  simp only [List.map_nil]
  congr 1
  rw [List.filter_map]
  congr 1
  apply List.filter_congr
  rintro ⟨a, b, d, e⟩ _
  simp only [Function.comp, nonW]
  cases d <;> simp

theorem caseOK_deleteWithdrawn (c : Case) (h : CaseOK c) : CaseOK (deleteWithdrawn c) := by
  obtain ⟨h1, h2, h3, h4, h5⟩ := h
  refine ⟨?_, ?_, h3, ?_, h5⟩
  · exact List.Nodup.sublist (List.Sublist.map _ List.filter_sublist) h1
  · intro b hb
    obtain ⟨hne, hall⟩ := h2 b hb
    refine ⟨hne, ?_⟩
    intro cid hcid
    obtain ⟨k, hk, hkc, hkw⟩ := hall cid hcid
    refine ⟨k, ?_, hkc, hkw⟩
    unfold deleteWithdrawn
    simp only [List.mem_filter]
    exact ⟨hk, by simp [hkw]⟩
  · unfold deleteWithdrawn
    simp only [List.filter_filter]
    have : (c.cands.filter (fun k => (!k.2.2.1) && (!k.2.2.1))) = c.cands.filter (fun k => !k.2.2.1) := by
      apply List.filter_congr; intro k _; cases k.2.2.1 <;> rfl
    show c.seats ≤ _
    rw [this]; exact h4

theorem caseOK_bool_of (c : Case) (h : CaseOK c) : caseOK c = true := by
  obtain ⟨h1, h2, h3, h4, h5⟩ := h
  unfold caseOK
  simp only [Bool.and_eq_true, decide_eq_true_eq, List.all_eq_true, beq_iff_eq, List.isEmpty_iff,
    Bool.not_eq_true', List.any_eq_true]
  refine ⟨⟨⟨⟨h1, ?_⟩, h3⟩, ?_⟩, h5⟩
  · intro b hb
    obtain ⟨hne, hall⟩ := h2 b hb
    refine ⟨by cases hb2 : b.2 with
      | nil => exact absurd hb2 hne
      | cons x xs => rfl, ?_⟩
    intro cid hcid
    obtain ⟨k, hk, hkc, hkw⟩ := hall cid hcid
    obtain ⟨k1, k2, k3, k4⟩ := k
    exact ⟨_, hk, hkc, hkw⟩
  · convert h4 using 3

/-- **withdrawn means absent, wigm family** -/
theorem wigm_withdrawn_is_absent (p : Nat) (c : Case) (hr : c.rule = "wigm" ∨ c.rule = "wigm-prf" ∨ c.rule = "wigm-prf-batch")
    (hok : caseOK c = true) (hmore : c.seats < c.nballots) :
    ∃ t t', runRuleSt (fixedArith p) c = some t ∧ runRuleSt (fixedArith p) (deleteWithdrawn c) = some t'
      ∧ t' = Droop.dropW t := by
  have hk := caseOK_iff c hok
  have hk' := caseOK_deleteWithdrawn c hk
  have hok' := caseOK_bool_of _ hk'
  obtain ⟨t, ⟨hrun, _, _⟩, _⟩ := Driver.wigm p c hr hok hmore
  obtain ⟨t', ⟨hrun', _, _⟩, _⟩ := Driver.wigm p (deleteWithdrawn c) hr hok' hmore
  refine ⟨t, t', hrun, hrun', ?_⟩
  have hm : methodOf c.rule = .wigm := Driver.methodOf_gregory (by rcases hr with hr | hr | hr <;> rw [hr] <;> simp)
  have hI := initState_init (fixedArith p) (fixed_lawful p) c hm hk
  have hS := pow10_pos p
  obtain ⟨o, he, he'⟩ : ∃ o, runRuleSt (fixedArith p) c = wigmCount (fixedArith p) o (initState (fixedArith p) c)
      ∧ runRuleSt (fixedArith p) (deleteWithdrawn c) = wigmCount (fixedArith p) o (initState (fixedArith p) (deleteWithdrawn c)) := by
    rcases hr with hr | hr | hr
    · exact ⟨{ integerQuota := c.intq, batchZero := c.batch == "zero" }, by simp only [runRuleSt, runRuleSt', hr],
        by simp only [runRuleSt, runRuleSt', deleteWithdrawn, hr]⟩
    · exact ⟨{ prf := true }, by simp only [runRuleSt, runRuleSt', hr], by simp only [runRuleSt, runRuleSt', deleteWithdrawn, hr]⟩
    · exact ⟨{ prf := true, prfBatch := true }, by simp only [runRuleSt, runRuleSt', hr],
        by simp only [runRuleSt, runRuleSt', deleteWithdrawn, hr]⟩
  rw [he] at hrun
  rw [he', initState_deleteWithdrawn] at hrun'
  have hG := C01.wigm_start p o _ hI (initState_fresh _ c) (initState_enough _ c hk) rfl
  have hq1 : pow10 p ≤ wigmQuota (fixedArith p) o (initState (fixedArith p) c) := by
    rw [C01.wigmQuota_fixed]
    split
    · have hnn : 0 ≤ pdiv ((initState (fixedArith p) c).nballots : Int) (((initState (fixedArith p) c).seats : Int) + 1) :=
        pdiv_nonneg _ _ (by positivity) (by positivity)
      nlinarith
    · exact C02.fractional_quota_ge_one p _ hmore
  have hL : LStart (fixedArith p) (wigmQuota (fixedArith p) o (initState (fixedArith p) c)) (initState (fixedArith p) c) :=
    C02.start_of_init p _ _ hI hq1 (initState_noW _ c hk)
  exact wigm_dropW (fixedArith p) (fixed_lawful p) (fixed_eqRefl p) 2 (by norm_num) (fixed_rewLower_mulDiv p) o (fun _ => rfl)
    _ t t' hG hL hrun hrun'

/-- **withdrawn means absent, cfer and cfer-batch** -/
theorem cfer_withdrawn_is_absent (p : Nat) (c : Case) (hr : c.rule = "cfer" ∨ c.rule = "cfer-batch") (hok : caseOK c = true) :
    ∃ t t', runRuleSt (fixedArith p) c = some t ∧ runRuleSt (fixedArith p) (deleteWithdrawn c) = some t'
      ∧ t' = Droop.dropW t := by
  have hk := caseOK_iff c hok
  have hk' := caseOK_deleteWithdrawn c hk
  have hok' := caseOK_bool_of _ hk'
  obtain ⟨t, ⟨hrun, _, _⟩, _⟩ := Driver.cfer p c hr hok
  obtain ⟨t', ⟨hrun', _, _⟩, _⟩ := Driver.cfer p (deleteWithdrawn c) hr hok'
  refine ⟨t, t', hrun, hrun', ?_⟩
  have hm : methodOf c.rule = .wigm := Driver.methodOf_gregory (by rcases hr with hr | hr <;> rw [hr] <;> simp)
  have hI := initState_init (fixedArith p) (fixed_lawful p) c hm hk
  obtain ⟨batch, he, he'⟩ : ∃ batch, runRuleSt (fixedArith p) c = cferCount (fixedArith p) batch (initState (fixedArith p) c)
      ∧ runRuleSt (fixedArith p) (deleteWithdrawn c) = cferCount (fixedArith p) batch (initState (fixedArith p) (deleteWithdrawn c)) := by
    rcases hr with hr | hr
    · exact ⟨false, by simp [runRuleSt, runRuleSt', hr], by simp [runRuleSt, runRuleSt', deleteWithdrawn, hr]⟩
    · exact ⟨true, by simp [runRuleSt, runRuleSt', hr], by simp [runRuleSt, runRuleSt', deleteWithdrawn, hr]⟩
  rw [he] at hrun
  rw [he', initState_deleteWithdrawn] at hrun'
  have hG := C01.cfer_start p _ hI (initState_fresh _ c) (initState_enough _ c hk) rfl
  exact cfer_dropW (fixedArith p) (fixed_lawful p) rfl batch _ t t' hG hrun hrun'

/-- **withdrawn means absent, Scottish rule** -/
theorem scotland_withdrawn_is_absent (p : Nat) (c : Case) (hr : c.rule = "scotland") (hok : caseOK c = true) :
    ∃ t t', runRuleSt (fixedArith p) c = some t ∧ runRuleSt (fixedArith p) (deleteWithdrawn c) = some t'
      ∧ t' = Droop.dropW t := by
  have hk := caseOK_iff c hok
  have hk' := caseOK_deleteWithdrawn c hk
  have hok' := caseOK_bool_of _ hk'
  obtain ⟨t, ⟨hrun, _, _⟩, _⟩ := Driver.scotland p c hr hok
  obtain ⟨t', ⟨hrun', _, _⟩, _⟩ := Driver.scotland p (deleteWithdrawn c) hr hok'
  refine ⟨t, t', hrun, hrun', ?_⟩
  have hm : methodOf c.rule = .wigm := Driver.methodOf_gregory (by rw [hr]; simp)
  have hI := initState_init (fixedArith p) (fixed_lawful p) c hm hk
  have he : runRuleSt (fixedArith p) c = scotCount (fixedArith p) (initState (fixedArith p) c) := by
    simp [runRuleSt, runRuleSt', hr]
  have he' : runRuleSt (fixedArith p) (deleteWithdrawn c) = scotCount (fixedArith p) (initState (fixedArith p) (deleteWithdrawn c)) := by
    simp [runRuleSt, runRuleSt', deleteWithdrawn, hr]
  rw [he] at hrun
  rw [he', initState_deleteWithdrawn] at hrun'
  have hS := pow10_pos p
  have hst : ScotStart (fixedArith p) (initState (fixedArith p) c) := by
    refine ⟨hI, ?_, initState_fresh _ c, initState_enough _ c hk⟩
    have hnn : 0 ≤ pdiv ((initState (fixedArith p) c).nballots : Int) (((initState (fixedArith p) c).seats : Int) + 1) :=
      pdiv_nonneg _ _ (by positivity) (by positivity)
    show 0 < (pdiv _ _ + 1) * pow10 p
    positivity
  exact scot_dropW (fixedArith p) (fixed_lawful p) rfl _ t t' hst rfl hrun hrun'

theorem fixed_lt_exact (p : Nat) (a b : Int) : (fixedArith p).lt a b = true ↔ a < b := by
  show (decide (intCmp a b < 0)) = true ↔ a < b
  unfold intCmp
  by_cases h1 : a < b
  · simp [h1]
  · by_cases h2 : a = b
    · subst h2; simp
    · have : ¬ (a == b) = true := by simpa using h2
      simp [h1, this]

/-- **withdrawn means absent, Minneapolis** (profiles without undeclared write-ins) -/
theorem mpls_withdrawn_is_absent (p : Nat) (c : Case) (hr : c.rule = "mpls") (hok : caseOK c = true)
    (hnu : ∀ k ∈ c.cands, k.2.2.2 = false) :
    ∃ t t', runRuleSt (fixedArith p) c = some t ∧ runRuleSt (fixedArith p) (deleteWithdrawn c) = some t'
      ∧ t' = Droop.dropW t := by
  have hk := caseOK_iff c hok
  have hk' := caseOK_deleteWithdrawn c hk
  have hok' := caseOK_bool_of _ hk'
  have hnu' : ∀ k ∈ (deleteWithdrawn c).cands, k.2.2.2 = false := fun k hk => hnu k (List.mem_filter.1 hk).1
  obtain ⟨t, ⟨hrun, _, _⟩, _⟩ := Driver.mpls p c hr hok hnu
  obtain ⟨t', ⟨hrun', _, _⟩, _⟩ := Driver.mpls p (deleteWithdrawn c) hr hok' hnu'
  refine ⟨t, t', hrun, hrun', ?_⟩
  have hm : methodOf c.rule = .wigm := Driver.methodOf_gregory (by rw [hr]; simp)
  have hI := initState_init (fixedArith p) (fixed_lawful p) c hm hk
  have he : runRuleSt (fixedArith p) c = mplsCount (fixedArith p) (initState (fixedArith p) c) := by
    simp [runRuleSt, runRuleSt', hr]
  have he' : runRuleSt (fixedArith p) (deleteWithdrawn c) = mplsCount (fixedArith p) (initState (fixedArith p) (deleteWithdrawn c)) := by
    simp [runRuleSt, runRuleSt', deleteWithdrawn, hr]
  rw [he] at hrun
  rw [he', initState_deleteWithdrawn] at hrun'
  have hS := pow10_pos p
  have hG := C01.mpls_start p _ hI (initState_fresh _ c) (initState_enough _ c hk) rfl
  have hnn : 0 ≤ pdiv ((initState (fixedArith p) c).nballots : Int) (((initState (fixedArith p) c).seats : Int) + 1) :=
    pdiv_nonneg _ _ (by positivity) (by positivity)
  have hq1 : pow10 p ≤ (fixedArith p).ofInt (pdiv (initState (fixedArith p) c).nballots ((initState (fixedArith p) c).seats + 1) + 1) := by
    show pow10 p ≤ (pdiv ((initState (fixedArith p) c).nballots : Int) (((initState (fixedArith p) c).seats : Int) + 1) + 1) * pow10 p
    nlinarith
  have hL := C02.start_of_init p _ _ hI hq1 (initState_noW _ c hk)
  exact mpls_dropW (fixedArith p) (fixed_lawful p) (fixed_lt_exact p) rfl 2 (by norm_num) (fixed_rewLower_mulDiv p) _ t t'
    hG (initState_noUnd _ c hnu) hL hrun hrun'

/-- what the driver prints for the two runs differs only by the withdrawn candidates' rows -/
theorem finish_dropW {α : Type} [CommRing α] [LinearOrder α] [IsStrictOrderedRing α] (A : Arith α) (t : St α) :
    finish A (some (Droop.dropW t)) = match finish A (some t) with
      | .ok acts => .ok (acts.map dropAct)
      | .crash k => .crash k
      | .fuel => .fuel := by
  unfold finish
  dsimp only
  rw [show (Droop.dropW t).crash = t.crash from rfl]
  cases hc : t.crash with
  | some k => rfl
  | none =>
    dsimp only
    rw [← dropW_logAct]
    generalize t.logAct A "end" "Count Complete" [] = s'
    have e1 : (Droop.dropW s').elected = s'.elected := Droop.elected_dropW s'
    have e2 : (Droop.dropW s').eligible = s'.eligible := Droop.eligible_dropW s'
    have e3 : (Droop.dropW s').method = s'.method := rfl
    have e4 : (Droop.dropW s').acts = s'.acts.map dropAct := rfl
    have e5 : (Droop.dropW s').seats = s'.seats := rfl
    rw [e1, e2, e3, e4, e5]
    by_cases hcond : (s'.elected.length == s'.seats || decide (s'.elected.length < s'.seats) && s'.elected.length == s'.eligible.length) = true
    · rw [if_pos hcond, if_pos hcond]
      simp only
      congr 1
      rw [← List.map_reverse, List.filter_map, List.map_map, List.map_map]
      have hp : ((fun a : Act α => a.snap.isSome) ∘ dropAct) = (fun a : Act α => a.snap.isSome) := by
        funext a; simp [dropAct]
      rw [hp]
      apply List.map_congr_left
      intro a _
      simp only [Function.comp]
      split <;> rfl
    · rw [if_neg hcond, if_neg hcond]

end Droop.C11
