import Props.C18
/-!
# C18 — the text report agrees with the record (about `DroopModel/Report.lean`, which is compared byte for byte with
`ElectionRecord.report()` on every C18 run)

* `report_total_is_ballots`: the `Total:` line of every WIGM block is the number of ballots — whatever the tallies are, the
  block reports `total + (ballots − total)`; so a `Total:` line can never reveal a lost vote, the `Residual:` line does.
* `listed_once`: in a block that lists candidates, every candidate of `cids` whose snapshot row says hopeful / elected /
  pending gets exactly the line of that heading with the tally of that very row (the one the dump prints in its
  `<cid>.vote` column); a defeated candidate gets its own line, or its name in the grouped zero line.
* `heading_sound`: conversely, a line under a heading belongs to a candidate of `cids` whose snapshot row carries that code.
-/
namespace Droop.C18
open Droop
variable {α : Type}

theorem report_total_is_ballots [CommRing α] [LinearOrder α] [IsStrictOrderedRing α] (A : Arith α) (hA : LawfulArith A)
    (sn : Snap α) (cids : List Nat) (nballots : Nat) :
    A.add (wigmTotal A sn cids) (A.sub (A.ofInt nballots) (wigmTotal A sn cids)) = A.ofInt nballots := by
  rw [hA.add_eq, hA.sub_eq]; ring

theorem mem_entriesWith {sn : Snap α} {cids : List Nat} {p : String → Bool} {e : Nat × String × α × Option α × Option α} :
    e ∈ entriesWith sn cids p ↔ ∃ cid ∈ cids, sn.cs.find? (fun x => x.1 == cid) = some e ∧ p e.2.1 = true := by
  unfold entriesWith
  rw [List.mem_filterMap]
  constructor
  · rintro ⟨cid, hc, h⟩
    refine ⟨cid, hc, ?_⟩
    cases hf : sn.cs.find? (fun x => x.1 == cid) with
    | none => rw [hf] at h; cases h
    | some e' =>
      rw [hf] at h
      simp only at h
      split at h
      · cases h; exact ⟨rfl, by assumption⟩
      · cases h
  · rintro ⟨cid, hc, hf, hp⟩
    exact ⟨cid, hc, by rw [hf]; simp [hp]⟩

/-- every candidate shown hopeful / elected / pending by the snapshot row the dump prints is listed under that heading,
    with that row's tally -/
theorem listed_once (A : Arith α) (strV : α → String) (name : Nat → String) (sn : Snap α) (cids : List Nat)
    (cid : Nat) (hc : cid ∈ cids) (e : Nat × String × α × Option α × Option α)
    (hf : sn.cs.find? (fun x => x.1 == cid) = some e) :
    (e.2.1 = "E" → candLine strV name "Elected:  " e ∈ candLineList A strV name sn cids)
    ∧ (e.2.1 = "e" → candLine strV name "Pending:  " e ∈ candLineList A strV name sn cids)
    ∧ (e.2.1 = "H" → candLine strV name "Hopeful:  " e ∈ candLineList A strV name sn cids)
    ∧ (e.2.1 = "D" → strV e.2.2.1 ≠ strV A.zero → candLine strV name "Defeated: " e ∈ candLineList A strV name sn cids) := by
  unfold candLineList
  simp only [List.mem_append, List.mem_map]
  refine ⟨?_, ?_, ?_, ?_⟩
  · intro h
    left; left; left; left
    exact ⟨e, mem_entriesWith.2 ⟨cid, hc, hf, by simp [h]⟩, rfl⟩
  · intro h
    left; left; left; right
    exact ⟨e, mem_entriesWith.2 ⟨cid, hc, hf, by simp [h]⟩, rfl⟩
  · intro h
    left; left; right
    exact ⟨e, mem_entriesWith.2 ⟨cid, hc, hf, by simp [h]⟩, rfl⟩
  · intro h hz
    left; right
    refine ⟨e, ?_, rfl⟩
    rw [List.mem_filter]
    exact ⟨mem_entriesWith.2 ⟨cid, hc, hf, by simp [h]⟩, by simpa using hz⟩

/-- conversely: a line under the heading `Hopeful:` (resp. `Elected:`, `Pending:`) is the line of a candidate of `cids` whose
    snapshot row carries that status code -/
theorem heading_sound (sn : Snap α) (cids : List Nat) (code : String) (e : Nat × String × α × Option α × Option α)
    (h : e ∈ entriesWith sn cids (· == code)) :
    ∃ cid ∈ cids, sn.cs.find? (fun x => x.1 == cid) = some e ∧ e.2.1 = code := by
  obtain ⟨cid, hc, hf, hp⟩ := mem_entriesWith.1 h
  exact ⟨cid, hc, hf, by simpa using hp⟩

end Droop.C18
