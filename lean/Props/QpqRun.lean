import DroopProofs.QpqLow
import DroopProofs.QpqSum
import DroopProofs.QpqFig
import DroopProofs.QpqExt
import DroopProofs.CaseInit
import Props.C01
import Props.Driver
/-!
# QPQ at the level of the driver: C01 (seats filled, nobody left undecided), C09 (forward-only status, the restart excepted;
elected within the seats; exclusions leave enough), C07 (who is elected and who is excluded in a round)

`runRuleSt (guardedArith p g) c` with `c.rule = "qpq"` is the run the correspondence check compares with `rules/qpq.py` (QPQ
forces guarded arithmetic with 9+9 digits; the theorems hold for every precision and guard).  `CaseOK c` is the decidable domain
the driver prints for every input.
-/
namespace Droop.QPQ
open Droop

theorem initState_nEl {α : Type} [CommRing α] [LinearOrder α] [IsStrictOrderedRing α] (A : Arith α) (c : Case) :
    nEl (initState A c) = 0 := by
  unfold nEl St.elected
  rw [List.length_eq_zero_iff, List.filter_eq_nil_iff]
  intro x hx
  have := initState_fresh A c x hx
  simpa using this

/-- **C01 for QPQ**: the count returns a state; it never has more than `seats` elected; unless the crash flag is up (the
    implementation raised: a zero quotient, an empty tie) exactly `seats` candidates are elected and no candidate is left
    hopeful — every candidate is elected, defeated or withdrawn. -/
theorem qpq_seats_filled (p g : Nat) (c : Case) (hr : c.rule = "qpq") (hok : CaseOK c) :
    ∃ t, runRuleSt (guardedArith p g) c = some t ∧ nEl t ≤ c.seats
      ∧ (t.crash = none → nEl t = c.seats ∧ nHop t = 0
          ∧ ∀ x ∈ t.cands, x.st = .elected ∨ x.st = .defeated ∨ x.st = .withdrawn) := by
  obtain ⟨t, ht⟩ := C01.qpq_terminates p g c hr hok.nodup
  refine ⟨t, ht, ?_⟩
  unfold runRuleSt at ht
  simp only [runRuleSt', hr] at ht
  have hwf : (initState (guardedArith p g) c).WF := by unfold St.WF; rw [initState_cids]; exact hok.nodup
  have := qpqCount_seats (guardedArith p g) _ t hwf (initState_nEl _ c) (initState_enough _ c hok) ht
  have hs : (initState (guardedArith p g) c).seats = c.seats := rfl
  rw [hs] at this
  refine ⟨this.1, fun hc => ?_⟩
  obtain ⟨a, b⟩ := this.2.2 hc
  exact ⟨a, b, C01.decided_of_no_hopeful t b⟩

/-- **C09 for QPQ, whole count**: candidate by candidate (same ids, same order) the final status is the initial one, or was
    reached from hopeful; a withdrawn candidate stays withdrawn, and nobody becomes withdrawn. -/
theorem qpq_status_forward (p g : Nat) (c : Case) (hr : c.rule = "qpq") (hnd : (c.cands.map (·.1)).Nodup) (t : St Int)
    (ht : runRuleSt (guardedArith p g) c = some t) :
    StFwd true (stsig (initState (guardedArith p g) c)) (stsig t) := by
  unfold runRuleSt at ht
  simp only [runRuleSt', hr] at ht
  exact qpqCount_fwd (guardedArith p g) _ t (by unfold St.WF; rw [initState_cids]; exact hnd) ht

/-- read for one candidate: whatever status candidate `i` ends with, it began with that status or began hopeful -/
theorem qpq_final_status (p g : Nat) (c : Case) (hr : c.rule = "qpq") (hnd : (c.cands.map (·.1)).Nodup) (t : St Int)
    (ht : runRuleSt (guardedArith p g) c = some t) (i : Nat) (st' : CState) (hm : (i, st') ∈ stsig t) :
    (i, st') ∈ stsig (initState (guardedArith p g) c) ∨ (i, CState.hopeful) ∈ stsig (initState (guardedArith p g) c) := by
  obtain ⟨st, hst, hok⟩ := (qpq_status_forward p g c hr hnd t ht).at i st' hm
  rcases hok with h | h | h
  · left; rw [h]; exact hst
  · right; rw [← h.1]; exact hst
  · exfalso
    -- nobody is elected in the initial state
    unfold stsig at hst
    obtain ⟨x, hx, hxe⟩ := List.mem_map.1 hst
    have := initState_fresh (guardedArith p g) c x hx
    have h2 : x.st = st := by cases hxe; rfl
    rw [h2] at this; exact this h.2.1

/-- **C09 for QPQ, one round**: between the state a round starts in and the state it ends in a status is unchanged or moves from
    hopeful to elected / defeated; an elected candidate becomes hopeful again only if a restart was due. -/
theorem qpq_round_forward (p g : Nat) (q : QSt Int) (hwf : q.s.WF) :
    StFwd q.restart (stsig q.s) (stsig (qpqBody (guardedArith p g) q).1.s) := qpqBody_fwd _ q hwf

/-- ... and a restart is due only at the start of the count and after a round that excluded a candidate -/
theorem qpq_restart_only_after_exclusion (p g : Nat) (q : QSt Int) (hwf : q.s.WF)
    (h : (qpqBody (guardedArith p g) q).2 = .cont) (hr : (qpqBody (guardedArith p g) q).1.restart = true) :
    nEl (qpqBody (guardedArith p g) q).1.s = nEl (qR5 (guardedArith p g) q)
      ∧ nHop (qpqBody (guardedArith p g) q).1.s + 1 = nHop (qR5 (guardedArith p g) q) := by
  rw [qpqBody_eq] at h hr ⊢
  have h5 : stsig (qR5 (guardedArith p g) q) = stsig (qR2 (guardedArith p g) q) := (qR5_stsig _ q).1
  have hwf5 : (qR5 (guardedArith p g) q).WF := WF_of_stsig h5 ((qR2_fwd _ q).WF hwf)
  have hd := qDecide_cont (guardedArith p g) (qQ1 _ q) (qR5 _ q) hwf5 (qR5_stsig _ q).2 h
  rcases hd.2 with ⟨r, _, _⟩ | ⟨_, a, b⟩
  · rw [r] at hr; cases hr
  · exact ⟨b, a⟩

/-- **C09 for QPQ, seats**: every round that runs ends with at most `seats` elected and with hopeful + elected at least `seats` -/
theorem qpq_round_seats (p g : Nat) (n : Nat) (q : QSt Int) (hP : QSeats n q.s) (hg : qpqCountComplete q.s = false) :
    nEl (qpqBody (guardedArith p g) q).1.s ≤ n
      ∧ n ≤ nHop (qpqBody (guardedArith p g) q).1.s + nEl (qpqBody (guardedArith p g) q).1.s :=
  qpqLoop_round_seats _ n q hP hg

/-- **C07 for QPQ**: see `Droop.qpq_round_decision` -/
theorem qpq_decision (p g : Nat) (q : QSt Int) (h : (qpqBody (guardedArith p g) q).2 = .cont) :
    (∃ c ∈ (qR5 (guardedArith p g) q).hopeful, (c.cid, CState.elected) ∈ stsig (qpqBody (guardedArith p g) q).1.s
        ∧ (qpqBody (guardedArith p g) q).1.restart = false
        ∧ (qR5 (guardedArith p g) q).quota < qQuot (guardedArith p g) c
        ∧ ∀ d ∈ (qR5 (guardedArith p g) q).hopeful, qQuot (guardedArith p g) d + 2 ≤ qQuot (guardedArith p g) c + 2 * geps g)
    ∨ (∃ c ∈ (qR5 (guardedArith p g) q).hopeful, (c.cid, CState.defeated) ∈ stsig (qpqBody (guardedArith p g) q).1.s
        ∧ (qpqBody (guardedArith p g) q).1.restart = true
        ∧ (∀ d ∈ (qR5 (guardedArith p g) q).hopeful, qQuot (guardedArith p g) d < (qR5 (guardedArith p g) q).quota + 2 * geps g - 1)
        ∧ ∀ d ∈ (qR5 (guardedArith p g) q).hopeful, qQuot (guardedArith p g) c + 2 ≤ qQuot (guardedArith p g) d + 2 * geps g) := by
  rw [qpqBody_eq] at h ⊢
  exact qpq_round_decision p g (qQ1 _ q) (qR5 _ q) (qR5_stsig _ q).2 h

/-- **C04 for QPQ**: the quota every decision is taken on is the prescribed one — the ballots standing with a candidate, divided by
    one more than the seats less the contributions of the exhausted ballots (Woodall's `va / (1 + s − tx)`), in the rule's arithmetic;
    and each hopeful candidate's quotient is its ballots over one plus their contributions.  Who is then elected: `qpq_decision`. -/
theorem qpq_quota_prescribed (p g : Nat) (q : QSt Int) (hwf : q.s.WF) :
    (qR5 (guardedArith p g) q).quota
        = (guardedArith p g).divV (activeMg (guardedArith p g) (qR2 (guardedArith p g) q).ballots)
            ((guardedArith p g).sub ((guardedArith p g).ofInt (1 + (qR2 (guardedArith p g) q).seats)) (exhWg (qR2 (guardedArith p g) q).ballots))
    ∧ ∀ c ∈ (qR5 (guardedArith p g) q).hopeful,
        c.vote = topMg (guardedArith p g) (qR2 (guardedArith p g) q).ballots c.cid
        ∧ c.tc = topWg (qR2 (guardedArith p g) q).ballots c.cid
        ∧ c.quotient = some ((guardedArith p g).divV c.vote ((guardedArith p g).add (guardedArith p g).one c.tc)) :=
  ⟨qR5_quota_gen _ (guarded_lawful p g) q, fun c hc => qR5_figures_gen _ (guarded_lawful p g) q hwf c hc⟩

/-- with no guard digits "within the tolerance" is "exactly": the excluded candidate has the lowest stored quotient -/
theorem geps_zero : geps 0 = 1 := by decide

end Droop.QPQ

namespace Droop.QPQ

/-- **C02 for QPQ, exact arithmetic**: run the QPQ model with exact rational arithmetic on any case with distinct candidate ids.  In
    the state the loop of rounds returns — crash flag down, no restart pending — the fractions of a candidate that the ballots have
    contributed (`Σ weight × multiplier` over all ballot lines, exhausted ones included) sum to exactly the number of candidates
    elected.  `qpqBody_wsum` is the same statement for every single round.  (Under the guarded arithmetic the rule forces, the sum is
    within the truncation allowance: judged on both records by the `okC02Qpq` oracle.) -/
theorem qpq_contributions_exact (c : Case) (hnd : (c.cands.map (·.1)).Nodup) (fuel : Nat) (r : QSt ℚ)
    (h : qpqLoop rationalArith fuel (qpqStart rationalArith (initState rationalArith c)) = some r)
    (hcr : r.s.crash = none) (hr : r.restart = false) :
    wsum r.s.ballots = (nEl r.s : ℚ) := by
  have hwf : (initState rationalArith c).WF := by unfold St.WF; rw [initState_cids]; exact hnd
  have hwf1 : (qpqStart rationalArith (initState rationalArith c)).s.WF := WF_of_stsig (qpqStart_stsig _ _) hwf
  exact qpqLoop_wsum fuel _ r hwf1 (fun h0 => by cases h0) h hcr hr

/-- non-vacuity: on the sample profile the loop returns with the flag down, no restart pending, one candidate elected and
    contributions summing to 1 -/
example : (qpqLoop rationalArith 20 (qpqStart rationalArith (initState rationalArith { Driver.sample with rule := "qpq" }))).map
    (fun r => (r.s.crash, r.restart, wsum r.s.ballots, nEl r.s)) = some (none, false, 1, 1) := by decide +kernel

/-- non-vacuity: the sample profile under QPQ lies in the domain, and its count ends without the crash flag (so the theorem
    says: one seat filled, everybody decided) -/
example : caseOK { Driver.sample with rule := "qpq" } = true := by decide
example : (runRuleSt (guardedArith 9 9) { Driver.sample with rule := "qpq" }).map (fun t => (t.crash, nEl t, nHop t))
    = some (none, 1, 0) := by decide +kernel
end Droop.QPQ

namespace Droop.QPQ
/-- **C18 / C19 for QPQ**: the record only grows — the log of the state the count starts from (and, `ext_qpqBody`, of the state every
    round starts from) is a suffix, newest first, of the log of whatever comes later; an interrupted count has logged a prefix of
    what the full count logs -/
theorem qpq_record_append_only (p g : Nat) (c : Case) (hr : c.rule = "qpq") (t : St Int)
    (ht : runRuleSt (guardedArith p g) c = some t) : Ext (initState (guardedArith p g) c) t := by
  unfold runRuleSt at ht
  simp only [runRuleSt', hr] at ht
  exact qpq_record_appendOnly (guardedArith p g) _ t ht

theorem qpq_round_appends (p g : Nat) (q : QSt Int) : Ext q.s (qpqBody (guardedArith p g) q).1.s := ext_qpqBody _ q
end Droop.QPQ
