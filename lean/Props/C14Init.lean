import Props.C14Prog
import Props.C20
/-!
# C14 / C20: `__str__` on the class state `initialize` leaves is the `str` the C14 theorems are about

`strFixedS` / `strGuardedS` (DroopModel/Session.lean) are `Fixed.__str__` / `Guarded.__str__` reading the *class attributes*; `fixedInitS` /
`guardedInitS` are `initialize` writing them.  Whatever class state earlier elections left behind, after a successful `initialize` with
configuration `fixed p d` / `guarded p g d`, `__str__` is `strFixed p d` / `strGuarded p g d` — the functions `fixed_units_round_half_up`,
`guarded_units_round_half_up`, `render_recombines`, `render_shape` (Props/C14.lean) and the source trees of Props/C14Prog.lean speak about.
-/
namespace Droop.C14
open Droop

theorem ipow10_toNat (n : Int) : ipow10 n = pow10 n.toNat := rfl

/-- **Fixed**: after a successful `initialize`, printing reads exactly the configuration it returned -/
theorem fixed_str_after_init (o o' : Options) (st : FixedSt) (p d : Nat) (v : Int)
    (h : (fixedInitS o st).2 = .ok (o', .fixed p d)) : strFixedS (fixedInitS o st).1 v = some (strFixed p d v) := by
  unfold fixedInitS at h ⊢
  simp only at h ⊢
  unfold fixedTrace at h ⊢
  simp only at h ⊢
  split at h
  · simp at h
  · split at h
    · simp at h
    · split at h
      · simp at h
      · simp at h
      · split at h
        · simp at h
        · split at h
          · simp at h
          · split at h
            · simp at h
            · simp at h
            · rename_i hA _ _ _ _ _ pp _ hB _ _ _ _ d0 _
              simp only [hA, hB, if_false, Bool.false_eq_true, List.foldl_cons, List.foldl_nil, FixedSt.write]
              simp only [Except.ok.injEq, Prod.mk.injEq, ArithCfg.fixed.injEq] at h
              obtain ⟨_, hp, hd⟩ := h
              have hpp : 0 ≤ pp := by
                simp only [Bool.or_eq_true, decide_eq_true_eq, not_or, not_lt] at hB
                exact hB.1
              generalize hdd : (if d0 < 0 || d0 > pp then pp else d0) = dd at hd ⊢
              have hdd0 : 0 ≤ dd ∧ dd ≤ pp := by
                rw [← hdd]
                by_cases hc : (d0 < 0 || d0 > pp) = true
                · rw [if_pos hc]; exact ⟨hpp, le_refl _⟩
                · rw [if_neg hc]
                  simp only [Bool.or_eq_true, decide_eq_true_eq, not_or, not_lt] at hc
                  exact ⟨hc.1, hc.2⟩
              have e1 : pp = (p : Int) := by omega
              have e2 : dd = (d : Int) := by omega
              subst e1 e2
              unfold strFixedS strFixed renderUnits fixedUnits roundUnits
              simp only [Option.bind_some, bind, pure]
              by_cases hp0 : p = 0
              · subst hp0; simp
              · have hp0' : ¬ ((p : Int) == 0) = true := by simpa using hp0
                have hp0'' : (p == 0) = false := by simpa using hp0
                simp only [hp0', hp0'', if_false, Bool.false_eq_true]
                by_cases hlt : d < p
                · have hlt' : (d : Int) < p := by exact_mod_cast hlt
                  have hsub : ((p : Int) - (d : Int)).toNat = p - d := by omega
                  simp [hlt, hlt', ipow10_toNat, hsub]
                · have hlt' : ¬ ((d : Int) < p) := by exact_mod_cast hlt
                  simp [hlt, hlt', ipow10_toNat]

/-- **Guarded**: after a successful `initialize`, printing reads exactly the configuration it returned -/
theorem guarded_str_after_init (o o' : Options) (st : GuardedSt) (p g d : Nat) (v : Int)
    (h : (guardedInitS o st).2 = .ok (o', .guarded p g d)) : strGuardedS (guardedInitS o st).1 v = some (strGuarded p g d v) := by
  unfold guardedInitS at h ⊢
  simp only at h ⊢
  unfold guardedTrace at h ⊢
  simp only at h ⊢
  split at h
  · simp at h
  · split at h
    · simp at h
    · split at h
      · simp at h
      · split at h
        · simp at h
        · split at h
          · simp at h
          · split at h
            · simp at h
            · rename_i hA _ p' _ _ _ _ _ g' _ _ _ _ _ d0 _
              simp only [hA, if_false, Bool.false_eq_true]
              simp only [Except.ok.injEq, Prod.mk.injEq, ArithCfg.guarded.injEq] at h
              obtain ⟨_, hp, hg, hd⟩ := h
              subst hp hg
              unfold guardedTail
              unfold strGuardedS strGuarded renderUnits guardedUnits roundUnits
              by_cases hc : d0 > p' + g'
              · have hdd : d = p' + g' := by rw [← hd, if_pos hc]
                subst hdd
                by_cases hdp : p' + g' > p'
                · have hle : ¬ p' + g' ≤ p' := by omega
                  have ht : (((p' + g' : Nat) : Int) - (p' : Int)).toNat = p' + g' - p' := by omega
                  by_cases hg0 : (g' == 0) = true
                  · exfalso
                    have : g' = 0 := by simpa using hg0
                    omega
                  · have hne : ¬ g' = 0 := by simpa using hg0
                    simp [hc, hdp, hg0, GuardedSt.write, bind, pure, hle, hne]
                · have hle : p' + g' ≤ p' := by omega
                  have hg00 : g' = 0 := by omega
                  have hg0 : (g' == 0) = true := by simpa using hg00
                  have hc' : p' < d0 := by omega
                  simp [hc', hg00, GuardedSt.write, bind, pure]
              · have hdd : d = d0 := by rw [← hd, if_neg hc]
                subst hdd
                by_cases hdp : d > p'
                · have hle : ¬ d ≤ p' := by omega
                  have ht : ((d : Int) - (p' : Int)).toNat = d - p' := by omega
                  by_cases hg0 : (g' == 0) = true <;> simp [hc, hdp, hg0, GuardedSt.write, bind, pure, hle, ht]
                · have hle : d ≤ p' := by omega
                  by_cases hg0 : (g' == 0) = true <;> simp [hc, hdp, hg0, GuardedSt.write, bind, pure, hle]

end Droop.C14
