import Props.C18
/-!
# C18: the column structure of the dump, as read from the source

`harness/gen_dump.py` extracts from `ElectionRecord.dump` the fixed header columns, the per-candidate header columns and the tags whose rows
carry the message, and from the `dump` hooks of `MethodMeek`, `MethodWIGM` and rules/qpq.py — accepted in one shape only — four lists each:
header extras, per-candidate header extras (`'%s.x' % cid`), the `action[...]` keys of a row, the `cstate[...]` keys per candidate.  The tables
are kernel-checked equal to the ones committed here on every C18 run; the theorems say that the model's `dumpHeader` and `dumpRow`
(DroopModel/Render.lean, compared with the real dump text by the `DUMP` correspondence) are the evaluation of these tables.
-/
namespace Droop.C18
open Droop

/-- (method, header extras, per-candidate header extras, action keys, cstate keys) -/
def dumpHooks : List (String × List String × List String × List String × List String) :=
  [("meek", ["Votes", "Surplus", "Residual"], ["%s.vote", "%s.kf"], ["votes", "surplus", "residual"], ["vote", "kf"]),
   ("wigm", ["Non-Transferable"], ["%s.vote"], ["nt_votes"], ["vote"]),
   ("qpq", [], ["%s.quotient"], [], ["quotient"])]
def dumpBase : List String := ["R", "Action", "Quota"]
def dumpCand : List String := ["%s.name", "%s.state"]
def dumpMsgTags : List String := ["round", "log", "iterate"]

def methodKey : Method → String
  | .wigm => "wigm" | .meek => "meek" | .qpq => "qpq"

def hookOf (m : Method) : List String × List String × List String × List String :=
  match dumpHooks.find? (·.1 == methodKey m) with
  | some r => r.2
  | none => ([], [], [], [])

/-- Python `'%s.x' % cid` -/
def instCid (fmt : String) (cid : Nat) : String := toString cid ++ (fmt.drop 2).toString

/-- the header line the tables prescribe -/
def headerOf (m : Method) (ecids : List Nat) : List String :=
  dumpBase ++ (hookOf m).1 ++ ecids.flatMap (fun cid => (dumpCand ++ (hookOf m).2.1).map (fun f => instCid f cid))

/-- **the model's dump header is the one the source's tables prescribe** -/
theorem dumpHeader_is_table (m : Method) (ecids : List Nat) : dumpHeader m ecids = headerOf m ecids := by
  have h1 : ("%s.name".drop 2).copy = ".name" := by decide
  have h2 : ("%s.state".drop 2).copy = ".state" := by decide
  have h3 : ("%s.vote".drop 2).copy = ".vote" := by decide
  have h4 : ("%s.kf".drop 2).copy = ".kf" := by decide
  have h5 : ("%s.quotient".drop 2).copy = ".quotient" := by decide
  cases m <;> simp [dumpHeader, headerOf, hookOf, dumpHooks, methodKey, dumpBase, dumpCand, instCid, List.flatMap, h1, h2, h3, h4, h5] <;> rfl

variable {α : Type}

/-- the figure an `action[...]` key of a dump hook denotes in the model's snapshot -/
def actionField (_m : Method) (sn : Snap α) : String → α
  | "votes" => sn.votes
  | "surplus" => sn.x2
  | "residual" => sn.x1
  | "nt_votes" => sn.x1
  | _ => sn.quota

/-- the per-candidate figure a `cstate[...]` key denotes -/
def cstateField (strV : α → String) (e : Nat × String × α × Option α × Option α) : String → String
  | "vote" => strV e.2.2.1
  | "kf" => (e.2.2.2.1.map strV).getD "None"
  | "quotient" => (e.2.2.2.2.map strV).getD "None"
  | _ => ""

/-- a figure row as the tables prescribe it -/
def rowOf (strV : α → String) (name : Nat → String) (m : Method) (ecids : List Nat) (a : Act α) (sn : Snap α) : List String :=
  [if a.tag == "end" then "X" else toString a.round, a.tag, strV sn.quota] ++ (hookOf m).2.2.1.map (fun k => strV (actionField m sn k)) ++
  ecids.flatMap (fun cid =>
    match sn.cs.find? (fun e => e.1 == cid) with
    | some e => [name cid, e.2.1] ++ (hookOf m).2.2.2.map (cstateField strV e)
    | none => [])

/-- **the model's dump rows are the ones the source's tables prescribe**: a row without a snapshot (`log`) or with tag `round` / `iterate`
    carries the message; every other row the figures in the hooks' order -/
theorem dumpRow_is_table (strV : α → String) (name : Nat → String) (m : Method) (ecids : List Nat) (a : Act α) :
    dumpRow strV name m ecids a =
      match a.snap with
      | none => [toString a.round, a.tag, actMsg strV name a]
      | some sn => if a.tag == "round" || a.tag == "iterate" then [toString a.round, a.tag, actMsg strV name a]
                   else rowOf strV name m ecids a sn := by
  unfold dumpRow
  cases a.snap with
  | none => rfl
  | some sn =>
    simp only
    split
    · rfl
    · cases m <;> simp [rowOf, hookOf, dumpHooks, methodKey, actionField, cstateField] <;>
        (congr 1; funext cid; cases sn.cs.find? (fun e => e.1 == cid) <;> simp)

end Droop.C18
