import Props.C06Transfer
/-!
# C06: which ballots a transfer touches, as read from the source

`harness/gen_moves.py` lists every filtered iteration over `E.ballots` in the rule modules with its predicate — accepted predicates are
`b.topRank == <x>.cid`, `b.topRank in cids` (the ballots standing with the candidate(s) whose votes are transferred), `b.topCand`,
`b.topCand.isUndeclared`, `not b.exhausted` — kernel-checked equal to `moveTable` on every C06 run.  `tstep_touches_iff`: the model's transfer
step leaves a ballot exactly as it is unless its current top candidate is in the list handed to `transferAll` — re-weighting and moving on
happen to those ballots and to no others.
-/
namespace Droop.C06
open Droop

def moveTable : List (String × String) :=
  [("cfer", "b.topRank == c.cid"), ("cfer", "b.topRank in cids"), ("meek", "b.topCand"), ("mpls", "b.topCand.isUndeclared"),
   ("mpls", "b.topRank in [c.cid for c in defeatCandidates]"), ("mpls", "b.topRank == high_candidate.cid"),
   ("mpls", "b.topRank == low_candidate.cid"), ("qpq", "not b.exhausted"), ("qpq", "b.topRank == high_candidate.cid"),
   ("qpq", "b.topRank == low_candidate.cid"), ("scotland", "b.topRank == high_candidate.cid"), ("scotland", "b.topRank == low_candidate.cid"),
   ("wigm", "b.topRank == high_candidate.cid"), ("wigm", "b.topRank == c.cid"), ("wigm_prf", "b.topRank in cids"),
   ("wigm_prf", "b.topRank == high_candidate.cid"), ("wigm_prf", "b.topRank == low_candidate.cid")]

/-- every use of the ballot list in the rule modules and election.py that could depend on a ballot's *position* (subscript, `enumerate`, `zip`,
    `sorted`, `reversed`, `len`, `.sort/.reverse/.index/.pop/.insert/.remove`): none — the rules only ever iterate over the list, which is the
    modelling assumption behind C10's reordering theorems (`St.ballots` is folded over, never indexed) -/
def ballotPositionUses : List (String × String) := []

variable {α : Type} (A : Arith α)

/-- a ballot whose top candidate is not among `cids` (or which is exhausted) is left exactly as it is, and so is the state -/
theorem tstep_untouched (cids : List Nat) (rew : α → α) (acc : St α × List (Ballot α)) (b : Ballot α)
    (h : ∀ c, b.top = some c → cids.contains c = false) : tstep A cids rew acc b = (acc.1, b :: acc.2) := by
  unfold tstep
  cases hb : b.top with
  | none => rfl
  | some c =>
    have hc := h c hb
    simp only [hc, Bool.false_eq_true, if_false]

/-- a ballot standing with one of `cids` is re-weighted by `rew` and handed to `transferBallot` -/
theorem tstep_touched (cids : List Nat) (rew : α → α) (acc : St α × List (Ballot α)) (b : Ballot α) (c : Nat)
    (hb : b.top = some c) (hc : cids.contains c = true) :
    tstep A cids rew acc b =
      ((transferBallot A acc.1 { b with w := rew b.w }).1, (transferBallot A acc.1 { b with w := rew b.w }).2 :: acc.2) := by
  unfold tstep
  rw [hb]
  simp only [hc, if_true]

/-- **touched iff standing with a transferred candidate**: the step changes the ballot list entry only in that case -/
theorem tstep_touches_iff (cids : List Nat) (rew : α → α) (acc : St α × List (Ballot α)) (b : Ballot α) :
    (∃ c, b.top = some c ∧ cids.contains c = true) ∨ tstep A cids rew acc b = (acc.1, b :: acc.2) := by
  by_cases h : ∃ c, b.top = some c ∧ cids.contains c = true
  · exact Or.inl h
  · right
    apply tstep_untouched
    intro c hc
    by_contra hne
    exact h ⟨c, hc, by simpa using hne⟩

end Droop.C06
