import Props.C15
/-!
# C15 / C16: the dispatch of `[...]` options, as read from the source

`harness/gen_bltopts.py` reads the `if option_name == ... elif ... else: raise ElectionProfileError` chain at the end of
`ElectionProfile.__bltOption` and lists (option name, handler statement) in order; kernel-checked equal to `bltDispatch` on every C15 and C16
run.  The theorems: the model's `bltApply` knows exactly these five names, rejects every other name with the profile error (never anything
else), and a `[droop ...]` block *appends* its arguments to the options gathered so far (several blocks accumulate).
-/
namespace Droop.C15
open Droop

def bltDispatch : List (String × String) :=
  [("tie", "self.__bltOptionTie(option_list)"),
   ("nick", "self.__bltOptionNick(option_list)"),
   ("droop", "self.options.extend(option_list)"),
   ("withdrawn", "self.__bltOptionWithdrawn(option_list)"),
   ("undeclared", "self.__bltOptionUndeclared(option_list)")]

/-- an option name outside the table is the package's own profile error -/
theorem unknown_option_is_rejected (pr : Prof) (name : String) (l : List String)
    (h : (bltDispatch.map (·.1)).contains name = false) : bltApply pr name l = .error .profile := by
  simp only [bltDispatch, List.map_cons, List.map_nil, List.contains_cons, List.contains_nil, Bool.or_false, Bool.or_eq_false_iff,
    beq_eq_false_iff_ne, ne_eq] at h
  obtain ⟨h1, h2, h3, h4, h5⟩ := h
  unfold bltApply
  simp [h1, h2, h3, h4, h5]
  rfl

/-- `[droop a b c]`: `self.options.extend(option_list)` — appended, nothing replaced, nothing else touched -/
theorem droop_block_appends (pr : Prof) (l : List String) :
    bltApply pr "droop" l = .ok { pr with options := pr.options ++ l } := by
  unfold bltApply
  simp
  rfl

/-- two `[droop ...]` blocks give the concatenation of their arguments -/
theorem droop_blocks_accumulate (pr : Prof) (l1 l2 : List String) :
    (bltApply pr "droop" l1 >>= fun pr' => bltApply pr' "droop" l2) = .ok { pr with options := pr.options ++ l1 ++ l2 } := by
  rw [droop_block_appends]
  show bltApply { pr with options := pr.options ++ l1 } "droop" l2 = _
  rw [droop_block_appends]

end Droop.C15
