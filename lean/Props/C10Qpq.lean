import Props.C10Run
import DroopProofs.SplitQ
/-!
# C10 for QPQ: splitting a ballot line through its multiplier (and merging identical lines) changes nothing

`qpq_split`: for every case under rule `qpq`, every lawful arithmetic (restated for the guarded arithmetic the rule forces),
replacing the `i`-th ballot line `(m, r)` by `(min m₁ m, r)` and `(m − min m₁ m, r)` gives the run of the original case with that
ballot — and its entry in every logged ballot view — duplicated: the same candidates, quotients, quota, actions, statuses, winners.
Together with `splitLine_merge` (two adjacent identical lines are the split of their merger) this is the merging direction too.
-/
namespace Droop.C10
open Droop

theorem qpq_split {α : Type} [CommRing α] [LinearOrder α] [IsStrictOrderedRing α] (A : Arith α) (hA : LawfulArith A)
    (c : Case) (hr : c.rule = "qpq") (i m1 : Nat) :
    runRuleSt A (splitLine i m1 c) = (runRuleSt A c).map (xB (splitBallots i m1) (splitViews i)) := by
  have h1 : runRuleSt A (splitLine i m1 c) = runRuleSt' A c (xB (splitBallots i m1) (splitViews i) (initState A c)) := by
    unfold runRuleSt
    rw [runRuleSt'_splitLine, initState_splitLine A]
  rw [h1]
  unfold runRuleSt
  simp only [runRuleSt', hr]
  exact qpq_xB A (XQ_split A hA i m1) _

theorem qpq_split_guarded (p g : Nat) (c : Case) (hr : c.rule = "qpq") (i m1 : Nat) :
    runRuleSt (guardedArith p g) (splitLine i m1 c)
      = (runRuleSt (guardedArith p g) c).map (xB (splitBallots i m1) (splitViews i)) :=
  qpq_split (guardedArith p g) (guarded_lawful p g) c hr i m1

/-- non-vacuity: splitting the first line of the sample profile (2 ballots) into 1 + 1 gives a different case -/
example : (splitLine 0 1 { Driver.sample with rule := "qpq" }).ballots = [(1, [1, 2]), (1, [1, 2]), (1, [2])] := by decide

end Droop.C10
