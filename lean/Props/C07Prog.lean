import DroopProofs
/-!
# C07: the sort keys of candidates.py, translated from the source

`Candidates.byVote`, `byBallotOrder` and `byTieOrder` are `sorted(candidates, key=lambda c: <key>, reverse=reverse)`.  `harness/gen_keys.py`
translates each key (an attribute or a tuple of attributes of the candidate) into a list of fields; the kernel checks the lists equal to the
ones committed here on every C07 run, and this file proves that the model's comparators are CPython's comparison of those keys (tuples
compare at the first position where the components are not `==`).  The tie-break order is a key of its own: a change of the secondary key
of `byVote` from ballot order to tie-break order (seed C07-9) is a different list.
-/
namespace Droop.C07
open Droop

inductive KeyField | vote | order | tieOrder
deriving DecidableEq, Repr

variable {α : Type}

/-- CPython's `<` on the key tuples: walk the fields, decide at the first one on which the two candidates differ (`==` of the
    arithmetic for a tally, equality of integers otherwise) -/
def keyLt (A : Arith α) : List KeyField → Cand α → Cand α → Bool
  | [], _, _ => false
  | [.vote], a, b => A.lt a.vote b.vote
  | [.order], a, b => a.order < b.order
  | [.tieOrder], a, b => a.tie < b.tie
  | .vote :: rest, a, b => if !(A.eq a.vote b.vote) then A.lt a.vote b.vote else keyLt A rest a b
  | .order :: rest, a, b => if a.order != b.order then a.order < b.order else keyLt A rest a b
  | .tieOrder :: rest, a, b => if a.tie != b.tie then a.tie < b.tie else keyLt A rest a b

def byVoteKey : List KeyField := [.vote, .order]
def byBallotOrderKey : List KeyField := [.order]
def byTieOrderKey : List KeyField := [.tieOrder]

theorem voteKeyLt_is_program (A : Arith α) (a b : Cand α) : voteKeyLt A a b = keyLt A byVoteKey a b := rfl

theorem byVote_is_program (A : Arith α) (rev : Bool) (l : List (Cand α)) :
    byVote A rev l = pySorted (keyLt A byVoteKey) rev l := rfl

theorem byBallotOrder_is_program (A : Arith α) (l : List (Cand α)) :
    byBallotOrder l = pySorted (keyLt A byBallotOrderKey) false l := rfl

theorem byTieOrder_is_program (A : Arith α) (l : List (Cand α)) :
    byTieOrder l = pySorted (keyLt A byTieOrderKey) false l := rfl

end Droop.C07
