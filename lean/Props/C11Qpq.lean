import Props.C11Run
import DroopProofs.DropWQpq
/-!
# C11, second clause, for QPQ: marking a candidate withdrawn yields the record obtained by deleting that candidate

`qpq_withdrawn_is_absent`: for every case with distinct candidate ids under rule `qpq` (guarded arithmetic of any precision and
guard), the run on the case with the withdrawn candidates deleted from the candidate list returns exactly the state of the run on
the full case with the withdrawn candidates deleted from the candidate list, from the saved rounds and from every snapshot of the
record — the same actions in the same order with the same tallies, quotients and quota.  (Ballots never rank a withdrawn candidate:
`ElectionProfile` removes them on reading, C15.)  No hypothesis on the ballots.
-/
namespace Droop.C11
open Droop

theorem qpq_withdrawn_is_absent (p g : Nat) (c : Case) (hr : c.rule = "qpq") (hnd : (c.cands.map (·.1)).Nodup) :
    runRuleSt (guardedArith p g) (deleteWithdrawn c) = (runRuleSt (guardedArith p g) c).map Droop.dropW := by
  have hr' : (deleteWithdrawn c).rule = "qpq" := hr
  unfold runRuleSt
  simp only [runRuleSt', hr, hr']
  rw [initState_deleteWithdrawn]
  exact qpq_dropW (guardedArith p g) _ (by unfold St.WF; rw [initState_cids]; exact hnd)

/-- non-vacuity: the sample profile has a withdrawn candidate (number 3) -/
example : (deleteWithdrawn { Driver.sample with rule := "qpq" }).cands.length = 2
    ∧ ({ Driver.sample with rule := "qpq" } : Case).cands.length = 3 := by decide

end Droop.C11
