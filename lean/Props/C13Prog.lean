import DroopModel
import DroopProofs
/-!
# C13: `Guarded.__cmp__` and the rich comparisons, obtained from the source by symbolic execution

`harness/gen_cmp.py` executes `Guarded.__cmp__` symbolically (forking at every `if`; a chained comparison is a conjunction; an assignment to
`Guarded.maxDiff` / `Guarded.minDiff` is a state update followed by the rest of the body) and checks that the six rich comparisons of
`Guarded` are `self.__cmp__(other) <op> 0` and those of `Fixed` are the integer comparison of the two `_value`s; the kernel checks the
program and the two tables equal to the ones committed here on every C13 run.  `cmp_is_program` proves that the program computes exactly the
model's comparison (`guardedCmp`: within `geps` of each other = equal) *and* the model's statistics bookkeeping (`statsStep`).
-/
namespace Droop.C13
open Droop

/-- integer terms of `__cmp__`: `self._value`, `other._value`, the class attributes, `abs(x - y)`, literals -/
inductive CE | a | b | geps | maxDiff | minDiff | absdiff (x y : CE) | lit (n : Int)
deriving DecidableEq, Repr

inductive CB | lt (x y : CE) | le (x y : CE) | gt (x y : CE) | ge (x y : CE) | eq (x y : CE) | ne (x y : CE) | and (p q : CB)
deriving DecidableEq, Repr

/-- the body of `__cmp__` as a tree: return an integer, branch, or update a statistic and go on -/
inductive CP | ret (n : Int) | ite (c : CB) (t e : CP) | setMax (e : CE) (k : CP) | setMin (e : CE) (k : CP)
deriving DecidableEq, Repr

def CE.eval (va vb vg : Int) (s : CmpStats) : CE → Int
  | .a => va | .b => vb | .geps => vg | .maxDiff => s.maxDiff | .minDiff => s.minDiff
  | .absdiff x y => ((x.eval va vb vg s - y.eval va vb vg s).natAbs : Int)
  | .lit n => n

def CB.eval (va vb vg : Int) (s : CmpStats) : CB → Bool
  | .lt x y => decide (x.eval va vb vg s < y.eval va vb vg s)
  | .le x y => decide (x.eval va vb vg s ≤ y.eval va vb vg s)
  | .gt x y => decide (x.eval va vb vg s > y.eval va vb vg s)
  | .ge x y => decide (x.eval va vb vg s ≥ y.eval va vb vg s)
  | .eq x y => decide (x.eval va vb vg s = y.eval va vb vg s)
  | .ne x y => decide (x.eval va vb vg s ≠ y.eval va vb vg s)
  | .and p q => p.eval va vb vg s && q.eval va vb vg s

def CP.eval (va vb vg : Int) (s : CmpStats) : CP → Int × CmpStats
  | .ret n => (n, s)
  | .ite c t e => if c.eval va vb vg s then t.eval va vb vg s else e.eval va vb vg s
  | .setMax e k => k.eval va vb vg { s with maxDiff := e.eval va vb vg s }
  | .setMin e k => k.eval va vb vg { s with minDiff := e.eval va vb vg s }

/-! ## the committed program and tables (what the source says today) -/

def G : CE := .absdiff .a .b
def decideP : CP := .ite (.lt G .geps) (.ret 0) (.ite (.gt .a .b) (.ret 1) (.ret (-1)))
def minP : CP := .ite (.and (.le .geps G) (.lt G .minDiff)) (.setMin G decideP) decideP
def cmpProg : CP := .ite (.and (.gt .geps G) (.gt G .maxDiff)) (.setMax G minP) minP

def guardedOps : List (String × String) :=
  [("__eq__", "=="), ("__ne__", "!="), ("__lt__", "<"), ("__le__", "<="), ("__gt__", ">"), ("__ge__", ">=")]
def fixedOps : List (String × String) :=
  [("__eq__", "__eq__"), ("__ne__", "__ne__"), ("__lt__", "__lt__"), ("__le__", "__le__"), ("__gt__", "__gt__"), ("__ge__", "__ge__")]

/-! ## the program is the model -/

set_option linter.unusedSimpArgs false in
/-- **`Guarded.__cmp__` as read from the source**: its result is the model's `guardedCmp`, and what it does to the class statistics is the
    model's `statsStep`, for every pair of stored values, every number of guard digits and every earlier state of the statistics -/
theorem cmp_is_program (g : Nat) (s : CmpStats) (x y : Int) :
    cmpProg.eval x y (geps g) s = (guardedCmp g x y, statsStep g s (x, y)) := by
  unfold guardedCmp statsStep
  simp only [cmpProg, minP, decideP, G, CP.eval, CB.eval, CE.eval, Bool.and_eq_true, decide_eq_true_eq, Int.natCast_natAbs]
  generalize |x - y| = d
  by_cases h1 : d < geps g
  · have h1' : ¬ geps g ≤ d := not_le.2 h1
    by_cases h2 : s.maxDiff < d <;> by_cases h3 : d < s.minDiff <;> by_cases h4 : y < x <;> simp [h1, h1', h2, h3, h4]
  · have h1' : geps g ≤ d := not_lt.1 h1
    by_cases h2 : s.maxDiff < d <;> by_cases h3 : d < s.minDiff <;> by_cases h4 : y < x <;> simp [h1, h1', h2, h3, h4]

/-- the comparisons the rules use are `__cmp__` against 0, as in `guardedOps` -/
theorem guarded_ops_are_cmp (p g : Nat) (x y : Int) :
    (guardedArith p g).eq x y = (guardedCmp g x y == 0) ∧ (guardedArith p g).lt x y = decide (guardedCmp g x y < 0)
    ∧ (guardedArith p g).le x y = decide (guardedCmp g x y ≤ 0) ∧ (guardedArith p g).gt x y = decide (guardedCmp g x y > 0)
    ∧ (guardedArith p g).ge x y = decide (guardedCmp g x y ≥ 0) := ⟨rfl, rfl, rfl, rfl, rfl⟩

/-- Fixed compares the stored integers, as in `fixedOps` -/
theorem fixed_ops_are_int (p : Nat) (x y : Int) :
    (fixedArith p).eq x y = decide (x = y) ∧ (fixedArith p).lt x y = decide (x < y) ∧ (fixedArith p).le x y = decide (x ≤ y)
    ∧ (fixedArith p).gt x y = decide (x > y) ∧ (fixedArith p).ge x y = decide (x ≥ y) := by
  have hc : ∀ a b : Int, (fixedArith p).cmp a b = intCmp a b := fun _ _ => rfl
  refine ⟨?_, ?_, ?_, ?_, ?_⟩ <;> simp only [Arith.eq, Arith.lt, Arith.le, Arith.gt, Arith.ge, hc, intCmp] <;>
    (by_cases h1 : x < y <;> by_cases h2 : x = y <;> simp [h1, h2] <;> omega)

/-- the program on concrete values (a test): 5+2 digits, two values 3 units apart are equal, the statistic records the 3 -/
example : cmpProg.eval 1000003 1000000 (geps 2) { maxDiff := 0, minDiff := 10 ^ 9 } = (0, { maxDiff := 3, minDiff := 10 ^ 9 }) := by
  decide +kernel

end Droop.C13
