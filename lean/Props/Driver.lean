import DroopProofs
import Props.C01
import Props.C02Lower
/-!
# End-to-end: the run-level theorems apply to the very function the compiled driver runs

`runRuleSt A c` (`DroopModel/Driver.lean`) is what the driver evaluates for every correspondence input `c`, and
`finish` turns the resulting state into the line that is compared with the implementation's record.  `caseOK c` is the
decidable domain check printed with every comparison (`DOM=`; the evidence files count how many compared runs are inside).

For every case inside the domain (any number of candidates, ballots, seats; any ballot contents), every precision `p`, and
the rules scotland, cfer, cfer-batch, wigm (every option combination), wigm-prf, wigm-prf-batch, and mpls without undeclared
write-ins:

* the model run returns (never `FUEL`);
* its output is either the complete record (`.ok`) or the crash the rule itself flagged — never the `postCheck`
  `AssertionError` (C01: seats filled, nobody left hopeful);
* the record is forward-only and append-only (C09), conserves votes from above (C02 upper half: `Inv`), and, when there are
  more ballots than seats, from below (C02 lower half: `LInv`).
-/
namespace Droop.Driver
open Droop

def gregoryRun (p : Nat) (c : Case) (t : St Int) : Prop :=
  runRuleSt (fixedArith p) c = some t
    ∧ Mon t
    ∧ (t.crash = none → nEl t = t.seats ∧ nHop t = 0)

theorem methodOf_gregory {r : String} (h : r ∈ ["wigm", "wigm-prf", "wigm-prf-batch", "scotland", "cfer", "cfer-batch", "mpls"]) :
    methodOf r = .wigm := by
  simp only [List.mem_cons, List.not_mem_nil, or_false] at h
  rcases h with rfl | rfl | rfl | rfl | rfl | rfl | rfl <;> decide

/-- `finish` on a run that filled the seats is the record or the flagged crash -/
theorem finish_of_filled {α : Type} [CommRing α] [LinearOrder α] [IsStrictOrderedRing α] (A : Arith α) (t : St α)
    (h : t.crash = none → nEl t = t.seats ∧ nHop t = 0) :
    (∃ acts, finish A (some t) = .ok acts) ∨ (∃ k, t.crash = some k ∧ finish A (some t) = .crash k) := by
  cases hc : t.crash with
  | some k => right; exact ⟨k, rfl, by simp [finish, hc]⟩
  | none =>
    left
    obtain ⟨h1, _⟩ := h hc
    have hel : (t.logAct A "end" "Count Complete" []).elected.length = (t.logAct A "end" "Count Complete" []).seats := by
      have : (t.logAct A "end" "Count Complete" []).elected = t.elected := rfl
      rw [this]; exact h1
    simp only [finish, hc]
    rw [if_pos (by rw [hel]; simp)]
    exact ⟨_, rfl⟩

/-! ## scotland -/

theorem scotland (p : Nat) (c : Case) (hr : c.rule = "scotland") (hok : caseOK c = true) :
    ∃ t, gregoryRun p c t
      ∧ Inv (fixedArith p) (t.logAct (fixedArith p) "end" "Count Complete" [])
      ∧ LInv (fixedArith p) 2 (t.logAct (fixedArith p) "end" "Count Complete" []) := by
  have hk := caseOK_iff c hok
  have hm : methodOf c.rule = .wigm := methodOf_gregory (by rw [hr]; simp)
  have hI := initState_init (fixedArith p) (fixed_lawful p) c hm hk
  have hrun : runRuleSt (fixedArith p) c = scotCount (fixedArith p) (initState (fixedArith p) c) := by
    simp [runRuleSt, runRuleSt', hr]
  have hS := pow10_pos p
  have hst : ScotStart (fixedArith p) (initState (fixedArith p) c) := by
    refine ⟨hI, ?_, initState_fresh _ c, initState_enough _ c hk⟩
    have hnn : 0 ≤ pdiv ((initState (fixedArith p) c).nballots : Int) (((initState (fixedArith p) c).seats : Int) + 1) :=
      pdiv_nonneg _ _ (by positivity) (by positivity)
    show 0 < (pdiv _ _ + 1) * pow10 p
    positivity
  obtain ⟨t, ht, hfill⟩ := C01.scotland_seats_filled p _ hst
  refine ⟨t, ⟨by rw [hrun]; exact ht, ?_, hfill⟩, (C02.scotland_fixed p _ t hI ht).1,
    C02.scotland_lower_fixed p _ t hI (initState_noW _ c hk) ht⟩
  exact (scot_record_monotone _ (fixed_lawful p) rfl _ t hst ht).1

/-- what the driver prints for such a run: the record, or the crash the rule flagged -/
theorem output_of_run (p : Nat) (c : Case) (t : St Int) (h : gregoryRun p c t) :
    (∃ acts, finish (fixedArith p) (runRuleSt (fixedArith p) c) = .ok acts)
      ∨ (∃ k, t.crash = some k ∧ finish (fixedArith p) (runRuleSt (fixedArith p) c) = .crash k) := by
  rw [h.1]
  exact finish_of_filled (fixedArith p) t h.2.2

/-! ## cfer, cfer-batch -/

theorem cfer (p : Nat) (c : Case) (hr : c.rule = "cfer" ∨ c.rule = "cfer-batch") (hok : caseOK c = true) :
    ∃ t, gregoryRun p c t
      ∧ Inv (fixedArith p) (t.logAct (fixedArith p) "end" "Count Complete" [])
      ∧ (c.seats < c.nballots → LInv (fixedArith p) 2 (t.logAct (fixedArith p) "end" "Count Complete" [])) := by
  have hk := caseOK_iff c hok
  have hm : methodOf c.rule = .wigm := methodOf_gregory (by rcases hr with hr | hr <;> rw [hr] <;> simp)
  have hI := initState_init (fixedArith p) (fixed_lawful p) c hm hk
  obtain ⟨batch, hrun⟩ : ∃ batch, runRuleSt (fixedArith p) c = cferCount (fixedArith p) batch (initState (fixedArith p) c) := by
    rcases hr with hr | hr
    · exact ⟨false, by simp [runRuleSt, runRuleSt', hr]⟩
    · exact ⟨true, by simp [runRuleSt, runRuleSt', hr]⟩
  have hG := C01.cfer_start p _ hI (initState_fresh _ c) (initState_enough _ c hk) rfl
  obtain ⟨t, ht⟩ := cferCount_terminates _ (fixed_lawful p) rfl batch _ hG
  obtain ⟨hmon, _, hfill⟩ := cfer_result _ (fixed_lawful p) rfl batch _ t hG ht
  refine ⟨t, ⟨by rw [hrun]; exact ht, hmon, hfill⟩, (C02.cfer_fixed p batch _ t hI ht).1, ?_⟩
  intro hmore
  exact C02.cfer_lower_fixed p batch _ t hI (initState_noW _ c hk) hmore ht

/-! ## wigm (every option combination), wigm-prf, wigm-prf-batch -/

theorem wigm (p : Nat) (c : Case) (hr : c.rule = "wigm" ∨ c.rule = "wigm-prf" ∨ c.rule = "wigm-prf-batch")
    (hok : caseOK c = true) (hmore : c.seats < c.nballots) :
    ∃ t, gregoryRun p c t
      ∧ Inv (fixedArith p) (t.logAct (fixedArith p) "end" "Count Complete" [])
      ∧ LInv (fixedArith p) 2 (t.logAct (fixedArith p) "end" "Count Complete" []) := by
  have hk := caseOK_iff c hok
  have hm : methodOf c.rule = .wigm := methodOf_gregory (by rcases hr with hr | hr | hr <;> rw [hr] <;> simp)
  have hI := initState_init (fixedArith p) (fixed_lawful p) c hm hk
  obtain ⟨o, hrun⟩ : ∃ o, runRuleSt (fixedArith p) c = wigmCount (fixedArith p) o (initState (fixedArith p) c) := by
    rcases hr with hr | hr | hr
    · exact ⟨{ integerQuota := c.intq, batchZero := c.batch == "zero" }, by simp only [runRuleSt, runRuleSt', hr]⟩
    · exact ⟨{ prf := true }, by simp only [runRuleSt, runRuleSt', hr]⟩
    · exact ⟨{ prf := true, prfBatch := true }, by simp only [runRuleSt, runRuleSt', hr]⟩
  obtain ⟨t, ht, hinv, hl, hmon, _, hfill⟩ := C02.wigm_every_configuration_fixed p o _ hI (initState_fresh _ c)
    (initState_enough _ c hk) rfl (initState_noW _ c hk) hmore
  exact ⟨t, ⟨by rw [hrun]; exact ht, hmon, hfill⟩, hinv, hl⟩

/-! ## mpls (no undeclared write-ins) -/

theorem mpls (p : Nat) (c : Case) (hr : c.rule = "mpls") (hok : caseOK c = true) (hnu : ∀ k ∈ c.cands, k.2.2.2 = false) :
    ∃ t, gregoryRun p c t
      ∧ Inv (fixedArith p) (t.logAct (fixedArith p) "end" "Count Complete" [])
      ∧ LInv (fixedArith p) 2 (t.logAct (fixedArith p) "end" "Count Complete" []) := by
  have hk := caseOK_iff c hok
  have hm : methodOf c.rule = .wigm := methodOf_gregory (by rw [hr]; simp)
  have hI := initState_init (fixedArith p) (fixed_lawful p) c hm hk
  have hrun : runRuleSt (fixedArith p) c = mplsCount (fixedArith p) (initState (fixedArith p) c) := by
    simp [runRuleSt, runRuleSt', hr]
  obtain ⟨t, ht, hmon, _, hfill⟩ := C01.mpls_seats_filled_fixed p _ hI (initState_fresh _ c) (initState_enough _ c hk) rfl
    (initState_noUnd _ c hnu)
  exact ⟨t, ⟨by rw [hrun]; exact ht, hmon, hfill⟩, (C02.mpls_fixed p _ t hI ht).1,
    C02.mpls_lower_fixed p _ t hI (initState_noW _ c hk) ht⟩

/-! ## non-vacuity: a concrete case inside the domain -/

def sample : Case :=
  { rule := "wigm", arith := "fixed", p := 4, g := 0, intq := false, batch := "none", omega := 0, seats := 1, nballots := 3,
    cands := [(1, 1, false, false), (2, 2, false, false), (3, 3, true, false)],
    ballots := [(2, [1, 2]), (1, [2])], ballotsEq := [] }

example : caseOK sample = true := by decide
example : sample.seats < sample.nballots := by decide

end Droop.Driver
