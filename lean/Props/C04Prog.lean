import Props.C04Prf
import Props.C04
import DroopProofs.QpqFig
/-!
# C04: the quota formulas and the quota tests of the rules, as programs translated from the source

`harness/gen_quota.py` translates the bodies of `calcQuota()` and `hasQuota()` of every rule module (and the two inline quota
assignments of `meek_prf.py`) into the small expression language below and has the kernel check, on every run, that the translation
is the program committed here (`by rfl`).  This file proves that each committed program, evaluated over the arithmetic dictionary,
is the quota / the quota test the model uses — so the model's quota is the source's formula, not a transcription of it.

Integers (`E.nBallots`, `E.nSeats`, literals, `+`, `//`) and values (`V(int)`, `E.votes`, `E.va`, `E.tx`, `V.epsilon`, `E.quota`,
`candidate.vote`, `+`, `-`, `/`, `//`) are kept apart as Python keeps them apart; a program branches on `V.exact` and
`self.integer_quota` only.
-/
namespace Droop.C04
open Droop

inductive IEx
  | nBallots | nSeats
  | lit (n : Int)
  | add (a b : IEx)
  | floordiv (a b : IEx)
deriving DecidableEq, Repr

inductive VEx
  | ofI (i : IEx)
  | votes | va | tx | eps | quota | candVote
  | add (a b : VEx) | sub (a b : VEx) | div (a b : VEx) | fdiv (a b : VEx)
deriving DecidableEq, Repr

inductive BEx
  | gt (a b : VEx) | ge (a b : VEx)
deriving DecidableEq, Repr

inductive Prog (β : Type)
  | ret (e : β)
  | ifExact (t e : Prog β)
  | ifIntegerQuota (t e : Prog β)
deriving DecidableEq, Repr

structure QEnv (α : Type) where
  nBallots : Int
  nSeats : Int
  votes : α
  va : α
  tx : α
  quota : α
  candVote : α
  integerQuota : Bool

variable {α : Type}

def IEx.eval (env : QEnv α) : IEx → Int
  | .nBallots => env.nBallots
  | .nSeats => env.nSeats
  | .lit n => n
  | .add a b => a.eval env + b.eval env
  | .floordiv a b => pdiv (a.eval env) (b.eval env)

def VEx.eval (A : Arith α) (env : QEnv α) : VEx → α
  | .ofI i => A.ofInt (i.eval env)
  | .votes => env.votes
  | .va => env.va
  | .tx => env.tx
  | .eps => A.eps
  | .quota => env.quota
  | .candVote => env.candVote
  | .add a b => A.add (a.eval A env) (b.eval A env)
  | .sub a b => A.sub (a.eval A env) (b.eval A env)
  | .div a b => A.divV (a.eval A env) (b.eval A env)
  | .fdiv a b => A.fdivV (a.eval A env) (b.eval A env)

def BEx.eval (A : Arith α) (env : QEnv α) : BEx → Bool
  | .gt a b => A.gt (a.eval A env) (b.eval A env)
  | .ge a b => A.ge (a.eval A env) (b.eval A env)

def Prog.run {β γ : Type} (A : Arith α) (env : QEnv α) (ev : β → γ) : Prog β → γ
  | .ret e => ev e
  | .ifExact t e => if A.exact then t.run A env ev else e.run A env ev
  | .ifIntegerQuota t e => if env.integerQuota then t.run A env ev else e.run A env ev

/-! ## the committed programs (what the translator must reproduce from `/repo/droop/rules/*.py`) -/

/-- `V(E.nBallots) / V(E.nSeats+1)` -/
def droopQ : VEx := .div (.ofI .nBallots) (.ofI (.add .nSeats (.lit 1)))

def wigmQuotaProg : Prog VEx :=
  .ifIntegerQuota (.ret (.ofI (.add (.lit 1) (.floordiv .nBallots (.add .nSeats (.lit 1))))))
    (.ifExact (.ret droopQ) (.ret (.add droopQ .eps)))
def wigmPrfQuotaProg : Prog VEx := .ret (.add droopQ .eps)
def cferQuotaProg : Prog VEx := .ret (.add droopQ .eps)
def scotlandQuotaProg : Prog VEx := .ret (.ofI (.add (.floordiv .nBallots (.add .nSeats (.lit 1))) (.lit 1)))
def mplsQuotaProg : Prog VEx := .ret (.ofI (.add (.floordiv .nBallots (.add .nSeats (.lit 1))) (.lit 1)))
def meekQuotaProg : Prog VEx :=
  .ifExact (.ret (.div .votes (.ofI (.add .nSeats (.lit 1))))) (.ret (.add (.div .votes (.ofI (.add .nSeats (.lit 1)))) .eps))
def qpqQuotaProg : Prog VEx := .ret (.div .va (.sub (.ofI (.add (.lit 1) .nSeats)) .tx))
/-- meek_prf.py: `E.quota = E.votes // V(nSeats+1) + V.epsilon` (B.2.b) and `E.quota = E.votes / V(E.nSeats+1) + V.epsilon` (round 0) -/
def prfIterQuotaProg : Prog VEx := .ret (.add (.fdiv .votes (.ofI (.add .nSeats (.lit 1)))) .eps)
def prfStartQuotaProg : Prog VEx := .ret (.add (.div .votes (.ofI (.add .nSeats (.lit 1)))) .eps)

def hasQuotaXProg : Prog BEx := .ifExact (.ret (.gt .candVote .quota)) (.ret (.ge .candVote .quota))
def hasQuotaGEProg : Prog BEx := .ret (.ge .candVote .quota)

/-! ## each program is the model's formula -/

def envOf (A : Arith α) (s : St α) (intq : Bool) (cv : α) : QEnv α :=
  { nBallots := s.nballots, nSeats := s.seats, votes := s.votes, va := A.zero, tx := A.zero, quota := s.quota, candVote := cv,
    integerQuota := intq }

theorem wigm_quota_is_program (A : Arith α) (o : WigmOpts) (hp : o.prf = false) (s : St α) (cv : α) :
    wigmQuota A o s = wigmQuotaProg.run A (envOf A s o.integerQuota cv) (VEx.eval A (envOf A s o.integerQuota cv)) := by
  unfold wigmQuota
  simp only [hp, Bool.false_eq_true, if_false, wigmQuotaProg, Prog.run, envOf, droopQ, VEx.eval, IEx.eval]

theorem wigm_prf_quota_is_program (A : Arith α) (o : WigmOpts) (hp : o.prf = true) (s : St α) (cv : α) :
    wigmQuota A o s = wigmPrfQuotaProg.run A (envOf A s o.integerQuota cv) (VEx.eval A (envOf A s o.integerQuota cv)) := by
  unfold wigmQuota
  simp only [hp, if_true, wigmPrfQuotaProg, Prog.run, envOf, droopQ, VEx.eval, IEx.eval]

theorem meek_quota_is_program (A : Arith α) (s : St α) (cv : α) :
    meekQuota A s = meekQuotaProg.run A (envOf A s false cv) (VEx.eval A (envOf A s false cv)) := by
  unfold meekQuota
  simp only [meekQuotaProg, Prog.run, envOf, VEx.eval, IEx.eval]

theorem prf_iter_quota_is_program [CommRing α] [LinearOrder α] [IsStrictOrderedRing α] (A : Arith α) (s : St α) (cv : α) :
    (prfS4 A s).quota
      = prfIterQuotaProg.run A (envOf A ({ prfS2 A s with votes := activeVotes A (prfS2 A s) } : St α) false cv)
          (VEx.eval A (envOf A ({ prfS2 A s with votes := activeVotes A (prfS2 A s) } : St α) false cv)) := rfl

theorem prf_start_quota_is_program [CommRing α] [LinearOrder α] [IsStrictOrderedRing α] (A : Arith α) (s0 : St α) (cv : α) :
    (prfS3 A s0).quota
      = prfStartQuotaProg.run A (envOf A ({ s0 with votes := A.ofInt s0.nballots } : St α) false cv)
          (VEx.eval A (envOf A ({ s0 with votes := A.ofInt s0.nballots } : St α) false cv)) := by
  unfold prfS3
  rfl

theorem qpq_quota_is_program (A : Arith α) (q : QSt α) (cv : α) :
    (qpqQuota A q).1
      = qpqQuotaProg.run A { envOf A q.s false cv with va := q.va, tx := q.tx }
          (VEx.eval A { envOf A q.s false cv with va := q.va, tx := q.tx }) := by
  unfold qpqQuota
  simp only [qpqQuotaProg, Prog.run, envOf, VEx.eval, IEx.eval]

section
variable [CommRing α] [LinearOrder α] [IsStrictOrderedRing α]

theorem scotland_quota_is_program (A : Arith α) (s0 : St α) (cv : α) :
    (scotInit A s0).quota = scotlandQuotaProg.run A (envOf A s0 false cv) (VEx.eval A (envOf A s0 false cv)) := by
  unfold scotInit
  have h1 : (((firstCount A (s0.setQuota (A.ofInt (pdiv s0.nballots (s0.seats + 1) + 1)))).setExhausted A.zero).logAct A "begin" "Begin Count" []).quota
      = ((firstCount A (s0.setQuota (A.ofInt (pdiv s0.nballots (s0.seats + 1) + 1)))).setExhausted A.zero).quota := (frame_logAct A _ _ _ _).1
  have h2 := (firstCount_frame A (s0.setQuota (A.ofInt (pdiv s0.nballots (s0.seats + 1) + 1)))).1
  exact h1.trans h2

theorem cfer_quota_is_program (A : Arith α) (s0 : St α) (cv : α) :
    (cferInit A s0).quota = cferQuotaProg.run A (envOf A s0 false cv) (VEx.eval A (envOf A s0 false cv)) := by
  unfold cferInit
  have h1 : (((firstCount A (s0.setQuota (A.add (A.divV (A.ofInt s0.nballots) (A.ofInt (s0.seats + 1))) A.eps))).setExhausted A.zero).logAct A "begin" "Begin Count" []).quota
      = ((firstCount A (s0.setQuota (A.add (A.divV (A.ofInt s0.nballots) (A.ofInt (s0.seats + 1))) A.eps))).setExhausted A.zero).quota := (frame_logAct A _ _ _ _).1
  have h2 := (firstCount_frame A (s0.setQuota (A.add (A.divV (A.ofInt s0.nballots) (A.ofInt (s0.seats + 1))) A.eps))).1
  exact h1.trans h2

theorem mpls_quota_is_program (A : Arith α) (s0 : St α) (cv : α) :
    (mplsInit A s0).quota = mplsQuotaProg.run A (envOf A s0 false cv) (VEx.eval A (envOf A s0 false cv)) := by
  unfold mplsInit
  have h1 : (((firstCount A (s0.setQuota (A.ofInt (pdiv s0.nballots (s0.seats + 1) + 1)))).setExhausted A.zero).newRound A).quota
      = ((firstCount A (s0.setQuota (A.ofInt (pdiv s0.nballots (s0.seats + 1) + 1)))).setExhausted A.zero).quota := (frame_newRound A _).1
  have h2 := (firstCount_frame A (s0.setQuota (A.ofInt (pdiv s0.nballots (s0.seats + 1) + 1)))).1
  exact h1.trans h2

end

theorem hasQuotaX_is_program (A : Arith α) (s : St α) (c : Cand α) :
    hasQuotaX A s c = hasQuotaXProg.run A (envOf A s false c.vote) (BEx.eval A (envOf A s false c.vote)) := by
  unfold hasQuotaX
  simp only [hasQuotaXProg, Prog.run, envOf, BEx.eval, VEx.eval]

theorem hasQuotaGE_is_program (A : Arith α) (s : St α) (c : Cand α) :
    hasQuotaGE A s c = hasQuotaGEProg.run A (envOf A s false c.vote) (BEx.eval A (envOf A s false c.vote)) := rfl

/-- meek-prf elects in B.2.c whoever passes the translated test -/
theorem prf_winners_is_program [CommRing α] [LinearOrder α] [IsStrictOrderedRing α] (A : Arith α) (s : St α) :
    prfWinners A s = (prfS4 A s).hopeful.filter (fun c =>
      hasQuotaGEProg.run A (envOf A (prfS4 A s) false c.vote) (BEx.eval A (envOf A (prfS4 A s) false c.vote))) := rfl

/-- ... and meek / warren whoever passes theirs -/
theorem meek_winners_is_program (A : Arith α) (s : St α) :
    meekWinners A s = s.hopeful.filter (fun c =>
      hasQuotaXProg.run A (envOf A s false c.vote) (BEx.eval A (envOf A s false c.vote))) := by
  unfold meekWinners
  congr 1

end Droop.C04
