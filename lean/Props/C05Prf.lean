import Props.C05Meek
import DroopProofs.PrfFirst
/-!
# C05, one seat, for meek-prf: a candidate ranked first by more than half of the ballots is elected

Same statement and the same proof shape as for meek and warren (`Props/C05Meek.lean`), for the reference rule: **if the count
returns, the majority candidate is elected in the state it returns** (`prf_majority`; every case with strict rankings inside
`caseOK`, one seat, at least one digit of precision).  The first distribution is the first-preference count
(`prf_first_figures`), the majority tally reaches `⌊V/2⌋ + 1`, the first iteration elects and logs it, and the record is
forward-only (`prf_record_monotone`) and append-only (`ext_prfBody`).
-/
namespace Droop.C05
open Droop

theorem prf_majority_wins_first_iteration (p : Nat) (hp : p ≠ 0) (c : Case) (hm : methodOf c.rule = .meek) (hk : CaseOK c)
    (hseats : c.seats = 1) (w : Nat) (hmaj : c.nballots < 2 * firstPrefs c w) :
    ∃ w2 ∈ prfWinners (fixedArith p) ((prfStart (fixedArith p) (initState (fixedArith p) c)).newRound (fixedArith p)), w2.cid = w := by
  have hA := fixed_lawful p
  have h0 := initState_minit (fixedArith p) hA c hm hk
  have hf := freshBallots_initState p c hk
  obtain ⟨x, hx, hxc, hxh⟩ := majority_stands p c hk w (by omega)
  obtain ⟨hvote, hsk2, hV, hseat2⟩ := prf_first_figures p (initState (fixedArith p) c) h0 hf
  set s1 := (prfStart (fixedArith p) (initState (fixedArith p) c)).newRound (fixedArith p) with hs1
  obtain ⟨w2, hw2, hw2s⟩ := mem_of_skel_eq hsk2.symm hx
  have hcid : w2.cid = w := (skel_cid hw2s).trans hxc
  have hst : w2.st = .hopeful := by rw [(skel_st hw2s).1]; exact hxh
  have hwf2 : (prfS2 (fixedArith p) s1).WF := WF_of_skel hsk2.symm h0.wf
  have hv : w2.vote = (firstPrefs c w : Int) * pow10 p := by
    rw [← voteOf_of_mem hwf2 hw2, hcid, hvote]
    exact tally_initState p c w
  refine ⟨w2, ?_, hcid⟩
  unfold prfWinners
  rw [List.mem_filter]
  refine ⟨?_, ?_⟩
  · unfold prfS4
    exact mem_hopeful.2 ⟨hw2, hst⟩
  · apply ge_of_le
    rw [hv]
    have hS := pow10_pos p
    have hS2 : (2 : Int) ≤ pow10 p := by
      obtain ⟨k, rfl⟩ : ∃ k, p = k + 1 := ⟨p - 1, by omega⟩
      have : pow10 (k + 1) = 10 * pow10 k := by simp [pow10, pow_succ, mul_comm]
      have hk := pow10_pos k
      omega
    have hse : ((prfS2 (fixedArith p) s1).seats : Int) + 1 = 2 := by
      rw [hseat2]
      show (((c.seats : Nat)) : Int) + 1 = 2
      rw [hseats]; norm_num
    show (if ((((prfS2 (fixedArith p) s1).seats : Int) + 1) * pow10 p == 0) = true then 0
        else pdiv (activeVotes (fixedArith p) (prfS2 (fixedArith p) s1) * pow10 p) ((((prfS2 (fixedArith p) s1).seats : Int) + 1) * pow10 p)) + 1
        ≤ (firstPrefs c w : Int) * pow10 p
    rw [hse]
    have hne : ((2 : Int) * pow10 p == 0) = false := by
      simp only [beq_eq_false_iff_ne, ne_eq]; omega
    rw [hne]
    simp only [Bool.false_eq_true, if_false]
    exact quota_reached (pow10 p) (activeVotes (fixedArith p) (prfS2 (fixedArith p) s1)) c.nballots (firstPrefs c w) hS2 hV hmaj

/-- the first round of the loop, when entered, ends with the majority candidate shown elected in the newest snapshot -/
theorem prf_first_round_shows (p : Nat) (hp : p ≠ 0) (omega : Int) (n : Nat) (c : Case) (hm : methodOf c.rule = .meek)
    (hk : CaseOK c) (hseats : c.seats = 1) (w : Nat) (hmaj : c.nballots < 2 * firstPrefs c w) :
    Shown w (prfBody (fixedArith p) omega (n + 1) (prfStart (fixedArith p) (initState (fixedArith p) c))).1 := by
  obtain ⟨w2, hw2, hcid⟩ := prf_majority_wins_first_iteration p hp c hm hk hseats w hmaj
  set s1 := (prfStart (fixedArith p) (initState (fixedArith p) c)).newRound (fixedArith p) with hs1
  have hne : (!(prfWinners (fixedArith p) s1).isEmpty) = true := by
    cases hl : prfWinners (fixedArith p) s1 with
    | nil => rw [hl] at hw2; cases hw2
    | cons a l => rfl
  have hit : prfIterate (fixedArith p) omega (n + 1) ((fixedArith p).ofInt s1.nballots) s1 = (prfS6 (fixedArith p) s1, PStatus.elected) := by
    rw [prfIterate_succ, if_pos hne]
  have hbody : (prfBody (fixedArith p) omega (n + 1) (prfStart (fixedArith p) (initState (fixedArith p) c))).1 = prfS6 (fixedArith p) s1 := by
    unfold prfBody
    simp only
    rw [← hs1, hit]
    simp only
    split
    · rfl
    · rfl
  rw [hbody]
  -- the election step logs a snapshot in which the candidate is elected
  have hsh : Shown w2.cid (prfS5 (fixedArith p) s1) := by
    unfold prfS5
    have hw4 : w2 ∈ (prfS4 (fixedArith p) s1).hopeful := by
      unfold prfWinners at hw2; exact (List.mem_filter.1 hw2).1
    exact shown_foldElect (fixedArith p) (prfWinners (fixedArith p) s1) (fun _ => "Elect") (fun _ => false) (prfS4 (fixedArith p) s1) w2 hw2
      ⟨w2, (mem_hopeful.1 hw4).1, rfl⟩
  rw [hcid] at hsh
  exact hsh

/-- **one seat, meek-prf: the majority candidate is elected in whatever state the count returns** -/
theorem prf_majority (p : Nat) (hp : p ≠ 0) (c : Case) (hr : c.rule = "meek-prf") (hok : caseOK c = true)
    (hseats : c.seats = 1) (w : Nat) (hmaj : c.nballots < 2 * firstPrefs c w)
    (t : St Int) (h : runRuleSt (fixedArith p) c = some t) :
    ∃ x ∈ t.cands, x.cid = w ∧ x.st = .elected := by
  have hA := fixed_lawful p
  have hk := caseOK_iff c hok
  have hm : methodOf c.rule = .meek := by rw [hr]; rfl
  have h0 := initState_minit (fixedArith p) hA c hm hk
  have hcount : prfCount (fixedArith p) 100000 (initState (fixedArith p) c) = some t := by
    unfold runRuleSt at h
    simpa only [runRuleSt', hr] using h
  have hMon := prf_record_monotone (fixedArith p) hA 100000 _ t h0.noActs h0.wf hcount
  rw [prfCount_eq] at hcount
  set sI := prfStart (fixedArith p) (initState (fixedArith p) c) with hsI
  set om := (fixedArith p).divV ((fixedArith p).ofInt 1) ((fixedArith p).ofInt (10 ^ 6)) with hom
  have hcr : sI.crash = none := by
    rw [hsI, prfStart_eq, (logAct_sc p _ _ _ _).2, (foldl_mfcStep_sc p _ _).2]; rfl
  obtain ⟨nf, hnf⟩ : ∃ nf, 2 * (initState (fixedArith p) c).cands.length + 3 = nf + 1 := ⟨_, rfl⟩
  rw [hnf] at hcount
  cases hl : loopN stdGuard (prfBody (fixedArith p) om 100000) (nf + 1) sI with
  | none => rw [hl] at hcount; cases hcount
  | some s6 =>
    rw [hl] at hcount
    have ht : t = prfFinish (fixedArith p) s6 := (Option.some.inj hcount).symm
    by_cases hg : stdGuard sI = true
    · have hsh := prf_first_round_shows p hp om 99999 c hm hk hseats w hmaj
      have hx1 := loopN_first stdGuard (prfBody (fixedArith p) om 100000) (fun s => ext_prfBody p om 100000 s) nf sI s6 hcr hg hl
      have hx2 := ext_prfFinish p s6
      rw [ht] at hMon ⊢
      exact hsh.final (hx1.trans hx2) hMon
    · have hgf : stdGuard sI = false := by simpa using hg
      have h6 : s6 = sI := loopN_guard_false _ _ nf sI s6 hcr hgf hl
      obtain ⟨x, hx, hxc, hxh⟩ := majority_stands p c hk w (by omega)
      have hskI : sI.skel = (initState (fixedArith p) c).skel := prfStart_skel p _
      obtain ⟨xI, hxI, hxIs⟩ := mem_of_skel_eq hskI.symm hx
      have hxIc : xI.cid = w := (skel_cid hxIs).trans hxc
      have hxIh : xI.st = .hopeful := by rw [(skel_st hxIs).1]; exact hxh
      have hxIhop : xI ∈ sI.hopeful := mem_hopeful.2 ⟨hxI, hxIh⟩
      have hnoel : sI.elected = [] := by
        unfold St.elected
        rw [List.filter_eq_nil_iff]
        intro y hy hye
        obtain ⟨y0, hy0, hys⟩ := mem_of_skel_eq hskI hy
        have := (h0.fresh y0 hy0).2.2
        have hye' : y.st = .elected := by simpa using hye
        have hst : y0.st = .elected := by
          have e := (skel_st hys).1
          rw [hye'] at e
          first | exact e.symm | exact e
        rw [hst] at this
        rcases this with h | h <;> cases h
      have hseatI : sI.seats = 1 := by
        rw [hsI, prfStart_eq, (logAct_sc p _ _ _ _).1, (foldl_mfcStep_sc p _ _).1]; exact hseats
      have hone : sI.hopeful = [xI] := by
        unfold stdGuard St.seatsLeft at hgf
        rw [hnoel, hseatI] at hgf
        simp only [List.length_nil, Nat.cast_one, Nat.cast_zero, sub_zero, Bool.and_eq_false_iff, decide_eq_false_iff_not,
          not_lt] at hgf
        have hlen : sI.hopeful.length ≤ 1 := by
          rcases hgf with hgf | hgf
          · exact_mod_cast hgf
          · omega
        cases hh : sI.hopeful with
        | nil => rw [hh] at hxIhop; cases hxIhop
        | cons a l =>
          rw [hh] at hlen hxIhop
          cases l with
          | nil => simp only [List.mem_singleton] at hxIhop; rw [hxIhop]
          | cons b l' => simp at hlen
      rw [ht, h6, prfFinish_eq]
      rw [if_neg (by rw [hcr]; simp)]
      rw [hone]
      simp only [List.foldl_cons, List.foldl_nil]
      have hlt : sI.elected.length < sI.seats := by rw [hnoel, hseatI]; decide
      have hstep : prfFinishStep (fixedArith p) sI xI = sI.elect (fixedArith p) xI.cid "Elect remaining" false := by
        unfold prfFinishStep; rw [if_pos hlt]
      rw [hstep]
      obtain ⟨y, hy, hyc⟩ := elect_has (fixedArith p) sI xI.cid "Elect remaining" false xI.cid ⟨xI, hxI, rfl⟩
      have hyel := elect_sets (fixedArith p) sI xI.cid "Elect remaining" false y hy hyc
      exact ⟨y, hy, hyc.trans hxIc, hyel⟩

end Droop.C05
