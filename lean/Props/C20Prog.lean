import Props.C20
/-!
# C20 — the class-attribute assignments of `initialize`, as read from the source

`harness/gen_initwrites.py` walks the body of `Fixed.initialize`, `Guarded.initialize` and `Rational.initialize`
(droop/values/*.py) and lists every assignment to a class attribute (`cls.<attr> = ...`, `cls.<attr>._value = ...`) in
program order, each with its *path condition*: the `if` tests (named by the inductive `T`, with polarity) under which it is executed.
(`try:` bodies are walked; `raise` ends a path, so a test whose true branch only raises contributes nothing.)
The generated file states `Gen.<class>Writes = C20.<class>Writes` (kernel-checked `by rfl` on every run).

The theorems below tie these lists to the model (`DroopModel/Session.lean`): on every successful `initialize` the set of
attributes the model's trace writes is exactly the set the source program writes — for every truth assignment of the
tests that is consistent with the only two tests that matter (`cls.display > cls.precision` for `__scaledg`,
`cls.guard == 0` for `epsilon`). So making an assignment conditional, dropping one, or adding a class attribute the
model does not know changes the generated list, and the obligation breaks.
-/
namespace Droop.C20
open Droop

/-- the `if` tests that guard an assignment in the three `initialize` bodies (the extractor maps the test's source text to these
    names and refuses any other test) -/
inductive T
  | nameIsInteger     -- cls.name == 'integer'
  | dispNePrec        -- cls.display != cls.precision
  | dispGtPrecGuard   -- cls.display > cls.precision + cls.guard
  | dispGtPrec        -- cls.display > cls.precision
  | gepsZero          -- cls.__geps == 0
  | dispLePrec        -- cls.display <= cls.precision
  | guardZero         -- cls.guard == 0
deriving DecidableEq, Repr

/-- one assignment: (path condition as (test, polarity) list, attribute name) -/
abbrev WProg := List (List (T × Bool) × String)

def evalW (env : T → Bool) (p : WProg) : List String :=
  p.filterMap (fun ga => if ga.1.all (fun tb => env tb.1 == tb.2) then some ga.2 else none)

def sameSet (l1 l2 : List String) : Bool := l1.all (l2.contains ·) && l2.all (l1.contains ·)

def FW.tag : FW → String
  | .name _ => "name" | .precision _ => "precision" | .display _ => "display" | .scale _ => "__scale"
  | .scaled _ => "__scaled" | .scaledd _ => "__scaledd" | .scaledr _ => "__scaledr" | .epsilon _ => "epsilon"
  | .dfmt _ => "__dfmt" | .info _ => "info"

def GW.tag : GW → String
  | .precision _ => "precision" | .guard _ => "guard" | .display _ => "display" | .scalep _ => "__scalep"
  | .scaleg _ => "__scaleg" | .scale _ => "__scale" | .scaledd _ => "__scaledd" | .scaledr _ => "__scaledr"
  | .scaled _ => "__scaled" | .scaledg _ => "__scaledg" | .geps _ => "__geps" | .maxDiff _ => "maxDiff"
  | .minDiff _ => "minDiff" | .dfmt _ _ => "__dfmt" | .info _ => "info" | .quasiExact _ => "quasi_exact"
  | .exact _ => "exact" | .epsilon _ => "epsilon"

def RW.tag : RW → String
  | .dp _ => "dp" | .dps _ => "_dps" | .dfmt _ => "_dfmt"

/-- a truth assignment given by its seven values -/
def envOf (b0 b1 b2 b3 b4 b5 b6 : Bool) : T → Bool
  | .nameIsInteger => b0 | .dispNePrec => b1 | .dispGtPrecGuard => b2 | .dispGtPrec => b3 | .gepsZero => b4 | .dispLePrec => b5
  | .guardZero => b6

theorem env_eq (env : T → Bool) :
    env = envOf (env .nameIsInteger) (env .dispNePrec) (env .dispGtPrecGuard) (env .dispGtPrec) (env .gepsZero) (env .dispLePrec) (env .guardZero) := by
  funext t; cases t <;> rfl

/-! ## the committed programs (what the source says today) -/

def fixedWrites : WProg :=
  [([], "name"), ([], "precision"), ([], "__scale"), ([], "display"), ([], "__scaled"), ([], "__scaledd"), ([], "__scaledr"),
   ([], "epsilon"), ([], "epsilon"), ([], "__dfmt"),
   ([(.nameIsInteger, true)], "info"),
   ([(.nameIsInteger, false), (.dispNePrec, true)], "info"),
   ([(.nameIsInteger, false), (.dispNePrec, false)], "info")]

def guardedWrites : WProg :=
  [([], "precision"), ([], "guard"), ([], "display"), ([], "__scalep"), ([], "__scaleg"), ([], "__scale"),
   ([(.dispGtPrecGuard, true)], "display"),
   ([], "__scaledd"), ([], "__scaledr"), ([], "__scaled"),
   ([(.dispGtPrec, true)], "__scaledg"),
   ([], "__geps"), ([(.gepsZero, true)], "__geps"), ([], "maxDiff"), ([], "minDiff"),
   ([(.dispLePrec, true)], "__dfmt"), ([(.dispLePrec, false)], "__dfmt"),
   ([(.dispNePrec, true)], "info"), ([(.dispNePrec, false)], "info"),
   ([(.guardZero, true)], "quasi_exact"), ([(.guardZero, true)], "exact"),
   ([(.guardZero, true)], "epsilon"), ([(.guardZero, true)], "epsilon"),
   ([(.guardZero, false)], "quasi_exact"), ([(.guardZero, false)], "exact")]

/-- Rational: `_dpr` and `__default_denominator` are not class *configuration* read by the modelled operations (`_dpr` is a
    function of `_dps`; the default denominator is a property of the interpreter): listed here so that the extractor's list is
    complete, and named in `rationalUnmodelled` -/
def rationalWrites : WProg :=
  [([], "dp"), ([], "_dps"), ([], "_dpr"), ([], "_dfmt"), ([], "__default_denominator")]

def rationalUnmodelled : List String := ["_dpr", "__default_denominator"]

/-- every assignment to a class attribute (`cls.<a> = ...` / `<Class>.<a> = ...`) in a method *other than* `initialize`, as
    (method, attribute): only Guarded's comparison statistics, which `initialize` resets (`maxDiff`, `minDiff` are in
    `guardedWrites` unconditionally) and which the session correspondence therefore leaves out of the state comparison.
    A new entry here is class state that outlives an election without the model knowing about it. -/
def fixedWritesElsewhere : List (String × String) := []
def guardedWritesElsewhere : List (String × String) := [("__cmp__", "maxDiff"), ("__cmp__", "minDiff")]
def rationalWritesElsewhere : List (String × String) := []

/-- every module-level or class-body-level name of the package bound to a mutable container (and every `global` statement): the rule registry
    of droop/__init__.py, filled once at import and read-only afterwards.  Nothing else in the package can hold data from one election to
    the next outside the objects an `Election` owns (the profile object excepted: C20's same-profile-twice probes) and the class attributes
    modelled in `DroopModel/Session.lean`. -/
def processContainers : List (String × String × String) :=
  [("__init__.py", "<module>", "ruleByName"), ("__init__.py", "<module>", "ruleClasses")]

/-- stores to a class attribute from inside a function, in any class but the three value classes: none -/
def classWritesOutsideValues : List (String × String × String) := []

/-- the statistics written outside `initialize` are reset by every successful `initialize`, whatever the tests evaluate to -/
theorem elsewhere_is_reset (env : T → Bool) :
    guardedWritesElsewhere.all (fun ma => (evalW env guardedWrites).contains ma.2) = true := by
  rw [env_eq env]
  generalize env .nameIsInteger = b0; generalize env .dispNePrec = b1; generalize env .dispGtPrecGuard = b2
  generalize env .dispGtPrec = b3; generalize env .gepsZero = b4; generalize env .dispLePrec = b5; generalize env .guardZero = b6
  cases b0 <;> cases b1 <;> cases b2 <;> cases b3 <;> cases b4 <;> cases b5 <;> cases b6 <;> rfl

/-! ## the model writes exactly these -/

/-- **Fixed**: on success, whatever the tests evaluate to, the source program and the model's trace write the same attributes -/
theorem fixed_writes_are_source (o : Options) (r : Options × ArithCfg) (h : (fixedTrace o).2 = .ok r) (env : T → Bool) :
    sameSet ((fixedTrace o).1.map FW.tag) (evalW env fixedWrites) = true := by
  unfold fixedTrace at h ⊢
  simp only at h ⊢
  split at h
  · simp at h
  · split at h
    · simp at h
    · split at h
      · simp at h
      · simp at h
      · split at h
        · simp at h
        · split at h
          · simp at h
          · split at h
            · simp at h
            · simp at h
            · rename_i hA _ _ _ _ _ _ _ hB _ _ _ _ _ _
              simp only [hA, hB, if_false, Bool.false_eq_true, List.map_cons, List.map_nil, FW.tag]
              cases h1 : env .nameIsInteger <;> cases h2 : env .dispNePrec <;>
                simp [evalW, fixedWrites, sameSet, h1, h2]

theorem guarded_writes_aux (o : Options) (o' : Options) (p g d : Nat) (h : (guardedTrace o).2 = .ok (o', .guarded p g d))
    (b0 b1 b2 b4 b5 : Bool) :
    sameSet ((guardedTrace o).1.map GW.tag) (evalW (envOf b0 b1 b2 (decide (d > p)) b4 b5 (g == 0)) guardedWrites) = true := by
  unfold guardedTrace at h ⊢
  simp only at h ⊢
  split at h
  · simp at h
  · split at h
    · simp at h
    · split at h
      · simp at h
      · split at h
        · simp at h
        · split at h
          · simp at h
          · split at h
            · simp at h
            · rename_i hA _ p' _ _ _ _ _ g' _ _ _ _ _ d0 _
              simp only [hA, if_false, Bool.false_eq_true]
              simp only [Except.ok.injEq, Prod.mk.injEq, ArithCfg.guarded.injEq] at h
              obtain ⟨_, hp, hgg, hdd⟩ := h
              rw [← hdd, ← hp, ← hgg]
              unfold guardedTail
              by_cases hd : (if d0 > p' + g' then p' + g' else d0) > p' <;> by_cases hg : (g' == 0) = true <;>
                simp only [hd, hg, if_true, if_false, decide_true, decide_false, Bool.false_eq_true, List.map_cons,
                  List.map_nil, GW.tag, List.cons_append, List.nil_append, List.append_nil] <;>
                cases b0 <;> cases b1 <;> cases b2 <;> cases b4 <;> cases b5 <;> rfl

/-- **Guarded**: on success with configuration `guarded p g d`, for every truth assignment that gives the two tests that guard
    `__scaledg` and `epsilon` their real value, the source program and the model's trace write the same attributes -/
theorem guarded_writes_are_source (o : Options) (o' : Options) (p g d : Nat) (h : (guardedTrace o).2 = .ok (o', .guarded p g d))
    (env : T → Bool) (e1 : env .dispGtPrec = decide (d > p)) (e2 : env .guardZero = (g == 0)) :
    sameSet ((guardedTrace o).1.map GW.tag) (evalW env guardedWrites) = true := by
  rw [env_eq env, e1, e2]
  exact guarded_writes_aux o o' p g d h _ _ _ _ _

/-- **Rational**: on success the model's trace writes the source program's attributes, except the two named in `rationalUnmodelled` -/
theorem rational_writes_are_source (o : Options) (r : Options × ArithCfg) (h : (rationalTrace o).2 = .ok r) (env : T → Bool) :
    sameSet ((rationalTrace o).1.map RW.tag ++ rationalUnmodelled) (evalW env rationalWrites) = true := by
  unfold rationalTrace at h ⊢
  split at h
  · simp at h
  · split at h
    · split at h
      · simp at h
      · rename_i _ _ _ _ _ _ hB
        simp [hB, evalW, rationalWrites, rationalUnmodelled, sameSet, RW.tag]
    · simp at h

/-- non-vacuity: a successful Guarded initialize, and the write sets agree on it -/
example : sameSet ((guardedTrace { cmd := [("arithmetic", .s "guarded"), ("precision", .i 4), ("guard", .i 0), ("display", .i 6)] }).1.map GW.tag)
    (evalW (fun t => t == T.guardZero || t == T.dispGtPrecGuard || t == T.gepsZero || t == T.dispNePrec) guardedWrites) = true := by
  decide +kernel

end Droop.C20
