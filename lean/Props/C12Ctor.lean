import Props.C12Prog
/-!
# C12 / C13: how an integer becomes a stored value, and `V.min`, as read from the source

`harness/gen_ctor.py` accepts `Fixed.__init__` / `Guarded.__init__` in the three-branch form only (value given directly / integer scaled /
value copied) and translates the integer branch; it accepts `min(cls, vals)` as the builtin `min` (Fixed, Rational) or as the loop keeping the
first minimal *stored* value (Guarded).  Kernel-checked equal to `ofIntProg` / `minKinds` on every C12 and C13 run.
-/
namespace Droop.C12
open Droop

/-- `self._value = arg * self.__scale` -/
def ofIntProg : FEx := .mul .a .S

def minKinds : List (String × String) := [("Fixed", "builtin"), ("Guarded", "first-min-by-stored-value"), ("Rational", "builtin")]

theorem fixed_ofInt_is_program (p : Nat) (n : Int) : (fixedArith p).ofInt n = ofIntProg.eval n 0 0 (pow10 p) false := rfl
theorem guarded_ofInt_is_program (p g : Nat) (n : Int) : (guardedArith p g).ofInt n = ofIntProg.eval n 0 0 (pow10 (p + g)) false := rfl

/-- Guarded `min`: the fold the source's loop is — `min_ = vals[0]`, then every later value that is smaller *as stored* replaces it -/
theorem guarded_vMin_is_loop (p g : Nat) (x : Int) (l : List Int) :
    (guardedArith p g).vMin x l = l.foldl (fun m y => if y < m then y else m) x := by
  unfold Arith.vMin
  congr 1
  funext m y
  show (if decide (y < m) = true then y else m) = _
  by_cases h : y < m <;> simp [h]

/-- Fixed `min` is the builtin: under Fixed's exact comparison "first minimal under `<`" and "first minimal stored value" are the same function -/
theorem fixed_vMin_is_builtin (p : Nat) (x : Int) (l : List Int) : (fixedArith p).vMin x l = (fixedArith p).pyMin x l := by
  unfold Arith.vMin Arith.pyMin
  congr 1
  funext m y
  have : (fixedArith p).ltRaw y m = (fixedArith p).lt y m := by
    show decide (y < m) = decide (intCmp y m < 0)
    unfold intCmp
    by_cases h1 : y < m <;> by_cases h2 : y = m <;> simp [h1, h2]
  rw [this]

end Droop.C12
