import Props.C07
/-!
# C07: who is tied for exclusion / for the next surplus transfer, as read from the source

`harness/gen_choice.py` finds in every rule module the pairs
`<x>_vote = min|max|V.min(c.<attr> for c in POP)` / `<x>_candidates = [c for c in POP if <test>]` and lists
(rule, low|high, aggregate, attribute, population, test, guard); kernel-checked equal to `choiceTable` on every C07 run.
`low_row_is_the_lowest` / `high_row_is_the_highest` say what a row with the test `c.<attr> == <x>_<attr>` means on the model: the tied set handed
to `breakTie` is *exactly* the set of members of the population with the lowest (highest) tally — nobody else can be chosen, nobody with that
tally is left out.  (The Meek-family rows, `low_vote + E.surplus >= c.vote`, are the subject of `C08.excluded_near_lowest` /
`prf_excluded_near_lowest`.)
-/
namespace Droop.C07
open Droop

def choiceTable : List (String × String × String × String × String × String × String) :=
  [("cfer", "low", "min", "vote", "C.hopeful()", "c.vote == low_vote", ""),
   ("meek", "low", "V.min", "vote", "C.hopeful()", "low_vote + E.surplus >= c.vote", ""),
   ("meek_prf", "low", "V.min", "vote", "C.hopeful()", "low_vote + E.surplus >= c.vote", ""),
   ("mpls", "high", "max", "vote", "hopefulWithQuota", "c.vote == high_vote", ""),
   ("mpls", "low", "min", "vote", "C.hopeful()", "c.vote == low_vote", ""),
   ("qpq", "high", "max", "quotient", "C.hopeful()", "c.quotient == high_quotient", "high_quotient > E.quota"),
   ("qpq", "low", "min", "quotient", "C.hopeful()", "c.quotient == low_quotient", ""),
   ("scotland", "high", "max", "vote", "C.pending()", "c.vote == high_vote", ""),
   ("scotland", "low", "min", "vote", "C.hopeful()", "c.vote == low_vote", ""),
   ("wigm", "high", "max", "vote", "C.pending()", "c.vote == high_vote", ""),
   ("wigm", "low", "min", "vote", "C.hopeful()", "c.vote == low_vote", ""),
   ("wigm_prf", "high", "max", "vote", "C.pending()", "c.vote == high_vote", ""),
   ("wigm_prf", "low", "min", "vote", "C.hopeful()", "c.vote == low_vote", "")]

theorem fixed_eq_iff (p : Nat) (a b : Int) : (fixedArith p).eq a b = true ↔ a = b := by
  simp only [Arith.eq, fixedArith, intCmp]
  by_cases h1 : a < b <;> by_cases h2 : a = b <;> simp [h1, h2]

/-- a `low` row with the equality test: the tied set is exactly the members of the population with the lowest tally -/
theorem low_row_is_the_lowest (p : Nat) (pop : List (Cand Int)) (lv : Int) (h : minVoteOf (fixedArith p) pop = some lv) (c : Cand Int) :
    c ∈ pop.filter (fun c => (fixedArith p).eq c.vote lv) ↔ (c ∈ pop ∧ ∀ d ∈ pop, c.vote ≤ d.vote) := by
  obtain ⟨⟨w, hw, hwv⟩, hle⟩ := minVoteOf_spec p pop lv h
  rw [List.mem_filter, fixed_eq_iff]
  constructor
  · rintro ⟨hc, hv⟩
    exact ⟨hc, fun d hd => by rw [hv]; exact hle d hd⟩
  · rintro ⟨hc, hall⟩
    refine ⟨hc, ?_⟩
    have h1 := hall w hw
    have h2 := hle c hc
    omega

/-- a `high` row with the equality test: exactly the members with the highest tally -/
theorem high_row_is_the_highest (p : Nat) (pop : List (Cand Int)) (hv : Int) (h : maxVoteOf (fixedArith p) pop = some hv) (c : Cand Int) :
    c ∈ pop.filter (fun c => (fixedArith p).eq c.vote hv) ↔ (c ∈ pop ∧ ∀ d ∈ pop, d.vote ≤ c.vote) := by
  obtain ⟨⟨w, hw, hwv⟩, hle⟩ := maxVoteOf_spec p pop hv h
  rw [List.mem_filter, fixed_eq_iff]
  constructor
  · rintro ⟨hc, hvv⟩
    exact ⟨hc, fun d hd => by rw [hvv]; exact hle d hd⟩
  · rintro ⟨hc, hall⟩
    refine ⟨hc, ?_⟩
    have h1 := hall w hw
    have h2 := hle c hc
    omega

end Droop.C07
