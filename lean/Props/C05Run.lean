import Props.C05
import Props.Driver

/-! # The one-seat majority claim at run level, about the function the compiled driver runs

"With one seat, a candidate ranked first by more than half of the ballots always wins": for every case inside the domain
`caseOK`, every precision, and each of the seven Gregory rule names (Minneapolis without undeclared write-ins), the run
returns a state in which that candidate is elected; unless the crash flag is up it is the only candidate elected. -/
namespace Droop.C05
open Droop

/-- ballots (with multipliers) whose first preference is `w` -/
def firstPrefs (c : Case) (w : Nat) : Nat := ((c.ballots.filter (fun b => b.2.head? == some w)).map (·.1)).sum

/-- the tally over the initial ballots is the first-preference count, in units of the arithmetic -/
theorem tally_initState (p : Nat) (c : Case) (w : Nat) :
    ((initState (fixedArith p) c).ballots.map
        (fun b => if b.top = some w then bvote (fixedArith p) b else 0)).sum = (firstPrefs c w : Int) * pow10 p := by
  unfold initState firstPrefs
  simp only [List.map_map]
  have hS := pow10_pos p
  generalize c.ballots = l
  induction l with
  | nil => simp
  | cons b l ih =>
    obtain ⟨m, r⟩ := b
    simp only [List.map_cons, List.sum_cons, Function.comp, List.filter_cons]
    rw [ih]
    have hb : bvote (fixedArith p) ({ mult := m, rank := r, idx := 0, w := (fixedArith p).one, residual := (fixedArith p).zero } : Ballot Int)
        = (m : Int) * pow10 p := by
      rw [bvote_eq (fixedArith p) (fixed_lawful p)]
      show pow10 p * (((m : Nat) : Int) : Int) = _
      simp [mul_comm]
    have htop : ({ mult := m, rank := r, idx := 0, w := (fixedArith p).one, residual := (fixedArith p).zero } : Ballot Int).top
        = r.head? := by
      unfold Ballot.top; cases r <;> rfl
    rw [hb, htop]
    by_cases hh : r.head? = some w
    · simp [hh]; ring
    · have : (r.head? == some w) = false := by simpa using hh
      simp [hh, this]

/-- the state after the quota is set and the first preferences are counted -/
def core (p : Nat) (q : Int) (c : Case) : St Int :=
  (firstCount (fixedArith p) ((initState (fixedArith p) c).setQuota q)).setExhausted (fixedArith p).zero

theorem core_skel (p : Nat) (q : Int) (c : Case) : (core p q c).skel = (initState (fixedArith p) c).skel := by
  unfold core
  show (firstCount (fixedArith p) _).skel = _
  rw [firstCount_eq]; exact foldl_fcStep_skel (fixedArith p) _ _

theorem core_ballots (p : Nat) (q : Int) (c : Case) : (core p q c).ballots = (initState (fixedArith p) c).ballots := by
  unfold core
  show (firstCount (fixedArith p) _).ballots = _
  rw [firstCount_eq, (foldl_fcStep_frame (fixedArith p) _ _).1]; rfl

/-- the majority candidate stands hopeful with its first-preference count as tally once the first preferences are counted -/
theorem majority_at_core (p : Nat) (c : Case) (hm : methodOf c.rule = .wigm) (hk : CaseOK c) (q : Int) (hq : 0 < q)
    (w : Nat) (hpos : 0 < firstPrefs c w) :
    ∃ w0 ∈ (core p q c).hopeful, w0.cid = w ∧ w0.vote = (firstPrefs c w : Int) * pow10 p := by
  have hI0 := initState_init (fixedArith p) (fixed_lawful p) c hm hk
  have hI : Inv (fixedArith p) (core p q c) := Inv.initCore (fixedArith p) (fixed_lawful p) q hI0 hq
  -- some ballot has `w` first, so `w` is a standing candidate
  have hex : ∃ b ∈ c.ballots, b.2.head? = some w := by
    by_contra hno
    have : c.ballots.filter (fun b => b.2.head? == some w) = [] := by
      rw [List.filter_eq_nil_iff]
      intro b hb hbw
      exact hno ⟨b, hb, by simpa using hbw⟩
    unfold firstPrefs at hpos; rw [this] at hpos; simp at hpos
  obtain ⟨b, hb, hbw⟩ := hex
  have hwr : w ∈ b.2 := List.mem_of_mem_head? (by rw [hbw]; rfl)
  obtain ⟨k, hkc, hkw, hkwd⟩ := (hk.ballots b hb).2 w hwr
  obtain ⟨x, hx, hxc, hxs⟩ := initState_cand_of (fixedArith p) hkc
  rw [hkwd] at hxs
  have hsk := core_skel p q c
  obtain ⟨w0, hw0, hw0s⟩ := mem_of_skel_eq hsk.symm hx
  have hcid : w0.cid = w := (skel_cid hw0s).trans (hxc.trans hkw)
  have hst : w0.st = .hopeful := by rw [(skel_st hw0s).1]; simpa using hxs
  refine ⟨w0, mem_hopeful.2 ⟨hw0, hst⟩, hcid, ?_⟩
  rw [hI.i1 w0 hw0 (Or.inl hst)]
  unfold St.tally
  rw [core_ballots, hcid]
  exact tally_initState p c w

theorem hopeful_gInit (p : Nat) (q : Int) (c : Case) :
    (gInit (fixedArith p) q (initState (fixedArith p) c)).hopeful = (core p q c).hopeful := by
  unfold gInit core St.hopeful; rw [logAct_cands]

theorem majority_at_start (p : Nat) (c : Case) (hm : methodOf c.rule = .wigm) (hk : CaseOK c) (q : Int) (hq : 0 < q)
    (w : Nat) (hpos : 0 < firstPrefs c w) :
    ∃ w0 ∈ (gInit (fixedArith p) q (initState (fixedArith p) c)).hopeful,
      w0.cid = w ∧ w0.vote = (firstPrefs c w : Int) * pow10 p := by
  rw [hopeful_gInit]; exact majority_at_core p c hm hk q hq w hpos

theorem ge_of_le (p : Nat) (a b : Int) (h : b ≤ a) : (fixedArith p).ge a b = true := by
  simp only [Arith.ge, fixedArith, intCmp]
  by_cases h1 : a < b
  · omega
  · by_cases h2 : a = b <;> simp [h1, h2]

/-- more than half of `n` ballots is at least the integer Droop quota for one seat -/
theorem majority_has_integer_quota (n f : Nat) (hmaj : n < 2 * f) : pdiv (n : Int) (((1 : Nat) : Int) + 1) + 1 ≤ (f : Int) := by
  have h2 : (0 : Int) < ((1 : Nat) : Int) + 1 := by norm_num
  have hle := pdiv_mul_le (n : Int) (((1 : Nat) : Int) + 1) h2
  have : ((1 : Nat) : Int) + 1 = 2 := by norm_num
  rw [this] at hle ⊢
  omega

def gregoryNames : List String := ["wigm", "wigm-prf", "wigm-prf-batch", "scotland", "cfer", "cfer-batch", "mpls"]

/-- what the theorem concludes about the returned state -/
def WinsAlone (w : Nat) (t : St Int) : Prop :=
  (∃ x ∈ t.cands, x.cid = w ∧ x.st = .elected) ∧ (t.crash = none → nEl t = 1)

theorem scotland_majority (p : Nat) (c : Case) (hr : c.rule = "scotland") (hok : caseOK c = true) (hseats : c.seats = 1)
    (w : Nat) (hmaj : c.nballots < 2 * firstPrefs c w) :
    ∃ t, runRuleSt (fixedArith p) c = some t ∧ WinsAlone w t := by
  obtain ⟨t, ⟨hrun, _, hfill⟩, _⟩ := Driver.scotland p c hr hok
  have hk := caseOK_iff c hok
  have hm : methodOf c.rule = .wigm := Driver.methodOf_gregory (by rw [hr]; simp)
  have hI := initState_init (fixedArith p) (fixed_lawful p) c hm hk
  have hS := pow10_pos p
  have hrun' : scotCount (fixedArith p) (initState (fixedArith p) c) = some t := by
    rw [← hrun]; simp [runRuleSt, runRuleSt', hr]
  have hnn : 0 ≤ pdiv ((initState (fixedArith p) c).nballots : Int) (((initState (fixedArith p) c).seats : Int) + 1) :=
    pdiv_nonneg _ _ (by positivity) (by positivity)
  have hqpos : 0 < (fixedArith p).ofInt (pdiv (initState (fixedArith p) c).nballots ((initState (fixedArith p) c).seats + 1) + 1) := by
    show 0 < (pdiv _ _ + 1) * pow10 p
    positivity
  have hst : ScotStart (fixedArith p) (initState (fixedArith p) c) :=
    ⟨hI, hqpos, initState_fresh _ c, initState_enough _ c hk⟩
  obtain ⟨w0, hw0, hcid, hv⟩ := majority_at_start p c hm hk _ hqpos w (by omega)
  have hq : hasQuotaGE (fixedArith p) (scotInit (fixedArith p) (initState (fixedArith p) c)) w0 = true := by
    unfold hasQuotaGE
    apply ge_of_le
    have hquota : (scotInit (fixedArith p) (initState (fixedArith p) c)).quota
        = (pdiv (c.nballots : Int) ((c.seats : Int) + 1) + 1) * pow10 p := by
      rw [(scotInit_frame (fixedArith p) _).2.2]; rfl
    rw [hquota, hv, hseats]
    have := majority_has_integer_quota c.nballots (firstPrefs c w) hmaj
    exact mul_le_mul_of_nonneg_right this (le_of_lt hS)
  obtain ⟨x, hx, hxc, hxe⟩ := scot_first_elected (fixedArith p) (fixed_lawful p) rfl _ t hst rfl hrun' w0 hw0 hq
  refine ⟨t, hrun, ⟨x, hx, hxc.trans hcid, hxe⟩, ?_⟩
  intro hcr
  have := (hfill hcr).1
  rw [this]
  have : t.seats = c.seats := by
    exact scot_seats (fixedArith p) _ t hrun'
  rw [this, hseats]

theorem only_winner {t : St Int} {n : Nat} (h : t.crash = none → nEl t = t.seats ∧ nHop t = 0) (hs : t.seats = n) :
    t.crash = none → nEl t = n := fun hcr => by rw [(h hcr).1, hs]

theorem cfer_majority (p : Nat) (c : Case) (hr : c.rule = "cfer" ∨ c.rule = "cfer-batch") (hok : caseOK c = true)
    (hseats : c.seats = 1) (w : Nat) (hmaj : c.nballots < 2 * firstPrefs c w) :
    ∃ t, runRuleSt (fixedArith p) c = some t ∧ WinsAlone w t := by
  obtain ⟨t, ⟨hrun, _, hfill⟩, _⟩ := Driver.cfer p c hr hok
  have hk := caseOK_iff c hok
  have hm : methodOf c.rule = .wigm := Driver.methodOf_gregory (by rcases hr with hr | hr <;> rw [hr] <;> simp)
  have hI := initState_init (fixedArith p) (fixed_lawful p) c hm hk
  have hS := pow10_pos p
  obtain ⟨batch, hrun'⟩ : ∃ batch, cferCount (fixedArith p) batch (initState (fixedArith p) c) = some t := by
    rcases hr with hr | hr
    · exact ⟨false, by rw [← hrun]; simp [runRuleSt, runRuleSt', hr]⟩
    · exact ⟨true, by rw [← hrun]; simp [runRuleSt, runRuleSt', hr]⟩
  have hG := C01.cfer_start p _ hI (initState_fresh _ c) (initState_enough _ c hk) rfl
  obtain ⟨w0, hw0, hcid, hv⟩ := majority_at_start p c hm hk _ hG.quota_pos w (by omega)
  have hq : hasQuotaGE (fixedArith p) ((cferInit (fixedArith p) (initState (fixedArith p) c)).newRound (fixedArith p)) w0 = true := by
    unfold hasQuotaGE
    apply ge_of_le
    rw [quota_newRound, cferInit_eq, (gInit_facts (fixedArith p) _ _).2.2.2.1]
    have hcq := C01.cferQuota_fixed p (initState (fixedArith p) c)
    unfold cferQuota at hcq
    rw [hcq, hv]
    have hs1 : (initState (fixedArith p) c).seats = 1 := hseats
    rw [hs1]
    exact majority_has_quota p c.nballots _ (by
      have : ((c.nballots : Nat) : Int) < 2 * (firstPrefs c w : Int) := by exact_mod_cast hmaj
      nlinarith)
  obtain ⟨x, hx, hxc, hxe⟩ := cfer_first_elected (fixedArith p) (fixed_lawful p) rfl batch _ t hG rfl hrun' w0
    (by rw [cferInit_eq]; exact hw0) hq
  exact ⟨t, hrun, ⟨x, hx, hxc.trans hcid, hxe⟩,
    only_winner hfill ((cfer_seats (fixedArith p) batch _ t hrun').trans hseats)⟩

theorem mpls_majority (p : Nat) (c : Case) (hr : c.rule = "mpls") (hok : caseOK c = true)
    (hnu : ∀ k ∈ c.cands, k.2.2.2 = false) (hseats : c.seats = 1) (w : Nat) (hmaj : c.nballots < 2 * firstPrefs c w) :
    ∃ t, runRuleSt (fixedArith p) c = some t ∧ WinsAlone w t := by
  obtain ⟨t, ⟨hrun, _, hfill⟩, _⟩ := Driver.mpls p c hr hok hnu
  have hk := caseOK_iff c hok
  have hm : methodOf c.rule = .wigm := Driver.methodOf_gregory (by rw [hr]; simp)
  have hI := initState_init (fixedArith p) (fixed_lawful p) c hm hk
  have hS := pow10_pos p
  have hrun' : mplsCount (fixedArith p) (initState (fixedArith p) c) = some t := by
    rw [← hrun]; simp [runRuleSt, runRuleSt', hr]
  have hG := C01.mpls_start p _ hI (initState_fresh _ c) (initState_enough _ c hk) rfl
  obtain ⟨w0, hw0, hcid, hv⟩ := majority_at_core p c hm hk _ hG.quota_pos w (by omega)
  have hw0' : w0 ∈ (mplsInit (fixedArith p) (initState (fixedArith p) c)).hopeful := by
    unfold mplsInit; rw [hopeful_newRound]; exact hw0
  have hcrash : (mplsInit (fixedArith p) (initState (fixedArith p) c)).crash = none := by
    unfold mplsInit St.newRound
    rw [crash_logAct]
    show (firstCount (fixedArith p) _).crash = _
    rw [firstCount_eq, foldl_fcStep_crash]; rfl
  have hq : hasQuotaGE (fixedArith p) (mplsInit (fixedArith p) (initState (fixedArith p) c)) w0 = true := by
    unfold hasQuotaGE
    apply ge_of_le
    have hquota : (mplsInit (fixedArith p) (initState (fixedArith p) c)).quota
        = (pdiv (c.nballots : Int) ((c.seats : Int) + 1) + 1) * pow10 p := by
      unfold mplsInit; rw [quota_newRound]
      show (firstCount (fixedArith p) _).quota = _
      rw [firstCount_eq, (foldl_fcStep_frame (fixedArith p) _ _).2.2.1]; rfl
    rw [hquota, hv, hseats]
    have := majority_has_integer_quota c.nballots (firstPrefs c w) hmaj
    exact mul_le_mul_of_nonneg_right this (le_of_lt hS)
  obtain ⟨x, hx, hxc, hxe⟩ := mpls_first_elected (fixedArith p) (fixed_lawful p) rfl _ t hG (initState_noUnd _ c hnu) hrun'
    hcrash ((mplsInit_seats (fixedArith p) _).trans hseats) w0 hw0' hq
  exact ⟨t, hrun, ⟨x, hx, hxc.trans hcid, hxe⟩,
    only_winner hfill ((mpls_seats (fixedArith p) _ t hrun').trans hseats)⟩

/-- wigm with any option set `o` -/
theorem wigm_majority_o (p : Nat) (c : Case) (o : WigmOpts) (hm : methodOf c.rule = .wigm) (hok : caseOK c = true)
    (hseats : c.seats = 1) (hmore : o.batchZero = true → 1 < c.nballots) (w : Nat) (hmaj : c.nballots < 2 * firstPrefs c w) :
    ∃ t, wigmCount (fixedArith p) o (initState (fixedArith p) c) = some t ∧ WinsAlone w t := by
  have hk := caseOK_iff c hok
  have hI := initState_init (fixedArith p) (fixed_lawful p) c hm hk
  have hS := pow10_pos p
  have hG := C01.wigm_start p o _ hI (initState_fresh _ c) (initState_enough _ c hk) rfl
  obtain ⟨t, ht, hM, hfill⟩ : ∃ t, wigmCount (fixedArith p) o (initState (fixedArith p) c) = some t ∧ Mon t
      ∧ (t.crash = none → nEl t = t.seats ∧ nHop t = 0) := by
    by_cases hz : o.batchZero = false
    · obtain ⟨t, ht, hM, _, hfill⟩ := C01.wigm_seats_filled_fixed p o hz _ hI (initState_fresh _ c)
        (initState_enough _ c hk) rfl
      exact ⟨t, ht, hM, hfill⟩
    · have hz' : o.batchZero = true := by simpa using hz
      have hmr : (initState (fixedArith p) c).seats < (initState (fixedArith p) c).nballots := by
        show c.seats < c.nballots
        rw [hseats]; exact hmore hz'
      obtain ⟨t, ht, _, _, hM, _, hfill⟩ := C02.wigm_every_configuration_fixed p o _ hI (initState_fresh _ c)
        (initState_enough _ c hk) rfl (initState_noW _ c hk) hmr
      exact ⟨t, ht, hM, hfill⟩
  obtain ⟨_, _, _, _, hnel, _⟩ := hG.facts (fixedArith p) (fixed_lawful p)
  obtain ⟨w0, hw0, hcid, hv⟩ := majority_at_start p c hm hk _ hG.quota_pos w (by omega)
  have hs1 : (initState (fixedArith p) c).seats = 1 := hseats
  have hquota : (wigmInit (fixedArith p) o (initState (fixedArith p) c)).quota ≤ w0.vote := by
    rw [wigmInit_eq, (gInit_facts (fixedArith p) _ _).2.2.2.1, C01.wigmQuota_fixed, hv]
    split
    · rw [hs1]
      have := majority_has_integer_quota c.nballots (firstPrefs c w) hmaj
      have h2 : (1 + pdiv ((initState (fixedArith p) c).nballots : Int) (((1 : Nat) : Int) + 1)) ≤ (firstPrefs c w : Int) := by
        show 1 + pdiv (c.nballots : Int) _ ≤ _
        omega
      exact mul_le_mul_of_nonneg_right h2 (le_of_lt hS)
    · have hcq := C01.cferQuota_fixed p (initState (fixedArith p) c)
      rw [hcq, hs1]
      exact majority_has_quota p c.nballots _ (by
        have : ((c.nballots : Nat) : Int) < 2 * (firstPrefs c w : Int) := by exact_mod_cast hmaj
        nlinarith)
  have hq : (if o.prf then hasQuotaGE (fixedArith p) else hasQuotaX (fixedArith p))
      ((wigmInit (fixedArith p) o (initState (fixedArith p) c)).newRound (fixedArith p)) w0 = true := by
    have hx : ∀ (s : St Int) (x : Cand Int), hasQuotaX (fixedArith p) s x = hasQuotaGE (fixedArith p) s x := fun _ _ => rfl
    have hge : hasQuotaGE (fixedArith p) ((wigmInit (fixedArith p) o (initState (fixedArith p) c)).newRound (fixedArith p)) w0 = true := by
      unfold hasQuotaGE
      apply ge_of_le
      rw [quota_newRound]; exact hquota
    split
    · exact hge
    · rw [hx]; exact hge
  obtain ⟨x, hx, hxc, hxe⟩ := wigm_first_elected (fixedArith p) o _ t ht hM
    (by rw [wigmInit_eq, gInit_crash]; rfl) (by rw [wigmInit_eq]; exact hnel)
    (by rw [wigmInit_eq, (gInit_facts (fixedArith p) _ _).2.2.1]; exact hseats) w0 (by rw [wigmInit_eq]; exact hw0) hq
  exact ⟨t, ht, ⟨x, hx, hxc.trans hcid, hxe⟩, only_winner hfill ((wigm_seats (fixedArith p) o _ t ht).trans hseats)⟩

/-- wigm (every option combination; with `defeat_batch=zero` at least two ballots), wigm-prf, wigm-prf-batch -/
theorem wigm_majority (p : Nat) (c : Case) (hr : c.rule = "wigm" ∨ c.rule = "wigm-prf" ∨ c.rule = "wigm-prf-batch")
    (hok : caseOK c = true) (hseats : c.seats = 1) (hmore : c.rule = "wigm" → c.batch = "zero" → 1 < c.nballots)
    (w : Nat) (hmaj : c.nballots < 2 * firstPrefs c w) :
    ∃ t, runRuleSt (fixedArith p) c = some t ∧ WinsAlone w t := by
  have hm : methodOf c.rule = .wigm := Driver.methodOf_gregory (by rcases hr with hr | hr | hr <;> rw [hr] <;> simp)
  rcases hr with hr | hr | hr
  · obtain ⟨t, ht, hw⟩ := wigm_majority_o p c { integerQuota := c.intq, batchZero := c.batch == "zero" } hm hok hseats
      (fun hz => hmore hr (by simpa using hz)) w hmaj
    exact ⟨t, by simp only [runRuleSt, runRuleSt', hr]; exact ht, hw⟩
  · obtain ⟨t, ht, hw⟩ := wigm_majority_o p c { prf := true } hm hok hseats (fun hz => by simp at hz) w hmaj
    exact ⟨t, by simp only [runRuleSt, runRuleSt', hr]; exact ht, hw⟩
  · obtain ⟨t, ht, hw⟩ := wigm_majority_o p c { prf := true, prfBatch := true } hm hok hseats (fun hz => by simp at hz) w hmaj
    exact ⟨t, by simp only [runRuleSt, runRuleSt', hr]; exact ht, hw⟩

/-! ## non-vacuity: a concrete one-seat case with a majority candidate, inside the domain -/

def sample : Case :=
  { rule := "scotland", arith := "fixed", p := 4, g := 0, intq := false, batch := "none", omega := 0, seats := 1, nballots := 5,
    cands := [(1, 1, false, false), (2, 2, false, false), (3, 3, false, false)],
    ballots := [(3, [2, 1]), (1, [1, 3]), (1, [3])], ballotsEq := [] }

example : caseOK sample = true := by decide
example : sample.nballots < 2 * firstPrefs sample 2 := by decide
example : ¬ (sample.nballots < 2 * firstPrefs sample 1) := by decide

end Droop.C05
