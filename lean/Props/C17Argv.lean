import DroopProofs
/-!
# C17: the command line (`Options.parse`)

The model of `Options.parse` (`DroopModel/Options.lean`, compared with the real function on generated command lines by the `ARGV`
verb on every C17 run): what one word does, that the only failure is the usage error for a second ballot path, and that a later
word overwrites an earlier one and nothing else.
-/
namespace Droop.C17
open Droop Droop.Options

/-- the only way `Options.parse` fails is the usage error -/
theorem parseOne_fails_only_on_second_path (acc : Dict × Option String) (rn : List String) (opt : String) (e : OErr)
    (h : parseOne acc rn opt = .error e) : ∃ p, acc.2 = some p ∧ p ≠ "" := by
  unfold parseOne at h
  split at h
  · split at h
    · cases h
    · split at h
      · cases h
      · split at h
        · cases h
        · split at h
          · rename_i p hp
            split at h
            · rename_i hne
              exact ⟨p, hp, by simpa using hne⟩
            · cases h
          · cases h
  · simp only at h
    split at h
    · cases h
    · split at h <;> cases h
  · cases h

/-- a word `name=value` whose value is `true` / `yes` in any letter case sets `name` to True; `false` / `no` to False; anything
    else to the text itself — and never fails -/
theorem parseOne_named (acc : Dict × Option String) (rn : List String) (opt name val : String) (rest : List String)
    (hs : opt.splitOn "=" = name :: val :: rest) :
    parseOne acc rn opt = .ok (dictSet acc.1 name
      (if val.toLower == "false" || val.toLower == "no" then .b false
       else if val.toLower == "true" || val.toLower == "yes" then .b true else .s val), acc.2) := by
  unfold parseOne
  rw [hs]
  simp only
  split
  · rfl
  · split <;> rfl

theorem dictGet_dictSet_same (d : Dict) (k : String) (v : OV) : dictGet? (dictSet d k v) k = some v := by
  unfold dictGet? dictSet
  by_cases h : d.any (·.1 == k) = true
  · rw [if_pos h]
    induction d with
    | nil => simp at h
    | cons e es ih =>
      simp only [List.map_cons, List.find?_cons]
      by_cases he : (e.1 == k) = true
      · simp [he]
      · have he' : (e.1 == k) = false := by simpa using he
        simp only [he', Bool.false_eq_true, if_false]
        have : es.any (·.1 == k) = true := by simpa [List.any_cons, he'] using h
        simpa [he'] using ih this
  · rw [if_neg h]
    have hnone : d.find? (·.1 == k) = none := by
      rw [List.find?_eq_none]
      intro x hx hxk
      apply h
      exact List.any_eq_true.2 ⟨x, hx, hxk⟩
    simp [List.find?_append, hnone]

/-- ... and a word touches no other name -/
theorem dictGet_dictSet_other (d : Dict) (k k' : String) (v : OV) (hne : k' ≠ k) : dictGet? (dictSet d k v) k' = dictGet? d k' := by
  unfold dictGet? dictSet
  have hkk : (k == k') = false := by simpa using fun e => hne e.symm
  split
  · congr 1
    clear * - hkk
    induction d with
    | nil => rfl
    | cons e es ih =>
      simp only [List.map_cons, List.find?_cons]
      by_cases he : (e.1 == k) = true
      · have hek : e.1 = k := by simpa using he
        have : (e.1 == k') = false := by rw [hek]; exact hkk
        simp only [he, if_true, hkk, this]
        exact ih
      · simp only [he, Bool.false_eq_true, if_false]
        split
        · rfl
        · exact ih
  · simp [List.find?_append, hkk]

end Droop.C17
