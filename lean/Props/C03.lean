import DroopProofs
import Mathlib.Algebra.Order.Floor.Ring
import Mathlib.Data.Rat.Floor
/-!
# C03 — statutory rules carry out their published procedure (clause theorems)

* the parametric WIGM rule configured with the reference rule's parameters *is* the reference rule;
* the transfer value is the statute's: two truncations (PRF D.4, Minneapolis, CfER) or one (Scottish order).
-/
namespace Droop.C03
open Droop
variable {α : Type}

/-- `wigm` with an inexact arithmetic, no integer quota and no zero batch runs the same count, action for action,
    as `wigm-prf`: same quota, same election test, same steps. In particular `wigm arithmetic=fixed precision=4`
    yields the history of `wigm-prf`. -/
theorem wigm_configured_as_prf_is_prf (A : Arith α) (hex : A.exact = false) (s0 : St α) :
    wigmCount A { integerQuota := false, batchZero := false, prf := false, prfBatch := false } s0
      = wigmCount A { integerQuota := false, batchZero := false, prf := true, prfBatch := false } s0 := by
  have hq : ∀ s : St α, wigmQuota A { integerQuota := false, batchZero := false, prf := false, prfBatch := false } s
      = wigmQuota A { integerQuota := false, batchZero := false, prf := true, prfBatch := false } s := by
    intro s; simp [wigmQuota, hex]
  have hX : hasQuotaX A = hasQuotaGE A := by
    funext s c; simp [hasQuotaX, hasQuotaGE, hex]
  have hE : ∀ s : St α, wigmElect A { integerQuota := false, batchZero := false, prf := false, prfBatch := false } s
      = wigmElect A { integerQuota := false, batchZero := false, prf := true, prfBatch := false } s := by
    intro s; simp [wigmElect, hX]
  have hA : ∀ s : St α, wigmAfterElect A { integerQuota := false, batchZero := false, prf := false, prfBatch := false } s
      = wigmAfterElect A { integerQuota := false, batchZero := false, prf := true, prfBatch := false } s := by
    intro s; simp [wigmAfterElect, wigmSure, wigmDefeatStep]
  have hB : wigmBody A { integerQuota := false, batchZero := false, prf := false, prfBatch := false }
      = wigmBody A { integerQuota := false, batchZero := false, prf := true, prfBatch := false } := by
    funext s; simp [wigmBody, hE, hA]
  simp [wigmCount, wigmInit, hq, hB]

example : (fixedArith 4).exact = false := rfl

/-- PRF D.4 / Minneapolis 167.20 / CfER: the new ballot value is `w·s` truncated to `p` places, divided by the
    candidate's vote and truncated again (surplus fraction "calculated to four decimal places, ignoring any remainder") -/
theorem transfer_value_two_truncations (p : Nat) (w s v : Int) (hv : v ≠ 0) :
    rewMulDiv (fixedArith p) w s v
      = ⌊((⌊((w * s : Int) : ℚ) / (pow10 p : ℚ)⌋ * pow10 p : Int) : ℚ) / (v : ℚ)⌋ := by
  have hS : pow10 p ≠ 0 := ne_of_gt (pow10_pos p)
  have hv0 : (v == 0) = false := by simpa using hv
  show (if (v == 0) = true then 0 else pdiv (pdiv (w * s) (pow10 p) * pow10 p) v) = _
  simp only [hv0, Bool.false_eq_true, if_false]
  rw [pdiv_eq_floor _ _ hv, pdiv_eq_floor _ _ hS]

/-- Scottish order rule 48(3): the transfer value is `w·s/v` truncated once (fused multiply-divide, no intermediate rounding) -/
theorem scottish_transfer_value_one_truncation (p : Nat) (w s v : Int) (hv : v ≠ 0) :
    rewMuldivDown (fixedArith p) w s v = ⌊((w * s : Int) : ℚ) / (v : ℚ)⌋ := by
  have hv0 : (v == 0) = false := by simpa using hv
  show divmodRound .down (w * s) v = _
  simp only [divmodRound, hv0, Bool.false_eq_true, if_false]
  simp
  have := pdiv_eq_floor (w * s) v hv
  rw [this]; push_cast; rfl

/-- non-vacuity: a transfer at four places: weight 1, surplus 1.5, vote 7.5 → 0.2 exactly -/
example : rewMulDiv (fixedArith 4) 10000 15000 75000 = 2000 := by decide
example : rewMuldivDown (fixedArith 5) 100000 100000 300000 = 33333 := by decide

end Droop.C03
