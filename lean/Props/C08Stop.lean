import Props.C04Meek
/-!
# C08 — the iteration stops only when converged; C04 / C07 — who is excluded afterwards

`meekIterate` (meek.py `iterate()`) ends in one of four ways.  What each ending says about the state it returns:

* `iterate_elected`: some hopeful candidate passed the quota test of the last iteration;
* `iterate_omega`: nobody passed it and the total surplus is at most omega — converged;
* `iterate_stable`: nobody passed it, the surplus is above omega and did not decrease against the previous iteration — the
  "stable state" the rule accepts as convergence, logged as such;
* `iterate_batch`: nobody passed it and a non-empty safe batch was found (`meekIterate_batch`: its members are hopeful).

In the two converged endings every candidate still hopeful failed the quota test with the tallies and quota of that last
iteration (`converged_rest_below`; fixed-point: holds strictly less than the quota, `converged_rest_below_fixed`), so the candidate
excluded next — one of the hopefuls whose tally is within the surplus of the lowest (`excluded_near_lowest`) — holds less than a
quota.
-/
namespace Droop.C08
open Droop
variable {α : Type} [CommRing α] [LinearOrder α] [IsStrictOrderedRing α] (A : Arith α)

/-- how the iteration ended, read off the state it was last applied to -/
theorem iterate_cases (o : MeekOpts) (omega : α) :
    ∀ (fuel : Nat) (last : α) (s t : St α) (st : IStatus), meekIterate A o omega fuel last s = (t, st) →
      match st with
      | .fuel => True
      | .crash => True
      | .elected => ∃ s', t = meekIterCore A o s' ∧ meekIterElected A o s' = true
      | .omega => ∃ s', t = meekIterCore A o s' ∧ meekIterElected A o s' = false ∧ A.le t.surplus omega = true
      | .stable => ∃ s' last', t = (meekIterCore A o s').logMsg "Stable state detected" [] (some (meekIterCore A o s').surplus)
            ∧ meekIterElected A o s' = false ∧ A.le (meekIterCore A o s').surplus omega = false
            ∧ A.ge (meekIterCore A o s').surplus last' = true
      | .batch cids => ∃ s', t = meekIterCore A o s' ∧ meekIterElected A o s' = false ∧ cids ≠ [] := by
  intro fuel
  induction fuel with
  | zero =>
    intro last s t st h
    unfold meekIterate at h
    cases h
    trivial
  | succ n ih =>
    intro last s t st h
    unfold meekIterate at h
    by_cases h1 : meekIterElected A o s = true
    · rw [if_pos h1] at h
      cases h
      exact ⟨s, rfl, h1⟩
    · have h1' : meekIterElected A o s = false := by simpa using h1
      rw [if_neg h1] at h
      by_cases h2 : A.le (meekIterCore A o s).surplus omega = true
      · rw [if_pos h2] at h
        cases h
        exact ⟨s, rfl, h1', h2⟩
      · have h2' : A.le (meekIterCore A o s).surplus omega = false := by simpa using h2
        rw [if_neg h2] at h
        by_cases h3 : A.ge (meekIterCore A o s).surplus last = true
        · rw [if_pos h3] at h
          cases h
          exact ⟨s, last, rfl, h1', h2', h3⟩
        · rw [if_neg h3] at h
          by_cases h4 : (!(if o.batchSafe then batchDefeatGroups A (meekIterCore A o s) (meekIterCore A o s).surplus else []).isEmpty) = true
          · rw [if_pos h4] at h
            cases h
            refine ⟨s, rfl, h1', ?_⟩
            intro he
            have : (if o.batchSafe then batchDefeatGroups A (meekIterCore A o s) (meekIterCore A o s).surplus else []) = [] := by
              cases hl : (if o.batchSafe then batchDefeatGroups A (meekIterCore A o s) (meekIterCore A o s).surplus else []) with
              | nil => rfl
              | cons a l => rw [hl] at he; simp at he
            rw [this] at h4
            simp at h4
          · rw [if_neg h4] at h
            by_cases h5 : (kfUpdate A true (meekIterCore A o s)).crash.isSome = true
            · rw [if_pos h5] at h
              cases h
              trivial
            · rw [if_neg h5] at h
              exact ih _ _ t st h

/-- nobody was elected in the last iteration: the hopefuls of its result are those of its quota test, and all failed it -/
theorem no_winner_rest (o : MeekOpts) (s' : St α) (hne : meekIterElected A o s' = false) :
    ∀ c ∈ (meekIterCore A o s').hopeful, hasQuotaX A (meekS3 A o s') c = false :=
  fun c hc => (C04.meek_no_hopeful_holds_quota A o s' c hc).2

theorem meekIterCore_quota (o : MeekOpts) (s' : St α) : (meekIterCore A o s').quota = (meekS3 A o s').quota := by
  rw [C04.meek_quota_prescribed]
  rfl

/-- **converged endings: every candidate still hopeful holds less than the quota** (fixed-point arithmetic) -/
theorem converged_rest_below_fixed (p : Nat) (o : MeekOpts) (omega : Int) (fuel : Nat) (last : Int) (s t : St Int) (st : IStatus)
    (h : meekIterate (fixedArith p) o omega fuel last s = (t, st)) (hst : st = .omega ∨ st = .stable) :
    ∀ c ∈ t.hopeful, c.vote < t.quota := by
  have hc := iterate_cases (fixedArith p) o omega fuel last s t st h
  rcases hst with rfl | rfl
  · obtain ⟨s', rfl, hne, _⟩ := hc
    intro c hcm
    rw [meekIterCore_quota]
    exact C04.meek_rest_below_fixed p o s' c hcm
  · obtain ⟨s', last', rfl, hne, _, _⟩ := hc
    intro c hcm
    have hcm' : c ∈ (meekIterCore (fixedArith p) o s').hopeful := hcm
    show c.vote < (meekIterCore (fixedArith p) o s').quota
    rw [meekIterCore_quota]
    exact C04.meek_rest_below_fixed p o s' c hcm'

/-- the candidate excluded after a converged iteration is a hopeful whose tally is within the surplus of the lowest tally -/
theorem excluded_near_lowest (o : MeekOpts) (s : St α) (b : Bool) (hd : Cand α) (hs : List (Cand α)) (hh : s.hopeful = hd :: hs)
    (lc : Cand α)
    (hb : (breakTie A s (s.hopeful.filter (fun c => A.ge (A.add (A.vMin hd.vote (hs.map (·.vote))) s.surplus) c.vote)) "Break tie (defeat)").2 = some lc) :
    lc ∈ s.hopeful ∧ A.ge (A.add (A.vMin hd.vote (hs.map (·.vote))) s.surplus) lc.vote = true := by
  have := breakTie_mem A s _ _ lc hb
  rw [List.mem_filter] at this
  exact this

end Droop.C08
