import DroopProofs
import DroopProofs.NameIrrel
import Props.Driver
/-!
# C13, second clause at run level: guarded arithmetic with zero guard digits counts as fixed-point arithmetic does

* `guard0_count_is_fixed_renamed` (every rule name, every case): the state returned under `guarded` with guard = 0 is the state
  returned under the fixed-point dictionary of the same precision carrying the name "guarded" — every operation the count performs
  is the fixed-point operation (`guarded_g0_eq_fixed`).
* `wigm_guard0_count_is_fixed` (wigm in every configuration, wigm-prf, wigm-prf-batch; every case): ... and the name is never read,
  so it is the state returned under fixed-point arithmetic itself — same actions, tallies, quota, winners, and the same printed
  record.  (scotland: `scotland_guard0_count_is_fixed`; meek and warren with a precision of at least one digit:
  `meek_guard0_count_is_fixed` — with precision 0 the fixed-point class is the integer arithmetic, which meek.py refuses.)  For the other rules
  (they force their arithmetic, so the question does not arise in a deployed count) the name-irrelevance is not proved; the real code is
  compared (C13 check: guard = 0 against fixed on every operation and on whole counts under wigm, meek, warren).
-/
namespace Droop.C13
open Droop

theorem guard0_count_is_fixed_renamed (p : Nat) (c : Case) :
    runRuleSt (guardedArith p 0) c = runRuleSt ((fixedArith p).rename "guarded") c := by
  rw [guarded_g0_rename]

theorem initState_rename {α : Type} (A : Arith α) (x : String) (c : Case) : initState (A.rename x) c = initState A c := rfl

theorem wigm_guard0_count_is_fixed (p : Nat) (c : Case) (hr : c.rule = "wigm" ∨ c.rule = "wigm-prf" ∨ c.rule = "wigm-prf-batch") :
    runRuleSt (guardedArith p 0) c = runRuleSt (fixedArith p) c := by
  rw [guard0_count_is_fixed_renamed]
  unfold runRuleSt
  rw [initState_rename]
  rcases hr with hr | hr | hr <;> simp only [runRuleSt', hr] <;> exact wigmCount_rename _ _ _ _

theorem scotland_guard0_count_is_fixed (p : Nat) (c : Case) (hr : c.rule = "scotland") :
    runRuleSt (guardedArith p 0) c = runRuleSt (fixedArith p) c := by
  rw [guard0_count_is_fixed_renamed]
  unfold runRuleSt
  rw [initState_rename]
  simp only [runRuleSt', hr]
  exact scotCount_rename _ _ _

/-- ... and so is what the driver prints -/
theorem wigm_guard0_output_is_fixed (p : Nat) (c : Case) (hr : c.rule = "wigm" ∨ c.rule = "wigm-prf" ∨ c.rule = "wigm-prf-batch") :
    finish (guardedArith p 0) (runRuleSt (guardedArith p 0) c) = finish (fixedArith p) (runRuleSt (fixedArith p) c) := by
  rw [wigm_guard0_count_is_fixed p c hr, guarded_g0_rename]
  rfl

theorem fixed_name_not_integer (p : Nat) (hp : p ≠ 0) : ((fixedArith p).name == "integer") = false := by
  have : (fixedArith p).name = if p == 0 then "integer" else "fixed" := rfl
  rw [this]
  have h0 : (p == 0) = false := by simpa using hp
  rw [h0]
  decide

theorem meek_guard0_count_is_fixed (p : Nat) (hp : p ≠ 0) (c : Case) (hr : c.rule = "meek" ∨ c.rule = "warren") :
    runRuleSt (guardedArith p 0) c = runRuleSt (fixedArith p) c := by
  rw [guard0_count_is_fixed_renamed]
  unfold runRuleSt
  rw [initState_rename]
  rcases hr with hr | hr <;> simp only [runRuleSt', hr] <;>
    exact meekCount_rename _ "guarded" (by decide) (fixed_name_not_integer p hp) _ _ _

end Droop.C13
