import DroopProofs
import Props.C01

/-! ## lower half: none lost beyond rounding

`LInv A u s` (DroopProofs/Lower.lean): `ballots·1 ≤ Σ tallies + non-transferable + u·ballots·T`, where `T` is the number of
surplus transfers logged so far — for the state, and (`recl`) for **every snapshot of the record with `T` counted up to that
snapshot's own action**. With `u` = two units in the last place this is the shortfall the property allows. Exclusions,
elections and tie-breaks lose nothing (`defeatedCore_total`: an exclusion transfer leaves the total *unchanged*); a surplus
transfer loses less than two units per ballot that moves (`fixed_rewLower_mulDiv`, `fixed_rewLower_muldiv`), provided the
tally being reduced is at least one vote — which holds whenever the quota is at least one vote, i.e. there are more ballots
than seats (for the integer quotas of the Scottish and Minneapolis rules: always). -/
namespace Droop.C02
open Droop

/-- what the theorems below say about the record, spelled out -/
theorem lower_unfolded {α : Type} [CommRing α] [LinearOrder α] [IsStrictOrderedRing α] (A : Arith α) (u : α) (s : St α)
    (h : LInv A u s) :
    ∀ (l : List (Act α)) (a : Act α), (a :: l) <:+ s.acts → ∀ sn, a.snap = some sn →
      ((s.nballots : Int) : α) * A.one ≤ snapTot sn + u * ((s.nballots : Int) : α) * (nST (a :: l) : α) :=
  h.recl

theorem start_of_init (p : Nat) (q : Int) (s0 : St Int) (h0 : Init (fixedArith p) s0) (hq1 : pow10 p ≤ q)
    (hnoW : ∀ b ∈ s0.ballots, ∀ c ∈ s0.cands, c.st = .withdrawn → b.top ≠ some c.cid) : LStart (fixedArith p) q s0 :=
  ⟨h0, hq1, hnoW⟩

theorem scotland_lower_fixed (p : Nat) (s0 t : St Int) (h0 : Init (fixedArith p) s0)
    (hnoW : ∀ b ∈ s0.ballots, ∀ c ∈ s0.cands, c.st = .withdrawn → b.top ≠ some c.cid)
    (h : scotCount (fixedArith p) s0 = some t) :
    LInv (fixedArith p) 2 (t.logAct (fixedArith p) "end" "Count Complete" []) := by
  have hS := pow10_pos p
  have hnn : 0 ≤ pdiv (s0.nballots : Int) ((s0.seats : Int) + 1) := pdiv_nonneg _ _ (by positivity) (by positivity)
  have hq1 : pow10 p ≤ (fixedArith p).ofInt (pdiv s0.nballots (s0.seats + 1) + 1) := by
    show pow10 p ≤ (pdiv (s0.nballots : Int) ((s0.seats : Int) + 1) + 1) * pow10 p
    nlinarith
  exact scot_lower _ (fixed_lawful p) 2 (by norm_num) (fixed_rewLower_muldiv p) rfl s0 t h0
    (start_of_init p _ s0 h0 hq1 hnoW) (integer_quota_pos p s0.nballots s0.seats) h

/-- the fractional quota `⌊n/(s+1)⌋ + ε` is at least one vote when there are more ballots than seats -/
theorem fractional_quota_ge_one (p : Nat) (s0 : St Int) (hmore : s0.seats < s0.nballots) :
    pow10 p ≤ cferQuota (fixedArith p) s0 := by
  have hS := pow10_pos p
  rw [C01.cferQuota_fixed]
  have hk : (0 : Int) < ((s0.seats + 1 : Nat) : Int) * pow10 p := by positivity
  have hle : pow10 p * (((s0.seats + 1 : Nat) : Int) * pow10 p) ≤ (s0.nballots : Int) * pow10 p * pow10 p := by
    have h1 : ((s0.seats + 1 : Nat) : Int) ≤ (s0.nballots : Int) := by exact_mod_cast hmore
    have h2 : ((s0.seats + 1 : Nat) : Int) * (pow10 p * pow10 p) ≤ (s0.nballots : Int) * (pow10 p * pow10 p) :=
      mul_le_mul_of_nonneg_right h1 (by positivity)
    calc pow10 p * (((s0.seats + 1 : Nat) : Int) * pow10 p) = ((s0.seats + 1 : Nat) : Int) * (pow10 p * pow10 p) := by ring
      _ ≤ (s0.nballots : Int) * (pow10 p * pow10 p) := h2
      _ = (s0.nballots : Int) * pow10 p * pow10 p := by ring
  have : pow10 p ≤ pdiv ((s0.nballots : Int) * pow10 p * pow10 p) (((s0.seats + 1 : Nat) : Int) * pow10 p) := by
    unfold pdiv
    rw [Int.fdiv_eq_ediv_of_nonneg _ (le_of_lt hk)]
    exact Int.le_ediv_of_mul_le hk hle
  omega

theorem cfer_lower_fixed (p : Nat) (batch : Bool) (s0 t : St Int) (h0 : Init (fixedArith p) s0)
    (hnoW : ∀ b ∈ s0.ballots, ∀ c ∈ s0.cands, c.st = .withdrawn → b.top ≠ some c.cid)
    (hmore : s0.seats < s0.nballots) (h : cferCount (fixedArith p) batch s0 = some t) :
    LInv (fixedArith p) 2 (t.logAct (fixedArith p) "end" "Count Complete" []) := by
  have hq1 := fractional_quota_ge_one p s0 hmore
  have hS := pow10_pos p
  exact cfer_lower _ (fixed_lawful p) 2 (by norm_num) (fixed_rewLower_mulDiv p) rfl batch s0 t h0
    (start_of_init p _ s0 h0 hq1 hnoW) (lt_of_lt_of_le hS hq1) h

theorem wigm_prf_lower_fixed (p : Nat) (batch : Bool) (s0 t : St Int) (h0 : Init (fixedArith p) s0)
    (hnoW : ∀ b ∈ s0.ballots, ∀ c ∈ s0.cands, c.st = .withdrawn → b.top ≠ some c.cid)
    (hmore : s0.seats < s0.nballots)
    (h : wigmCount (fixedArith p) { prf := true, prfBatch := batch } s0 = some t) :
    LInv (fixedArith p) 2 (t.logAct (fixedArith p) "end" "Count Complete" []) := by
  have hq : wigmQuota (fixedArith p) { prf := true, prfBatch := batch } s0 = cferQuota (fixedArith p) s0 := by
    rw [C01.wigmQuota_fixed]; simp
  have hq1 := fractional_quota_ge_one p s0 hmore
  have hS := pow10_pos p
  exact wigm_lower _ (fixed_lawful p) 2 (by norm_num) (fixed_rewLower_mulDiv p) _ rfl (fun _ => rfl) s0 t h0
    (by rw [hq]; exact start_of_init p _ s0 h0 hq1 hnoW) (by rw [hq]; exact lt_of_lt_of_le hS hq1) h

theorem mpls_lower_fixed (p : Nat) (s0 t : St Int) (h0 : Init (fixedArith p) s0)
    (hnoW : ∀ b ∈ s0.ballots, ∀ c ∈ s0.cands, c.st = .withdrawn → b.top ≠ some c.cid)
    (h : mplsCount (fixedArith p) s0 = some t) :
    LInv (fixedArith p) 2 (t.logAct (fixedArith p) "end" "Count Complete" []) := by
  have hS := pow10_pos p
  have hnn : 0 ≤ pdiv (s0.nballots : Int) ((s0.seats : Int) + 1) := pdiv_nonneg _ _ (by positivity) (by positivity)
  have hq1 : pow10 p ≤ (fixedArith p).ofInt (pdiv s0.nballots (s0.seats + 1) + 1) := by
    show pow10 p ≤ (pdiv (s0.nballots : Int) ((s0.seats : Int) + 1) + 1) * pow10 p
    nlinarith
  exact mpls_lower _ (fixed_lawful p) 2 (by norm_num) (fixed_rewLower_mulDiv p) rfl s0 t h0
    (start_of_init p _ s0 h0 hq1 hnoW) (integer_quota_pos p s0.nballots s0.seats) h

/-! ## every configuration of wigm, `defeat_batch=zero` included, in one statement -/

/-- wigm / wigm-prf / wigm-prf-batch under fixed-point arithmetic, **every** option setting: the count returns; its final
    state — and every snapshot of its record — satisfies the conservation bundle (C02 upper half, C06 tallies = ballot values)
    and the two-units-per-ballot-per-surplus-transfer lower bound (C02 lower half); the record is forward-only and append-only
    (C09); unless the crash flag is up exactly `seats` candidates are elected and nobody is left hopeful (C01) -/
theorem wigm_every_configuration_fixed (p : Nat) (o : WigmOpts) (s0 : St Int) (h0 : Init (fixedArith p) s0)
    (hfresh : ∀ c ∈ s0.cands, c.st ≠ .elected) (henough : s0.seats ≤ nHop s0) (hround : s0.round = 0)
    (hnoW : ∀ b ∈ s0.ballots, ∀ c ∈ s0.cands, c.st = .withdrawn → b.top ≠ some c.cid)
    (hmore : s0.seats < s0.nballots) :
    ∃ t, wigmCount (fixedArith p) o s0 = some t
      ∧ Inv (fixedArith p) (t.logAct (fixedArith p) "end" "Count Complete" [])
      ∧ LInv (fixedArith p) 2 (t.logAct (fixedArith p) "end" "Count Complete" [])
      ∧ Mon t ∧ Ext s0 t ∧ (t.crash = none → nEl t = t.seats ∧ nHop t = 0) := by
  have hS := pow10_pos p
  have hG := C01.wigm_start p o s0 h0 hfresh henough hround
  have hq1 : pow10 p ≤ wigmQuota (fixedArith p) o s0 := by
    rw [C01.wigmQuota_fixed]
    split
    · have hnn : 0 ≤ pdiv (s0.nballots : Int) ((s0.seats : Int) + 1) := pdiv_nonneg _ _ (by positivity) (by positivity)
      nlinarith
    · exact fractional_quota_ge_one p s0 hmore
  have hL : LStart (fixedArith p) (wigmQuota (fixedArith p) o s0) s0 := start_of_init p _ s0 h0 hq1 hnoW
  obtain ⟨t, ht⟩ := wigmCount_terminates_all _ (fixed_lawful p) (fixed_eqRefl p) 2 (by norm_num) (fixed_rewLower_mulDiv p) o
    (fun _ => rfl) s0 hG hL
  exact ⟨t, ht, wigm_result_all _ (fixed_lawful p) (fixed_eqRefl p) 2 (by norm_num) (fixed_rewLower_mulDiv p) o
    (fun _ => rfl) s0 t hG hL ht⟩

/-! ## the oracle the checks evaluate is a theorem about every model record

`okC02Gregory` is the compiled predicate the driver evaluates on the model's record and on the implementation's record (actions
oldest first, `units = id` for fixed-point arithmetic). On every record whose final state satisfies `Inv` and `LInv 2` it is
`true` — so for the Scottish rule (and likewise the other Gregory rules through the theorems above) an alarm of this oracle on
the implementation's record can only come from the implementation's record differing from the model's. -/
theorem okC02_of_inv (p : Nat) (ctx : Ctx) (s : St Int) (hn : ctx.nballots = s.nballots) (hrat : ctx.isRational = false)
    (hI : Inv (fixedArith p) s) (hL : LInv (fixedArith p) 2 s) :
    okC02Gregory (fixedArith p) ctx (fun k => k) s.acts.reverse = true := by
  unfold okC02Gregory
  rw [Bool.and_eq_true]
  refine ⟨?_, recLowerB_of_LInv (fixedArith p) (fixed_lawful p) (fixed_lawfulRaw p) ctx (fun k => k) (fun k => by simp) s hn hrat hL⟩
  have := recUpperB_of_recOK (fixedArith p) (fixed_lawful p) (fixed_lawfulRaw p) s hI.recOK
  unfold recUpperB at this ⊢
  rw [hn, List.all_reverse]; exact this

theorem scotland_okC02 (p : Nat) (ctx : Ctx) (s0 t : St Int) (h0 : Init (fixedArith p) s0)
    (hnoW : ∀ b ∈ s0.ballots, ∀ c ∈ s0.cands, c.st = .withdrawn → b.top ≠ some c.cid)
    (h : scotCount (fixedArith p) s0 = some t)
    (hn : ctx.nballots = (t.logAct (fixedArith p) "end" "Count Complete" []).nballots) (hrat : ctx.isRational = false) :
    okC02Gregory (fixedArith p) ctx (fun k => k) (t.logAct (fixedArith p) "end" "Count Complete" []).acts.reverse = true :=
  okC02_of_inv p ctx _ hn hrat (scotland_fixed p s0 t h0 h).1 (scotland_lower_fixed p s0 t h0 hnoW h)

/-- non-vacuity: the two-candidate profile of `Props/C02` meets every hypothesis of `wigm_every_configuration_fixed`
    (3 ballots, 1 seat, nobody withdrawn), so the theorem speaks about real counts -/
example : (∀ b ∈ C02.tiny.ballots, ∀ c ∈ C02.tiny.cands, c.st = .withdrawn → b.top ≠ some c.cid)
    ∧ C02.tiny.seats < C02.tiny.nballots ∧ C02.tiny.seats ≤ nHop C02.tiny ∧ C02.tiny.round = 0 := by
  refine ⟨?_, by decide, by decide, rfl⟩
  intro b _ c hc hw
  simp [C02.tiny] at hc
  rcases hc with rfl | rfl <;> simp at hw

/-- ... and the count of it under wigm-prf-batch returns with the crash flag down -/
example : ((wigmCount (fixedArith 4) { prf := true, prfBatch := true } C02.tiny).map (·.crash.isNone)) = some true := by decide

end Droop.C02
