import Props.QpqRun
/-!
# QPQ: the quotient of a hopeful candidate and the contribution assigned on election, translated from qpq.py

`harness/gen_formula.py` translates `c.quotient = c.vote / (V1 + c.tc)` and `new_weight = V1 / high_candidate.quotient`; the kernel
checks the translations equal to the programs below on every run; here they are proved to be what the model computes.
-/
namespace Droop.QPQ
open Droop

inductive QxEx
  | vote | tc | one | quotient
  | plus (a b : QxEx) | over (a b : QxEx)
deriving DecidableEq, Repr

def QxEx.eval {α : Type} (A : Arith α) (vote tc quotient : α) : QxEx → α
  | .vote => vote
  | .tc => tc
  | .one => A.one
  | .quotient => quotient
  | .plus a b => A.add (a.eval A vote tc quotient) (b.eval A vote tc quotient)
  | .over a b => A.divV (a.eval A vote tc quotient) (b.eval A vote tc quotient)

/-- `c.quotient = c.vote / (V1 + c.tc)` -/
def quotientProg : QxEx := .over .vote (.plus .one .tc)
/-- `new_weight = V1 / high_candidate.quotient` -/
def newWeightProg : QxEx := .over .one .quotient

variable {α : Type} [CommRing α] [LinearOrder α] [IsStrictOrderedRing α] (A : Arith α)

/-- the quotients of a round are the translated expression of the tallied figures -/
theorem qR4_uses_program (q : QSt α) :
    qR4 A q = { (qQ1 A q).s with cands := (qQ1 A q).s.cands.map (fun (c : Cand α) =>
      if c.st == .hopeful then { c with quotient := some (quotientProg.eval A c.vote c.tc A.zero) } else c) } := rfl

/-- the contribution a ballot of the candidate elected is given -/
theorem newWeight_is_program (hc : Cand α) :
    A.divV A.one (qQuot A hc) = newWeightProg.eval A A.zero A.zero (qQuot A hc) := rfl

end Droop.QPQ
