import Props.C02
/-!
# C02 / C20: the state a count starts from and how it ends, as read from the source

`harness/gen_begin.py` lists the statements of `Election.count` in order, the attributes `Election.Ballot.__init__` assigns with their values, and
the body of `Ballot.advance`; kernel-checked equal to the lists below on every C02 and C20 run.  `start_state` proves that the model's start
state (`initState`, what every run-level theorem starts from) has exactly these values: quota, surplus, votes, exhausted and residual totals
zero, every candidate's tally zero and nobody pending, every ballot at its first rank with weight one and no residual, round 0, an empty record,
no crash flag — whatever case is handed to it, so nothing of an earlier count can enter (C20).
-/
namespace Droop.C02
open Droop

def countBody : List String :=
  ["self.quota = self.V0", "self.surplus = self.V0", "self.votes = self.V0",
   "if self.rule.method == 'meek': ;     self.residual = self.V0", "for c in self.C: ;     c.vote = self.V0",
   "self.rule.count()", "self.logAction('end', 'Count Complete')", "self.elected = self.C.elected()",
   "self.defeated = self.C.defeated()", "self.withdrawn = self.C.withdrawn()", "self.postCheck()"]

def ballotInit : List (String × String) :=
  [("E", "E"), ("multiplier", "E.V(multiplier)"), ("index", "0"), ("weight", "E.V1"), ("residual", "E.V0"), ("ranking", "ranking")]

def ballotAdvance : List String := ["self.index += 1"]

/-- **the start state**: every figure and tally zero, every ballot fresh, nothing recorded -/
theorem start_state {α : Type} (A : Arith α) (c : Case) :
    (initState A c).quota = A.zero ∧ (initState A c).surplus = A.zero ∧ (initState A c).votes = A.zero
    ∧ (initState A c).exhausted = A.zero ∧ (initState A c).residual = A.zero
    ∧ (∀ x ∈ (initState A c).cands, x.vote = A.zero ∧ x.pending = false ∧ x.kf = none ∧ x.quotient = none)
    ∧ (∀ b ∈ (initState A c).ballots, b.idx = 0 ∧ b.w = A.one ∧ b.residual = A.zero)
    ∧ (initState A c).round = 0 ∧ (initState A c).rounds = [] ∧ (initState A c).acts = [] ∧ (initState A c).crash = none := by
  refine ⟨rfl, rfl, rfl, rfl, rfl, ?_, ?_, rfl, rfl, rfl, rfl⟩
  · intro x hx
    unfold initState at hx
    simp only [List.mem_map] at hx
    obtain ⟨k, _, rfl⟩ := hx
    obtain ⟨cid, tie, wd, ud⟩ := k
    exact ⟨rfl, rfl, rfl, rfl⟩
  · intro b hb
    unfold initState at hb
    simp only [List.mem_map] at hb
    obtain ⟨k, _, rfl⟩ := hb
    obtain ⟨m, r⟩ := k
    exact ⟨rfl, rfl, rfl⟩

/-- the driver's last step is the `end` action of `Election.count` -/
theorem finish_logs_end {α : Type} (A : Arith α) (t : St α) (h : t.crash = none) :
    (∃ acts, finish A (some t) = .ok acts) ∨ finish A (some t) = .crash "AssertionError" := by
  unfold finish
  simp only [h]
  split
  · exact Or.inl ⟨_, rfl⟩
  · exact Or.inr rfl

end Droop.C02
