import DroopModel
import DroopProofs
import Mathlib.Algebra.Order.Floor.Ring
import Mathlib.Data.Rat.Floor
import Mathlib.Tactic.FieldSimp
import Mathlib.Tactic.Ring
/-!
# C14 — printed numbers are the stored values, rounded half-up to the display precision

The model of `__str__` has two layers (DroopModel/Str.lean): *display units* — the value as an integer count of
10^-d — and their rendering as `sign, integer part, '.', d zero-padded fraction digits`. The theorems say that the
display units are `⌊x·10^d + 1/2⌋` for the exact value `x` (round half up, every sign), and that the rendering shows
exactly those units: integer part and fraction digits recombine to the magnitude, the fraction fits in `d` digits,
and the sign is shown iff the rounded value is negative. `str` is a pure function of the value in the model;
on the implementation purity is checked by the correspondence run.
-/
namespace Droop.C14
open Droop

theorem pow10_add (a b : Nat) : pow10 (a + b) = pow10 a * pow10 b := by unfold pow10; exact pow_add 10 a b

theorem pow10_even (n : Nat) (hn : 0 < n) : pow10 n / 2 * 2 = pow10 n := by
  obtain ⟨m, rfl⟩ : ∃ m, n = m + 1 := ⟨n - 1, by omega⟩
  unfold pow10
  rw [pow_succ]
  have : (10 : Int) ^ m * 10 = (10 ^ m * 5) * 2 := by ring
  rw [this, Int.mul_ediv_cancel _ (by norm_num)]

/-- `(v + 10^k/2) // 10^k = ⌊v/10^k + 1/2⌋` for every integer `v` (k ≥ 1: 10^k is even) -/
theorem roundUnits_spec (P d : Nat) (hd : d < P) (v : Int) :
    roundUnits P d v = ⌊(v : ℚ) / (pow10 P : ℚ) * (pow10 d : ℚ) + 1 / 2⌋ := by
  have hk : 0 < P - d := by omega
  have hK := pow10_pos (P - d)
  have hKne : pow10 (P - d) ≠ 0 := ne_of_gt hK
  unfold roundUnits
  rw [pdiv_eq_floor _ _ hKne]
  congr 1
  have hsplit : pow10 P = pow10 d * pow10 (P - d) := by rw [← pow10_add]; congr 1; omega
  have hD : (pow10 d : ℚ) ≠ 0 := by exact_mod_cast ne_of_gt (pow10_pos d)
  have hKq : (pow10 (P - d) : ℚ) ≠ 0 := by exact_mod_cast hKne
  have he := pow10_even (P - d) hk
  have heq : ((pow10 (P - d) / 2 : Int) : ℚ) = (pow10 (P - d) : ℚ) / 2 := by
    have : ((pow10 (P - d) / 2 * 2 : Int) : ℚ) = (pow10 (P - d) : ℚ) := by exact_mod_cast he
    push_cast at this
    linarith
  rw [hsplit]
  push_cast
  rw [heq]
  field_simp

/-- **Fixed**: the display units are the exact value rounded half-up to `d` places (`d ≤ p` after `initialize`) -/
theorem fixed_units_round_half_up (p d : Nat) (hd : d ≤ p) (v : Int) :
    fixedUnits p d v = ⌊(v : ℚ) / (pow10 p : ℚ) * (pow10 d : ℚ) + 1 / 2⌋ := by
  unfold fixedUnits
  by_cases h : d < p
  · simp only [h, if_true]; exact roundUnits_spec p d h v
  · have hpd : d = p := by omega
    simp only [h, if_false]
    subst hpd
    have hD : (pow10 d : ℚ) ≠ 0 := by exact_mod_cast ne_of_gt (pow10_pos d)
    have : (v : ℚ) / (pow10 d : ℚ) * (pow10 d : ℚ) + 1 / 2 = ((v : Int) : ℚ) + 1 / 2 := by field_simp
    rw [this]
    symm
    rw [Int.floor_eq_iff]
    constructor <;> norm_num

/-- **Guarded**: the display units are the exact value (stored with p+g digits) rounded half-up to `d < p+g` places -/
theorem guarded_units_round_half_up (p g d : Nat) (hd : d < g + p) (v : Int) :
    guardedUnits p g d v = ⌊(v : ℚ) / (pow10 (g + p) : ℚ) * (pow10 d : ℚ) + 1 / 2⌋ :=
  roundUnits_spec (g + p) d hd v

/-- **Rational**: the display units are `⌊q·10^d + 1/2⌋` -/
theorem rational_units_round_half_up (dp : Nat) (q : ℚ) :
    rationalUnits dp q = ⌊q * (pow10 dp : ℚ) + 1 / 2⌋ := by
  have hD : (pow10 dp : ℚ) ≠ 0 := by exact_mod_cast ne_of_gt (pow10_pos dp)
  unfold rationalUnits
  by_cases h : (q.num == 0 || q.den == 1) = true
  · simp only [h, if_true]
    -- q is an integer: q = q.num
    have hq : q = (q.num : ℚ) := by
      rw [Bool.or_eq_true] at h
      rcases h with h0 | h1
      · have : q.num = 0 := by simpa using h0
        have hz : q = 0 := Rat.zero_of_num_zero this
        rw [hz]; simp
      · have : q.den = 1 := by simpa using h1
        exact (Rat.den_eq_one_iff q).1 this |>.symm
    symm
    rw [Int.floor_eq_iff]
    constructor
    · rw [hq]; push_cast; rw [Rat.num_intCast]; linarith
    · rw [hq]; push_cast; rw [Rat.num_intCast]; linarith
  · simp only [h]
    show ⌊(q + (1 : ℚ) / ((pow10 dp * 2 : Int) : ℚ)) * (pow10 dp : ℚ)⌋ = _
    congr 1
    push_cast
    field_simp

/-- the rendering shows exactly the display units: integer part · 10^d + fraction = |units|, fraction < 10^d -/
theorem render_recombines (d : Nat) (u : Int) :
    pdiv u.natAbs (pow10 d) * pow10 d + pmod u.natAbs (pow10 d) = (u.natAbs : Int)
    ∧ 0 ≤ pmod u.natAbs (pow10 d) ∧ pmod u.natAbs (pow10 d) < pow10 d ∧ 0 ≤ pdiv u.natAbs (pow10 d) := by
  have hD := pow10_pos d
  have hb := fmod_bounds_pos (u.natAbs : Int) hD
  refine ⟨?_, hb.1, hb.2, ?_⟩
  · unfold pdiv pmod
    have := Int.mul_fdiv_add_fmod (u.natAbs : Int) (pow10 d)
    linarith [mul_comm (pow10 d) ((u.natAbs : Int).fdiv (pow10 d))]
  · exact pdiv_nonneg _ _ (by positivity) hD

theorem render_shape (d : Nat) (u : Int) :
    renderUnits d u = (if u < 0 then "-" else "") ++ (toString (pdiv u.natAbs (pow10 d)) ++ "." ++
      zpad d (pmod u.natAbs (pow10 d)).toNat) := rfl

/-- non-vacuity / regression of finding F5: minus one half at four places -/
example : strFixed 4 4 (-5000) = "-0.5000" := by decide
example : strFixed 4 2 (-50) = "0.00" := by decide      -- -0.0050 rounds half-up to 0.00
example : strFixed 4 2 (-51) = "-0.01" := by decide
example : strGuarded 2 2 3 12345 = "1.23_5" := by decide

end Droop.C14
