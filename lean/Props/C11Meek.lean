import Props.C11Run
import DroopProofs.DropWMeek
import DroopProofs.CaseInitMeek
/-!
# C11, second clause, for meek and warren (strict rankings)

`meek_withdrawn_is_absent`: for every case in the printed domain (`caseOK`: strict rankings) under rule `meek` or `warren`, for every
lawful arithmetic whose zero test accepts zero (restated for fixed-point arithmetic of every precision): whenever the count of the
full case and the count of the case with the withdrawn candidates deleted both return (the Meek family's termination is not a theorem:
findings M1/M2), the second state is the first with the withdrawn candidates deleted from the candidate list, the saved rounds and
every snapshot of the record.
-/
namespace Droop.C11
open Droop

theorem meek_withdrawn_is_absent (p : Nat) (c : Case) (hr : c.rule = "meek" ∨ c.rule = "warren") (hok : caseOK c = true)
    (t t' : St Int) (h : runRuleSt (fixedArith p) c = some t) (h' : runRuleSt (fixedArith p) (deleteWithdrawn c) = some t') :
    t' = Droop.dropW t := by
  have hk := caseOK_iff c hok
  have hA := fixed_lawful p
  have hm : methodOf c.rule = .meek := by rcases hr with hr | hr <;> rw [hr] <;> rfl
  have h0 := initState_minit (fixedArith p) hA c hm hk
  have hz : (fixedArith p).isZero (fixedArith p).zero = true := rfl
  unfold runRuleSt at h h'
  rw [initState_deleteWithdrawn] at h'
  rcases hr with hr | hr
  · have hr' : (deleteWithdrawn c).rule = "meek" := hr
    simp only [runRuleSt', hr] at h
    simp only [runRuleSt', hr'] at h'
    exact meek_dropW (fixedArith p) hA hz _ 100000 _ t t' h0 h h'
  · have hr' : (deleteWithdrawn c).rule = "warren" := hr
    simp only [runRuleSt', hr] at h
    simp only [runRuleSt', hr'] at h'
    exact meek_dropW (fixedArith p) hA hz _ 100000 _ t t' h0 h h'

end Droop.C11

namespace Droop.C11
/-- non-vacuity: the sample profile (candidate 3 withdrawn) under meek lies in the domain, and both counts return -/
example : caseOK { Driver.sample with rule := "meek" } = true
    ∧ (runRuleSt (fixedArith 4) { Driver.sample with rule := "meek" }).isSome = true
    ∧ (runRuleSt (fixedArith 4) (deleteWithdrawn { Driver.sample with rule := "meek" })).isSome = true := by decide +kernel
end Droop.C11
