import DroopProofs
import Props.C02
import Props.C01
import DroopProofs.MeekMon
import DroopProofs.CaseInitMeek
import DroopProofs.PrfMon
/-!
# C09 — candidate status only moves forward; seats are never over-committed

`RecMon (snaps t.acts)`: between any two consecutive snapshots of the record every candidate's status code is unchanged or
moves H → e → E, H → E or H → D; W never changes (`fwd`). `Ext s0 t`: the log is append-only, so what was recorded stays
recorded.

* wigm / wigm-prf (non-batch): `wigm_loop_record_monotone`, `wigm_loop_elected_le_seats`, `wigm_seats_filled`;
* Scottish rule: `scotland_record_monotone` (whole count, epilogue included), `scotland_elected_le_seats` below.

* meek / warren (strict rankings): `meek_record_forward` — whatever the count returns for a case inside `caseOK`, its record is
  forward-only and its log extends the log it started with (`DroopProofs/MeekMon.lean`).

* meek-prf: `prf_record_forward` — the same, asking only for distinct candidate ids (`DroopProofs/PrfMon.lean`).

QPQ's restart ("un-elect") is outside these theorems: the QPQ record is judged by `okC09` on both records only.
-/
namespace Droop.C09
open Droop

theorem scotland_record_monotone (p : Nat) (s0 t : St Int) (h0 : ScotStart (fixedArith p) s0)
    (h : scotCount (fixedArith p) s0 = some t) : Mon t ∧ Ext s0 t :=
  scot_record_monotone _ (fixed_lawful p) rfl s0 t h0 h

theorem scotland_elected_le_seats (p : Nat) (s0 s4 : St Int) (h0 : ScotStart (fixedArith p) s0)
    (hl : loopN (fun _ => true) (scotBody (fixedArith p)) (2 * s0.cands.length + 3) (scotInit (fixedArith p) s0) = some s4) :
    s4.elected.length ≤ s4.seats :=
  scot_loop_elected_le_seats _ (fixed_lawful p) rfl s0 s4 h0 hl

/-- the forward relation is what the property says: no way back from D or E, nothing leaves W -/
example : fwd "D" "H" = false ∧ fwd "E" "H" = false ∧ fwd "E" "e" = false ∧ fwd "W" "H" = false ∧ fwd "D" "E" = false
    ∧ fwd "H" "e" = true ∧ fwd "e" "E" = true ∧ fwd "H" "D" = true := by decide

/-- cfer / cfer-batch: the whole record is forward-only and append-only -/
theorem cfer_record_monotone (p : Nat) (batch : Bool) (s0 t : St Int) (hinit : Init (fixedArith p) s0)
    (hfresh : ∀ c ∈ s0.cands, c.st ≠ .elected) (henough : s0.seats ≤ nHop s0) (hround : s0.round = 0)
    (h : cferCount (fixedArith p) batch s0 = some t) : Mon t ∧ Ext s0 t := by
  have := cfer_result _ (fixed_lawful p) rfl batch s0 t (C01.cfer_start p s0 hinit hfresh henough hround) h
  exact ⟨this.1, this.2.1⟩

/-- meek / warren: the record of whatever the count returns is forward-only (every case with strict rankings inside `caseOK`,
    every precision, omega and `defeat_batch` setting) -/
theorem meek_record_forward (p : Nat) (c : Case) (hr : c.rule = "meek" ∨ c.rule = "warren") (hok : caseOK c = true)
    (t : St Int) (h : runRuleSt (fixedArith p) c = some t) : Mon t ∧ Ext (initState (fixedArith p) c) t := by
  have hk := caseOK_iff c hok
  have hm : methodOf c.rule = .meek := by rcases hr with hr | hr <;> rw [hr] <;> rfl
  have h0 := initState_minit (fixedArith p) (fixed_lawful p) c hm hk
  unfold runRuleSt at h
  rcases hr with hr | hr
  · simp only [runRuleSt', hr] at h
    exact ⟨meek_record_monotone (fixedArith p) (fixed_lawful p) rfl _ _ _ t h0 h,
      meek_record_appendOnly (fixedArith p) (fixed_lawful p) rfl _ _ _ t h0 h⟩
  · simp only [runRuleSt', hr] at h
    exact ⟨meek_record_monotone (fixedArith p) (fixed_lawful p) rfl _ _ _ t h0 h,
      meek_record_appendOnly (fixedArith p) (fixed_lawful p) rfl _ _ _ t h0 h⟩

/-- meek-prf: the record of whatever the count returns is forward-only (every case with distinct candidate ids) -/
theorem prf_record_forward (p : Nat) (c : Case) (hr : c.rule = "meek-prf") (hnd : (c.cands.map (·.1)).Nodup)
    (t : St Int) (h : runRuleSt (fixedArith p) c = some t) : Mon t := by
  unfold runRuleSt at h
  simp only [runRuleSt', hr] at h
  have hwf : (initState (fixedArith p) c).WF := by unfold St.WF; rw [initState_cids]; exact hnd
  exact prf_record_monotone (fixedArith p) (fixed_lawful p) _ _ t rfl hwf h

end Droop.C09
