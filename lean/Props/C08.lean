import DroopModel
import DroopProofs
import Mathlib.Tactic.Linarith
/-!
# C08 — Meek / Warren iterations

* `distributeVotes_sum` (DroopProofs/MeekDist.lean): after a distribution over strict ballots, votes credited plus the
  residual equal what was there at the start plus the ballots — with no hypothesis on keep factors, precision or omega.
* the keep-factor update `kf' = ⌈⌈kf·q⌉ / v⌉` (both roundings up) keeps an elected candidate's keep factor in (0, 1]
  as long as that candidate holds at least the quota. That hypothesis is what the code relies on; it is *not* a theorem
  of the code (findings M1/M2: outside the numerical range an elected tally falls to 0), so the global range claim stays
  `kf_range_partial`: one step, under the hypothesis.
* hopeful candidates start with keep factor 1 and excluded ones are set to 0 by construction of the model
  (`meekCount`, `meekDefeatOne`), which is compared with the code action by action.
-/
namespace Droop.C08
open Droop

/-- rounding up: the least integer `r` with `num ≤ r·den` -/
theorem divUp_spec (num den : Int) (hd : 0 < den) :
    num ≤ divmodRound .up num den * den ∧ divmodRound .up num den * den < num + den := by
  have hne : (den == 0) = false := by simpa using (ne_of_gt hd)
  have hb := fmod_bounds_pos num hd
  have hid : den * num.fdiv den + num.fmod den = num := Int.mul_fdiv_add_fmod num den
  unfold divmodRound
  simp only [hne, Bool.false_eq_true, if_false]
  by_cases hz : pmod num den = 0
  · have : (pmod num den != 0) = false := by simp [hz]
    simp only [this, Bool.and_false, Bool.false_eq_true, if_false]
    unfold pdiv; unfold pmod at hz
    constructor <;> nlinarith
  · have : (pmod num den != 0) = true := by simp [hz]
    simp only [this, Bool.and_true, beq_self_eq_true, if_true]
    unfold pdiv; unfold pmod at hz
    have hpos : 0 < num.fmod den := lt_of_le_of_ne hb.1 (Ne.symm hz)
    constructor <;> nlinarith [hb.2]

/-- **one keep-factor update keeps the keep factor in (0, 1]** when the elected candidate holds at least the quota -/
theorem kf_range_partial (p : Nat) (kf q v : Int) (hk0 : 0 < kf) (hk1 : kf ≤ pow10 p) (hq : 0 < q) (hqv : q ≤ v) :
    0 < (fixedArith p).div .up ((fixedArith p).mul .up kf q) v ∧
    (fixedArith p).div .up ((fixedArith p).mul .up kf q) v ≤ (fixedArith p).one := by
  have hS := pow10_pos p
  have hv : 0 < v := lt_of_lt_of_le hq hqv
  show 0 < divmodRound .up (divmodRound .up (kf * q) (pow10 p) * pow10 p) v
    ∧ divmodRound .up (divmodRound .up (kf * q) (pow10 p) * pow10 p) v ≤ pow10 p
  obtain ⟨h1a, h1b⟩ := divUp_spec (kf * q) (pow10 p) hS
  obtain ⟨h2a, h2b⟩ := divUp_spec (divmodRound .up (kf * q) (pow10 p) * pow10 p) v hv
  set r1 := divmodRound .up (kf * q) (pow10 p) with hr1
  set r2 := divmodRound .up (r1 * pow10 p) v with hr2
  have hkq : 0 < kf * q := mul_pos hk0 hq
  have hr1pos : 0 < r1 := by
    by_contra hle
    have : r1 * pow10 p ≤ 0 := mul_nonpos_of_nonpos_of_nonneg (not_lt.1 hle) (le_of_lt hS)
    linarith
  have hr1q : r1 ≤ q := by
    by_contra hgt
    have hge : q + 1 ≤ r1 := by omega
    have : (q + 1) * pow10 p ≤ r1 * pow10 p := mul_le_mul_of_nonneg_right hge (le_of_lt hS)
    have : kf * q ≤ pow10 p * q := mul_le_mul_of_nonneg_right hk1 (le_of_lt hq)
    nlinarith
  constructor
  · by_contra hle
    have : r2 * v ≤ 0 := mul_nonpos_of_nonpos_of_nonneg (not_lt.1 hle) (le_of_lt hv)
    have : 0 < r1 * pow10 p := mul_pos hr1pos hS
    linarith
  · by_contra hgt
    have hge : pow10 p + 1 ≤ r2 := by omega
    have h3 : (pow10 p + 1) * v ≤ r2 * v := mul_le_mul_of_nonneg_right hge (le_of_lt hv)
    have h4 : r1 * pow10 p ≤ q * pow10 p := mul_le_mul_of_nonneg_right hr1q (le_of_lt hS)
    have h5 : q * pow10 p ≤ v * pow10 p := mul_le_mul_of_nonneg_right hqv (le_of_lt hS)
    nlinarith

/-- non-vacuity: kf = 1, quota 3.3334, vote 5.0000 at four places → 0.6667 (rounded up) -/
example : (fixedArith 4).div .up ((fixedArith 4).mul .up 10000 33334) 50000 = 6667 := by decide

/-- the distribution identity, restated: nothing is created or lost by a Meek/Warren distribution -/
theorem distribution_conserves {α : Type} [CommRing α] [LinearOrder α] [IsStrictOrderedRing α] (A : Arith α)
    (hA : LawfulArith A) (warren : Bool) (s : St α) (hwf : s.WF) (hq : s.ballotsEq = []) :
    (distributeVotes A warren s).sumVotes + (distributeVotes A warren s).residual
      = (startDist A s).sumVotes + (s.ballots.map (fun b => A.ofInt b.mult)).sum :=
  distributeVotes_sum A hA warren s hwf hq

/-- **every snapshot of a Meek / Warren count over strict ballots shows votes + residual = ballots, exactly** — begin,
    every round, every iterate, every election, tie and exclusion, up to the last candidate decided — for every input that
    `Election.__init__` hands over (`MInit`), every lawful arithmetic, whatever the keep factors, precision and omega are.
    (`SnapM` is the conservation clause of the predicate `okC08cons` evaluated on implementation records; the final `end`
    snapshot, whose residual is *defined* as ballots − elected votes, and equal-rank ballots are covered by the
    correspondence and the oracle only: `_partial` in that sense.) -/
theorem meek_record_identity_partial {α : Type} [CommRing α] [LinearOrder α] [IsStrictOrderedRing α] (A : Arith α)
    (hA : LawfulArith A) (hz : A.isZero A.zero = true) (o : MeekOpts) (omega : α) (iterFuel fuel : Nat)
    (s0 t : St α) (h0 : MInit A s0)
    (hl : loopN (fun s => !meekCountComplete s) (meekBody A o omega iterFuel) fuel (meekInit A s0) = some t) :
    ∀ a ∈ (t.hopeful.foldl (meekRemainingStep A o) t).acts, ∀ sn, a.snap = some sn →
      ((sn.cs.filter (fun e => e.2.1 != "W")).map (fun e => e.2.2.1)).sum + sn.x1
        = A.ofInt (t.hopeful.foldl (meekRemainingStep A o) t).nballots :=
  meek_identity A hA hz o omega iterFuel fuel s0 t h0 hl

example : (fixedArith 9).isZero (fixedArith 9).zero = true := rfl
example : (guardedArith 9 9).isZero (guardedArith 9 9).zero = true := rfl

/-- **the cap of `meek.py`** (`if c.kf >= V1: c.kf = V1`, fix F13): whatever the tally, the updated keep factor of meek / warren
    does not exceed one under fixed-point arithmetic; with `kf_range_partial` it stays positive as long as the elected
    candidate holds the quota -/
theorem kf_capped (p : Nat) (k : Int) : kfCap (fixedArith p) true k ≤ (fixedArith p).one := by
  unfold kfCap
  by_cases h : (fixedArith p).ge k (fixedArith p).one = true
  · simp [h]
  · have hf : (fixedArith p).ge k (fixedArith p).one = false := by simpa using h
    simp only [hf, Bool.and_false, Bool.false_eq_true, if_false]
    simp only [fixedArith, Arith.ge, intCmp] at hf ⊢
    split at hf
    · omega
    · split at hf <;> simp at hf

theorem kf_cap_id (p : Nat) (k : Int) (h : k < (fixedArith p).one) : kfCap (fixedArith p) true k = k := by
  unfold kfCap
  have hf : (fixedArith p).ge k (fixedArith p).one = false := by
    simp only [fixedArith, Arith.ge, intCmp] at h ⊢
    simp [h]
  simp [hf]

/-! ## nothing negative, keep factors in [0, 1] (run level)

`meek_sign` (`DroopProofs/MeekSign.lean`), restated for fixed-point arithmetic: in every snapshot of the record of a meek or
warren count on strict ballots — from `begin` to the last exclusion or election — the votes credited plus the residual equal the
ballots, no tally and no residual is negative, and every keep factor lies between 0 and 1. The upper bound rests on the cap of the
keep-factor update (fix F13); strict positivity of an elected candidate's keep factor is *not* a theorem (findings M1/M2). -/
theorem meek_warren_sign_fixed (p : Nat) (o : MeekOpts) (omega : Int) (iterFuel fuel : Nat) (s0 t : St Int)
    (h0 : MInit (fixedArith p) s0)
    (hl : loopN (fun s => !meekCountComplete s) (meekBody (fixedArith p) o omega iterFuel) fuel (meekInit (fixedArith p) s0) = some t) :
    RecM (fixedArith p) (t.hopeful.foldl (meekRemainingStep (fixedArith p) o) t)
    ∧ RecK (fixedArith p) (t.hopeful.foldl (meekRemainingStep (fixedArith p) o) t)
    ∧ KState (fixedArith p) (t.hopeful.foldl (meekRemainingStep (fixedArith p) o) t) :=
  meek_sign _ (fixed_lawful p) (fixed_lawfulMeek p) (by simp [fixedArith]) o omega iterFuel fuel s0 t h0 hl

/-- what `RecK` says about one snapshot -/
theorem recK_unfolded (p : Nat) (s : St Int) (h : RecK (fixedArith p) s) :
    ∀ a ∈ s.acts, ∀ sn, a.snap = some sn →
      (∀ e ∈ sn.cs, 0 ≤ e.2.2.1 ∧ ∀ k, e.2.2.2.1 = some k → 0 ≤ k ∧ k ≤ pow10 p) ∧ 0 ≤ sn.x1 :=
  h

/-- non-vacuity of `MInit`: two hopeful candidates, two strict ballot lines, nothing counted yet -/
def tinyMeek : St Int :=
  { method := Method.meek, seats := 1, nballots := 3
    cands := [{ cid := 1, order := 1, tie := 1, undeclared := false, st := .hopeful, pending := false, vote := 0, kf := none, quotient := none, tc := 0 },
              { cid := 2, order := 2, tie := 2, undeclared := false, st := .hopeful, pending := false, vote := 0, kf := none, quotient := none, tc := 0 }]
    ballots := [{ mult := 2, rank := [1, 2], idx := 0, w := 10000, residual := 0 }, { mult := 1, rank := [2], idx := 0, w := 10000, residual := 0 }]
    ballotsEq := [], quota := 0, surplus := 0, votes := 0, exhausted := 0, residual := 0, round := 0, rounds := [], acts := [], crash := none }

example : MInit (fixedArith 4) tinyMeek :=
  { meth := rfl, noActs := rfl
    wf := by unfold St.WF; decide
    noEq := rfl
    tops := by
      intro b hb; simp [tinyMeek] at hb
      rcases hb with rfl | rfl
      · exact ⟨1, rfl, tinyMeek.cands[0], by simp [tinyMeek], rfl, rfl⟩
      · exact ⟨2, rfl, tinyMeek.cands[1], by simp [tinyMeek], rfl, rfl⟩
    fresh := by intro c hc; simp [tinyMeek] at hc; rcases hc with rfl | rfl <;> exact ⟨rfl, rfl, Or.inl rfl⟩
    residual0 := rfl
    nb := by simp [tinyMeek, fixedArith]; ring }

end Droop.C08
