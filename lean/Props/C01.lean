import DroopProofs
import DroopProofs.QpqTerm
import Props.C02
/-!
# C01 — every count terminates with the seats filled and every candidate decided

Run-level theorems about the model's drivers, for *every* input the rule can be handed (`Init` / `ScotStart`: any number of
candidates, ballots, seats; any ballot contents) and every lawful arithmetic:

* `wigmCount_terminates`, `wigm_seats_filled` (wigm / wigm-prf without batch exclusions) — in `DroopProofs`;
* `scotland_terminates`, `scotland_seats_filled` below: the Scottish count returns (the fuelled loop of the model never runs
  out of fuel — the measure 2·|hopeful| + |pending| drops at every stage), and unless the crash flag was raised (an
  exception in the implementation) exactly `seats` candidates are elected and no candidate is left hopeful, i.e. every
  non-withdrawn candidate is elected or defeated and none is both (a candidate has one status).

* `cfer_seats_filled_fixed` (cfer and cfer-batch, `DroopProofs/RunCfer.lean`).

* `wigm_seats_filled_fixed` (wigm, wigm-prf, wigm-prf-batch; every configuration except `defeat_batch=zero`).

* `mpls_seats_filled_fixed` (Minneapolis, profiles without undeclared write-ins; with them: open finding F7).

QPQ: `qpq_terminates` at the end of this file.  Not proved here: the Meek family (its termination is decided by the
correspondence runs and the `okC01` oracle on both records), and the case seats > candidates.
-/
namespace Droop.C01
open Droop

/-- the Scottish rule as deployed: fixed-point arithmetic of any precision -/
theorem scotland_terminates (p : Nat) (s0 : St Int) (h0 : ScotStart (fixedArith p) s0) :
    ∃ t, scotCount (fixedArith p) s0 = some t :=
  scotCount_terminates _ (fixed_lawful p) rfl s0 h0

theorem scotland_seats_filled (p : Nat) (s0 : St Int) (h0 : ScotStart (fixedArith p) s0) :
    ∃ t, scotCount (fixedArith p) s0 = some t ∧ (t.crash = none → nEl t = t.seats ∧ nHop t = 0) :=
  scot_seats_filled _ (fixed_lawful p) rfl s0 h0

/-- "elected or defeated, never both, withdrawn untouched": with no hopeful candidate left, every candidate's status is
    one of elected, defeated, withdrawn -/
theorem decided_of_no_hopeful {α : Type} [CommRing α] [LinearOrder α] [IsStrictOrderedRing α] (t : St α) (h : nHop t = 0) :
    ∀ c ∈ t.cands, c.st = .elected ∨ c.st = .defeated ∨ c.st = .withdrawn := by
  intro c hc
  cases hs : c.st with
  | hopeful =>
    exfalso
    have : c ∈ t.hopeful := mem_hopeful.2 ⟨hc, hs⟩
    unfold nHop at h
    have := List.length_pos_of_mem this
    omega
  | elected => exact Or.inl rfl
  | defeated => exact Or.inr (Or.inl rfl)
  | withdrawn => exact Or.inr (Or.inr rfl)

/-- non-vacuity: the two-candidate profile of `Props/C02` is a legitimate start -/
example : ScotStart (fixedArith 4) C02.tiny :=
  ⟨C02.tiny_init, by decide, by intro c hc; simp [C02.tiny] at hc; rcases hc with rfl | rfl <;> simp, by decide⟩

/-! ## CfER -/

/-- under fixed-point arithmetic the CfER threshold `⌊n/(s+1)⌋ + 0.00001` is positive and satisfies the Droop condition,
    so a legitimate start is: `Init`, nobody elected, at least as many candidates as seats, round counter 0 -/
theorem cferQuota_fixed (p : Nat) (s0 : St Int) :
    cferQuota (fixedArith p) s0
      = pdiv ((s0.nballots : Int) * pow10 p * pow10 p) ((((s0.seats + 1 : Nat)) : Int) * pow10 p) + 1 := by
  have hS := pow10_pos p
  have h1 : ¬ (((s0.seats : Int) + 1 = 0) ∨ pow10 p = 0) := by
    intro h; rcases h with h | h <;> omega
  simp [cferQuota, fixedArith, h1]

theorem cfer_start (p : Nat) (s0 : St Int) (hinit : Init (fixedArith p) s0) (hfresh : ∀ c ∈ s0.cands, c.st ≠ .elected)
    (henough : s0.seats ≤ nHop s0) (hround : s0.round = 0) : GStart (fixedArith p) (cferQuota (fixedArith p) s0) s0 := by
  have hS := pow10_pos p
  have hk : (0 : Int) < ((s0.seats + 1 : Nat) : Int) := by exact_mod_cast Nat.succ_pos s0.seats
  refine ⟨hinit, ?_, hfresh, henough, hround, ?_⟩
  · rw [cferQuota_fixed]
    have : 0 ≤ pdiv ((s0.nballots : Int) * pow10 p * pow10 p) (((s0.seats + 1 : Nat) : Int) * pow10 p) :=
      pdiv_nonneg _ _ (by positivity) (by positivity)
    omega
  · rw [cferQuota_fixed]
    have := fixed_droopQuota p s0.nballots s0.seats
    simpa [fixedArith] using this

theorem cfer_seats_filled_fixed (p : Nat) (batch : Bool) (s0 : St Int) (hinit : Init (fixedArith p) s0)
    (hfresh : ∀ c ∈ s0.cands, c.st ≠ .elected) (henough : s0.seats ≤ nHop s0) (hround : s0.round = 0) :
    ∃ t, cferCount (fixedArith p) batch s0 = some t ∧ (t.crash = none → nEl t = t.seats ∧ nHop t = 0) :=
  cfer_seats_filled _ (fixed_lawful p) rfl batch s0 (cfer_start p s0 hinit hfresh henough hround)

example : GStart (fixedArith 4) (cferQuota (fixedArith 4) C02.tiny) C02.tiny :=
  cfer_start 4 C02.tiny C02.tiny_init (by intro c hc; simp [C02.tiny] at hc; rcases hc with rfl | rfl <;> simp) (by decide) rfl

/-! ## wigm, wigm-prf, wigm-prf-batch (every configuration except `defeat_batch=zero`) -/

theorem wigmQuota_fixed (p : Nat) (o : WigmOpts) (s0 : St Int) :
    wigmQuota (fixedArith p) o s0 =
      if o.prf = false ∧ o.integerQuota = true then (1 + pdiv s0.nballots (s0.seats + 1)) * pow10 p
      else cferQuota (fixedArith p) s0 := by
  unfold wigmQuota
  by_cases hp : o.prf = true
  · simp [hp, cferQuota]
  · by_cases hi : o.integerQuota = true
    · simp [hp, hi, fixedArith]
    · simp [hp, hi, cferQuota, fixedArith]

theorem wigm_start (p : Nat) (o : WigmOpts) (s0 : St Int) (hinit : Init (fixedArith p) s0)
    (hfresh : ∀ c ∈ s0.cands, c.st ≠ .elected) (henough : s0.seats ≤ nHop s0) (hround : s0.round = 0) :
    GStart (fixedArith p) (wigmQuota (fixedArith p) o s0) s0 := by
  by_cases hc : o.prf = false ∧ o.integerQuota = true
  · have hS := pow10_pos p
    have hq : wigmQuota (fixedArith p) o s0 = (1 + pdiv s0.nballots (s0.seats + 1)) * pow10 p := by
      rw [wigmQuota_fixed, if_pos hc]
    rw [hq]
    have hnn : 0 ≤ pdiv (s0.nballots : Int) ((s0.seats : Int) + 1) := pdiv_nonneg _ _ (by positivity) (by positivity)
    refine ⟨hinit, by positivity, hfresh, henough, hround, ?_⟩
    have := integer_droopQuota (fixedArith p) (fixed_lawful p) s0.nballots s0.seats
    simp only [fixedArith, Int.cast_id] at this ⊢
    push_cast at this ⊢
    linarith
  · have hq : wigmQuota (fixedArith p) o s0 = cferQuota (fixedArith p) s0 := by rw [wigmQuota_fixed, if_neg hc]
    rw [hq]
    exact cfer_start p s0 hinit hfresh henough hround

theorem wigm_seats_filled_fixed (p : Nat) (o : WigmOpts) (hz : o.batchZero = false) (s0 : St Int)
    (hinit : Init (fixedArith p) s0) (hfresh : ∀ c ∈ s0.cands, c.st ≠ .elected) (henough : s0.seats ≤ nHop s0)
    (hround : s0.round = 0) :
    ∃ t, wigmCount (fixedArith p) o s0 = some t
      ∧ Mon t ∧ Ext s0 t ∧ (t.crash = none → nEl t = t.seats ∧ nHop t = 0) := by
  have h0 := wigm_start p o s0 hinit hfresh henough hround
  obtain ⟨t, ht⟩ := wigmCount_terminates' _ (fixed_lawful p) o hz (fun _ => rfl) s0 h0
  exact ⟨t, ht, wigm_result _ (fixed_lawful p) o hz (fun _ => rfl) s0 t h0 ht⟩

/-! ## Minneapolis (profiles without undeclared write-ins) -/

theorem mpls_start (p : Nat) (s0 : St Int) (hinit : Init (fixedArith p) s0) (hfresh : ∀ c ∈ s0.cands, c.st ≠ .elected)
    (henough : s0.seats ≤ nHop s0) (hround : s0.round = 0) : GStart (fixedArith p) (mplsQuota (fixedArith p) s0) s0 := by
  have hS := pow10_pos p
  have hnn : 0 ≤ pdiv (s0.nballots : Int) ((s0.seats : Int) + 1) := pdiv_nonneg _ _ (by positivity) (by positivity)
  refine ⟨hinit, ?_, hfresh, henough, hround, ?_⟩
  · show 0 < (pdiv (s0.nballots : Int) ((s0.seats : Int) + 1) + 1) * pow10 p
    positivity
  · have := integer_droopQuota (fixedArith p) (fixed_lawful p) s0.nballots s0.seats
    simpa [mplsQuota] using this

/-- the Minneapolis count of a profile without undeclared write-ins returns, with a forward-only append-only record, and
    unless the crash flag is up exactly `seats` candidates are elected and nobody is left hopeful -/
theorem mpls_seats_filled_fixed (p : Nat) (s0 : St Int) (hinit : Init (fixedArith p) s0)
    (hfresh : ∀ c ∈ s0.cands, c.st ≠ .elected) (henough : s0.seats ≤ nHop s0) (hround : s0.round = 0) (hnu : NoUnd s0) :
    ∃ t, mplsCount (fixedArith p) s0 = some t
      ∧ Mon t ∧ Ext s0 t ∧ (t.crash = none → nEl t = t.seats ∧ nHop t = 0) := by
  have h0 := mpls_start p s0 hinit hfresh henough hround
  obtain ⟨t, ht⟩ := mplsCount_terminates _ (fixed_lawful p) rfl s0 h0 hnu
  exact ⟨t, ht, mpls_result _ (fixed_lawful p) rfl s0 t h0 hnu ht⟩

example : NoUnd C02.tiny := by intro c hc; simp [C02.tiny] at hc; rcases hc with rfl | rfl <;> rfl

/-! ## QPQ: the count returns -/

/-- **QPQ terminates**: for every case with distinct candidate ids and every precision / guard of the arithmetic the rule forces,
    the count returns a state — the fuelled loop of the model (`n(n+2)+3` rounds for `n` candidates) never runs out.  The
    measure: with `k` = hopeful + elected and `h` = hopeful, `T(k) + (k+1 if a restart is due, else h+1)` drops in every round
    that continues (`DroopProofs/QpqTerm.lean`). -/
theorem qpq_terminates (p g : Nat) (c : Case) (hr : c.rule = "qpq") (hnd : (c.cands.map (·.1)).Nodup) :
    ∃ t, runRuleSt (guardedArith p g) c = some t := by
  unfold runRuleSt
  simp only [runRuleSt', hr]
  apply qpqCount_terminates
  unfold St.WF
  rw [initState_cids]
  exact hnd

/-- ... and so the driver never prints `FUEL` for a QPQ count -/
theorem qpq_never_fuel (p g : Nat) (c : Case) (hr : c.rule = "qpq") (hnd : (c.cands.map (·.1)).Nodup) :
    ∃ t, finish (guardedArith p g) (runRuleSt (guardedArith p g) c) = finish (guardedArith p g) (some t) := by
  obtain ⟨t, ht⟩ := qpq_terminates p g c hr hnd
  exact ⟨t, by rw [ht]⟩

end Droop.C01
