import DroopModel
import DroopProofs
import Mathlib.Tactic.SplitIfs
/-!
# C20 — a count is independent of whatever was counted before it in the process

The only state that survives from one election to the next is the class-level configuration of the three value
classes, modelled attribute by attribute in `DroopModel/Session.lean` (`ClassState`). `initialize` is the list of
attribute assignments it performs (in program order, the partial ones before an exception and the conditional ones
included) applied to the incoming state. (The correspondence run compares the resulting state with the real class
attributes after every constructor of generated histories.)

* The *outcome* of constructing an election (effective options, arithmetic configuration, error class) is by
  construction a function of the options: `(initS o st).2 = (trace o).2`.
* After a successful `initialize` every attribute is overwritten — for Guarded, every attribute except `__scaledg`
  and `epsilon`, which are written exactly when an operation can read them (`display > precision`, `guard = 0`).
  Hence the state seen by any operation does not depend on the history.
-/
namespace Droop.C20
open Droop

theorem fixed_outcome_indep (o : Options) (st1 st2 : FixedSt) : (fixedInitS o st1).2 = (fixedInitS o st2).2 := rfl
theorem guarded_outcome_indep (o : Options) (st1 st2 : GuardedSt) : (guardedInitS o st1).2 = (guardedInitS o st2).2 := rfl
theorem rational_outcome_indep (o : Options) (st1 st2 : RationalSt) : (rationalInitS o st1).2 = (rationalInitS o st2).2 := rfl

/-- **Fixed**: a successful initialize overwrites every class attribute -/
theorem fixed_state_indep (o : Options) (st1 st2 : FixedSt) (r : Options × ArithCfg)
    (h : (fixedInitS o st1).2 = .ok r) : (fixedInitS o st1).1 = (fixedInitS o st2).1 := by
  unfold fixedInitS at h ⊢
  simp only at h ⊢
  unfold fixedTrace at h ⊢
  simp only at h ⊢
  split at h
  · simp at h
  · split at h
    · simp at h
    · split at h
      · simp at h
      · simp at h
      · split at h
        · simp at h
        · split at h
          · simp at h
          · split at h
            · simp at h
            · simp at h
            · rename_i hA _ _ _ _ _ _ _ hB _ _ _ _ _ _
              simp only [hA, hB, if_false, Bool.false_eq_true, List.foldl_cons, List.foldl_nil, FixedSt.write]

/-- **Rational**: a successful initialize overwrites every class attribute -/
theorem rational_state_indep (o : Options) (st1 st2 : RationalSt) (r : Options × ArithCfg)
    (h : (rationalInitS o st1).2 = .ok r) : (rationalInitS o st1).1 = (rationalInitS o st2).1 := by
  unfold rationalInitS at h ⊢
  simp only at h ⊢
  unfold rationalTrace at h ⊢
  split at h
  · simp at h
  · split at h
    · split at h
      · simp at h
      · rename_i _ _ _ _ _ _ hB
        simp only [hB, if_false, List.foldl_cons, List.foldl_nil, RationalSt.write]
    · simp at h

/-! ## Guarded -/

/-- two Guarded class states that no operation can tell apart: every attribute agrees, except that `__scaledg` need only
    agree when `display > precision` (the only case in which `__str__` reads it) and `epsilon` need only agree when the
    arithmetic is not exact (the only case in which a rule reads it) -/
structure GObsEq (a b : GuardedSt) : Prop where
  precision : a.precision = b.precision
  guard : a.guard = b.guard
  display : a.display = b.display
  scalep : a.scalep = b.scalep
  scaleg : a.scaleg = b.scaleg
  scale : a.scale = b.scale
  scaledd : a.scaledd = b.scaledd
  scaledr : a.scaledr = b.scaledr
  scaled : a.scaled = b.scaled
  geps : a.geps = b.geps
  maxDiff : a.maxDiff = b.maxDiff
  minDiff : a.minDiff = b.minDiff
  dfmtP : a.dfmtP = b.dfmtP
  dfmtG : a.dfmtG = b.dfmtG
  info : a.info = b.info
  quasiExact : a.quasiExact = b.quasiExact
  exact : a.exact = b.exact
  scaledg : ∀ p d, a.precision = some p → a.display = some d → p < d → a.scaledg = b.scaledg
  epsilon : a.exact = false → a.epsilon = b.epsilon

/-- **Guarded**: after a successful initialize no operation can see the previous class state -/
theorem guarded_state_indep (o : Options) (st1 st2 : GuardedSt) (r : Options × ArithCfg)
    (h : (guardedInitS o st1).2 = .ok r) : GObsEq (guardedInitS o st1).1 (guardedInitS o st2).1 := by
  unfold guardedInitS at h ⊢
  simp only at h ⊢
  unfold guardedTrace at h ⊢
  simp only at h ⊢
  split at h
  · simp at h
  · split at h
    · simp at h
    · split at h
      · simp at h
      · split at h
        · simp at h
        · split at h
          · simp at h
          · split at h
            · simp at h
            · rename_i hA _ p _ _ _ _ _ g _ _ _ _ _ d0 _
              simp only [hA, if_false, Bool.false_eq_true]
              unfold guardedTail
              by_cases hd : (if d0 > p + g then p + g else d0) > p <;> by_cases hg : (g == 0) = true <;>
                simp only [hd, hg, if_true, if_false, Bool.false_eq_true, List.cons_append, List.nil_append, List.append_nil,
                  List.foldl_cons, List.foldl_nil, GuardedSt.write] <;>
                constructor <;> first | rfl | (intros; first | rfl | (exfalso; simp_all; split_ifs at * <;> omega) | simp_all)

/-- `__str__` reads the same attributes from observationally equal states -/
theorem strGuardedS_obs (a b : GuardedSt) (h : GObsEq a b) (v : Int) : strGuardedS a v = strGuardedS b v := by
  unfold strGuardedS
  rw [← h.precision, ← h.display, ← h.scaledr, ← h.scaledd, ← h.scaled, ← h.dfmtP, ← h.dfmtG]
  cases hp : a.precision with
  | none => rfl
  | some p =>
    cases hd : a.display with
    | none => rfl
    | some d =>
      by_cases hle : d ≤ p
      · simp only [Option.bind_some, bind, hle, if_true]
      · have hlt : p < d := by omega
        rw [← h.scaledg p d hp hd hlt]

/-- **what a printed value looks like after a successful initialize does not depend on the history** -/
theorem guarded_str_indep (o : Options) (st1 st2 : GuardedSt) (r : Options × ArithCfg)
    (h : (guardedInitS o st1).2 = .ok r) (v : Int) :
    strGuardedS (guardedInitS o st1).1 v = strGuardedS (guardedInitS o st2).1 v :=
  strGuardedS_obs _ _ (guarded_state_indep o st1 st2 r h) v

/-! ## the process -/

/-- the outcome of constructing an election never depends on the class state left by earlier elections -/
theorem setup_outcome_indep (cmd : Dict) (file : List String) (cs1 cs2 : ClassState) :
    (electionSetupS cmd file cs1).2 = (electionSetupS cmd file cs2).2 := by
  have hA : ∀ o, (arithmeticClassS o cs1).2 = (arithmeticClassS o cs2).2 := by
    intro o
    unfold arithmeticClassS
    split
    · rfl
    · split
      · rfl
      · split
        · rfl
        · split <;> rfl
  unfold electionSetupS
  dsimp only
  split
  · rfl
  · split
    · split
      · rfl
      · split
        · rfl
        · rename_i o2 rp _
          have := hA o2
          revert this
          cases arithmeticClassS o2 cs1 with
          | mk a b =>
            cases arithmeticClassS o2 cs2 with
            | mk c d =>
              intro hbd
              simp only at hbd
              subst hbd
              cases b <;> rfl
    · rfl

/-- ... whatever histories preceded it -/
theorem session_outcome_indep (cmd : Dict) (file : List String) (cs1 cs2 : ClassState) (h1 h2 : List (Dict × List String)) :
    (electionSetupS cmd file (runSession cs1 h1)).2 = (electionSetupS cmd file (runSession cs2 h2)).2 :=
  setup_outcome_indep cmd file _ _

/-- non-vacuity: a guarded election initialises successfully from the pristine state -/
example : ((guardedInitS { cmd := [("arithmetic", .s "guarded"), ("precision", .i 4), ("guard", .i 2)] } {}).2.toOption.isSome) = true := by
  decide

end Droop.C20
