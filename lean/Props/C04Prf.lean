import Props.C04Meek
import DroopProofs.PermBPrf
/-!
# C04 for meek-prf: the quota of every iteration is the prescribed one, and whoever reaches it is elected

One iteration of `meek_prf.py` B.2: distribute (`prfS2`), total the active tallies and recompute the quota (`prfS4`), elect every
hopeful candidate at or above it (`prfS5`), compute the surplus (`prfS6`).

* `prf_quota_prescribed` / `prf_quota_fixed`: the quota is the active total divided by seats + 1, truncated to the working precision,
  plus one unit in the last place (reference rule B.2.b);
* `prf_reaches_quota_is_elected`, `prf_no_hopeful_holds_quota`, `prf_rest_below_fixed`: every hopeful candidate at or above the
  quota is elected in the state the iteration returns, and whoever is still hopeful holds strictly less (B.2.c).
-/
namespace Droop.C04
open Droop
variable {α : Type} [CommRing α] [LinearOrder α] [IsStrictOrderedRing α] (A : Arith α)

theorem prf_quota_prescribed (s : St α) :
    (prfS6 A s).quota = A.add (A.fdivV (activeVotes A (prfS2 A s)) (A.ofInt ((prfS2 A s).seats + 1))) A.eps := by
  show ((prfWinners A s).foldl (fun acc c => acc.elect A c.cid "Elect" false) (prfS4 A s)).quota = _
  rw [foldElect_quota]
  rfl

theorem prf_quota_fixed (p : Nat) (s : St Int) :
    (prfS6 (fixedArith p) s).quota
      = pdiv (activeVotes (fixedArith p) (prfS2 (fixedArith p) s) * pow10 p) (((prfS2 (fixedArith p) s).seats + 1 : Int) * pow10 p) + 1 := by
  rw [prf_quota_prescribed]
  show (if ((((prfS2 (fixedArith p) s).seats + 1 : Int) * pow10 p) == 0) = true then 0
      else pdiv (activeVotes (fixedArith p) (prfS2 (fixedArith p) s) * pow10 p) (((prfS2 (fixedArith p) s).seats + 1 : Int) * pow10 p)) + 1 = _
  have hS := pow10_pos p
  have hne : ((((prfS2 (fixedArith p) s).seats + 1 : Int) * pow10 p) == 0) = false := by
    have : (0 : Int) < ((prfS2 (fixedArith p) s).seats + 1 : Int) * pow10 p := by positivity
    simp only [beq_eq_false_iff_ne, ne_eq]
    omega
  rw [hne]
  rfl

theorem prf_reaches_quota_is_elected (s : St α) (w : Cand α) (hw : w ∈ (prfS4 A s).hopeful)
    (hq : A.ge w.vote (prfS4 A s).quota = true) :
    ∀ x ∈ (prfS6 A s).cands, x.cid = w.cid → x.st = .elected := by
  have hm : w ∈ prfWinners A s := by unfold prfWinners; rw [List.mem_filter]; exact ⟨hw, hq⟩
  exact foldElect_all A _ (fun _ => "Elect") (fun _ => false) (prfS4 A s) w hm

theorem prf_no_hopeful_holds_quota (s : St α) :
    ∀ c ∈ (prfS6 A s).hopeful, c ∈ (prfS4 A s).hopeful ∧ A.ge c.vote (prfS4 A s).quota = false := by
  intro c hc
  have hc' : c ∈ ((prfWinners A s).foldl (fun acc c => acc.elect A c.cid "Elect" false) (prfS4 A s)).hopeful := hc
  obtain ⟨h1, h2⟩ := foldElect_rest A "Elect" (prfWinners A s)
    (fun w hw => by unfold prfWinners at hw; exact (List.mem_filter.1 hw).1) c hc'
  refine ⟨h1, ?_⟩
  by_contra hq
  apply h2
  unfold prfWinners
  rw [List.mem_filter]
  exact ⟨h1, by simpa using hq⟩

theorem prf_rest_below_fixed (p : Nat) (s : St Int) :
    ∀ c ∈ (prfS6 (fixedArith p) s).hopeful, c.vote < (prfS4 (fixedArith p) s).quota := by
  intro c hc
  exact lt_of_ge_false p _ _ (prf_no_hopeful_holds_quota (fixedArith p) s c hc).2

end Droop.C04
