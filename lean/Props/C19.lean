import DroopModel
import DroopProofs
/-!
# C19 — an interrupted count can always be reported, as a prefix of the full count

Two facts carry the property.

1. The record is append-only (`wigmCount_appendOnly`, and `Ext` along every step): whatever state the count is in when
   the interrupt arrives, its action list is a prefix (in time) of the action list of the finished count.
2. The renderers need the record *header*, which `ElectionRecord._fill` writes key by key when the first
   `begin`/`count`/`round` action is recorded. Below is the small state machine of that header: a count is a sequence of
   header-key writes and action appends; an interrupt may fall after any prefix of it. With the repaired
   `Election._interrupted` (repo commit "fix: election: an interrupted count can be reported ...") the header is completed
   before rendering, so every key a renderer reads is present after *every* prefix. For the pinned tree the same statement
   is false already for the empty prefix (finding F1) — the counterexample is kept as an `example`.
-/
namespace Droop.C19
open Droop

/-- the header keys `ElectionRecord._fill` assigns, in program order -/
def headerKeys : List String := headerKeysModel

/-- keys read by report() / dump() / json() -/
def reportNeeds : List String := ["title", "droop_name", "droop_version", "rule_info", "arithmetic_info", "seats", "nballots", "quota", "cids", "cdict"]
def dumpNeeds : List String := ["ecids", "cdict"]

structure Rec where
  keys : List String := []
  filled : Bool := false
  actions : Nat := 0           -- number of actions appended so far
  intrLogged : Bool := false
deriving Repr

inductive Ev | setKey (k : String) | setFilled | append
deriving Repr

def step (r : Rec) : Ev → Rec
  | .setKey k => { r with keys := k :: r.keys }
  | .setFilled => { r with filled := true }
  | .append => { r with actions := r.actions + 1 }

def run (r : Rec) (es : List Ev) : Rec := es.foldl step r

/-- the events of `_fill` -/
def fillEvents : List Ev := headerKeys.map Ev.setKey ++ [Ev.setFilled]

/-- `Election._interrupted()` after the fix: complete the header if it is not marked filled, then log the interruption once -/
def interrupted (r : Rec) : Rec :=
  let r1 := if r.filled then r else run r fillEvents
  if r1.intrLogged then r1 else { r1 with actions := r1.actions + 1, intrLogged := true }

/-- the pinned tree: only the log line -/
def interruptedOld (r : Rec) : Rec :=
  if r.intrLogged then r else { r with actions := r.actions + 1, intrLogged := true }

def canRender (needs : List String) (r : Rec) : Bool := needs.all (fun k => r.keys.contains k)

theorem run_keys_superset (r : Rec) (es : List Ev) : ∀ k ∈ r.keys, k ∈ (run r es).keys := by
  induction es generalizing r with
  | nil => intro k hk; exact hk
  | cons e es ih =>
    intro k hk
    unfold run; simp only [List.foldl_cons]
    apply ih
    cases e <;> simp [step, hk]

theorem run_append (r : Rec) (a b : List Ev) : run r (a ++ b) = run (run r a) b := by
  unfold run; rw [List.foldl_append]

theorem fill_has_all_keys (r : Rec) : ∀ k ∈ headerKeys, k ∈ (run r fillEvents).keys := by
  intro k hk
  unfold fillEvents
  rw [run_append]
  apply run_keys_superset
  -- after writing the keys one by one, each is present
  have : ∀ (ks : List String) (r : Rec), ∀ k ∈ ks, k ∈ (run r (ks.map Ev.setKey)).keys := by
    intro ks
    induction ks with
    | nil => intro r k hk; cases hk
    | cons x xs ih =>
      intro r k hk
      simp only [List.map_cons, run, List.foldl_cons]
      rcases List.mem_cons.1 hk with h | h
      · subst h
        exact run_keys_superset _ _ _ (by simp [step])
      · exact ih _ k h
  exact this headerKeys r k hk

/-- the invariant of a count: the record is marked filled only after every header key has been written -/
def FilledMeansComplete (r : Rec) : Prop := r.filled = true → ∀ k ∈ headerKeys, k ∈ r.keys

/-- **after any interruption point, with the repaired code, every header key is present** -/
theorem interrupted_has_header (r : Rec) (hinv : FilledMeansComplete r) : ∀ k ∈ headerKeys, k ∈ (interrupted r).keys := by
  intro k hk
  unfold interrupted
  by_cases hf : r.filled = true
  · simp only [hf, if_true]
    split <;> exact hinv hf k hk
  · simp only [hf, if_false, Bool.false_eq_true]
    split <;> exact fill_has_all_keys r k hk

theorem needs_subset : (∀ k ∈ reportNeeds, k ∈ headerKeys) ∧ (∀ k ∈ dumpNeeds, k ∈ headerKeys) := by
  constructor <;> decide

/-- **report(), dump() and json() find every key they read** -/
theorem interrupted_can_render (r : Rec) (hinv : FilledMeansComplete r) :
    canRender reportNeeds (interrupted r) = true ∧ canRender dumpNeeds (interrupted r) = true := by
  have h := interrupted_has_header r hinv
  constructor
  · unfold canRender; rw [List.all_eq_true]
    intro k hk; simpa using h k (needs_subset.1 k hk)
  · unfold canRender; rw [List.all_eq_true]
    intro k hk; simpa using h k (needs_subset.2 k hk)

/-- the invariant holds at every point of every count: `_fill` sets `filled` last -/
theorem prefix_invariant (pre : List Ev) (es : List Ev)
    (hcount : ∃ a b, es = a ++ fillEvents ++ b ∧ (∀ e ∈ a, e = Ev.append) ∧ (∀ e ∈ b, e = Ev.append))
    (hpre : pre <+: es) : FilledMeansComplete (run {} pre) := by
  obtain ⟨a, b, rfl, ha, hb⟩ := hcount
  intro hfilled k hk
  -- `filled` can only be true if the prefix contains the whole of `fillEvents`
  have hall : ∀ (l : List Ev) (r : Rec), (∀ e ∈ l, e ≠ Ev.setFilled) → (run r l).filled = r.filled := by
    intro l
    induction l with
    | nil => intro r _; rfl
    | cons e l ih =>
      intro r hne
      simp only [run, List.foldl_cons]
      have := ih (step r e) (fun e' he' => hne e' (by simp [he']))
      simp only [run] at this
      rw [this]
      cases e with
      | setKey k => rfl
      | setFilled => exact absurd rfl (hne _ (by simp))
      | append => rfl
  by_cases hlen : (a ++ fillEvents).length ≤ pre.length
  · -- the prefix contains a ++ fillEvents
    obtain ⟨t, ht⟩ := hpre
    have hp : a ++ fillEvents <+: pre := by
      have h1 : a ++ fillEvents <+: pre ++ t := by rw [ht]; exact ⟨b, by simp⟩
      exact List.prefix_of_prefix_length_le h1 ⟨t, rfl⟩ hlen
    obtain ⟨u, hu⟩ := hp
    rw [← hu, run_append, run_append]
    apply run_keys_superset
    exact fill_has_all_keys _ k hk
  · -- the prefix stops before `setFilled`: `filled` is still false
    exfalso
    have hlt : pre.length < (a ++ fillEvents).length := by omega
    obtain ⟨t, ht⟩ := hpre
    have hp : pre <+: a ++ fillEvents := by
      have h1 : pre <+: (a ++ fillEvents) ++ b := ⟨t, by rw [ht]⟩
      have h2 : a ++ fillEvents <+: (a ++ fillEvents) ++ b := ⟨b, rfl⟩
      exact List.prefix_of_prefix_length_le h1 h2 (le_of_lt hlt)
    -- a strict prefix of a ++ keys ++ [setFilled] has no setFilled
    have hno : ∀ e ∈ pre, e ≠ Ev.setFilled := by
      obtain ⟨u, hu⟩ := hp
      have hune : u ≠ [] := by
        intro h0; rw [h0, List.append_nil] at hu; rw [hu] at hlt; exact lt_irrefl _ hlt
      -- pre ++ u = a ++ map setKey keys ++ [setFilled] with u nonempty: pre ⊆ a ++ map setKey keys
      have hpre2 : pre <+: a ++ headerKeys.map Ev.setKey := by
        have : pre ++ u = (a ++ headerKeys.map Ev.setKey) ++ [Ev.setFilled] := by
          rw [hu]; unfold fillEvents; simp
        obtain ⟨u', hu'⟩ := List.eq_nil_or_concat u |>.resolve_left hune
        obtain ⟨x, hx⟩ := hu'
        rw [hx, List.concat_eq_append, ← List.append_assoc] at this
        have h3 := List.append_inj_left' this (by simp)
        exact ⟨u', h3⟩
      intro e he
      obtain ⟨v, hv⟩ := hpre2
      have : e ∈ a ++ headerKeys.map Ev.setKey := by rw [← hv]; simp [he]
      rcases List.mem_append.1 this with h | h
      · rw [ha e h]; intro hh; cases hh
      · obtain ⟨k', _, hk'⟩ := List.mem_map.1 h
        rw [← hk']; intro hh; cases hh
    have := hall pre {} hno
    rw [this] at hfilled
    cases hfilled

/-- finding F1 on the pinned tree: interrupted before the first action, the old code has no header to render -/
example : canRender reportNeeds (interruptedOld {}) = false := by decide
example : canRender dumpNeeds (interruptedOld (run {} [Ev.setKey "title", Ev.setKey "droop_name"])) = false := by decide
/-- ... and the repaired code renders at those same points -/
example : canRender reportNeeds (interrupted {}) = true := by decide
example : canRender dumpNeeds (interrupted (run {} [Ev.setKey "title", Ev.setKey "droop_name"])) = true := by decide

/-- the record only grows: the state reached by the whole count extends every earlier state (`Ext` = the earlier action
    list is a suffix of the later one, newest first) -/
theorem record_append_only {α : Type} (A : Arith α) (o : WigmOpts) (s0 t : St α) (h : wigmCount A o s0 = some t) : Ext s0 t :=
  wigmCount_appendOnly A o s0 t h

end Droop.C19
