import Props.C04Elect
/-!
# C04 for mpls: a candidate at the threshold is elected before anybody is excluded singly, and before a further round is opened

The Minneapolis rule elects one candidate per round (the one with the largest surplus), so a hopeful candidate may stay at the
threshold for a round or two; what the ordinance forbids is read off `mplsBody` / `mplsRound`:

* `mpls_no_new_round_when_seats_can_be_filled`: when the elected candidates and the declared hopefuls at the threshold fill every
  seat, no further round is opened — they are all declared elected (167.70(c)(1)a);
* `mplsRound_cases`: the lowest candidate is excluded (167.70(c)(1)e) only in a round in which no
  hopeful candidate is at the threshold and no certain-loser batch was found.
-/
namespace Droop.C04
open Droop
variable {α : Type} [CommRing α] [LinearOrder α] [IsStrictOrderedRing α] (A : Arith α)

theorem mpls_no_new_round_when_seats_can_be_filled (s : St α)
    (h : (mplsCountVotes A s).elected.length + (mplsAtThreshold A (mplsCountVotes A s)).length ≥ (mplsCountVotes A s).seats) :
    mplsBody A s = mplsElectThreshold A (mplsCountVotes A s) := by
  unfold mplsBody
  rw [if_pos h]

theorem mpls_new_round_only_with_open_seat (s : St α)
    (h : ¬ (mplsCountVotes A s).elected.length + (mplsAtThreshold A (mplsCountVotes A s)).length ≥ (mplsCountVotes A s).seats) :
    mplsBody A s = mplsRound A ((mplsCountVotes A s).newRound A) := by
  unfold mplsBody
  rw [if_neg h]

/-- every member of the threshold list is elected by `mplsElectThreshold` -/
theorem mpls_threshold_all_elected (s : St α) (w : Cand α) (hw : w ∈ mplsAtThreshold A s) :
    ∀ x ∈ (mplsElectThreshold A s).1.cands, x.cid = w.cid → x.st = .elected := by
  unfold mplsElectThreshold
  exact foldElect_all A _ (fun _ => "Candidate at threshold") (fun _ => false) s w hw

/-- the only call of `mplsDefeatLow` in a round: no certain-loser batch, and nobody at the threshold -/
theorem mplsRound_cases (s : St α) :
    ((mplsDefeatSet A s).isEmpty = false ∧ mplsRound A s = mplsDefeatMany A s (mplsDefeatSet A s))
    ∨ ((mplsDefeatSet A s).isEmpty = true ∧ ∃ h hs, (byVote A true s.hopeful).filter (hasQuotaGE A s) = h :: hs
        ∧ mplsRound A s = mplsElectSurplus A s (h :: hs) (A.pyMax h.vote (hs.map (·.vote))))
    ∨ ((mplsDefeatSet A s).isEmpty = true ∧ (∀ c ∈ s.hopeful, hasQuotaGE A s c = false)
        ∧ mplsRound A s = mplsFinish (mplsDefeatLow A s)) := by
  unfold mplsRound
  by_cases he : (mplsDefeatSet A s).isEmpty = true
  · right
    simp only [he, Bool.not_true, Bool.false_eq_true, if_false]
    cases hf : (byVote A true s.hopeful).filter (hasQuotaGE A s) with
    | nil =>
      right
      refine ⟨trivial, ?_, rfl⟩
      intro c hc
      have hm : c ∈ byVote A true s.hopeful := (mem_pySorted _ _ _ _).2 hc
      by_contra hq
      have : c ∈ (byVote A true s.hopeful).filter (hasQuotaGE A s) := List.mem_filter.2 ⟨hm, by simpa using hq⟩
      rw [hf] at this; cases this
    | cons h hs => left; exact ⟨trivial, h, hs, rfl, rfl⟩
  · left
    have he' : (mplsDefeatSet A s).isEmpty = false := by simpa using he
    simp only [he', Bool.not_false, if_true]
    exact ⟨trivial, trivial⟩

end Droop.C04
