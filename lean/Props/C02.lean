import DroopModel
import DroopProofs
/-!
# C02 / C06 — votes are conserved; tallies equal ballot values (all seven Gregory rule names)

`Inv A s` (DroopProofs/Inv.lean) bundles, for a counting state `s`: distinct candidate ids, ballots that name existing
candidates, non-negative weights, tallies and non-transferable total, a positive quota, **I1** (every hopeful or
transfer-pending candidate's tally is the value of the ballots standing to their credit), pending candidates hold a quota,
**conservation** (Σ tallies + non-transferable ≤ ballots) and `recOK`: every snapshot logged so far satisfies the same
bound with nothing negative. The theorems say the bundle holds at the end of every count — hence in every snapshot of
the record — for every input that `Election.__init__` can hand over (`Init`), for

* `wigm`, `wigm-prf`, `wigm-prf-batch` (any lawful arithmetic; `defeat_batch=zero` excepted: `_partial`),
* `scotland`, `cfer`, `cfer-batch`, `mpls` (their fixed-point arithmetic).

The Boolean form `recUpperB … = true` is the upper half of the predicate `okC02Gregory` that the driver evaluates on the
implementation's record.
-/
namespace Droop.C02
open Droop
variable {α : Type} [CommRing α] [LinearOrder α] [IsStrictOrderedRing α] (A : Arith α)

/-- wigm / wigm-prf / wigm-prf-batch -/
theorem wigm_family_partial (hA : LawfulArith A) (o : WigmOpts) (hz : o.batchZero = false) (hex : o.prf = true → A.exact = false)
    (s0 t : St α) (h0 : Init A s0) (hq : 0 < wigmQuota A o s0) (h : wigmCount A o s0 = some t) :
    Inv A (t.logAct A "end" "Count Complete" []) :=
  wigm_conservation' A hA o hz hex s0 t h0 hq h

theorem scotland (hA : LawfulArith A) (hex : A.exact = false) (s0 t : St α) (h0 : Init A s0)
    (hq : 0 < A.ofInt (pdiv s0.nballots (s0.seats + 1) + 1)) (h : scotCount A s0 = some t) :
    Inv A (t.logAct A "end" "Count Complete" []) :=
  scot_conservation A hA hex s0 t h0 hq h

theorem cfer (hA : LawfulArith A) (hex : A.exact = false) (batch : Bool) (s0 t : St α) (h0 : Init A s0)
    (hq : 0 < A.add (A.divV (A.ofInt s0.nballots) (A.ofInt (s0.seats + 1))) A.eps) (h : cferCount A batch s0 = some t) :
    Inv A (t.logAct A "end" "Count Complete" []) :=
  cfer_conservation A hA hex batch s0 t h0 hq h

theorem mpls (hA : LawfulArith A) (hex : A.exact = false) (s0 t : St α) (h0 : Init A s0)
    (hq : 0 < A.ofInt (pdiv s0.nballots (s0.seats + 1) + 1)) (h : mplsCount A s0 = some t) :
    Inv A (t.logAct A "end" "Count Complete" []) :=
  mpls_conservation A hA hex s0 t h0 hq h

/-- the executable upper-bound check is `true` on the whole record of every such count -/
theorem upper_check_of_inv (hA : LawfulArith A) (hR : LawfulRaw A) (s : St α) (h : Inv A s) :
    recUpperB A s.nballots s.acts = true :=
  recUpperB_of_recOK A hA hR s h.recOK

/-! ## the statutory rules in their own arithmetic: no hypothesis on the quota is left -/

theorem integer_quota_pos (p n seats : Nat) : 0 < (fixedArith p).ofInt (pdiv n (seats + 1) + 1) := by
  have hS := pow10_pos p
  have : 0 ≤ pdiv (n : Int) ((seats : Int) + 1) := pdiv_nonneg _ _ (by positivity) (by positivity)
  show 0 < (pdiv (n : Int) ((seats : Int) + 1) + 1) * pow10 p
  positivity

theorem scotland_fixed (p : Nat) (s0 t : St Int) (h0 : Init (fixedArith p) s0) (h : scotCount (fixedArith p) s0 = some t) :
    Inv (fixedArith p) (t.logAct (fixedArith p) "end" "Count Complete" [])
    ∧ recUpperB (fixedArith p) (t.logAct (fixedArith p) "end" "Count Complete" []).nballots
        (t.logAct (fixedArith p) "end" "Count Complete" []).acts = true := by
  have hi := scot_conservation (fixedArith p) (fixed_lawful p) rfl s0 t h0 (integer_quota_pos p _ _) h
  exact ⟨hi, upper_check_of_inv _ (fixed_lawful p) (fixed_lawfulRaw p) _ hi⟩

theorem mpls_fixed (p : Nat) (s0 t : St Int) (h0 : Init (fixedArith p) s0) (h : mplsCount (fixedArith p) s0 = some t) :
    Inv (fixedArith p) (t.logAct (fixedArith p) "end" "Count Complete" [])
    ∧ recUpperB (fixedArith p) (t.logAct (fixedArith p) "end" "Count Complete" []).nballots
        (t.logAct (fixedArith p) "end" "Count Complete" []).acts = true := by
  have hi := mpls_conservation (fixedArith p) (fixed_lawful p) rfl s0 t h0 (integer_quota_pos p _ _) h
  exact ⟨hi, upper_check_of_inv _ (fixed_lawful p) (fixed_lawfulRaw p) _ hi⟩

theorem fixed_quota_pos (p n seats : Nat) :
    0 < (fixedArith p).add ((fixedArith p).divV ((fixedArith p).ofInt n) ((fixedArith p).ofInt (seats + 1))) (fixedArith p).eps := by
  have hS := pow10_pos p
  have hk : (0 : Int) < ((seats : Int) + 1) * pow10 p := by positivity
  have hk0 : ((((seats : Int) + 1) * pow10 p) == 0) = false := by simpa using (ne_of_gt hk)
  show 0 < (if (((seats : Int) + 1) * pow10 p == 0) = true then 0 else pdiv ((n : Int) * pow10 p * pow10 p) (((seats : Int) + 1) * pow10 p)) + 1
  simp only [hk0, Bool.false_eq_true, if_false]
  have : 0 ≤ pdiv ((n : Int) * pow10 p * pow10 p) (((seats : Int) + 1) * pow10 p) := pdiv_nonneg _ _ (by positivity) hk
  omega

theorem cfer_fixed (p : Nat) (batch : Bool) (s0 t : St Int) (h0 : Init (fixedArith p) s0) (h : cferCount (fixedArith p) batch s0 = some t) :
    Inv (fixedArith p) (t.logAct (fixedArith p) "end" "Count Complete" [])
    ∧ recUpperB (fixedArith p) (t.logAct (fixedArith p) "end" "Count Complete" []).nballots
        (t.logAct (fixedArith p) "end" "Count Complete" []).acts = true := by
  have hi := cfer_conservation (fixedArith p) (fixed_lawful p) rfl batch s0 t h0 (fixed_quota_pos p _ _) h
  exact ⟨hi, upper_check_of_inv _ (fixed_lawful p) (fixed_lawfulRaw p) _ hi⟩

theorem wigm_prf_fixed (p : Nat) (batch : Bool) (s0 t : St Int) (h0 : Init (fixedArith p) s0)
    (h : wigmCount (fixedArith p) { prf := true, prfBatch := batch } s0 = some t) :
    Inv (fixedArith p) (t.logAct (fixedArith p) "end" "Count Complete" [])
    ∧ recUpperB (fixedArith p) (t.logAct (fixedArith p) "end" "Count Complete" []).nballots
        (t.logAct (fixedArith p) "end" "Count Complete" []).acts = true := by
  have hq : 0 < wigmQuota (fixedArith p) { prf := true, prfBatch := batch } s0 := by
    unfold wigmQuota; simp only [if_true]; exact fixed_quota_pos p _ _
  have hi := wigm_conservation' (fixedArith p) (fixed_lawful p) { prf := true, prfBatch := batch } rfl (fun _ => rfl) s0 t h0 hq h
  exact ⟨hi, upper_check_of_inv _ (fixed_lawful p) (fixed_lawfulRaw p) _ hi⟩

end Droop.C02

namespace Droop.C02
open Droop

/-- non-vacuity: a concrete state that `Election.__init__` hands over (two candidates, two ballot lines) meets `Init` -/
def tiny : St Int :=
  { method := Method.wigm
    seats := 1
    nballots := 3
    cands := [{ cid := 1, order := 1, tie := 1, undeclared := false, st := .hopeful, pending := false, vote := 0, kf := none, quotient := none, tc := 0 },
              { cid := 2, order := 2, tie := 2, undeclared := false, st := .hopeful, pending := false, vote := 0, kf := none, quotient := none, tc := 0 }]
    ballots := [{ mult := 2, rank := [1, 2], idx := 0, w := 10000, residual := 0 }, { mult := 1, rank := [2], idx := 0, w := 10000, residual := 0 }]
    ballotsEq := []
    quota := 0
    surplus := 0
    votes := 0
    exhausted := 0
    residual := 0
    round := 0
    rounds := []
    acts := []
    crash := none }

theorem tiny_init : Init (fixedArith 4) tiny :=
  { meth := rfl, noActs := rfl
    wf := by unfold St.WF; decide
    bwf := by intro b hb cid hc; simp [tiny] at hb; rcases hb with rfl | rfl <;> simp at hc <;> (try rcases hc with rfl | rfl) <;> decide
    votes0 := by intro c hc; simp [tiny] at hc; rcases hc with rfl | rfl <;> rfl
    noPending := by intro c hc; simp [tiny] at hc; rcases hc with rfl | rfl <;> rfl
    ballots0 := by intro b hb; simp [tiny] at hb; rcases hb with rfl | rfl <;> exact ⟨rfl, rfl, by simp⟩
    nb := by simp [tiny] }

/-- ... and the Scottish count of it returns -/
example : (scotCount (fixedArith 4) tiny).isSome = true := by decide

end Droop.C02
