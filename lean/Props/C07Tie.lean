import Props.C07
/-!
# C07: `breakTie` of the tie-order rules, as read from the source

`harness/gen_tie.py` accepts `breakTie` in wigm.py, wigm_prf.py, cfer.py, meek.py, meek_prf.py, mpls.py and qpq.py only in this form:
a single tied candidate is returned as it is, without a log line; otherwise the first candidate of `C.byTieOrder(tied)` is chosen, one
`tie` action naming all tied candidates and the chosen one is logged, and the chosen candidate is returned.  It extracts, per rule, the
format string of the log line and its arguments; the table is kernel-checked equal to `tieTable` on every C07 run.  `breakTie_is_program`
proves that the model's `breakTie` is exactly that procedure (`tieProg`), for every state and every list of tied candidates.
The Scottish rule's `breakTie` (look back through the earlier stages first) is not covered by this extractor: correspondence and
`DroopProofs/RunScot.lean`.
-/
namespace Droop.C07
open Droop

/-- (rule module, format string of the log line, its arguments) -/
def tieTable : List (String × String × String) :=
  [("cfer", "Break tie (%s): [%s] -> %s", "(reason, names, t.name)"),
   ("meek", "Break tie (%s): [%s] -> %s", "(reason, names, t)"),
   ("meek_prf", "Break tie (defeat low candidate): [%s] -> %s", "(names, t)"),
   ("mpls", "Break tie (%s): [%s] -> %s", "(reason, names, t.name)"),
   ("qpq", "Break tie by lot (%s): [%s] -> %s", "(reason, names, t.name)"),
   ("wigm", "Break tie (%s): [%s] -> %s", "(reason, names, t.name)"),
   ("wigm_prf", "Break tie (%s): [%s] -> %s", "(reason, names, t.name)")]

variable {α : Type} (A : Arith α)

/-- the accepted shape as a procedure on the model's state: `if len(tied) == 1: return tied.pop()`; `t = C.byTieOrder(tied)[0]` (IndexError
    on an empty list); one `tie` action; `return t` -/
def tieProg (s : St α) (tied : List (Cand α)) (verb : String) : St α × Option (Cand α) :=
  if tied.length == 1 then (s, tied.getLast?)
  else
    match (byTieOrder tied).head? with
    | none => (s.setCrash "IndexError", none)
    | some t => (s.logAct A "tie" verb (t.cid :: tied.map (·.cid)), some t)

theorem byTieOrder_length (l : List (Cand α)) : (byTieOrder l).length = l.length :=
  (pySorted_perm _ _ l).length_eq

/-- **the model's `breakTie` is the source's procedure** -/
theorem breakTie_is_program (s : St α) (tied : List (Cand α)) (verb : String) : breakTie A s tied verb = tieProg A s tied verb := by
  unfold breakTie tieProg
  match tied with
  | [] =>
    have : byTieOrder ([] : List (Cand α)) = [] := List.length_eq_zero_iff.1 (byTieOrder_length [])
    simp [this]
  | [c] => simp
  | c :: d :: rest =>
    have hl := byTieOrder_length (c :: d :: rest)
    cases hb : byTieOrder (c :: d :: rest) with
    | nil => rw [hb] at hl; simp at hl
    | cons t ts => simp

end Droop.C07
