import DroopProofs
/-!
# C09: the candidate selectors of candidates.py (`Candidates.select`), translated from the source

`select(state, ...)` picks the candidates of a status; `eligible`, `pending` and `notpending` are statuses with a test of their own.
`harness/gen_select.py` translates the `if`/`elif` chain into the table below (kernel-checked equal to it on every C09 run); this file
proves the model's selectors (`eligible`, `hopeful`, `elected`, `pendingL`) are the filters the table denotes.
-/
namespace Droop.C09
open Droop

inductive SelTest
  | all                                   -- `candidates = self`
  | stateNe (s : String)                  -- `c.state != s`
  | stateEq (s : String)                  -- `c.state == s`
  | stateEqParam                          -- `c.state == state` (the final `else`)
  | andPending (t : SelTest)              -- `t and c.pending`
  | andNotPending (t : SelTest)           -- `t and not c.pending`
deriving DecidableEq, Repr

structure SelProg where
  cases : List (String × SelTest)         -- `if state == name: ...` in source order
  dflt : SelTest
deriving DecidableEq, Repr

def stateName : CState → String
  | .hopeful => "hopeful" | .elected => "elected" | .defeated => "defeated" | .withdrawn => "withdrawn"

variable {α : Type}

def SelTest.eval (param : String) : SelTest → Cand α → Bool
  | .all, _ => true
  | .stateNe s, c => stateName c.st != s
  | .stateEq s, c => stateName c.st == s
  | .stateEqParam, c => stateName c.st == param
  | .andPending t, c => t.eval param c && c.pending
  | .andNotPending t, c => t.eval param c && !c.pending

def SelProg.test (p : SelProg) (state : String) : Cand α → Bool :=
  match p.cases.find? (fun e => e.1 == state) with
  | some e => e.2.eval state
  | none => p.dflt.eval state

def selectProg : SelProg :=
  { cases := [("all", .all), ("eligible", .stateNe "withdrawn"), ("pending", .andPending (.stateEq "elected")),
              ("notpending", .andNotPending (.stateEq "elected"))],
    dflt := .stateEqParam }

theorem eligible_is_program (s : St α) : s.eligible = s.cands.filter (selectProg.test "eligible") := by
  unfold St.eligible
  apply List.filter_congr
  intro c _
  show (c.st != CState.withdrawn) = (stateName c.st != "withdrawn")
  cases c.st <;> rfl

theorem hopeful_is_program (s : St α) : s.hopeful = s.cands.filter (selectProg.test "hopeful") := by
  unfold St.hopeful
  apply List.filter_congr
  intro c _
  show (c.st == CState.hopeful) = (stateName c.st == "hopeful")
  cases c.st <;> rfl

theorem elected_is_program (s : St α) : s.elected = s.cands.filter (selectProg.test "elected") := by
  unfold St.elected
  apply List.filter_congr
  intro c _
  show (c.st == CState.elected) = (stateName c.st == "elected")
  cases c.st <;> rfl

theorem pending_is_program (s : St α) : s.pendingL = s.cands.filter (selectProg.test "pending") := by
  unfold St.pendingL
  apply List.filter_congr
  intro c _
  show (c.st == CState.elected && c.pending) = ((stateName c.st == "elected") && c.pending)
  cases c.st <;> rfl

end Droop.C09
