import Props.C17
/-!
# C17 — the option defaults of the configurable rules (wigm, meek, warren), tied to the source by a translator

The `options()` methods of `droop/rules/wigm.py` and `droop/rules/meek.py` are not straight-line: they branch on what `setopt`
returns and compute defaults from other options (`precision // 2`, `precision * 2 // 3`).  `harness/gen_options.py` translates
those bodies (Python `ast`) into the small program language below and emits a Lean file stating
`Gen.wigmProg = C17.wigmProg` and `Gen.meekProg = C17.meekProg` (checked by the kernel, `rfl`, on every run of C17).

Here: an interpreter for the language whose primitives are the `Options` model's own (`setopt`, `getopt`, Python `==`, `//`),
and the theorems that the hand-written option model `ruleOptions` — the one the `OPTS` correspondence compares with
`Election.__init__` — *is* the interpretation of those programs, for every `Options` value (every command line, every ballot-file
layer): `wigm_options_are_the_program`, `meek_options_are_the_program`.
-/
namespace Droop.C17
open Droop Options

/-- expressions of an `options()` body -/
inductive PEx
  | lit (v : OV)
  | var (x : String)
  | getopt (k : String)
  | setopt (k : String) (dflt : PEx) (allowed : List OV)
  | fdiv (a : PEx) (n : Int)            -- `a // n`
  | mulfdiv (a : PEx) (m n : Int)       -- `a * m // n`
  | eq (a : PEx) (v : OV)               -- `a == literal`

mutual
  /-- statements: assignment (to a local or to `self.<attr>`), expression statement, if / elif / else -/
  inductive PStmt
    | assign (x : String) (e : PEx)
    | expr (e : PEx)
    | ite (c : PEx) (thn : PBlock) (els : PBlock)
  inductive PBlock
    | nil
    | cons (s : PStmt) (b : PBlock)
end

abbrev Env := List (String × OV)

def Env.get (e : Env) (x : String) : OV := ((e.find? (·.1 == x)).map (·.2)).getD .none

def evalEx : PEx → Options × Env → Except OErr ((Options × Env) × OV)
  | .lit v, st => .ok (st, v)
  | .var x, st => .ok (st, st.2.get x)
  | .getopt k, st => .ok (st, st.1.getopt k)
  | .setopt k d al, st =>
    match evalEx d st with
    | .error e => .error e
    | .ok (st1, dv) =>
      match st1.1.setopt k dv (allowed := al) with
      | .error e => .error e
      | .ok (o2, v) => .ok ((o2, st1.2), v)
  | .fdiv a n, st =>
    match evalEx a st with
    | .error e => .error e
    | .ok (st1, v) =>
      match ovInt? v with
      | some p => .ok (st1, .i (Int.fdiv p n))
      | none => .error (.crash "TypeError")
  | .mulfdiv a m n, st =>
    match evalEx a st with
    | .error e => .error e
    | .ok (st1, v) =>
      match ovInt? v with
      | some p => .ok (st1, .i (Int.fdiv (p * m) n))
      | none => .error (.crash "TypeError")
  | .eq a v, st =>
    match evalEx a st with
    | .error e => .error e
    | .ok (st1, x) => .ok (st1, .b (x.pyEq v))

mutual
  def evalStmt : PStmt → Options × Env → Except OErr (Options × Env)
    | .assign x e, st =>
      match evalEx e st with
      | .error err => .error err
      | .ok (st1, v) => .ok (st1.1, (x, v) :: st1.2)
    | .expr e, st =>
      match evalEx e st with
      | .error err => .error err
      | .ok (st1, _) => .ok st1
    | .ite c thn els, st =>
      match evalEx c st with
      | .error err => .error err
      | .ok (st1, v) => if v.pyEq (.b true) then evalBlock thn st1 else evalBlock els st1
  def evalBlock : PBlock → Options × Env → Except OErr (Options × Env)
    | .nil, st => .ok st
    | .cons s b, st =>
      match evalStmt s st with
      | .error err => .error err
      | .ok st1 => evalBlock b st1
end

def runProg (p : PBlock) (o : Options) : Except OErr (Options × Env) := evalBlock p (o, [])

/-! ## the two programs (what the translator must regenerate) -/

/-- `droop/rules/wigm.py`, `Rule.options` -/
def wigmProg : PBlock :=
  .cons (.ite (.eq (.setopt "arithmetic" (.lit (.s "guarded")) []) (.s "guarded"))
          (.cons (.expr (.setopt "precision" (.lit (.i 18)) []))
            (.cons (.expr (.setopt "guard" (.fdiv (.getopt "precision") 2) [])) .nil))
          (.cons (.ite (.eq (.getopt "arithmetic") (.s "fixed"))
                    (.cons (.expr (.setopt "precision" (.lit (.i 9)) [])) .nil)
                    .nil) .nil))
  (.cons (.assign "self.integer_quota" (.setopt "integer_quota" (.lit (.b false)) [.b true, .b false]))
  (.cons (.assign "self.defeat_batch" (.setopt "defeat_batch" (.lit (.s "none")) [.s "none", .s "zero"])) .nil))

/-- `droop/rules/meek.py`, `Rule.options` (meek and warren) -/
def meekProg : PBlock :=
  .cons (.assign "self.name" (.getopt "rule"))
  (.cons (.assign "self.warren" (.eq (.var "self.name") (.s "warren")))
  (.cons (.assign "arithmetic" (.setopt "arithmetic" (.lit (.s "guarded")) []))
  (.cons (.ite (.eq (.var "arithmetic") (.s "guarded"))
          (.cons (.assign "precision" (.setopt "precision" (.lit (.i 18)) []))
            (.cons (.expr (.setopt "guard" (.fdiv (.var "precision") 2) []))
              (.cons (.assign "self.omega10" (.setopt "omega" (.fdiv (.var "precision") 2) [])) .nil)))
          (.cons (.ite (.eq (.var "arithmetic") (.s "fixed"))
                    (.cons (.assign "precision" (.setopt "precision" (.lit (.i 9)) []))
                      (.cons (.assign "self.omega10" (.setopt "omega" (.mulfdiv (.var "precision") 2 3) [])) .nil))
                    (.cons (.ite (.eq (.var "arithmetic") (.s "rational"))
                              (.cons (.assign "self.omega10" (.setopt "omega" (.lit (.i 10)) [])) .nil)
                              .nil) .nil)) .nil))
  (.cons (.assign "self.defeat_batch" (.setopt "defeat_batch" (.lit (.s "safe")) [.s "none", .s "safe"])) .nil))))

/-- what the rule keeps of the run: the options object and the attributes it stored on `self` -/
def wigmResult (r : Options × Env) : Options × RuleParams :=
  (r.1, { integerQuota := r.2.get "self.integer_quota", defeatBatch := r.2.get "self.defeat_batch" })

def meekResult (r : Options × Env) : Options × RuleParams :=
  (r.1, { omega10 := r.2.get "self.omega10", defeatBatch := r.2.get "self.defeat_batch" })

theorem pyEq_btrue (b : Bool) : (OV.b b).pyEq (.b true) = b := by cases b <;> rfl

/-- **the option model of wigm is the interpretation of the translated `options()`**, for every options object -/
theorem wigm_options_are_the_program (o : Options) :
    ruleOptions "wigm" o = (runProg wigmProg o).map wigmResult := by
  unfold ruleOptions runProg wigmProg
  simp only [beq_self_eq_true, if_true, evalBlock, evalStmt, evalEx, pyEq_btrue]
  cases h1 : o.setopt "arithmetic" (.s "guarded") with
  | error e => simp [*, wigmResult, Env.get, Except.map, OV.pyEq, bind, Except.bind, throw, throwThe, MonadExceptOf.throw, pure, Except.pure, Functor.map]
  | ok r1 =>
    obtain ⟨o1, a⟩ := r1
    simp only [bind, Except.bind, pure, Except.pure]
    by_cases hg : a.pyEq (.s "guarded") = true
    · simp only [hg, if_true]
      cases h2 : o1.setopt "precision" (.i 18) with
      | error e => simp [*, wigmResult, Env.get, Except.map, OV.pyEq, bind, Except.bind, throw, throwThe, MonadExceptOf.throw, pure, Except.pure, Functor.map]
      | ok r2 =>
        obtain ⟨o2, pr⟩ := r2
        simp only
        cases hp : ovInt? (o2.getopt "precision") with
        | none => simp [*, wigmResult, Env.get, Except.map, OV.pyEq, bind, Except.bind, throw, throwThe, MonadExceptOf.throw, pure, Except.pure, Functor.map]
        | some p =>
          simp only [Except.map]
          cases h3 : o2.setopt "guard" (.i (Int.fdiv p 2)) with
          | error e => simp [*, wigmResult, Env.get, Except.map, OV.pyEq, bind, Except.bind, throw, throwThe, MonadExceptOf.throw, pure, Except.pure, Functor.map]
          | ok r3 =>
            obtain ⟨o3, gv⟩ := r3
            simp only
            cases h4 : o3.setopt "integer_quota" (.b false) (allowed := [.b true, .b false]) with
            | error e => simp [*, wigmResult, Env.get, Except.map, OV.pyEq, bind, Except.bind, throw, throwThe, MonadExceptOf.throw, pure, Except.pure, Functor.map]
            | ok r4 =>
              obtain ⟨o4, iq⟩ := r4
              simp only
              cases h5 : o4.setopt "defeat_batch" (.s "none") (allowed := [.s "none", .s "zero"]) with
              | error e => simp [*, wigmResult, Env.get, Except.map, OV.pyEq, bind, Except.bind, throw, throwThe, MonadExceptOf.throw, pure, Except.pure, Functor.map]
              | ok r5 => simp [*, wigmResult, Env.get, Except.map, OV.pyEq, bind, Except.bind, throw, throwThe, MonadExceptOf.throw, pure, Except.pure, Functor.map]
    · simp only [hg, Bool.false_eq_true, if_false]
      by_cases hf : (o1.getopt "arithmetic").pyEq (.s "fixed") = true
      · simp only [hf, if_true, Except.map]
        cases h2 : o1.setopt "precision" (.i 9) with
        | error e => simp [*, wigmResult, Env.get, Except.map, OV.pyEq, bind, Except.bind, throw, throwThe, MonadExceptOf.throw, pure, Except.pure, Functor.map]
        | ok r2 =>
          obtain ⟨o2, pr⟩ := r2
          simp only
          cases h4 : o2.setopt "integer_quota" (.b false) (allowed := [.b true, .b false]) with
          | error e => simp [*, wigmResult, Env.get, Except.map, OV.pyEq, bind, Except.bind, throw, throwThe, MonadExceptOf.throw, pure, Except.pure, Functor.map]
          | ok r4 =>
            obtain ⟨o4, iq⟩ := r4
            simp only
            cases h5 : o4.setopt "defeat_batch" (.s "none") (allowed := [.s "none", .s "zero"]) with
            | error e => simp [*, wigmResult, Env.get, Except.map, OV.pyEq, bind, Except.bind, throw, throwThe, MonadExceptOf.throw, pure, Except.pure, Functor.map]
            | ok r5 => simp [*, wigmResult, Env.get, Except.map, OV.pyEq, bind, Except.bind, throw, throwThe, MonadExceptOf.throw, pure, Except.pure, Functor.map]
      · simp only [hf, Bool.false_eq_true, if_false]
        cases h4 : o1.setopt "integer_quota" (.b false) (allowed := [.b true, .b false]) with
        | error e => simp [*, wigmResult, Env.get, Except.map, OV.pyEq, bind, Except.bind, throw, throwThe, MonadExceptOf.throw, pure, Except.pure, Functor.map]
        | ok r4 =>
          obtain ⟨o4, iq⟩ := r4
          simp only
          cases h5 : o4.setopt "defeat_batch" (.s "none") (allowed := [.s "none", .s "zero"]) with
          | error e => simp [*, wigmResult, Env.get, Except.map, OV.pyEq, bind, Except.bind, throw, throwThe, MonadExceptOf.throw, pure, Except.pure, Functor.map]
          | ok r5 => simp [*, wigmResult, Env.get, Except.map, OV.pyEq, bind, Except.bind, throw, throwThe, MonadExceptOf.throw, pure, Except.pure, Functor.map]

/-- **the option model of meek / warren is the interpretation of the translated `options()`**, for every options object -/
theorem meek_options_are_the_program (rule : String) (hr : rule = "meek" ∨ rule = "warren") (o : Options) :
    ruleOptions rule o = (runProg meekProg o).map meekResult := by
  have hrule : ruleOptions rule o = ruleOptions "meek" o := by
    rcases hr with rfl | rfl
    · rfl
    · unfold ruleOptions; simp
  rw [hrule]
  unfold ruleOptions runProg meekProg
  simp only [show ("meek" == "wigm") = false from by decide, Bool.false_eq_true, if_false, beq_self_eq_true, Bool.true_or, if_true,
    evalBlock, evalStmt, evalEx, pyEq_btrue]
  cases h1 : o.setopt "arithmetic" (.s "guarded") with
  | error e => simp [*, meekResult, Env.get, Except.map, bind, Except.bind, throw, throwThe, MonadExceptOf.throw, pure, Except.pure, Functor.map]
  | ok r1 =>
    obtain ⟨o1, a⟩ := r1
    simp only [bind, Except.bind, pure, Except.pure, Env.get, List.find?, beq_self_eq_true, Option.map_some, Option.getD_some]
    by_cases hg : a.pyEq (.s "guarded") = true
    · cases h2 : o1.setopt "precision" (.i 18) with
      | error e => simp [*, meekResult, Env.get, Except.map, bind, Except.bind, throw, throwThe, MonadExceptOf.throw, pure, Except.pure, Functor.map]
      | ok r2 =>
        obtain ⟨o2, pr⟩ := r2
        cases hp : ovInt? pr with
        | none => simp [*, meekResult, Env.get, Except.map, bind, Except.bind, throw, throwThe, MonadExceptOf.throw, pure, Except.pure, Functor.map]
        | some p =>
          cases h3 : o2.setopt "guard" (.i (Int.fdiv p 2)) with
          | error e => simp [*, meekResult, Env.get, Except.map, bind, Except.bind, throw, throwThe, MonadExceptOf.throw, pure, Except.pure, Functor.map]
          | ok r3 =>
            obtain ⟨o3, gv⟩ := r3
            cases h4 : o3.setopt "omega" (.i (Int.fdiv p 2)) with
            | error e => simp [*, meekResult, Env.get, Except.map, bind, Except.bind, throw, throwThe, MonadExceptOf.throw, pure, Except.pure, Functor.map]
            | ok r4 =>
              obtain ⟨o4, om⟩ := r4
              cases h5 : o4.setopt "defeat_batch" (.s "safe") (allowed := [.s "none", .s "safe"]) with
              | error e => simp [*, meekResult, Env.get, Except.map, bind, Except.bind, throw, throwThe, MonadExceptOf.throw, pure, Except.pure, Functor.map]
              | ok r5 => simp [*, meekResult, Env.get, Except.map, bind, Except.bind, throw, throwThe, MonadExceptOf.throw, pure, Except.pure, Functor.map]
    · by_cases hf : a.pyEq (.s "fixed") = true
      · cases h2 : o1.setopt "precision" (.i 9) with
        | error e => simp [*, meekResult, Env.get, Except.map, bind, Except.bind, throw, throwThe, MonadExceptOf.throw, pure, Except.pure, Functor.map]
        | ok r2 =>
          obtain ⟨o2, pr⟩ := r2
          cases hp : ovInt? pr with
          | none => simp [*, meekResult, Env.get, Except.map, bind, Except.bind, throw, throwThe, MonadExceptOf.throw, pure, Except.pure, Functor.map]
          | some p =>
            cases h4 : o2.setopt "omega" (.i (Int.fdiv (p * 2) 3)) with
            | error e => simp [*, meekResult, Env.get, Except.map, bind, Except.bind, throw, throwThe, MonadExceptOf.throw, pure, Except.pure, Functor.map]
            | ok r4 =>
              obtain ⟨o4, om⟩ := r4
              cases h5 : o4.setopt "defeat_batch" (.s "safe") (allowed := [.s "none", .s "safe"]) with
              | error e => simp [*, meekResult, Env.get, Except.map, bind, Except.bind, throw, throwThe, MonadExceptOf.throw, pure, Except.pure, Functor.map]
              | ok r5 => simp [*, meekResult, Env.get, Except.map, bind, Except.bind, throw, throwThe, MonadExceptOf.throw, pure, Except.pure, Functor.map]
      · by_cases hq : a.pyEq (.s "rational") = true
        · cases h4 : o1.setopt "omega" (.i 10) with
          | error e => simp [*, meekResult, Env.get, Except.map, bind, Except.bind, throw, throwThe, MonadExceptOf.throw, pure, Except.pure, Functor.map]
          | ok r4 =>
            obtain ⟨o4, om⟩ := r4
            cases h5 : o4.setopt "defeat_batch" (.s "safe") (allowed := [.s "none", .s "safe"]) with
            | error e => simp [*, meekResult, Env.get, Except.map, bind, Except.bind, throw, throwThe, MonadExceptOf.throw, pure, Except.pure, Functor.map]
            | ok r5 => simp [*, meekResult, Env.get, Except.map, bind, Except.bind, throw, throwThe, MonadExceptOf.throw, pure, Except.pure, Functor.map]
        · cases h5 : o1.setopt "defeat_batch" (.s "safe") (allowed := [.s "none", .s "safe"]) with
          | error e => simp [*, meekResult, Env.get, Except.map, bind, Except.bind, throw, throwThe, MonadExceptOf.throw, pure, Except.pure, Functor.map]
          | ok r5 => simp [*, meekResult, Env.get, Except.map, bind, Except.bind, throw, throwThe, MonadExceptOf.throw, pure, Except.pure, Functor.map]

end Droop.C17
