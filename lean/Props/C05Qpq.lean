import DroopProofs.QpqFirst
import DroopProofs.CaseInit
import Props.C05Run
/-!
# C05 for QPQ, one seat: a candidate ranked first on more than half of the ballots is elected

`qpq_majority`: for every case in the printed domain with rule `qpq`, one seat, and a candidate `w` with more than half of the
ballots as first preferences, in whatever state the count returns `w` is elected.  Guarded arithmetic of any precision and guard
with `4·geps ≤ 10^(p+g)` (the tolerance is small against one unit: true of the 9+9 digits the rule forces, `forced_digits_ok`).
-/
namespace Droop.C05
open Droop

variable (p g : Nat)

theorem isHopeful_iff (s : St Int) (r : Nat) : s.isHopeful r = true ↔ (r, CState.hopeful) ∈ stsig s := by
  unfold St.isHopeful
  rw [mem_stsig_iff, List.any_eq_true]
  constructor
  · rintro ⟨c, hc, hb⟩
    simp only [Bool.and_eq_true, beq_iff_eq] at hb
    exact ⟨c, hc, hb.1, hb.2⟩
  · rintro ⟨c, hc, h1, h2⟩
    exact ⟨c, hc, by simp [h1, h2]⟩

theorem elect_keeps (s : St Int) (i j : Nat) (verb : String) (pd : Bool) (h : (i, CState.elected) ∈ stsig s) :
    (i, CState.elected) ∈ stsig (s.elect (guardedArith p g) j verb pd) := by
  unfold St.elect
  rw [stsig_logAct]
  obtain ⟨c, hc, hci, hcs⟩ := (mem_stsig_iff s i .elected).1 h
  rw [mem_stsig_iff]
  by_cases he : (c.cid == j) = true
  · exact ⟨_, mem_upd.2 ⟨c, hc, rfl⟩, by rw [if_pos he]; exact hci, by rw [if_pos he]⟩
  · exact ⟨_, mem_upd.2 ⟨c, hc, rfl⟩, by rw [if_neg he]; exact hci, by rw [if_neg he]; exact hcs⟩

theorem elect_sets (s : St Int) (i : Nat) (verb : String) (pd : Bool) (h : i ∈ s.cands.map (·.cid)) :
    (i, CState.elected) ∈ stsig (s.elect (guardedArith p g) i verb pd) := by
  unfold St.elect
  rw [stsig_logAct]
  obtain ⟨c, hc, hci⟩ := List.mem_map.1 h
  rw [mem_stsig_iff]
  have he : (c.cid == i) = true := by simp [hci]
  exact ⟨_, mem_upd.2 ⟨c, hc, rfl⟩, by rw [if_pos he]; exact hci, by rw [if_pos he]⟩

theorem elect_ids (s : St Int) (j : Nat) (verb : String) (pd : Bool) :
    (s.elect (guardedArith p g) j verb pd).cands.map (·.cid) = s.cands.map (·.cid) := by
  unfold St.elect; rw [logAct_cands]
  unfold St.upd; rw [List.map_map]
  apply List.map_congr_left
  intro c _
  simp only [Function.comp]
  split <;> rfl

theorem foldElect_keeps (verb : String) (i : Nat) : ∀ (l : List (Cand Int)) (s : St Int), (i, CState.elected) ∈ stsig s →
    (i, CState.elected) ∈ stsig (l.foldl (fun acc c => acc.elect (guardedArith p g) c.cid verb false) s) := by
  intro l
  induction l with
  | nil => intro s h; exact h
  | cons a as ih => intro s h; simp only [List.foldl_cons]; exact ih _ (elect_keeps p g s i a.cid verb false h)

theorem foldElect_sets (verb : String) (i : Nat) : ∀ (l : List (Cand Int)) (s : St Int), i ∈ l.map (·.cid) → i ∈ s.cands.map (·.cid) →
    (i, CState.elected) ∈ stsig (l.foldl (fun acc c => acc.elect (guardedArith p g) c.cid verb false) s) := by
  intro l
  induction l with
  | nil => intro s h; cases h
  | cons a as ih =>
    intro s h hs
    simp only [List.foldl_cons]
    by_cases ha : a.cid = i
    · rw [ha]
      exact foldElect_keeps p g verb i as _ (elect_sets p g s i verb false hs)
    · have : i ∈ as.map (·.cid) := by
        simp only [List.map_cons, List.mem_cons] at h
        rcases h with e | e
        · exact absurd e.symm ha
        · exact e
      exact ih _ this (by rw [elect_ids]; exact hs)

/-! ## the start state of a case -/

theorem qpqStart_ballots (s0 : St Int) :
    (qpqStart (guardedArith p g) s0).s.ballots = s0.ballots.map (fun (b : Ballot Int) => { b with w := (guardedArith p g).zero }) := by
  unfold qpqStart
  simp only
  rw [logAct_ballots]
  rfl

theorem qpqStart_crash (s0 : St Int) : (qpqStart (guardedArith p g) s0).s.crash = s0.crash := by
  unfold qpqStart
  simp only
  rw [crash_logAct]
  rfl

theorem qpqStart_seats (s0 : St Int) : (qpqStart (guardedArith p g) s0).s.seats = s0.seats := by
  unfold qpqStart
  simp only
  rw [logAct_seats]
  rfl

theorem qpqStart_fresh (c : Case) (hok : CaseOK c) : QFresh (qpqStart (guardedArith p g) (initState (guardedArith p g) c)) := by
  have hs := qpqStart_stsig (guardedArith p g) (initState (guardedArith p g) c)
  have hwf0 : (initState (guardedArith p g) c).WF := by unfold St.WF; rw [initState_cids]; exact hok.nodup
  refine ⟨rfl, WF_of_stsig hs hwf0, ?_, ?_⟩
  · intro x hx
    have : (x.cid, x.st) ∈ stsig (qpqStart (guardedArith p g) (initState (guardedArith p g) c)).s :=
      (mem_stsig_iff _ _ _).2 ⟨x, hx, rfl, rfl⟩
    rw [hs] at this
    obtain ⟨y, hy, _, hys⟩ := (mem_stsig_iff _ _ _).1 this
    obtain ⟨k, _, _, hst, _⟩ := mem_initState_cands (guardedArith p g) hy
    rw [← hys, hst]
    split
    · exact Or.inr rfl
    · exact Or.inl rfl
  · intro b hb
    rw [qpqStart_ballots] at hb
    obtain ⟨b0, hb0, rfl⟩ := List.mem_map.1 hb
    obtain ⟨k, hk, _, hr, _, _⟩ := mem_initState_ballots (guardedArith p g) hb0
    obtain ⟨hne, hall⟩ := hok.ballots k hk
    cases hk2 : k.2 with
    | nil => exact absurd hk2 hne
    | cons r rs =>
      refine ⟨r, rs, by simp only; rw [hr, hk2], ?_⟩
      obtain ⟨kc, hkc, hkcid, hkw⟩ := hall r (by rw [hk2]; exact List.mem_cons_self ..)
      obtain ⟨x, hx, hxc, hxs⟩ := initState_cand_of (guardedArith p g) hkc
      rw [isHopeful_iff, hs, mem_stsig_iff]
      refine ⟨x, hx, by rw [hxc, hkcid], ?_⟩
      rw [hxs, hkw]; rfl

theorem start_fpI (c : Case) (w : Nat) :
    fpI (qpqStart (guardedArith p g) (initState (guardedArith p g) c)).s.ballots w = (firstPrefs c w : Int) := by
  rw [qpqStart_ballots]
  unfold fpI firstPrefs initState
  simp only [List.map_map]
  induction c.ballots with
  | nil => simp
  | cons k ks ih =>
    simp only [List.map_cons, List.sum_cons, Function.comp] at ih ⊢
    rw [ih]
    by_cases hk : k.2.head? = some w
    · have hb : (k.2.head? == some w) = true := by simp [hk]
      rw [List.filter_cons_of_pos (p := fun b : ℕ × List ℕ => b.2.head? == some w) (a := k) hb, if_pos hk]
      simp only [List.map_cons, List.sum_cons]
      push_cast; ring
    · have hb : ¬ ((k.2.head? == some w) = true) := by simpa using hk
      rw [List.filter_cons_of_neg (p := fun b : ℕ × List ℕ => b.2.head? == some w) (a := k) hb, if_neg hk, zero_add]

theorem start_nI (c : Case) (hok : CaseOK c) :
    nI (qpqStart (guardedArith p g) (initState (guardedArith p g) c)).s.ballots = (c.nballots : Int) := by
  rw [qpqStart_ballots, hok.nb]
  unfold nI initState
  simp only [List.map_map]
  induction c.ballots with
  | nil => simp
  | cons k ks ih =>
    simp only [List.map_cons, List.sum_cons, Function.comp] at ih ⊢
    rw [ih]; push_cast; ring

/-- a candidate with a first preference is a hopeful candidate of the start state -/
theorem start_hopeful (c : Case) (hok : CaseOK c) (w : Nat) (hpos : 0 < firstPrefs c w) :
    (w, CState.hopeful) ∈ stsig (qpqStart (guardedArith p g) (initState (guardedArith p g) c)).s := by
  rw [qpqStart_stsig]
  have : ∃ k ∈ c.ballots, k.2.head? = some w := by
    unfold firstPrefs at hpos
    by_contra hno
    have : c.ballots.filter (fun b => b.2.head? == some w) = [] := by
      rw [List.filter_eq_nil_iff]
      intro k hk hkw
      exact hno ⟨k, hk, by simpa using hkw⟩
    rw [this] at hpos; simp at hpos
  obtain ⟨k, hk, hkw⟩ := this
  obtain ⟨_, hall⟩ := hok.ballots k hk
  obtain ⟨kc, hkc, hkcid, hkwd⟩ := hall w (List.mem_of_mem_head? hkw)
  obtain ⟨x, hx, hxc, hxs⟩ := initState_cand_of (guardedArith p g) hkc
  rw [mem_stsig_iff]
  exact ⟨x, hx, by rw [hxc, hkcid], by rw [hxs, hkwd]; rfl⟩

/-- **one seat, QPQ: the majority candidate is elected in whatever state the count returns** -/
theorem qpq_majority (hp : 4 * geps g ≤ pow10 (p + g)) (c : Case) (hr : c.rule = "qpq") (hok : caseOK c = true)
    (hseats : c.seats = 1) (w : Nat) (hmaj : c.nballots < 2 * firstPrefs c w)
    (t : St Int) (h : runRuleSt (guardedArith p g) c = some t) :
    ∃ x ∈ t.cands, x.cid = w ∧ x.st = .elected := by
  have hk := caseOK_iff c hok
  set s0 := initState (guardedArith p g) c with hs0
  set q0 := qpqStart (guardedArith p g) s0 with hq0
  have hfresh : QFresh q0 := qpqStart_fresh p g c hk
  have hseats0 : q0.s.seats = 1 := by rw [hq0, qpqStart_seats]; exact hseats
  have hwhop : (w, CState.hopeful) ∈ stsig q0.s := start_hopeful p g c hk w (by omega)
  have hmaj' : nI q0.s.ballots < 2 * fpI q0.s.ballots w := by
    rw [hq0, hs0, start_nI p g c hk, start_fpI]; exact_mod_cast hmaj
  have hcr0 : q0.s.crash = none := by rw [hq0, qpqStart_crash]; rfl
  have hnE0 : nEl q0.s = 0 := by
    unfold nEl St.elected
    rw [List.length_eq_zero_iff, List.filter_eq_nil_iff]
    intro x hx
    rcases hfresh.stat x hx with e | e <;> rw [e] <;> decide
  -- the count
  unfold runRuleSt at h
  simp only [runRuleSt', hr] at h
  rw [qpqCount_eq] at h
  obtain ⟨f, hf⟩ : ∃ f, s0.cands.length * (s0.cands.length + 2) + 3 = f + 2 := ⟨_, rfl⟩
  rw [hf] at h
  cases hl : qpqLoop (guardedArith p g) (f + 2) q0 with
  | none => rw [hl] at h; cases h
  | some r =>
    rw [hl] at h
    have ht : t = qpqFinish (guardedArith p g) r := by simpa using h.symm
    -- whoever is elected in `r` is elected in `t`
    have hkeep : ∀ (hwf : r.s.WF), (w, CState.elected) ∈ stsig r.s → ∃ x ∈ t.cands, x.cid = w ∧ x.st = .elected := by
      intro hwf hel
      obtain ⟨st', hst', hok'⟩ := (qpqFinish_fwd (guardedArith p g) false r hwf).at_left w .elected hel
      have : st' = .elected := by
        rcases hok' with e | e | e
        · exact e
        · cases e.1
        · cases e.1
      rw [this] at hst'
      rw [ht]
      exact (mem_stsig_iff _ _ _).1 hst'
    unfold qpqLoop at hl
    have hc0 : ¬ (q0.s.crash.isSome = true) := by rw [hcr0]; simp
    rw [if_neg hc0] at hl
    by_cases hg : (!qpqCountComplete q0.s) = true
    · rw [if_pos hg] at hl
      obtain ⟨hcont, hel, hn1⟩ := first_round_elects p g q0 hfresh hseats0 hp w hwhop hmaj'
      have hwf' : (qpqBody (guardedArith p g) q0).1.s.WF := (qpqBody_fwd _ q0 hfresh.wf).WF hfresh.wf
      have hseats' := qpqBody_seats (guardedArith p g) q0
      cases hq : qpqBody (guardedArith p g) q0 with
      | mk q' fl =>
        rw [hq] at hl hcont hel hn1 hwf' hseats'
        simp only at hcont
        rw [hcont] at hl
        simp only at hl
        -- the loop stops at once: the seat is filled
        have : qpqLoop (guardedArith p g) (f + 1) q' = some q' := by
          unfold qpqLoop
          split
          · rfl
          · have hcomp : qpqCountComplete q'.s = true := by
              have hs1 : q'.s.seats = 1 := by rw [hseats', hseats0]
              have : q'.s.elected.length = 1 := hn1
              unfold qpqCountComplete St.seatsLeft
              simp [hs1, this]
            simp [hcomp]
        rw [this] at hl
        cases hl
        exact hkeep hwf' hel
    · rw [if_neg hg] at hl
      cases hl
      -- no round is run: the closing stage elects every hopeful candidate
      have hcomp : qpqCountComplete q0.s = true := by simpa using hg
      have hfit : ((q0.s.hopeful.length : Int) ≤ q0.s.seatsLeft) := by
        unfold qpqCountComplete at hcomp
        have hsl : q0.s.seatsLeft = 1 := by
          unfold St.seatsLeft
          have : q0.s.elected.length = 0 := hnE0
          rw [hseats0, this]; rfl
        rw [hsl] at hcomp ⊢
        simpa using hcomp
      rw [ht]
      unfold qpqFinish
      rw [if_neg hc0]
      simp only
      rw [if_pos (by simpa using hfit)]
      have hwid : w ∈ q0.s.hopeful.map (·.cid) := by
        obtain ⟨x, hx, hxc, hxs⟩ := (mem_stsig_iff _ _ _).1 hwhop
        exact List.mem_map.2 ⟨x, mem_hopeful.2 ⟨hx, hxs⟩, hxc⟩
      have hwid' : w ∈ q0.s.cands.map (·.cid) := by
        obtain ⟨x, hx, hxc, _⟩ := (mem_stsig_iff _ _ _).1 hwhop
        exact List.mem_map.2 ⟨x, hx, hxc⟩
      have h4 := foldElect_sets p g "Elect remaining candidates" w q0.s.hopeful q0.s hwid hwid'
      have hfw4 := foldElect_fwd (guardedArith p g) false "Elect remaining candidates" q0.s.hopeful q0.s (allHop_hopeful hfresh.wf)
      have hwf4 := hfw4.WF hfresh.wf
      have hfd := foldDefeat_fwd (guardedArith p g) false "Defeat remaining candidates"
        (St.hopeful (q0.s.hopeful.foldl (fun acc c => acc.elect (guardedArith p g) c.cid "Elect remaining candidates" false) q0.s))
        _ (allHopD_hopeful hwf4)
      obtain ⟨st', hst', hok'⟩ := hfd.at_left w .elected h4
      have : st' = .elected := by
        rcases hok' with e | e | e
        · exact e
        · cases e.1
        · cases e.1
      rw [this] at hst'
      exact (mem_stsig_iff _ _ _).1 hst'

/-- the digits QPQ forces (9 + 9) meet the side condition -/
theorem forced_digits_ok : 4 * geps 9 ≤ pow10 (9 + 9) := by decide

end Droop.C05

namespace Droop.C05
/-- non-vacuity: the sample profile under QPQ has one seat and a first-preference majority for candidate 1 -/
example : caseOK { Driver.sample with rule := "qpq" } = true ∧ ({ Driver.sample with rule := "qpq" } : Case).seats = 1
    ∧ ({ Driver.sample with rule := "qpq" } : Case).nballots < 2 * firstPrefs { Driver.sample with rule := "qpq" } 1 := by decide
end Droop.C05
