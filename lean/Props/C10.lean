import DroopProofs
import Mathlib.Algebra.BigOperators.Group.List.Basic
/-!
# C10 — the count depends on the multiset of ballots, not on the order of the ballot lines

The Gregory machine reads the ballot list in two ways only: the first count and `transferAll` (a fold over the list).
Both credit each candidate with a *sum* of per-ballot contributions and update each ballot pointwise, so permuting
the ballot lines permutes the resulting ballot list and leaves every tally unchanged.
-/
namespace Droop.C10
open Droop
variable {α : Type} [CommRing α] [LinearOrder α] [IsStrictOrderedRing α] (A : Arith α)

/-- the same state with the ballot lines in another order -/
def withBallots (s : St α) (bs : List (Ballot α)) : St α := { s with ballots := bs }

theorem moveBallot_withBallots (s : St α) (bs : List (Ballot α)) (cids : List Nat) (rew : α → α) (b : Ballot α) :
    moveBallot (withBallots s bs) cids rew b = moveBallot s cids rew b := rfl

theorem contrib_withBallots (s : St α) (bs : List (Ballot α)) (cids : List Nat) (rew : α → α) (d : Nat) (b : Ballot α) :
    contrib A (withBallots s bs) cids rew d b = contrib A s cids rew d b := rfl

/-- **every tally after a transfer is independent of the order of the ballot lines** -/
theorem transferAll_votes_perm (hA : LawfulAdd A) (s : St α) (hwf : BallotsWF s) (bs : List (Ballot α))
    (hp : bs.Perm s.ballots) (cids : List Nat) (rew : α → α) (d : Nat) :
    (transferAll A (withBallots s bs) cids rew).voteOf d = (transferAll A s cids rew).voteOf d := by
  have hwf' : BallotsWF (withBallots s bs) := by
    intro b hb cid hc
    exact hwf b (hp.subset hb) cid hc
  rw [transferAll_voteOf A hA _ hwf', transferAll_voteOf A hA s hwf]
  have h1 : (withBallots s bs).voteOf d = s.voteOf d := rfl
  rw [h1]
  congr 1
  have : (withBallots s bs).ballots.map (contrib A (withBallots s bs) cids rew d) = bs.map (contrib A s cids rew d) := rfl
  rw [this]
  exact (hp.map _).sum_eq

/-- ... and the ballots after the transfer are the same multiset of ballots -/
theorem transferAll_ballots_perm (s : St α) (bs : List (Ballot α)) (hp : bs.Perm s.ballots) (cids : List Nat) (rew : α → α) :
    (transferAll A (withBallots s bs) cids rew).ballots.Perm (transferAll A s cids rew).ballots := by
  rw [transferAll_ballots, transferAll_ballots]
  exact hp.map _

/-- candidates' statuses are untouched by a transfer whatever the order -/
theorem transferAll_skel_perm (s : St α) (bs : List (Ballot α)) (cids : List Nat) (rew : α → α) :
    (transferAll A (withBallots s bs) cids rew).skel = (transferAll A s cids rew).skel := by
  rw [transferAll_skel, transferAll_skel]; rfl

/-- splitting a ballot line `(m₁+m₂, r)` into `(m₁, r)` and `(m₂, r)`: the two halves carry the value of the whole,
    for any weight (weight × multiplier is exact) -/
theorem bvote_split (hA : LawfulArith A) (b : Ballot α) (m1 m2 : Nat) (h : b.mult = m1 + m2) :
    bvote A b = bvote A { b with mult := m1 } + bvote A { b with mult := m2 } := by
  unfold bvote
  rw [hA.mulV_ofInt, hA.mulV_ofInt, hA.mulV_ofInt, h]
  push_cast; ring

/-- non-vacuity: the fixed-point arithmetic is lawful, so the theorems apply to the counts the package runs -/
example : LawfulArith (fixedArith 4) := fixed_lawful 4

end Droop.C10
