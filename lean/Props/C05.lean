import DroopModel
import DroopProofs
import Mathlib.Tactic.Linarith
/-!
# C05 — Droop proportionality (partial: the one-seat majority case at the election step)

The general claim — a solid coalition with more than k quotas wins k seats — is *not* proved; it is explored on every
generated election by the compiled predicate `okC05` (every candidate subset). What is proved is the heart of its
special case "with one seat, a candidate ranked first by more than half of the ballots wins", for the Gregory
election step under fixed-point arithmetic:

in any counting state that satisfies the conservation bundle `Inv`, with a quota that satisfies the Droop condition,
if a hopeful candidate `w` holds more than half of the ballots then the election step elects `w`, and elects nobody
else. (At the start of a count `w`'s tally *is* its first-preference count: `Inv.i1` after `wigmInit`.) Since the seat is
then filled and elected candidates are never un-elected (`wigm_loop_record_monotone`) while the count ends with exactly
`seats` elected (`wigm_seats_filled`), `w` is the winner.
-/
namespace Droop.C05
open Droop

/-- folding `elect` over a list: a candidate whose id is not in the list keeps its status -/
theorem foldElect_others (A : Arith Int) (ws : List (Cand Int)) (verb : Cand Int → String) (pend : Cand Int → Bool) (s : St Int)
    (c : Cand Int) (hc : c ∈ s.cands) (hne : ∀ w ∈ ws, c.cid ≠ w.cid) :
    c ∈ (ws.foldl (fun acc x => acc.elect A x.cid (verb x) (pend x)) s).cands := by
  induction ws generalizing s with
  | nil => exact hc
  | cons w ws ih =>
    simp only [List.foldl_cons]
    apply ih
    · unfold St.elect; rw [logAct_cands]; exact mem_upd_of_ne hc (hne w (by simp))
    · intro w' hw'; exact hne w' (by simp [hw'])

/-- ... and a candidate of the list ends up elected -/
theorem foldElect_member (A : Arith Int) (ws : List (Cand Int)) (verb : Cand Int → String) (pend : Cand Int → Bool) (s : St Int)
    (w : Cand Int) (hw : w ∈ ws) (hws : ∃ x ∈ s.cands, x.cid = w.cid) :
    ∃ x ∈ (ws.foldl (fun acc x => acc.elect A x.cid (verb x) (pend x)) s).cands, x.cid = w.cid ∧ x.st = .elected := by
  induction ws generalizing s with
  | nil => cases hw
  | cons v vs ih =>
    simp only [List.foldl_cons]
    obtain ⟨x, hx, hxc⟩ := hws
    by_cases hin : w ∈ vs
    · apply ih _ hin
      unfold St.elect; rw [logAct_cands]
      by_cases he : x.cid = v.cid
      · exact ⟨_, mem_upd_of_eq (f := fun c => { c with st := .elected, pending := pend v }) hx he, hxc⟩
      · exact ⟨x, mem_upd_of_ne hx he, hxc⟩
    · have hwv : w = v := by
        rcases List.mem_cons.1 hw with h | h
        · exact h
        · exact absurd h hin
      subst hwv
      -- elected now, and never touched again unless re-elected (which keeps it elected)
      have hnow : ∃ y ∈ (s.elect A w.cid (verb w) (pend w)).cands, y.cid = w.cid ∧ y.st = .elected := by
        unfold St.elect; rw [logAct_cands]
        exact ⟨_, mem_upd_of_eq (f := fun c => { c with st := .elected, pending := pend w }) hx hxc, hxc, rfl⟩
      have key : ∀ (l : List (Cand Int)) (t : St Int), (∃ y ∈ t.cands, y.cid = w.cid ∧ y.st = .elected) →
          ∃ y ∈ (l.foldl (fun acc x => acc.elect A x.cid (verb x) (pend x)) t).cands, y.cid = w.cid ∧ y.st = .elected := by
        intro l
        induction l with
        | nil => intro t h; exact h
        | cons u us ihu =>
          intro t ⟨y, hy, hyc, hye⟩
          simp only [List.foldl_cons]
          apply ihu
          unfold St.elect; rw [logAct_cands]
          by_cases he : y.cid = u.cid
          · exact ⟨_, mem_upd_of_eq (f := fun c => { c with st := .elected, pending := pend u }) hy he, hyc, rfl⟩
          · exact ⟨y, mem_upd_of_ne hy he, hyc, hye⟩
      exact key vs _ hnow

/-- **one seat, a hopeful with more than half of the ballots: the election step elects that candidate and no other** -/
theorem majority_elected_partial (p : Nat) (s : St Int) (hI : Inv (fixedArith p) s) (hD : DroopQuota (fixedArith p) s)
    (hseats : s.seats = 1) (w : Cand Int) (hw : w ∈ s.hopeful) (hmaj : (s.nballots : Int) * pow10 p < 2 * w.vote)
    (hq : s.quota ≤ w.vote) :
    (∃ x ∈ (scotElect (fixedArith p) s).cands, x.cid = w.cid ∧ x.st = .elected)
    ∧ ∀ c ∈ s.hopeful, c.cid ≠ w.cid → c ∈ (scotElect (fixedArith p) s).cands := by
  have hwc := mem_hopeful.1 hw
  -- w passes the quota test
  have hwq : hasQuotaGE (fixedArith p) s w = true := by
    simp only [hasQuotaGE, Arith.ge, fixedArith, intCmp]
    by_cases h1 : w.vote < s.quota
    · omega
    · by_cases h2 : w.vote = s.quota <;> simp [h1, h2]
  constructor
  · unfold scotElect electWinners
    apply foldElect_member
    · rw [List.mem_filter]
      exact ⟨(mem_pySorted _ _ _ _).2 hw, hwq⟩
    · exact ⟨w, hwc.1, rfl⟩
  · intro c hc hne
    have hcc := mem_hopeful.1 hc
    -- c cannot hold a quota: votes are non-negative and bounded by the ballots, and two quotas exceed the ballots
    have hcons := hI.cons
    have hle : c.vote + w.vote ≤ (s.nballots : Int) * pow10 p := by
      have h2 : c.vote + w.vote ≤ s.sumVotes := by
        unfold St.sumVotes
        have hnd := hI.wf
        have : ∀ (l : List (Cand Int)), (l.map (·.cid)).Nodup → c ∈ l → w ∈ l → (∀ d ∈ l, 0 ≤ d.vote) →
            c.vote + w.vote ≤ (l.map (·.vote)).sum := by
          intro l
          induction l with
          | nil => intro _ h; cases h
          | cons d ds ih =>
            intro hnd hc' hw' hpos
            simp only [List.map_cons, List.sum_cons]
            simp only [List.map_cons, List.nodup_cons, List.mem_map, not_exists, not_and] at hnd
            have hrest : 0 ≤ (ds.map (·.vote)).sum := List.sum_nonneg (by
              intro x hx; obtain ⟨y, hy, rfl⟩ := List.mem_map.1 hx; exact hpos y (by simp [hy]))
            rcases List.mem_cons.1 hc' with rfl | hcd <;> rcases List.mem_cons.1 hw' with rfl | hwd
            · exact absurd rfl hne
            · have : w.vote ≤ (ds.map (·.vote)).sum := List.single_le_sum (by
                intro x hx; obtain ⟨y, hy, rfl⟩ := List.mem_map.1 hx; exact hpos y (by simp [hy])) _ (List.mem_map.2 ⟨w, hwd, rfl⟩)
              omega
            · have : c.vote ≤ (ds.map (·.vote)).sum := List.single_le_sum (by
                intro x hx; obtain ⟨y, hy, rfl⟩ := List.mem_map.1 hx; exact hpos y (by simp [hy])) _ (List.mem_map.2 ⟨c, hcd, rfl⟩)
              omega
            · have := ih hnd.2 hcd hwd (fun x hx => hpos x (by simp [hx]))
              have := hpos d (by simp)
              omega
        exact this s.cands hnd hcc.1 hwc.1 hI.vpos
      have h3 : s.sumVotes ≤ (s.nballots : Int) * pow10 p := by
        have := hI.epos
        unfold St.total at hcons
        have h1 : (fixedArith p).one = pow10 p := rfl
        rw [h1] at hcons
        simp only [Int.cast_id] at hcons
        omega
      omega
    have hnq : hasQuotaGE (fixedArith p) s c = false := by
      simp only [hasQuotaGE, Arith.ge, fixedArith, intCmp]
      have hd : (s.nballots : Int) * pow10 p < 2 * s.quota := by
        unfold DroopQuota at hD
        rw [hseats] at hD
        have h1 : (fixedArith p).one = pow10 p := rfl
        rw [h1] at hD
        simp only [Int.cast_id] at hD
        push_cast at hD
        linarith
      have : c.vote < s.quota := by omega
      simp [this]
    unfold scotElect electWinners
    apply foldElect_others _ _ _ _ _ c hcc.1
    intro x hx e
    rw [List.mem_filter] at hx
    have hxh := mem_hopeful.1 ((mem_pySorted _ _ _ _).1 hx.1)
    have : x = c := nodup_cid_eq hI.wf hxh.1 hcc.1 e.symm
    rw [this, hnq] at hx
    exact absurd hx.2 (by simp)

/-- more than half of the ballots is at least the fixed-point Droop quota for one seat -/
theorem majority_has_quota (p n : Nat) (v : Int) (hmaj : (n : Int) * pow10 p < 2 * v) :
    pdiv ((n : Int) * pow10 p * pow10 p) (((1 + 1 : Nat) : Int) * pow10 p) + 1 ≤ v := by
  have hS := pow10_pos p
  have h2 : (0 : Int) < ((1 + 1 : Nat) : Int) * pow10 p := by positivity
  have hle := pdiv_mul_le ((n : Int) * pow10 p * pow10 p) (((1 + 1 : Nat) : Int) * pow10 p) h2
  -- q * (2S) ≤ n S S  and  n S < 2 v  ⇒ q < v
  by_contra hlt
  have hv : v ≤ pdiv ((n : Int) * pow10 p * pow10 p) (((1 + 1 : Nat) : Int) * pow10 p) := by omega
  have : v * (((1 + 1 : Nat) : Int) * pow10 p) ≤ (n : Int) * pow10 p * pow10 p :=
    le_trans (mul_le_mul_of_nonneg_right hv (le_of_lt h2)) hle
  have h3 : 2 * v * pow10 p ≤ (n : Int) * pow10 p * pow10 p := by push_cast at this; linarith
  have h4 : (n : Int) * pow10 p * pow10 p < 2 * v * pow10 p := mul_lt_mul_of_pos_right hmaj hS
  omega

end Droop.C05
