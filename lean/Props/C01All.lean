import Props.Driver
/-!
# C01 / C02 / C09 — the Gregory family, stated once about the function the driver runs

`Driver.scotland`, `Driver.cfer`, `Driver.wigm`, `Driver.mpls` put together: for each of the seven Gregory rule names, every precision
and every well-formed case, the count **returns** (no fuel exhaustion: termination), its record is forward-only, unless the crash flag
(an exception of the implementation) is up exactly `seats` candidates are elected and nobody is left hopeful, the conservation
invariant holds in the final state, the lower bound on the total holds when there are more ballots than seats, and the driver's output
is the record or the flagged crash — never the fuel marker.
-/
namespace Droop.Driver
open Droop

theorem every_gregory_rule (p : Nat) (c : Case) (hok : caseOK c = true)
    (hr : c.rule ∈ ["wigm", "wigm-prf", "wigm-prf-batch", "scotland", "cfer", "cfer-batch", "mpls"])
    (hw : c.rule ∈ ["wigm", "wigm-prf", "wigm-prf-batch"] → c.seats < c.nballots)
    (hm : c.rule = "mpls" → ∀ k ∈ c.cands, k.2.2.2 = false) :
    ∃ t, gregoryRun p c t
      ∧ Inv (fixedArith p) (t.logAct (fixedArith p) "end" "Count Complete" [])
      ∧ (c.seats < c.nballots → LInv (fixedArith p) 2 (t.logAct (fixedArith p) "end" "Count Complete" []))
      ∧ ((∃ acts, finish (fixedArith p) (runRuleSt (fixedArith p) c) = .ok acts)
          ∨ (∃ k, t.crash = some k ∧ finish (fixedArith p) (runRuleSt (fixedArith p) c) = .crash k)) := by
  simp only [List.mem_cons, List.not_mem_nil, or_false] at hr hw
  rcases hr with hr | hr | hr | hr | hr | hr | hr
  · obtain ⟨t, ht, hi, hl⟩ := wigm p c (Or.inl hr) hok (hw (Or.inl hr)); exact ⟨t, ht, hi, fun _ => hl, output_of_run p c t ht⟩
  · obtain ⟨t, ht, hi, hl⟩ := wigm p c (Or.inr (Or.inl hr)) hok (hw (Or.inr (Or.inl hr))); exact ⟨t, ht, hi, fun _ => hl, output_of_run p c t ht⟩
  · obtain ⟨t, ht, hi, hl⟩ := wigm p c (Or.inr (Or.inr hr)) hok (hw (Or.inr (Or.inr hr))); exact ⟨t, ht, hi, fun _ => hl, output_of_run p c t ht⟩
  · obtain ⟨t, ht, hi, hl⟩ := scotland p c hr hok; exact ⟨t, ht, hi, fun _ => hl, output_of_run p c t ht⟩
  · obtain ⟨t, ht, hi, hl⟩ := cfer p c (Or.inl hr) hok; exact ⟨t, ht, hi, hl, output_of_run p c t ht⟩
  · obtain ⟨t, ht, hi, hl⟩ := cfer p c (Or.inr hr) hok; exact ⟨t, ht, hi, hl, output_of_run p c t ht⟩
  · obtain ⟨t, ht, hi, hl⟩ := mpls p c hr hok (hm hr); exact ⟨t, ht, hi, fun _ => hl, output_of_run p c t ht⟩

end Droop.Driver
