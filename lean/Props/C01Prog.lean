import DroopProofs
import DroopProofs.QpqTerm
/-!
# C01 / C09: the test that keeps the main loop of each rule running, translated from the source

`harness/gen_guard.py` translates, for every rule module that has one, the `while` test of the main loop of `count()`
(`len(C.hopeful()) > E.seatsLeftToFill() > 0`) or the body of `countComplete()` into the small language below; the kernel checks on
every run that the translation is the program committed here.  This file proves the committed programs equal to the guards of the
model: `stdGuard` (wigm, wigm-prf, meek-prf), `meekCountComplete` (meek, warren), `scotCountComplete`, `qpqCountComplete`.
-/
namespace Droop.C01
open Droop

inductive NEx
  | hopeful          -- len(C.hopeful())
  | seatsLeft        -- E.seatsLeftToFill()
  | nSeats           -- self.nSeats
  | elected          -- len(self.C.elected()) / len(self.elected)
  | eligible         -- len(self.C.eligible())
  | lit (n : Int)
  | sub (a b : NEx)
deriving DecidableEq, Repr

inductive GEx
  | gt (a b : NEx) | le (a b : NEx) | lt (a b : NEx) | eq (a b : NEx)
  | and (a b : GEx) | or (a b : GEx)
deriving DecidableEq, Repr

/-- `if c: return True` ... `return False`, or a bare expression -/
inductive GProg
  | expr (e : GEx)
  | ifTrue (c : GEx) (rest : GProg)
  | retFalse
deriving DecidableEq, Repr

variable {α : Type}

def NEx.eval (s : St α) : NEx → Int
  | .hopeful => (s.hopeful.length : Int)
  | .seatsLeft => s.seatsLeft
  | .nSeats => (s.seats : Int)
  | .elected => (s.elected.length : Int)
  | .eligible => (s.eligible.length : Int)
  | .lit n => n
  | .sub a b => a.eval s - b.eval s

def GEx.eval (s : St α) : GEx → Bool
  | .gt a b => decide (a.eval s > b.eval s)
  | .le a b => decide (a.eval s ≤ b.eval s)
  | .lt a b => decide (a.eval s < b.eval s)
  | .eq a b => decide (a.eval s = b.eval s)
  | .and a b => a.eval s && b.eval s
  | .or a b => a.eval s || b.eval s

def GProg.eval (s : St α) : GProg → Bool
  | .expr e => e.eval s
  | .ifTrue c rest => if c.eval s then true else rest.eval s
  | .retFalse => false

/-- `len(C.hopeful()) > E.seatsLeftToFill() > 0` (Python chains the two comparisons with `and`) -/
def whileGuardProg : GProg := .expr (.and (.gt .hopeful .seatsLeft) (.gt .seatsLeft (.lit 0)))
/-- meek.py `countComplete()` -/
def meekCompleteProg : GProg := .expr (.or (.le .hopeful .seatsLeft) (.le .seatsLeft (.lit 0)))
/-- scotland.py / qpq.py `countComplete()` -/
def ifCompleteProg : GProg := .ifTrue (.le .seatsLeft (.lit 0)) (.ifTrue (.le .hopeful .seatsLeft) .retFalse)

theorem stdGuard_is_program (s : St α) : stdGuard s = whileGuardProg.eval s := rfl

theorem meekCountComplete_is_program (s : St α) : meekCountComplete s = meekCompleteProg.eval s := rfl

theorem scotCountComplete_is_program (s : St α) : scotCountComplete s = ifCompleteProg.eval s := by
  unfold scotCountComplete ifCompleteProg GProg.eval GEx.eval NEx.eval
  by_cases h1 : s.seatsLeft ≤ 0 <;> by_cases h2 : (s.hopeful.length : Int) ≤ s.seatsLeft <;> simp [h1, h2, GProg.eval, GEx.eval, NEx.eval]

theorem qpqCountComplete_is_program (s : St α) : qpqCountComplete s = ifCompleteProg.eval s := by
  unfold qpqCountComplete ifCompleteProg GProg.eval GEx.eval NEx.eval
  by_cases h1 : s.seatsLeft ≤ 0 <;> by_cases h2 : (s.hopeful.length : Int) ≤ s.seatsLeft <;> simp [h1, h2, GProg.eval, GEx.eval, NEx.eval]

/-- `maxDefeat = len(C.hopeful()) - E.seatsLeftToFill()`: the cap on a batch of sure losers (wigm_prf.py, meek.py, mpls.py) -/
def maxDefeatProg : NEx := .sub .hopeful .seatsLeft

/-- the sure-loser batch of wigm-prf-batch and of meek / warren (`defeat_batch=safe`) is capped by the translated expression -/
theorem batchDefeatGroups_uses_program [CommRing α] [LinearOrder α] [IsStrictOrderedRing α] (A : Arith α) (s : St α) (surplus : α) :
    batchDefeatGroups A s surplus =
      match scanGroups A surplus (maxDefeatProg.eval s) (sortedGroups A surplus (byVote A false s.hopeful)) 0 0 A.zero none with
      | some g => ((sortedGroups A surplus (byVote A false s.hopeful)).take (g+1)).flatten
      | none => [] := rfl

/-- election.py `seatsLeftToFill()`: `self.nSeats - len(self.C.elected())` -/
def seatsLeftProg : NEx := .sub .nSeats .elected

theorem seatsLeft_is_program (s : St α) : s.seatsLeft = seatsLeftProg.eval s := rfl

/-- election.py `postCheck()`: `nElected == self.nSeats or nElected < self.nSeats and nElected == nEligible` -/
def postCheckProg : GEx := .or (.eq .elected .nSeats) (.and (.lt .elected .nSeats) (.eq .elected .eligible))

/-- the test the driver applies to the state a count returns (`finish`: anything else is the implementation's `AssertionError`) is the
    translated assertion -/
theorem postCheck_is_program (s : St α) :
    (s.elected.length == s.seats || (decide (s.elected.length < s.seats) && s.elected.length == s.eligible.length))
      = postCheckProg.eval s := by
  simp only [postCheckProg, GEx.eval, NEx.eval, Nat.cast_inj, Nat.cast_lt]
  have e : ∀ x y : Nat, (x == y) = decide (x = y) := fun x y => by
    by_cases h : x = y <;> simp [h]
  rw [e, e]

end Droop.C01
