import DroopProofs
import DroopProofs.QpqTerm
/-!
# C01 / C09: the test that keeps the main loop of each rule running, translated from the source

`harness/gen_guard.py` translates, for every rule module that has one, the `while` test of the main loop of `count()`
(`len(C.hopeful()) > E.seatsLeftToFill() > 0`) or the body of `countComplete()` into the small language below; the kernel checks on
every run that the translation is the program committed here.  This file proves the committed programs equal to the guards of the
model: `stdGuard` (wigm, wigm-prf, meek-prf), `meekCountComplete` (meek, warren), `scotCountComplete`, `qpqCountComplete`.
-/
namespace Droop.C01
open Droop

inductive NEx
  | hopeful          -- len(C.hopeful())
  | seatsLeft        -- E.seatsLeftToFill()
  | lit (n : Int)
deriving DecidableEq, Repr

inductive GEx
  | gt (a b : NEx) | le (a b : NEx)
  | and (a b : GEx) | or (a b : GEx)
deriving DecidableEq, Repr

/-- `if c: return True` ... `return False`, or a bare expression -/
inductive GProg
  | expr (e : GEx)
  | ifTrue (c : GEx) (rest : GProg)
  | retFalse
deriving DecidableEq, Repr

variable {α : Type}

def NEx.eval (s : St α) : NEx → Int
  | .hopeful => (s.hopeful.length : Int)
  | .seatsLeft => s.seatsLeft
  | .lit n => n

def GEx.eval (s : St α) : GEx → Bool
  | .gt a b => decide (a.eval s > b.eval s)
  | .le a b => decide (a.eval s ≤ b.eval s)
  | .and a b => a.eval s && b.eval s
  | .or a b => a.eval s || b.eval s

def GProg.eval (s : St α) : GProg → Bool
  | .expr e => e.eval s
  | .ifTrue c rest => if c.eval s then true else rest.eval s
  | .retFalse => false

/-- `len(C.hopeful()) > E.seatsLeftToFill() > 0` (Python chains the two comparisons with `and`) -/
def whileGuardProg : GProg := .expr (.and (.gt .hopeful .seatsLeft) (.gt .seatsLeft (.lit 0)))
/-- meek.py `countComplete()` -/
def meekCompleteProg : GProg := .expr (.or (.le .hopeful .seatsLeft) (.le .seatsLeft (.lit 0)))
/-- scotland.py / qpq.py `countComplete()` -/
def ifCompleteProg : GProg := .ifTrue (.le .seatsLeft (.lit 0)) (.ifTrue (.le .hopeful .seatsLeft) .retFalse)

theorem stdGuard_is_program (s : St α) : stdGuard s = whileGuardProg.eval s := rfl

theorem meekCountComplete_is_program (s : St α) : meekCountComplete s = meekCompleteProg.eval s := rfl

theorem scotCountComplete_is_program (s : St α) : scotCountComplete s = ifCompleteProg.eval s := by
  unfold scotCountComplete ifCompleteProg GProg.eval GEx.eval NEx.eval
  by_cases h1 : s.seatsLeft ≤ 0 <;> by_cases h2 : (s.hopeful.length : Int) ≤ s.seatsLeft <;> simp [h1, h2, GProg.eval, GEx.eval, NEx.eval]

theorem qpqCountComplete_is_program (s : St α) : qpqCountComplete s = ifCompleteProg.eval s := by
  unfold qpqCountComplete ifCompleteProg GProg.eval GEx.eval NEx.eval
  by_cases h1 : s.seatsLeft ≤ 0 <;> by_cases h2 : (s.hopeful.length : Int) ≤ s.seatsLeft <;> simp [h1, h2, GProg.eval, GEx.eval, NEx.eval]

end Droop.C01
