import DroopProofs
/-!
# C12: the arithmetic of `Fixed` (values/fixed.py), obtained from the source by symbolic execution

`harness/gen_fixed.py` executes the bodies of `Fixed.__add__`, `__sub__`, `__mul__`, `__floordiv__` (their value branches), `mul`, `div`
and `muldiv` symbolically — `v = Fixed(x)`, `v._value op= e`, `v._value, rem = divmod(x, y)`, `if rem and round == 'up': v._value += 1`,
`return v` — and emits, for each, the integer expression the returned `_value` is of the operands' `_value`s and the scale; the kernel
checks them equal to the expressions committed here on every C12 run.  This file proves the model's fixed-point dictionary computes those
expressions (division by a non-zero divisor: Python raises `ZeroDivisionError` on zero, the model returns 0 and the callers raise the flag).
-/
namespace Droop.C12
open Droop

/-- integer expressions over the `_value`s `a`, `b`, `c` of the operands and the scale `S` -/
inductive FEx
  | a | b | c | S
  | add (x y : FEx) | sub (x y : FEx) | mul (x y : FEx) | floordiv (x y : FEx) | mod (x y : FEx)
  | upAdj (q rem : FEx)          -- `q`, plus 1 `if rem and round == 'up'`
  | ifGuard (x y : FEx)          -- `x if cls.guard else y` (as statement branches)
deriving DecidableEq, Repr

def FEx.eval (va vb vc vS : Int) (up : Bool) (guard : Bool := false) : FEx → Int
  | .a => va | .b => vb | .c => vc | .S => vS
  | .add x y => x.eval va vb vc vS up guard + y.eval va vb vc vS up guard
  | .sub x y => x.eval va vb vc vS up guard - y.eval va vb vc vS up guard
  | .mul x y => x.eval va vb vc vS up guard * y.eval va vb vc vS up guard
  | .floordiv x y => pdiv (x.eval va vb vc vS up guard) (y.eval va vb vc vS up guard)
  | .mod x y => pmod (x.eval va vb vc vS up guard) (y.eval va vb vc vS up guard)
  | .upAdj q r => q.eval va vb vc vS up guard + (if up && r.eval va vb vc vS up guard != 0 then 1 else 0)
  | .ifGuard x y => if guard then x.eval va vb vc vS up guard else y.eval va vb vc vS up guard

def addProg : FEx := .add .b .a                               -- `v = Fixed(other); v._value += self._value`
def subProg : FEx := .sub .a .b
def mulOpProg : FEx := .floordiv (.mul .a .b) .S              -- `self * other`
def divOpProg : FEx := .floordiv (.mul .a .S) .b              -- `self / other`, `self // other`
def mulProg : FEx := .upAdj (.floordiv (.mul .a .b) .S) (.mod (.mul .a .b) .S)
def divProg : FEx := .upAdj (.floordiv (.mul .a .S) .b) (.mod (.mul .a .S) .b)
def muldivProg : FEx := .upAdj (.floordiv (.mul .a .b) .c) (.mod (.mul .a .b) .c)

def isUp : Round → Bool
  | .up => true
  | _ => false

theorem fixed_add_is_program (p : Nat) (x y : Int) : (fixedArith p).add x y = addProg.eval x y 0 (pow10 p) false := by
  show x + y = y + x
  exact Int.add_comm x y

theorem fixed_sub_is_program (p : Nat) (x y : Int) : (fixedArith p).sub x y = subProg.eval x y 0 (pow10 p) false := rfl

theorem fixed_mulV_is_program (p : Nat) (x y : Int) : (fixedArith p).mulV x y = mulOpProg.eval x y 0 (pow10 p) false := rfl

theorem fixed_divV_is_program (p : Nat) (x y : Int) (hy : y ≠ 0) :
    (fixedArith p).divV x y = divOpProg.eval x y 0 (pow10 p) false := by
  show (if (y == 0) = true then 0 else pdiv (x * pow10 p) y) = pdiv (x * pow10 p) y
  have : ¬ ((y == 0) = true) := by simpa using hy
  rw [if_neg this]

theorem divmodRound_eq (r : Round) (n d : Int) (hd : d ≠ 0) :
    divmodRound r n d = pdiv n d + (if isUp r && pmod n d != 0 then 1 else 0) := by
  unfold divmodRound
  have : ¬ ((d == 0) = true) := by simpa using hd
  rw [if_neg this]
  cases r <;> simp [isUp] <;> split <;> simp_all

theorem fixed_mul_is_program (p : Nat) (r : Round) (x y : Int) :
    (fixedArith p).mul r x y = mulProg.eval x y 0 (pow10 p) (isUp r) := by
  have hS : pow10 p ≠ 0 := ne_of_gt (pow10_pos p)
  show divmodRound r (x * y) (pow10 p) = _
  rw [divmodRound_eq r _ _ hS]
  rfl

theorem fixed_div_is_program (p : Nat) (r : Round) (x y : Int) (hy : y ≠ 0) :
    (fixedArith p).div r x y = divProg.eval x y 0 (pow10 p) (isUp r) := by
  show divmodRound r (x * pow10 p) y = _
  rw [divmodRound_eq r _ _ hy]
  rfl

theorem fixed_muldiv_is_program (p : Nat) (r : Round) (x y z : Int) (hz : z ≠ 0) :
    (fixedArith p).muldiv r x y z = muldivProg.eval x y z (pow10 p) (isUp r) := by
  show divmodRound r (x * y) z = _
  rw [divmodRound_eq r _ _ hz]
  rfl

/-! ## Guarded (values/guarded.py): the same formulas at scale 10^(p+g); `round` is consulted only when there are no guard digits -/

def gAddProg : FEx := .add .a .b                              -- `Guarded(self._value + v._value, True)`
def gSubProg : FEx := .sub .a .b
def gMulOpProg : FEx := .floordiv (.mul .a .b) .S
def gDivOpProg : FEx := .floordiv (.mul .a .S) .b
def gMulProg : FEx := .ifGuard (.floordiv (.mul .a .b) .S) (.upAdj (.floordiv (.mul .a .b) .S) (.mod (.mul .a .b) .S))
def gDivProg : FEx := .ifGuard (.floordiv (.mul .a .S) .b) (.upAdj (.floordiv (.mul .a .S) .b) (.mod (.mul .a .S) .b))
def gMuldivProg : FEx := .ifGuard (.floordiv (.mul .a .b) .c) (.upAdj (.floordiv (.mul .a .b) .c) (.mod (.mul .a .b) .c))

theorem guarded_add_is_program (p g : Nat) (x y : Int) :
    (guardedArith p g).add x y = gAddProg.eval x y 0 (pow10 (p + g)) false (g != 0) := rfl

theorem guarded_sub_is_program (p g : Nat) (x y : Int) :
    (guardedArith p g).sub x y = gSubProg.eval x y 0 (pow10 (p + g)) false (g != 0) := rfl

theorem guarded_mulV_is_program (p g : Nat) (x y : Int) :
    (guardedArith p g).mulV x y = gMulOpProg.eval x y 0 (pow10 (p + g)) false (g != 0) := rfl

theorem guarded_divV_is_program (p g : Nat) (x y : Int) (hy : y ≠ 0) :
    (guardedArith p g).divV x y = gDivOpProg.eval x y 0 (pow10 (p + g)) false (g != 0) := by
  show (if (y == 0) = true then 0 else pdiv (x * pow10 (p + g)) y) = pdiv (x * pow10 (p + g)) y
  have : ¬ ((y == 0) = true) := by simpa using hy
  rw [if_neg this]

theorem guarded_round (g : Nat) (r : Round) (n d : Int) (hd : d ≠ 0) :
    divmodRound (if g == 0 then r else Round.down) n d
      = if (g != 0) = true then pdiv n d else pdiv n d + (if isUp r && pmod n d != 0 then 1 else 0) := by
  by_cases hg : g = 0
  · subst hg
    simp only [beq_self_eq_true, if_true, bne_self_eq_false, Bool.false_eq_true, if_false]
    exact divmodRound_eq r n d hd
  · have h1 : (g == 0) = false := by simpa using hg
    have h2 : (g != 0) = true := by simpa using hg
    rw [h1, h2]
    simp only [Bool.false_eq_true, if_false, if_true]
    rw [divmodRound_eq _ n d hd]
    simp [isUp]

theorem guarded_mul_is_program (p g : Nat) (r : Round) (x y : Int) :
    (guardedArith p g).mul r x y = gMulProg.eval x y 0 (pow10 (p + g)) (isUp r) (g != 0) := by
  have hS : pow10 (p + g) ≠ 0 := ne_of_gt (pow10_pos (p + g))
  show divmodRound (if g == 0 then r else Round.down) (x * y) (pow10 (p + g)) = _
  rw [guarded_round g r _ _ hS]
  rfl

theorem guarded_div_is_program (p g : Nat) (r : Round) (x y : Int) (hy : y ≠ 0) :
    (guardedArith p g).div r x y = gDivProg.eval x y 0 (pow10 (p + g)) (isUp r) (g != 0) := by
  show divmodRound (if g == 0 then r else Round.down) (x * pow10 (p + g)) y = _
  rw [guarded_round g r _ _ hy]
  rfl

theorem guarded_muldiv_is_program (p g : Nat) (r : Round) (x y z : Int) (hz : z ≠ 0) :
    (guardedArith p g).muldiv r x y z = gMuldivProg.eval x y z (pow10 (p + g)) (isUp r) (g != 0) := by
  show divmodRound (if g == 0 then r else Round.down) (x * y) z = _
  rw [guarded_round g r _ _ hz]
  rfl

/-! ## Rational (values/rational.py): `mul`, `div`, `muldiv` are the exact operations, `round` is ignored -/

inductive REx
  | a | b | c
  | mul (x y : REx)          -- `Rational.__mul__(x, y)`
  | div (x y : REx)          -- `Rational.__truediv__(x, y)`
deriving DecidableEq, Repr

def REx.eval (va vb vc : ℚ) : REx → ℚ
  | .a => va | .b => vb | .c => vc
  | .mul x y => x.eval va vb vc * y.eval va vb vc
  | .div x y => x.eval va vb vc / y.eval va vb vc

def rMulProg : REx := .mul .a .b
def rDivProg : REx := .div .a .b
def rMuldivProg : REx := .div (.mul .a .b) .c

theorem rational_mul_is_program (r : Round) (x y : ℚ) : rationalArith.mul r x y = rMulProg.eval x y 0 := rfl

theorem rational_div_is_program (r : Round) (x y : ℚ) (hy : y ≠ 0) : rationalArith.div r x y = rDivProg.eval x y 0 := by
  show (if (y == 0) = true then 0 else x / y) = x / y
  have : ¬ ((y == 0) = true) := by simpa using hy
  rw [if_neg this]

theorem rational_muldiv_is_program (r : Round) (x y z : ℚ) (hz : z ≠ 0) : rationalArith.muldiv r x y z = rMuldivProg.eval x y z := by
  show (if (z == 0) = true then 0 else x * y / z) = x * y / z
  have : ¬ ((z == 0) = true) := by simpa using hz
  rw [if_neg this]

end Droop.C12
