import DroopModel
import DroopProofs
/-!
# C17 — statutory rules cannot be reconfigured: the table of forced options, tied to the source by a translator

`harness/gen_options.py` regenerates from `droop/rules/*.py` (Python `ast`) the list of `setopt(name, default=…, force=…)`
calls each statutory rule's `options()` performs, and emits a Lean file stating `Gen.statutory = C17.modelTable`, which the
kernel checks by `decide` on every run of the C17 check.  This file proves, about `modelTable`:

* `model_table_agrees`: for every entry and every `Options` value (any command-line layer, any ballot-file layer, any defaults
  already present) the hand-written option model `ruleOptions` — the one the `OPTS` correspondence compares with
  `Election.__init__` — returns exactly the replay of the entry's `setopt` calls;
* `model_table_immune`: for every entry there is one arithmetic configuration such that, whatever the layers hold, the
  replay followed by `values.ArithmeticClass` yields that configuration (fixed-point p/p, or guarded 9/9/9 for QPQ).

So a change to what a statutory rule forces (a dropped `force=True`, another precision, an added branch) either changes the
regenerated table — `decide` fails — or takes `options()` outside the translated fragment — the translator refuses; both are
broken obligations, and the check then looks for a failing input with the immunity re-runs on the real code.
-/
namespace Droop.C17
open Droop Options

def modelTable : List (String × List (String × OV × Bool)) := [
  ("cfer", [("arithmetic", .s "fixed", true), ("precision", .i 5, true), ("display", .i 5, true)]),
  ("cfer-batch", [("arithmetic", .s "fixed", true), ("precision", .i 5, true), ("display", .i 5, true)]),
  ("meek-prf", [("arithmetic", .s "fixed", true), ("precision", .i 9, true), ("display", .i 9, true), ("omega", .i 6, true)]),
  ("mpls", [("arithmetic", .s "fixed", true), ("precision", .i 4, true), ("display", .i 4, true)]),
  ("qpq", [("arithmetic", .s "guarded", true), ("precision", .i 9, true), ("guard", .i 9, true), ("display", .i 9, true)]),
  ("scotland", [("arithmetic", .s "fixed", true), ("precision", .i 5, true), ("display", .i 5, true)]),
  ("wigm-prf", [("arithmetic", .s "fixed", true), ("precision", .i 4, true), ("display", .i 4, true)]),
  ("wigm-prf-batch", [("arithmetic", .s "fixed", true), ("precision", .i 4, true), ("display", .i 4, true)])]

/-- the meaning of a straight-line `options()` body: the `setopt` calls in program order -/
def replay (o : Options) (l : List (String × OV × Bool)) : Except OErr Options :=
  l.foldlM (fun o e => (o.setopt e.1 e.2.1 (force := e.2.2)).map (·.1)) o

def TableAgrees (t : List (String × List (String × OV × Bool))) : Prop :=
  ∀ e ∈ t, ∀ o : Options, (ruleOptions e.1 o).map (·.1) = replay o e.2

def TableImmune (t : List (String × List (String × OV × Bool))) : Prop :=
  ∀ e ∈ t, ∃ cfg : ArithCfg, ∀ o : Options, ∃ o', (replay o e.2 >>= arithmeticClass) = .ok (o', cfg)

/-- the state a forcing `setopt` leaves -/
def forceSet (o : Options) (k : String) (v : OV) : Options :=
  { o with dflt := setDefault o.dflt k v.normalize, force := dictSet o.force k v.normalize }

theorem setopt_force_eq (o : Options) (k : String) (v : OV) :
    o.setopt k v (force := true) = .ok (forceSet o k v, (forceSet o k v).getopt k) := by
  unfold Options.setopt forceSet
  simp

theorem replay_forced3 (o : Options) (a b c : String × OV) :
    replay o [(a.1, a.2, true), (b.1, b.2, true), (c.1, c.2, true)]
      = .ok (forceSet (forceSet (forceSet o a.1 a.2) b.1 b.2) c.1 c.2) := by
  simp [replay, List.foldlM, setopt_force_eq, bind, Except.bind, Except.map, pure, Except.pure]

theorem replay_forced4 (o : Options) (a b c d : String × OV) :
    replay o [(a.1, a.2, true), (b.1, b.2, true), (c.1, c.2, true), (d.1, d.2, true)]
      = .ok (forceSet (forceSet (forceSet (forceSet o a.1 a.2) b.1 b.2) c.1 c.2) d.1 d.2) := by
  simp [replay, List.foldlM, setopt_force_eq, bind, Except.bind, Except.map, pure, Except.pure]

theorem forceFixed_eq (o : Options) (p : Nat) :
    forceFixed o p = .ok (forceSet (forceSet (forceSet o "arithmetic" (.s "fixed")) "precision" (.i p)) "display" (.i p)) := by
  simp [forceFixed, setopt_force_eq, bind, Except.bind, pure, Except.pure]

theorem agrees_fixed (rule : String) (p : Nat) (o : Options)
    (h : ∀ o, (ruleOptions rule o).map (·.1) = forceFixed o p) :
    (ruleOptions rule o).map (·.1)
      = replay o [("arithmetic", .s "fixed", true), ("precision", .i p, true), ("display", .i p, true)] := by
  rw [h, forceFixed_eq]
  exact (replay_forced3 o ("arithmetic", .s "fixed") ("precision", .i p) ("display", .i p)).symm

theorem model_table_agrees : TableAgrees modelTable := by
  intro e he o
  simp only [modelTable, List.mem_cons, List.not_mem_nil, or_false] at he
  rcases he with rfl | rfl | rfl | rfl | rfl | rfl | rfl | rfl
  · exact agrees_fixed "cfer" 5 o (fun o => by simp [ruleOptions, forceFixed_eq, bind, Except.bind, Except.map, pure, Except.pure])
  · exact agrees_fixed "cfer-batch" 5 o (fun o => by simp [ruleOptions, forceFixed_eq, bind, Except.bind, Except.map, pure, Except.pure])
  · show (ruleOptions "meek-prf" o).map (·.1) = _
    rw [replay_forced4 o ("arithmetic", .s "fixed") ("precision", .i 9) ("display", .i 9) ("omega", .i 6)]
    simp [ruleOptions, forceFixed_eq, setopt_force_eq, bind, Except.bind, Except.map, pure, Except.pure]
  · exact agrees_fixed "mpls" 4 o (fun o => by simp [ruleOptions, forceFixed_eq, bind, Except.bind, Except.map, pure, Except.pure])
  · show (ruleOptions "qpq" o).map (·.1) = _
    rw [replay_forced4 o ("arithmetic", .s "guarded") ("precision", .i 9) ("guard", .i 9) ("display", .i 9)]
    simp [ruleOptions, setopt_force_eq, bind, Except.bind, Except.map, pure, Except.pure]
  · exact agrees_fixed "scotland" 5 o (fun o => by simp [ruleOptions, forceFixed_eq, bind, Except.bind, Except.map, pure, Except.pure])
  · exact agrees_fixed "wigm-prf" 4 o (fun o => by simp [ruleOptions, forceFixed_eq, bind, Except.bind, Except.map, pure, Except.pure])
  · exact agrees_fixed "wigm-prf-batch" 4 o (fun o => by simp [ruleOptions, forceFixed_eq, bind, Except.bind, Except.map, pure, Except.pure])

/-! ## immunity -/

theorem forced_forceSet_same (o : Options) (k : String) (v : OV) : forced (forceSet o k v) k v.normalize :=
  find_dictSet_same _ k _

theorem forced_forceSet_other (o : Options) (k : String) (v : OV) {k' : String} {w : OV} (hne : k' ≠ k)
    (h : forced o k' w) : forced (forceSet o k v) k' w := by
  unfold forced forceSet at *
  simp only
  rw [find_dictSet_other _ k k' _ hne]; exact h

theorem normalize_i (n : Int) : (OV.i n).normalize = .i n := rfl
theorem normalize_fixed : (OV.s "fixed").normalize = .s "fixed" := by
  unfold OV.normalize; simp [isDigits, digitVal?, ndZeros]
theorem normalize_guarded : (OV.s "guarded").normalize = .s "guarded" := by
  unfold OV.normalize; simp [isDigits, digitVal?, ndZeros]

/-- once arithmetic, precision and display are forced to fixed / p / p, `ArithmeticClass` configures fixed p/p whatever the
    other layers hold -/
theorem fixed_config_of_forced (o1 : Options) (p : Nat) (fa : forced o1 "arithmetic" (.s "fixed"))
    (fp : forced o1 "precision" (.i p)) (fd : forced o1 "display" (.i p)) :
    ∃ o', arithmeticClass o1 = .ok (o', .fixed p p) := by
  obtain ⟨o2, h2, hforce⟩ := setopt_forced_value o1 "arithmetic" (.s "guarded") (.s "fixed") fa
  have fa2 := forced_of_force_eq hforce fa
  have fp2 := forced_of_force_eq hforce fp
  have fd2 := forced_of_force_eq hforce fd
  refine ⟨o2, ?_⟩
  unfold arithmeticClass
  simp only [h2, bind, Except.bind]
  have e1 : (OV.s "fixed").pyEq (.s "rational") = false := by decide
  have e2 : (OV.s "fixed").pyEq (.s "fixed") = true := by decide
  have e3 : (OV.s "fixed").pyEq (.s "integer") = false := by decide
  simp only [e1, e2, Bool.false_eq_true, if_false, Bool.true_or, if_true]
  unfold fixedInitialize
  simp only [getopt_of_forced fa2, getopt_of_forced fp2, getopt_of_forced fd2, e2, e3, Bool.true_or, Bool.not_true,
    Bool.false_eq_true, if_false, bind, Except.bind, pure, Except.pure]
  have hs : strictNat (.i (p : Int)) = .ok p := by
    unfold strictNat pyInt OV.pyStr
    simp
  simp only [hs]
  unfold pyInt
  simp

/-- the same for QPQ's guarded 9/9/9 -/
theorem guarded_config_of_forced (o1 : Options) (p g d : Nat) (hd : d ≤ p + g) (fa : forced o1 "arithmetic" (.s "guarded"))
    (fp : forced o1 "precision" (.i p)) (fg : forced o1 "guard" (.i g)) (fd : forced o1 "display" (.i d)) :
    ∃ o', arithmeticClass o1 = .ok (o', .guarded p g d) := by
  obtain ⟨o2, h2, hforce⟩ := setopt_forced_value o1 "arithmetic" (.s "guarded") (.s "guarded") fa
  have fa2 := forced_of_force_eq hforce fa
  have fp2 := forced_of_force_eq hforce fp
  have fg2 := forced_of_force_eq hforce fg
  have fd2 := forced_of_force_eq hforce fd
  refine ⟨o2, ?_⟩
  unfold arithmeticClass
  simp only [h2, bind, Except.bind]
  have e1 : (OV.s "guarded").pyEq (.s "rational") = false := by decide
  have e2 : (OV.s "guarded").pyEq (.s "fixed") = false := by decide
  have e3 : (OV.s "guarded").pyEq (.s "integer") = false := by decide
  have e4 : (OV.s "guarded").pyEq (.s "guarded") = true := by decide
  simp only [e1, e2, e3, e4, Bool.false_eq_true, if_false, Bool.or_self, if_true]
  unfold guardedInitialize
  have hs : ∀ n : Nat, strictNat (.i (n : Int)) = .ok n := by
    intro n
    unfold strictNat pyInt OV.pyStr
    simp
  simp only [getopt_of_forced fa2, getopt_of_forced fp2, getopt_of_forced fg2, getopt_of_forced fd2, e4, Bool.not_true,
    Bool.false_eq_true, if_false, bind, Except.bind, pure, Except.pure, hs]
  have : ¬ (d > p + g) := by omega
  simp [this]

theorem immune_fixed3 (p : Nat) :
    ∀ o : Options, ∃ o', (replay o [("arithmetic", .s "fixed", true), ("precision", .i p, true), ("display", .i p, true)]
        >>= arithmeticClass) = .ok (o', .fixed p p) := by
  intro o
  rw [replay_forced3 o ("arithmetic", .s "fixed") ("precision", .i p) ("display", .i p)]
  show ∃ o', arithmeticClass _ = _
  apply fixed_config_of_forced
  · apply forced_forceSet_other _ _ _ (show "arithmetic" ≠ "display" by decide)
    apply forced_forceSet_other _ _ _ (show "arithmetic" ≠ "precision" by decide)
    have := forced_forceSet_same o "arithmetic" (.s "fixed"); rw [normalize_fixed] at this; exact this
  · apply forced_forceSet_other _ _ _ (show "precision" ≠ "display" by decide)
    exact forced_forceSet_same _ "precision" (.i p)
  · exact forced_forceSet_same _ "display" (.i p)

theorem model_table_immune : TableImmune modelTable := by
  intro e he
  simp only [modelTable, List.mem_cons, List.not_mem_nil, or_false] at he
  rcases he with rfl | rfl | rfl | rfl | rfl | rfl | rfl | rfl
  · exact ⟨.fixed 5 5, immune_fixed3 5⟩
  · exact ⟨.fixed 5 5, immune_fixed3 5⟩
  · refine ⟨.fixed 9 9, ?_⟩
    intro o
    show ∃ o', (replay o [("arithmetic", .s "fixed", true), ("precision", .i 9, true), ("display", .i 9, true), ("omega", .i 6, true)]
        >>= arithmeticClass) = _
    rw [replay_forced4 o ("arithmetic", .s "fixed") ("precision", .i 9) ("display", .i 9) ("omega", .i 6)]
    show ∃ o', arithmeticClass _ = _
    apply fixed_config_of_forced _ 9
    · apply forced_forceSet_other _ _ _ (by decide)
      apply forced_forceSet_other _ _ _ (by decide)
      apply forced_forceSet_other _ _ _ (by decide)
      have := forced_forceSet_same o "arithmetic" (.s "fixed"); rw [normalize_fixed] at this; exact this
    · apply forced_forceSet_other _ _ _ (by decide)
      apply forced_forceSet_other _ _ _ (by decide)
      exact forced_forceSet_same _ "precision" (.i 9)
    · apply forced_forceSet_other _ _ _ (by decide)
      exact forced_forceSet_same _ "display" (.i 9)
  · exact ⟨.fixed 4 4, immune_fixed3 4⟩
  · refine ⟨.guarded 9 9 9, ?_⟩
    intro o
    show ∃ o', (replay o [("arithmetic", .s "guarded", true), ("precision", .i 9, true), ("guard", .i 9, true), ("display", .i 9, true)]
        >>= arithmeticClass) = _
    rw [replay_forced4 o ("arithmetic", .s "guarded") ("precision", .i 9) ("guard", .i 9) ("display", .i 9)]
    show ∃ o', arithmeticClass _ = _
    apply guarded_config_of_forced _ 9 9 9 (by omega)
    · apply forced_forceSet_other _ _ _ (by decide)
      apply forced_forceSet_other _ _ _ (by decide)
      apply forced_forceSet_other _ _ _ (by decide)
      have := forced_forceSet_same o "arithmetic" (.s "guarded"); rw [normalize_guarded] at this; exact this
    · apply forced_forceSet_other _ _ _ (by decide)
      apply forced_forceSet_other _ _ _ (by decide)
      exact forced_forceSet_same _ "precision" (.i 9)
    · apply forced_forceSet_other _ _ _ (by decide)
      exact forced_forceSet_same _ "guard" (.i 9)
    · exact forced_forceSet_same _ "display" (.i 9)
  · exact ⟨.fixed 5 5, immune_fixed3 5⟩
  · exact ⟨.fixed 4 4, immune_fixed3 4⟩
  · exact ⟨.fixed 4 4, immune_fixed3 4⟩

/-- non-vacuity: a hostile set of layers does not move the Scottish configuration -/
example : ∃ o', (replay { cmd := [("arithmetic", .s "rational"), ("precision", .i 2), ("display", .i 1)],
                          file := [("arithmetic", .s "guarded"), ("guard", .i 7)] }
      [("arithmetic", .s "fixed", true), ("precision", .i 5, true), ("display", .i 5, true)] >>= arithmeticClass)
    = .ok (o', .fixed 5 5) := immune_fixed3 5 _

end Droop.C17
