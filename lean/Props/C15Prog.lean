import DroopProofs
/-!
# C15 / C16: the acceptance conditions of a profile (`ElectionProfile.__validate`), translated from profile.py

`harness/gen_validate.py` translates the body of `__validate` — two `if <cond>: raise ElectionProfileError(...)` statements and the two
loops that reject a candidate repeated on a ballot line (strict lines, lines with equal rankings) — into the list below; the kernel
checks the translation equal to `validateProg` on every C15 and C16 run; `validate_is_program` proves the model's `validate` rejects
exactly when one of the listed items fails.
-/
namespace Droop.C15
open Droop

inductive VNum | nSeats | nBallots | nEligible
deriving DecidableEq, Repr

inductive VCond
  | falsy (a : VNum)               -- `not a`
  | gt (a b : VNum) | lt (a b : VNum)
  | or (x y : VCond)
deriving DecidableEq, Repr

inductive VItem
  | raiseIf (c : VCond)
  | noDupStrict                    -- `for bl in self.ballotLines:` ... a candidate id seen twice raises
  | noDupEqual                     -- `for bl in self.ballotLinesEqual:` ... likewise over all ranks of the line
deriving DecidableEq, Repr

def VNum.eval (pr : Prof) (eligible : List Nat) : VNum → Nat
  | .nSeats => pr.nSeats
  | .nBallots => pr.nBallots
  | .nEligible => eligible.length

def VCond.eval (pr : Prof) (eligible : List Nat) : VCond → Bool
  | .falsy a => a.eval pr eligible == 0
  | .gt a b => decide (a.eval pr eligible > b.eval pr eligible)
  | .lt a b => decide (a.eval pr eligible < b.eval pr eligible)
  | .or x y => x.eval pr eligible || y.eval pr eligible

/-- the item makes `__validate` raise -/
def VItem.fails (pr : Prof) (eligible : List Nat) : VItem → Bool
  | .raiseIf c => c.eval pr eligible
  | .noDupStrict => !(pr.ballotLines.all (fun bl => noDup bl.2))
  | .noDupEqual => !(pr.ballotLinesEq.all (fun bl => noDup bl.2.flatten))

def validateProg : List VItem :=
  [.raiseIf (.or (.falsy .nSeats) (.gt .nSeats .nEligible)), .raiseIf (.lt .nBallots .nEligible), .noDupStrict, .noDupEqual]

theorem validate_is_program (pr : Prof) (eligible : List Nat) :
    validate pr eligible = if validateProg.any (VItem.fails pr eligible) then throw .profile else pure () := by
  unfold validate validateProg
  simp only [List.any_cons, List.any_nil, VItem.fails, VCond.eval, VNum.eval, Bool.or_false]
  by_cases h1 : (pr.nSeats == 0 || decide (pr.nSeats > eligible.length)) = true
  · simp [h1]
  · have h1' : (pr.nSeats == 0 || decide (pr.nSeats > eligible.length)) = false := by simpa using h1
    by_cases h2 : pr.nBallots < eligible.length
    · simp [h1', h2]
    · by_cases h3 : (pr.ballotLines.all (fun bl => noDup bl.2)) = true
      · by_cases h4 : (pr.ballotLinesEq.all (fun bl => noDup bl.2.flatten)) = true
        · simp [h1', h2, h3, h4]
          all_goals (first | (intro hc; simp [hc] at h1') | skip)
        · simp [h1', h2, h3, h4]
          all_goals (first | (intro hc; simp [hc] at h1') | skip)
      · simp [h1', h2, h3]
        all_goals (first | (intro hc; simp [hc] at h1') | skip)

end Droop.C15
