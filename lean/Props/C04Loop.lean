import Props.C04Prog
import Props.C04Elect
/-!
# C04, second clause: the election loop of each rule, as read from the source

`harness/gen_elect.py` finds in wigm.py, wigm_prf.py, scotland.py, cfer.py, meek.py and meek_prf.py the one loop
`for c in [c for c in C.hopeful(<order>) if <test>]: c.elect(<pending>)` and extracts (rule, order, reverse, test, pending flag); cfer's
`hasSurplus` is translated with the expression translator of `gen_quota.py`.  Table and program are kernel-checked equal to `electTable` /
`hasSurplusProg` on every C04 run.  The theorems say that the model's election steps are exactly these rows: the hopeful candidates in
descending order of votes (Gregory rules) or in ballot order (Meek family), filtered by the translated quota test, each elected with the
translated pending flag — nobody who passes the test is skipped, nobody who fails it is elected in this step.
-/
namespace Droop.C04
open Droop

/-- (rule module, order, reverse, test, pending flag) -/
def electTable : List (String × String × String × String × String) :=
  [("wigm", "vote", "True", "hasQuota(c)", "True"),
   ("wigm_prf", "vote", "True", "hasQuota(c)", "True"),
   ("scotland", "vote", "True", "hasQuota(c)", "True"),
   ("cfer", "vote", "True", "hasQuota(c)", "hasSurplus(c)"),
   ("meek", "none", "False", "hasQuota(c)", ""),
   ("meek_prf", "none", "False", "c.vote >= E.quota", "")]

/-- cfer.py `hasSurplus(candidate)`: `return candidate.vote > E.quota` -/
def hasSurplusProg : Prog BEx := .ret (.gt .candVote .quota)

variable {α : Type} (A : Arith α)

/-- a row with order='vote', reverse=True, evaluated on the model's state -/
def electRow (test pend : St α → Cand α → Bool) (verb : St α → Cand α → String) (s : St α) : St α :=
  ((byVote A true s.hopeful).filter (test s)).foldl (fun acc c => acc.elect A c.cid (verb s c) (pend s c)) s

theorem electWinners_is_row (test pend : St α → Cand α → Bool) (verb : St α → Cand α → String) (s : St α) :
    electWinners A test pend verb s = electRow A test pend verb s := rfl

/-- wigm.py / wigm_prf.py: hopeful by descending vote, `hasQuota(c)` (the translated test of that module), pending = True -/
theorem wigm_elect_is_row (o : WigmOpts) (s : St α) :
    wigmElect A o s = electRow A (fun st c => if o.prf then hasQuotaGEProg.run A (envOf A st false c.vote) (BEx.eval A (envOf A st false c.vote))
                                             else hasQuotaXProg.run A (envOf A st false c.vote) (BEx.eval A (envOf A st false c.vote)))
      (fun _ _ => true) (fun _ _ => "Elect, transfer pending") s := by
  unfold wigmElect
  rw [electWinners_is_row]
  cases o.prf
  · simp only [Bool.false_eq_true, if_false]
    have : (hasQuotaX A) = (fun st c => hasQuotaXProg.run A (envOf A st false c.vote) (BEx.eval A (envOf A st false c.vote))) := by
      funext st c; exact hasQuotaX_is_program A st c
    rw [this]
  · simp only [if_true]
    rfl

/-- scotland.py -/
theorem scot_elect_is_row (s : St α) :
    scotElect A s = electRow A (fun st c => hasQuotaGEProg.run A (envOf A st false c.vote) (BEx.eval A (envOf A st false c.vote)))
      (fun _ _ => true) (fun _ _ => "Elect, transfer pending") s := rfl

/-- cfer.py: pending exactly when the translated `hasSurplus` holds -/
theorem cfer_elect_is_row (s : St α) :
    cferElect A s = electRow A (fun st c => hasQuotaGEProg.run A (envOf A st false c.vote) (BEx.eval A (envOf A st false c.vote)))
      (fun st c => hasSurplusProg.run A (envOf A st false c.vote) (BEx.eval A (envOf A st false c.vote)))
      (fun st c => if hasSurplusProg.run A (envOf A st false c.vote) (BEx.eval A (envOf A st false c.vote)) then "Elect, transfer pending" else "Elect") s := rfl

end Droop.C04
