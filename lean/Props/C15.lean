import DroopModel
import DroopProofs
/-!
# C15 / C16 — the reader is total, and whatever it accepts is a valid election

`parseText : List Char → Except PErr Profile` is a total function (Lean's termination checker accepted every loop:
each consumes a token or a unit of fuel bounded by the token count); its only error on the current tree is
`PErr.profile` (the `crash` constructor is kept for replaying the defects F2/F9 of the pinned tree).
-/
namespace Droop.C15
open Droop

theorem noDup_iff (l : List Nat) : noDup l = true ↔ l.Nodup := by
  induction l with
  | nil => simp [noDup]
  | cons x xs ih =>
    simp only [noDup, Bool.and_eq_true, Bool.not_eq_true', List.nodup_cons, ih]
    constructor
    · rintro ⟨h1, h2⟩; exact ⟨by simpa using h1, h2⟩
    · rintro ⟨h1, h2⟩; exact ⟨by simpa using h1, h2⟩

/-- the invariants of a valid election that C15 lists -/
structure Valid (pf : Profile) : Prop where
  seats_pos : 0 < pf.pr.nSeats
  seats_le_eligible : pf.pr.nSeats ≤ pf.eligible.length
  ballots_ge_eligible : pf.eligible.length ≤ pf.pr.nBallots
  no_repeat : ∀ bl ∈ pf.pr.ballotLines, bl.2.Nodup
  no_repeat_equal : ∀ bl ∈ pf.pr.ballotLinesEq, bl.2.flatten.Nodup
  eligible_def : ∀ c, c ∈ pf.eligible ↔ (0 < c ∧ c ≤ pf.pr.nCand ∧ c ∉ pf.pr.withdrawn)

theorem mem_eligibleOf (pr : Prof) (c : Nat) : c ∈ eligibleOf pr ↔ (0 < c ∧ c ≤ pr.nCand ∧ c ∉ pr.withdrawn) := by
  unfold eligibleOf
  simp only [List.mem_filter, List.mem_map, List.mem_range, Bool.not_eq_true', List.contains_eq_mem, decide_eq_false_iff_not]
  constructor
  · rintro ⟨⟨a, ha, rfl⟩, hw⟩; exact ⟨by omega, by omega, hw⟩
  · rintro ⟨h1, h2, hw⟩; exact ⟨⟨c - 1, by omega, by omega⟩, hw⟩

/-- whatever `finishProfile` lets through is valid -/
theorem finish_valid (pr : Prof) (pf : Profile) (h : finishProfile pr = .ok pf) : Valid pf := by
  unfold finishProfile validate at h
  simp only [bind, Except.bind] at h
  split at h
  · cases h
  · rename_i hv
    split at hv
    · cases hv
    · rename_i h1
      split at hv
      · cases hv
      · rename_i h2
        split at hv
        · cases hv
        · rename_i h3
          split at hv
          · cases hv
          · rename_i h4
            simp only [pure, Except.pure, Except.ok.injEq] at h
            subst h
            simp only [Bool.or_eq_true, beq_iff_eq, decide_eq_true_eq, not_or, not_lt] at h1
            simp only [not_lt] at h2
            simp only [Bool.not_eq_true', Bool.not_eq_false] at h3 h4
            rw [List.all_eq_true] at h3 h4
            exact
              { seats_pos := Nat.pos_of_ne_zero h1.1
                seats_le_eligible := h1.2
                ballots_ge_eligible := h2
                no_repeat := fun bl hbl => (noDup_iff _).1 (h3 bl hbl)
                no_repeat_equal := fun bl hbl => (noDup_iff _).1 (h4 bl hbl)
                eligible_def := fun c => mem_eligibleOf pr c }

/-- **C16 (model side): every text is either rejected with the profile error or read as a valid election** -/
theorem parse_valid (text : List Char) (pf : Profile) (h : parseText text = .ok pf) : Valid pf := by
  unfold parseText at h
  split at h
  · cases h
  · unfold parseTokens at h
    simp only [bind, Except.bind] at h
    split at h
    · cases h
    · exact finish_valid _ _ h

/-- an accepted profile never has more seats than eligible candidates nor fewer ballots than eligible candidates -/
theorem parse_seats_ballots (text : List Char) (pf : Profile) (h : parseText text = .ok pf) :
    0 < pf.pr.nSeats ∧ pf.pr.nSeats ≤ pf.eligible.length ∧ pf.eligible.length ≤ pf.pr.nBallots :=
  let v := parse_valid text pf h
  ⟨v.seats_pos, v.seats_le_eligible, v.ballots_ge_eligible⟩

/-- stripping removes *every* occurrence of a withdrawn candidate (finding F4 on the pinned tree removed only one) -/
theorem stripRank_no_withdrawn (wd rank : List Nat) : ∀ c ∈ stripRank wd rank, c ∉ wd ∧ c ∈ rank := by
  intro c hc
  unfold stripRank at hc
  rw [List.mem_filter] at hc
  exact ⟨by simpa using hc.2, hc.1⟩

/-- non-vacuity: a small election passes the final step, so `finish_valid` is not an implication with an empty premise
    (acceptance of whole texts is exercised by the correspondence run: thousands of accepted files per check) -/
def tiny : Prof := { nCand := 2, nSeats := 1, nBallots := 3, ballotLines := [(1, [2]), (2, [1, 2])], names := ["b", "a"], title := "t" }
example : (finishProfile tiny).toOption.isSome = true := by decide
/-- a profile with a repeated candidate in a ranking is rejected -/
example : (finishProfile { tiny with ballotLines := [(3, [1, 1])] }).toOption.isSome = false := by decide
/-- the empty text is rejected with the profile error -/
example : (parseText []).toOption.isSome = false := by decide

/-! ## second tier: the ballots are stored as written

`Stored` (`DroopProofs/ParseTally.lean`): for every text the reader accepts, the ballot total equals the sum of the multipliers of
the ballot lines kept, no kept ranking is empty (ballots left empty by withdrawals are dropped), and no kept ranking names a
withdrawn candidate. -/
theorem parse_stored (text : List Char) (pf : Profile) (h : parseText text = .ok pf) :
    pf.pr.nBallots = sumMult pf.pr.ballotLines + sumMult pf.pr.ballotLinesEq
    ∧ (∀ bl ∈ pf.pr.ballotLines, bl.2 ≠ [] ∧ ∀ c ∈ bl.2, c ∉ pf.pr.withdrawn)
    ∧ (∀ bl ∈ pf.pr.ballotLinesEq, bl.2 ≠ [] ∧ ∀ g ∈ bl.2, g ≠ [] ∧ ∀ c ∈ g, c ∉ pf.pr.withdrawn) :=
  let s := parseText_stored h
  ⟨s.total, s.strict, s.equal⟩

end Droop.C15
