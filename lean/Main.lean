import DroopModel
import DroopModel.Json
open Droop

/-! line-protocol driver (scratch prototype) -/

def hexVal (c : Char) : Nat :=
  if c.isDigit then c.toNat - 48 else if 'a' ≤ c && c ≤ 'f' then c.toNat - 87 else 0
def unhex (s : String) : Option String :=
  let rec go : List Char → List UInt8 → List UInt8
    | a :: b :: r, acc => go r (UInt8.ofNat (hexVal a * 16 + hexVal b) :: acc)
    | _, acc => acc.reverse
  String.fromUTF8? (ByteArray.mk (go (s.toList.filter (· != '.')) []).toArray)
def hexOf (s : String) : String :=
  let d := "0123456789abcdef".toList
  String.ofList (s.toUTF8.toList.flatMap (fun b => [d[b.toNat / 16]!, d[b.toNat % 16]!])) ++ "."

def parseCands : Nat → List String → Option (List (Nat × Nat × Bool × Bool) × List String)
  | 0, r => some ([], r)
  | n+1, a :: b :: c :: d :: r => do
    let (cs, r') ← parseCands n r
    some ((← a.toNat?, ← b.toNat?, c == "1", d == "1") :: cs, r')
  | _, _ => none

partial def parseBallots (toks : List String) (bs : List (Nat × List Nat)) (qs : List (Nat × List (List Nat))) :
    Option (List (Nat × List Nat) × List (Nat × List (List Nat))) :=
  match toks with
  | [] => some (bs.reverse, qs.reverse)
  | "B" :: m :: len :: r => do
    let m ← m.toNat?; let len ← len.toNat?
    let rk ← (r.take len).mapM String.toNat?
    parseBallots (r.drop len) ((m, rk) :: bs) qs
  | "Q" :: m :: ng :: r => do
    let m ← m.toNat?; let ng ← ng.toNat?
    let rec groups (k : Nat) (r : List String) (acc : List (List Nat)) : Option (List (List Nat) × List String) :=
      match k, r with
      | 0, r => some (acc.reverse, r)
      | k+1, len :: r => do
        let len ← len.toNat?
        let g ← (r.take len).mapM String.toNat?
        groups k (r.drop len) (g :: acc)
      | _, _ => none
    let (gs, r') ← groups ng r []
    parseBallots r' bs ((m, gs) :: qs)
  | _ => none

def parseCase (toks : List String) : Option Case := do
  match toks with
  | rule :: arith :: p :: g :: intq :: batch :: omega :: ncand :: seats :: nb :: rest =>
    let (cands, rest') ← parseCands (← ncand.toNat?) rest
    let (bs, qs) ← parseBallots rest' [] []
    some { rule, arith, p := ← p.toNat?, g := ← g.toNat?, intq := intq == "1", batch, omega := ← omega.toNat?,
           seats := ← seats.toNat?, nballots := ← nb.toNat?, cands, ballots := bs, ballotsEq := qs }
  | _ => none

def showOpt {α} (A : Arith α) : Option α → String
  | some v => ":" ++ A.raw v
  | none => ""

def showAct {α} (A : Arith α) (a : Act α) : String :=
  match a.snap with
  | none => "log"
  | some sn =>
    s!"{a.tag} {hexOf a.verb} {a.round} {if a.subj.isEmpty then "-" else ",".intercalate (a.subj.map toString)} {A.raw sn.quota} {A.raw sn.votes} {A.raw sn.x1} {A.raw sn.x2} " ++
    " ".intercalate (sn.cs.map (fun (cid, code, v, kf, q) =>
      s!"{cid}:{code}:{if code == "W" then "-" else A.raw v}{if code == "W" then "" else showOpt A kf}{if code == "W" then "" else showOpt A q}"))
    ++ " W " ++ " ".intercalate (a.ws.map (fun (i, w) => s!"{i}:{A.raw w}"))

def showOut {α} (A : Arith α) : Out α → String
  | .fuel => "FUEL"
  | .crash k => "CRASH " ++ k
  | .ok acts => "OK " ++ " | ".intercalate (acts.map (showAct A))

def parseAct {α} (isQpq : Bool) (zero : α) (pv : String → Option α) (s : String) : Option (Act α) := do
  match (s.trimAscii.toString.splitOn " ").filter (· ≠ "") with
  | tag :: verbHex :: round :: subjS :: quota :: votes :: x1 :: x2 :: rest =>
    let subj ← if subjS == "-" then some [] else (subjS.splitOn ",").mapM String.toNat?
    let cs := rest.takeWhile (· != "W")
    let wsT := (rest.dropWhile (· != "W")).drop 1
    let ws' ← wsT.mapM (fun (e : String) => do
      match e.splitOn ":" with
      | [i, w] => pure ((← i.toNat?), (← pv w))
      | _ => none)
    let cs' ← cs.mapM (fun (e : String) => do
      match e.splitOn ":" with
      | cid :: code :: rest =>
        let cid ← cid.toNat?
        match rest with
        | ["-"] => pure (cid, code, zero, none, none)
        | [v] => pure (cid, code, ← pv v, none, none)
        | [v, k] => if isQpq then pure (cid, code, ← pv v, none, some (← pv k)) else pure (cid, code, ← pv v, some (← pv k), none)
        | _ => none
      | _ => none)
    pure { tag, round := ← round.toNat?, verb := (unhex verbHex).getD "", subj := subj,
           snap := some { cs := cs', votes := ← pv votes, quota := ← pv quota, x1 := ← pv x1, x2 := ← pv x2 }, ws := ws' }
  | _ => none

def parseOut {α} (isQpq : Bool) (zero : α) (pv : String → Option α) (s : String) : Option (Out α) :=
  let s := s.trimAscii.toString
  if s.startsWith "CRASH " then some (.crash (s.drop 6).toString)
  else if s.startsWith "OK " then
    ((s.drop 3).toString.splitOn " | ").mapM (parseAct isQpq zero pv) |>.map .ok
  else none

def b2s (b : Bool) : String := if b then "1" else "0"

def ctx2Of (c : Case) : Ctx2 :=
  { intq := c.intq, tie := c.cands.map (fun (cid, tie, _, _) => (cid, tie))
    undeclared := (c.cands.filter (fun (_, _, _, ud) => ud)).map (·.1)
    ballots := c.ballots, hasEq := !c.ballotsEq.isEmpty }

def oracles {α} (A : Arith α) (units : Int → α) (c : Case) : Out α → String
  | .ok acts =>
    let ctx := ctxOf c
    let c2 := ctx2Of c
    let om := if c.rule == "meek-prf" then 6 else c.omega
    let omega := A.divV A.one (A.ofInt (10 ^ om))
    let greg := ctx.method == .wigm
    let meek := ctx.method == .meek
    let c05skip := c2.hasEq || (c.rule == "mpls" && !c2.undeclared.isEmpty)
                   || ((c.arith == "integer" || c.p + c.g == 0) && c.seats > 1 && c.arith != "rational")
    let allowance := units (2 * (c.nballots : Int) * (c.cands.length : Int))
    let kv : List (String × Bool) :=
      [("C01", okC01 ctx acts), ("C09", okC09 ctx acts),
       ("C02", if greg then okC02Gregory A ctx units acts else if meek then okC08cons A ctx acts else okC02Qpq A ctx c2 units acts),
       ("C18", okC18rec ctx acts), ("EXC", okExclusions A ctx acts), ("EXCQ", okExclusions A ctx acts false),
       ("C04q", okC04quota A ctx c2 acts), ("C04c", okC04complete A ctx acts),
       ("C05", c05skip || okC05 A ctx c2 allowance acts),
       ("C06", !greg || okC06 A c.ballots acts), ("C06r", !greg || okC06rew A ctx c2 acts),
       ("C07b", okC07batch A ctx acts), ("C07l", okC07largest A ctx acts), ("C07t", okC07ties A ctx c2 acts), ("C07s", okC07scot A ctx c2 acts),
       ("C08c", !meek || okC08cons A ctx acts), ("C08t", !meek || okC08timing A ctx omega acts),
       ("C08k", !meek || okC08kf A ctx acts)]
    " ".intercalate (kv.map (fun (k, v) => s!"{k}={b2s v}"))
  | .crash k => s!"CRASH={k}"
  | .fuel => "FUEL=1"

def evalWith {α} (A : Arith α) (units : Int → α) (pv : String → Option α) (c : Case) (impl : Option String) : String :=
  let m := finish A (runRuleSt A c)
  match impl with
  | none => showOut A m
  | some line =>
    match parseOut (c.rule == "qpq") A.zero pv line with
    | none => "BAD-IMPL-LINE"
    | some o =>
      s!"MODEL {oracles A units c m} ;; IMPL {oracles A units c o} ;; SAME={b2s (showOut A m == showOut A o)} DOM={b2s (caseOK c)}"

def parseRat (s : String) : Option Rat :=
  match s.splitOn "/" with
  | [n, d] => do some (mkRat (← n.toInt?) (← d.toNat?))
  | _ => none

def dumpWith {α} (A : Arith α) (strV : α → String) (c : Case) : String :=
  match runRuleSt' A c (withAddLogs (initState A c)) with
  | none => "FUEL"
  | some s =>
    match s.crash with
    | some k => "CRASH " ++ k
    | none =>
      let s' := s.logAct A "end" "Count Complete" []
      let ecids := (c.cands.filter (fun (_, _, wd, _) => !wd)).map (·.1)
      hexOf (dump strV (fun cid => s!"C{cid}") (methodOf c.rule) ecids s'.acts.reverse)

def reportWith {α} (A : Arith α) (strV : α → String) (c : Case) (msgs : List String) : String :=
  match runRuleSt' A c (withAddLogs (initState A c)) with
  | none => "FUEL"
  | some s =>
    match s.crash with
    | some k => "CRASH " ++ k
    | none =>
      let s' := s.logAct A "end" "Count Complete" []
      hexOf (reportActions A strV (fun cid => s!"C{cid}") (methodOf c.rule) (c.cands.map (·.1)) c.nballots msgs s'.acts.reverse)

def jsonWith {α} (A : Arith α) (strV : α → String) (c : Case) (msgs : List String) : String :=
  match runRuleSt' A c (withAddLogs (initState A c)) with
  | none => "FUEL"
  | some s =>
    match s.crash with
    | some k => "CRASH " ++ k
    | none =>
      let s' := s.logAct A "end" "Count Complete" []
      hexOf (jsonActions strV (methodOf c.rule) msgs s'.acts.reverse)

def runJson (display : Nat) (c : Case) (msgs : List String) : String :=
  match c.arith with
  | "fixed" => jsonWith (fixedArith c.p) (strFixed c.p display) c msgs
  | "integer" => jsonWith (fixedArith 0) (strFixed 0 display) c msgs
  | "guarded" => jsonWith (guardedArith c.p c.g) (strGuarded c.p c.g display) c msgs
  | "rational" => jsonWith rationalArith (strRational display) c msgs
  | a => "UNKNOWN-ARITH " ++ a

def runReport (display : Nat) (c : Case) (msgs : List String) : String :=
  match c.arith with
  | "fixed" => reportWith (fixedArith c.p) (strFixed c.p display) c msgs
  | "integer" => reportWith (fixedArith 0) (strFixed 0 display) c msgs
  | "guarded" => reportWith (guardedArith c.p c.g) (strGuarded c.p c.g display) c msgs
  | "rational" => reportWith rationalArith (strRational display) c msgs
  | a => "UNKNOWN-ARITH " ++ a

def runDump (display : Nat) (c : Case) : String :=
  match c.arith with
  | "fixed" => dumpWith (fixedArith c.p) (strFixed c.p display) c
  | "integer" => dumpWith (fixedArith 0) (strFixed 0 display) c
  | "guarded" => dumpWith (guardedArith c.p c.g) (strGuarded c.p c.g display) c
  | "rational" => dumpWith rationalArith (strRational display) c
  | a => "UNKNOWN-ARITH " ++ a

def runCase (c : Case) (impl : Option String) : String :=
  match c.arith with
  | "fixed" => evalWith (fixedArith c.p) (fun k => k) String.toInt? c impl
  | "integer" => evalWith (fixedArith 0) (fun k => k) String.toInt? c impl
  | "guarded" => evalWith (guardedArith c.p c.g) (fun k => k) String.toInt? c impl
  | "rational" => evalWith rationalArith (fun _ => 0) parseRat c impl
  | a => "UNKNOWN-ARITH " ++ a

def runStr (toks : List String) : String :=
  match toks with
  | ["fixed", p, d, v] => match p.toNat?, d.toNat?, v.toInt? with
    | some p, some d, some v => strFixed p d v
    | _, _, _ => "BAD-INPUT"
  | ["guarded", p, g, d, v] => match p.toNat?, g.toNat?, d.toNat?, v.toInt? with
    | some p, some g, some d, some v => strGuarded p g d v
    | _, _, _, _ => "BAD-INPUT"
  | ["rational", d, q] => match d.toNat?, parseRat q with
    | some d, some q => strRational d q
    | _, _ => "BAD-INPUT"
  | _ => "BAD-INPUT"

def showNats (l : List Nat) : String := ",".intercalate (l.map toString)
def showProfile (pf : Profile) : String :=
  let pr := pf.pr
  let tie := if pr.tieOrder.isEmpty then (List.range pr.nCand).map (fun i => (i+1, i+1)) else pr.tieOrder
  let tieS := (tie.mergeSort (fun a b => a.1 ≤ b.1)).map (fun (c, o) => s!"{c}={o}")
  let nick := if pr.nickCid.isEmpty then (List.range pr.nCand).map (fun i => (toString (i+1), i+1)) else pr.nickCid
  let nickS := (nick.mergeSort (fun a b => a.2 ≤ b.2)).map (fun (n, c) => s!"{c}={hexOf n}")
  s!"OK {pr.nCand} {pr.nSeats} {pr.nBallots} E:{showNats pf.eligible} W:{showNats (pr.withdrawn.mergeSort (· ≤ ·))} U:{showNats (pr.undeclared.mergeSort (· ≤ ·))} T:{",".intercalate tieS} N:{",".intercalate nickS} O:{",".intercalate (pr.options.map hexOf)} B:{";".intercalate (pr.ballotLines.map (fun (m, r) => s!"{m}:{showNats r}"))} Q:{";".intercalate (pr.ballotLinesEq.map (fun (m, r) => s!"{m}:{"|".intercalate (r.map showNats)}"))} C:{",".intercalate (pr.names.map hexOf)} t:{hexOf pr.title} s:{match pr.source with | some x => hexOf x | none => "-"} c:{match pr.comment with | some x => hexOf x | none => "-"}"

def runParse (hex : String) : String :=
  match unhex hex with
  | none => "BAD-INPUT"
  | some text =>
    match parseText text.toList with
    | .ok pf => showProfile pf
    | .error .profile => "PE"
    | .error (.crash k) => "CRASH " ++ k

def parseOV (t : String) : Option OV :=
  match t.splitOn ":" with
  | ["i", n] => n.toInt?.map OV.i
  | ["s", h] => (unhex h).map OV.s
  | ["b", v] => some (OV.b (v == "1"))
  | ["n", _] => some OV.none
  | _ => none

def showOV : OV → String
  | .i n => s!"i:{n}"
  | .s v => s!"s:{hexOf v}"
  | .b v => s!"b:{if v then 1 else 0}"
  | .none => "n:"

def showDict (d : Dict) : String :=
  ",".intercalate ((d.mergeSort (fun a b => a.1 ≤ b.1)).map (fun e => s!"{hexOf e.1}={showOV e.2}"))

def effective (o : Options) : Dict :=
  let keys := (o.dflt.map (·.1) ++ o.file.map (·.1) ++ o.cmd.map (·.1) ++ o.force.map (·.1)).eraseDups
  keys.map (fun k => (k, o.getopt k))

def runOpts (toks : List String) : String :=
  -- toks: cmd entries "hexkey=ov" ... "|" file tokens (hex)
  let (cmdT, fileT) := (toks.takeWhile (· != "|"), (toks.dropWhile (· != "|")).drop 1)
  let cmd? := cmdT.mapM (fun t => match t.splitOn "=" with
    | [k, v] => do some ((← unhex k), (← parseOV v))
    | _ => none)
  let file? := fileT.mapM unhex
  match cmd?, file? with
  | some cmd, some file =>
    match (electionSetupS cmd file {}).2 with
    | .ok (o, _, cfg) =>
      let a := match cfg with
        | .fixed p d => s!"fixed {p} {d}"
        | .guarded p g d => s!"guarded {p} {g} {d}"
        | .rational d => s!"rational {d}"
      s!"OK eff:{showDict (effective o)} cmd:{showDict o.cmd} file:{showDict o.file} default:{showDict o.dflt} force:{showDict o.force} unused:{",".intercalate (o.unused.map hexOf)} over:{",".intercalate (o.overrides.map hexOf)} arith:{a}"
    | .error .usage => "UsageError"
    | .error .election => "ElectionError"
    | .error .arithValues => "ArithmeticValuesError"
    | .error (.crash k) => "CRASH " ++ k
  | _, _ => "BAD-INPUT"

/-- OP <arith> <p> <g> <op> <round> a b [c] : one arithmetic operation on raw values -/
def runOpWith {α} (A : Arith α) (pv : String → Option α) (op : String) (rnd : Round) (args : List String) : String :=
  match op, args.mapM pv with
  | "add", some [a, b] => A.raw (A.add a b)
  | "sub", some [a, b] => A.raw (A.sub a b)
  | "mulv", some [a, b] => A.raw (A.mulV a b)
  | "divv", some [a, b] => if A.isZero b then "ZeroDivisionError" else A.raw (A.divV a b)
  | "mul", some [a, b] => A.raw (A.mul rnd a b)
  | "div", some [a, b] => if A.isZero b then "ZeroDivisionError" else A.raw (A.div rnd a b)
  | "muldiv", some [a, b, c] => if A.isZero c then "ZeroDivisionError" else A.raw (A.muldiv rnd a b c)
  | "cmp", some [a, b] => toString (A.cmp a b)
  | _, _ => "BAD-INPUT"

/-- operations that take a Python int operand or no rounding: on the raw stored integers of Fixed/Guarded -/
def runOpInt (S : Int) (op : String) (args : List String) : Option String :=
  match op, args.mapM String.toInt? with
  | "neg", some [a] => some (toString (-a))
  | "abs", some [a] => some (toString (a.natAbs : Int))
  | "muli", some [a, n] => some (toString (a * n))
  | "divi", some [a, n] => some (if n == 0 then "ZeroDivisionError" else toString (pdiv a n))
  | "ofint", some [n] => some (toString (n * S))
  | "min", some (a :: rest) => some (toString (rest.foldl (fun m y => if y < m then y else m) a))
  | "bool", some [a] => some (if a != 0 then "1" else "0")
  | _, _ => none

def runOpRat (op : String) (args : List String) : Option String :=
  let show' (q : Rat) : String := s!"{q.num}/{q.den}"
  match op, args.mapM parseRat with
  | "neg", some [a] => some (show' (-a))
  | "abs", some [a] => some (show' (if a < 0 then -a else a))
  | "min", some (a :: rest) => some (show' (rest.foldl (fun m y => if y < m then y else m) a))
  | "bool", some [a] => some (if a != 0 then "1" else "0")
  | _, _ => none

def runOp (toks : List String) : String :=
  match toks with
  | arith :: p :: g :: op :: rnd :: args =>
    let r : Round := if rnd == "up" then .up else if rnd == "down" then .down else .unspecified
    match arith, p.toNat?, g.toNat? with
    | "fixed", some p, _ => (runOpInt (pow10 p) op args).getD (runOpWith (fixedArith p) String.toInt? op r args)
    | "guarded", some p, some g => (runOpInt (pow10 (p + g)) op args).getD (runOpWith (guardedArith p g) String.toInt? op r args)
    | "rational", _, _ => (runOpRat op args).getD (runOpWith rationalArith parseRat op r args)
    | _, _, _ => "BAD-INPUT"
  | _ => "BAD-INPUT"

/-- CMPSTATS <p> <g> a1 b1 a2 b2 ... : a sequence of Guarded comparisons; prints each outcome and the statistics afterwards -/
def runCmpStats (toks : List String) : String :=
  match toks with
  | p :: g :: args =>
    match p.toNat?, g.toNat?, args.mapM String.toInt? with
    | some p, some g, some xs =>
      let rec pairs : List Int → List (Int × Int)
        | a :: b :: r => (a, b) :: pairs r
        | _ => []
      let ps := pairs xs
      let st := statsRun g (statsInit p g) ps
      s!"{",".intercalate (ps.map (fun ab => toString (guardedCmp g ab.1 ab.2)))} max={st.maxDiff} min={st.minDiff}"
    | _, _, _ => "BAD-INPUT"
  | _ => "BAD-INPUT"

def showOI : Option Int → String
  | some n => toString n
  | none => "n"
def showOS : Option String → String
  | some s => hexOf s
  | none => "n"

def showClassState (cs : ClassState) : String :=
  let f := cs.fixed; let g := cs.guarded; let r := cs.rational
  s!"F:{showOS f.name},{showOI f.precision},{showOI f.display},{showOI f.scale},{showOI f.scaled},{showOI f.scaledd},{showOI f.scaledr},{showOI f.epsilon},{showOI f.dfmt},{showOS f.info} " ++
  s!"G:{showOI g.precision},{showOI g.guard},{showOI g.display},{showOI g.scalep},{showOI g.scaleg},{showOI g.scale},{showOI g.scaledd},{showOI g.scaledr},{showOI g.scaled},{showOI g.scaledg},{showOI g.geps},{showOI g.maxDiff},{showOI g.minDiff},{showOI g.dfmtP},{showOI g.dfmtG},{showOS g.info},{b2s g.quasiExact},{b2s g.exact},{showOI g.epsilon} " ++
  s!"R:{showOI r.dp},{showOI r.dps},{showOI r.dfmt}"

def parseElection (toks : List String) : Option (Dict × List String) :=
  let (cmdT, fileT) := (toks.takeWhile (· != "|"), (toks.dropWhile (· != "|")).drop 1)
  let cmd? := cmdT.mapM (fun t => match t.splitOn "=" with
    | [k, v] => do some ((← unhex k), (← parseOV v))
    | _ => none)
  match cmd?, fileT.mapM unhex with
  | some c, some f => some (c, f)
  | _, _ => none

def splitOnTok (sep : String) (toks : List String) : List (List String) :=
  let r := toks.foldl (fun (acc : List (List String) × List String) t =>
              if t == sep then (acc.2.reverse :: acc.1, []) else (acc.1, t :: acc.2)) ([], [])
  (r.2.reverse :: r.1).reverse

/-- SESSION e1 ;; e2 ;; ... : outcome class and class state after each election constructor of a history -/
def runSessionLine (toks : List String) : String :=
  match (splitOnTok ";;" toks).mapM parseElection with
  | none => "BAD-INPUT"
  | some es =>
    let r := es.foldl (fun (acc : ClassState × List String) e =>
      let x := electionSetupS e.1 e.2 acc.1
      let oc := match x.2 with
        | .ok _ => "OK"
        | .error .usage => "UsageError"
        | .error .election => "ElectionError"
        | .error .arithValues => "ArithmeticValuesError"
        | .error (.crash k) => "CRASH " ++ k
      (x.1, (oc ++ " " ++ showClassState x.1) :: acc.2)) (({} : ClassState), [])
    " ;; ".intercalate r.2.reverse

partial def loopIO (h : IO.FS.Stream) : IO Unit := do
  let line ← h.getLine
  if line.isEmpty then return ()
  let (caseS, implS) := match line.splitOn " @@ " with
    | [a, b] => (a, some b)
    | _ => (line, none)
  let toks := (caseS.trimAscii.toString.splitOn " ").filter (· ≠ "")
  match toks with
  | "STR" :: rest => IO.println (runStr rest)
  | "OP" :: rest => IO.println (runOp rest)
  | "CMPSTATS" :: rest => IO.println (runCmpStats rest)
  | "ARGV" :: rest =>
    match rest.mapM unhex with
    | some args =>
      match Options.parse args with
      | .ok d =>
        let items := (d.mergeSort (fun a b => a.1 ≤ b.1)).map (fun e => hexOf e.1 ++ "=" ++ (match e.2 with
          | .b true => "T" | .b false => "F" | .s v => "s" ++ hexOf v | .i n => "i" ++ toString n | .none => "N"))
        IO.println ("OK " ++ " ".intercalate items)
      | .error .usage => IO.println "UsageError"
      | .error _ => IO.println "OTHER-ERROR"
    | none => IO.println "BAD-INPUT"
  | "OPTS" :: rest => IO.println (runOpts rest)
  | "SESSION" :: rest => IO.println (runSessionLine rest)
  | ["PARSE", hex] => IO.println (runParse hex)
  | ["PARSE"] => IO.println (runParse "")
  | ["HEADERKEYS"] => IO.println (",".intercalate Droop.headerKeysModel)
  | ["UNITABLES"] =>
    IO.println s!"S:{showNats pySpaces} D:{",".intercalate (ndZeros.flatMap (fun z => (List.range 10).map (fun i => s!"{z+i}={i}")))} L:{showNats pyLineBreaks}"
  | "REPORT" :: d :: rest =>
    match d.toNat?, parseCase rest, implS with
    | some d, some c, some ms => IO.println (runReport d c ((ms.trimAscii.toString.splitOn ",").filterMap unhex))
    | _, _, _ => IO.println "BAD-INPUT"
  | "JSON" :: d :: rest =>
    match d.toNat?, parseCase rest, implS with
    | some d, some c, some ms => IO.println (runJson d c ((ms.trimAscii.toString.splitOn ",").filterMap unhex))
    | _, _, _ => IO.println "BAD-INPUT"
  | "DUMP" :: d :: rest =>
    match d.toNat?, parseCase rest with
    | some d, some c => IO.println (runDump d c)
    | _, _ => IO.println "BAD-INPUT"
  | "COUNT" :: rest =>
    match parseCase rest with
    | none => IO.println "BAD-INPUT"
    | some c => IO.println (runCase c implS)
  | _ => IO.println "BAD-INPUT"
  loopIO h

def main : IO Unit := do loopIO (← IO.getStdin)
