import DroopModel.Values
/-!
# Election framework: candidates, ballots, record (election.py, candidate(s).py, record.py)
-/
namespace Droop

inductive CState | hopeful | elected | defeated | withdrawn
deriving DecidableEq, Repr, Inhabited

inductive Method | wigm | meek | qpq
deriving DecidableEq, Repr

structure Cand (α : Type) where
  cid : Nat
  order : Nat
  tie : Nat
  undeclared : Bool
  st : CState
  pending : Bool
  vote : α
  kf : Option α
  quotient : Option α
  tc : α

structure Ballot (α : Type) where
  mult : Nat
  rank : List Nat
  idx : Nat
  w : α
  residual : α

/-- a ballot line with at least one equal ranking: ranking is a list of groups -/
structure BallotEq (α : Type) where
  mult : Nat
  rank : List (List Nat)
  residual : α

structure Snap (α : Type) where
  cs : List (Nat × String × α × Option α × Option α)   -- cid, code, vote, kf, quotient
  votes : α
  quota : α
  x1 : α      -- wigm: nt_votes ; meek: residual
  x2 : α      -- surplus

structure Act (α : Type) where
  tag : String
  round : Nat
  verb : String
  subj : List Nat
  snap : Option (Snap α)
  ws : List (Nat × α)      -- verification view: ballot (idx, weight)
  val : Option α := none   -- a value embedded in the message (surplus, quotient), printed with str()

structure St (α : Type) where
  method : Method
  seats : Nat
  nballots : Nat
  cands : List (Cand α)
  ballots : List (Ballot α)
  ballotsEq : List (BallotEq α)
  quota : α
  surplus : α
  votes : α
  exhausted : α
  residual : α
  round : Nat
  rounds : List (List (Cand α))   -- E.rounds, oldest first
  acts : List (Act α)             -- newest first
  crash : Option String

variable {α : Type}

def Ballot.top (b : Ballot α) : Option Nat := b.rank[b.idx]?
def Ballot.exhaustedB (b : Ballot α) : Bool := b.idx ≥ b.rank.length

def Cand.code (m : Method) (c : Cand α) : String :=
  match c.st with
  | .withdrawn => "W"
  | .hopeful => "H"
  | .defeated => "D"
  | .elected => if m == .wigm && c.pending then "e" else "E"

namespace St
variable (A : Arith α)

def eligible (s : St α) : List (Cand α) := s.cands.filter (fun c => c.st != .withdrawn)
def hopeful (s : St α) : List (Cand α) := s.cands.filter (fun c => c.st == .hopeful)
def elected (s : St α) : List (Cand α) := s.cands.filter (fun c => c.st == .elected)
def pendingL (s : St α) : List (Cand α) := s.cands.filter (fun c => c.st == .elected && c.pending)
def seatsLeft (s : St α) : Int := (s.seats : Int) - (s.elected.length : Int)
def isHopeful (s : St α) (cid : Nat) : Bool := s.cands.any (fun c => c.cid == cid && c.st == .hopeful)
def isUndeclared (s : St α) (cid : Nat) : Bool := s.cands.any (fun c => c.cid == cid && c.undeclared)
def cand? (s : St α) (cid : Nat) : Option (Cand α) := s.cands.find? (fun c => c.cid == cid)
def upd (s : St α) (cid : Nat) (f : Cand α → Cand α) : St α :=
  { s with cands := s.cands.map (fun c => if c.cid == cid then f c else c) }
def setCrash (s : St α) (k : String) : St α :=
  match s.crash with
  | some _ => s
  | none => { s with crash := some k }

/-- record.py action() for a non-log tag -/
def mkSnap (s : St α) : Snap α :=
  { cs := s.cands.map (fun c => (c.cid, c.code s.method, c.vote, c.kf, c.quotient))
    votes := if s.method == .qpq then s.votes else A.sum ((s.eligible).map (·.vote))
    quota := s.quota
    x1 := if s.method == .meek then s.residual else s.exhausted
    x2 := s.surplus }

def logAct (s : St α) (tag verb : String) (subj : List Nat) : St α :=
  let s1 : St α := if tag == "round" then { s with rounds := s.rounds ++ [s.cands] } else s
  { s1 with acts := { tag, round := s.round, verb, subj, snap := some (mkSnap A s1),
                      ws := s.ballots.map (fun b => (b.idx, b.w)) } :: s1.acts }

/-- E.log(msg): a 'log' action carries no snapshot -/
def logMsg (s : St α) (verb : String) (subj : List Nat) (val : Option α := none) : St α :=
  { s with acts := { tag := "log", round := s.round, verb, subj, snap := none, ws := [], val } :: s.acts }

def newRound (s : St α) : St α := logAct A { s with round := s.round + 1 } "round" "New Round" []

/-- candidate.py elect() -/
def elect (s : St α) (cid : Nat) (verb : String) (pending : Bool) : St α :=
  logAct A (s.upd cid (fun c => { c with st := .elected, pending := pending })) "elect" verb [cid]
/-- candidate.py defeat() -/
def defeat (s : St α) (cid : Nat) (verb : String) : St α :=
  logAct A (s.upd cid (fun c => { c with st := .defeated })) "defeat" verb [cid]
/-- candidate.py unpend(msg) -/
def unpendLog (s : St α) (cid : Nat) (verb : String) : St α :=
  logAct A (s.upd cid (fun c => { c with pending := false })) "unpend" verb [cid]
def unpendSilent (s : St α) (cid : Nat) : St α := s.upd cid (fun c => { c with pending := false })
def setVote (s : St α) (cid : Nat) (v : α) : St α := s.upd cid (fun c => { c with vote := v })
def addVote (s : St α) (cid : Nat) (v : α) : St α := s.upd cid (fun c => { c with vote := A.add c.vote v })

end St

/-! ## Python `sorted` (CPython 3.12 list.sort for n < 64): count_run + binary insertion -/
section PySort
variable {β : Type}

def countRunAsc (lt : β → β → Bool) : β → List β → Nat
  | _, [] => 0
  | prev, x :: xs => if lt x prev then 0 else 1 + countRunAsc lt x xs
def countRunDesc (lt : β → β → Bool) : β → List β → Nat
  | _, [] => 0
  | prev, x :: xs => if lt x prev then 1 + countRunDesc lt x xs else 0

/-- binary search of CPython's `binarysort`: the insertion point of `pivot` in the sorted prefix `l` -/
def bisect (lt : β → β → Bool) (l : List β) (pivot : β) : Nat → Nat → Nat → Nat
  | 0, lo, _ => lo
  | fuel+1, lo, hi =>
    if lo < hi then
      match l[lo + (hi - lo) / 2]? with
      | some x => if lt pivot x then bisect lt l pivot fuel lo (lo + (hi - lo) / 2)
                  else bisect lt l pivot fuel (lo + (hi - lo) / 2 + 1) hi
      | none => lo
    else lo

/-- insertion point clamped to the list (it always is ≤ length; the clamp makes that evident) -/
def insertPos (lt : β → β → Bool) (sorted : List β) (x : β) : Nat :=
  min (bisect lt sorted x (sorted.length + 1) 0 sorted.length) sorted.length

def binInsertAll (lt : β → β → Bool) (sorted : List β) : List β → List β
  | [] => sorted
  | x :: xs => binInsertAll lt (sorted.insertIdx (insertPos lt sorted x) x) xs

def pySortAsc (lt : β → β → Bool) (l : List β) : List β :=
  match l with
  | [] => []
  | [x] => [x]
  | x :: y :: rest =>
    if lt y x then
      binInsertAll lt (l.take (2 + countRunDesc lt y rest)).reverse (l.drop (2 + countRunDesc lt y rest))
    else
      binInsertAll lt (l.take (2 + countRunAsc lt y rest)) (l.drop (2 + countRunAsc lt y rest))

/-- `sorted(l, key=..., reverse=rev)` where `lt` compares keys -/
def pySorted (lt : β → β → Bool) (rev : Bool) (l : List β) : List β :=
  if rev then (pySortAsc lt l.reverse).reverse else pySortAsc lt l
end PySort

section Orders
variable (A : Arith α)
/-- tuple `(vote, order)` `<` as CPython compares tuples: first index where not `==`, then `<` -/
def voteKeyLt (a b : Cand α) : Bool :=
  if !(A.eq a.vote b.vote) then A.lt a.vote b.vote
  else a.order < b.order
def byVote (rev : Bool) (l : List (Cand α)) : List (Cand α) := pySorted (voteKeyLt A) rev l
def byTieOrder (l : List (Cand α)) : List (Cand α) := pySorted (fun a b => a.tie < b.tie) false l
def byBallotOrder (l : List (Cand α)) : List (Cand α) := pySorted (fun a b => a.order < b.order) false l
end Orders

end Droop
