import DroopModel.Gregory
import DroopModel.Meek
import DroopModel.Qpq
import DroopModel.Oracles
/-!
# The driver's entry: a parsed case, the initial state built from it, and the dispatch on the rule name

These definitions are what the compiled model driver (`Main.lean`) runs on every correspondence input; they live in the
library so that theorems can be stated about exactly this function (`DroopProofs/CaseInit.lean`, `Props/C01.lean`).
-/
namespace Droop

structure Case where
  rule : String
  arith : String
  p : Nat
  g : Nat
  intq : Bool
  batch : String      -- none | zero | safe
  omega : Nat
  seats : Nat
  nballots : Nat
  cands : List (Nat × Nat × Bool × Bool)     -- cid, tie, withdrawn, undeclared
  ballots : List (Nat × List Nat)
  ballotsEq : List (Nat × List (List Nat))

def methodOf (rule : String) : Method :=
  if rule == "qpq" then .qpq else if rule == "meek" || rule == "warren" || rule == "meek-prf" then .meek else .wigm

def initState {α} (A : Arith α) (c : Case) : St α :=
  { method := methodOf c.rule, seats := c.seats, nballots := c.nballots
    cands := c.cands.map (fun (cid, tie, wd, ud) =>
      { cid, order := cid, tie, undeclared := ud, st := if wd then .withdrawn else .hopeful, pending := false,
        vote := A.zero, kf := none, quotient := none, tc := A.zero })
    ballots := c.ballots.map (fun (m, r) => { mult := m, rank := r, idx := 0, w := A.one, residual := A.zero })
    ballotsEq := c.ballotsEq.map (fun (m, r) => { mult := m, rank := r, residual := A.zero })
    quota := A.zero, surplus := A.zero, votes := A.zero, exhausted := A.zero, residual := A.zero
    round := 0, rounds := [], acts := [], crash := none }

/-- Election.__init__ logs one line per candidate before the count starts -/
def withAddLogs {α} (s : St α) : St α :=
  s.cands.foldl (fun acc c =>
    acc.logMsg (if c.st == .withdrawn then "Add withdrawn" else if c.undeclared then "Add undeclared" else "Add eligible")
      [c.cid]) s

def ctxOf (c : Case) : Ctx :=
  { rule := c.rule, method := methodOf c.rule, seats := c.seats, nballots := c.nballots
    electable := (c.cands.filter (fun (_, _, wd, ud) => !wd && !(c.rule == "mpls" && ud))).map (·.1)
    isRational := c.arith == "rational" }

def runRuleSt' {α} (A : Arith α) (c : Case) (s0 : St α) : Option (St α) :=
  match c.rule with
  | "wigm" => wigmCount A { integerQuota := c.intq, batchZero := c.batch == "zero" } s0
  | "wigm-prf" => wigmCount A { prf := true } s0
  | "wigm-prf-batch" => wigmCount A { prf := true, prfBatch := true } s0
  | "scotland" => scotCount A s0
  | "cfer" => cferCount A false s0
  | "cfer-batch" => cferCount A true s0
  | "mpls" => mplsCount A s0
  | "meek" => meekCount A { warren := false, omega10 := c.omega, batchSafe := c.batch == "safe" } 100000 s0
  | "warren" => meekCount A { warren := true, omega10 := c.omega, batchSafe := c.batch == "safe" } 100000 s0
  | "meek-prf" => prfCount A 100000 s0
  | "qpq" => qpqCount A s0
  | _ => none

def runRuleSt {α} (A : Arith α) (c : Case) : Option (St α) := runRuleSt' A c (initState A c)

inductive Out (α : Type) | fuel | crash (k : String) | ok (acts : List (Act α))

def finish {α} (A : Arith α) (r : Option (St α)) : Out α :=
  match r with
  | none => .fuel
  | some s =>
    match s.crash with
    | some k => .crash k
    | none =>
      let s' := s.logAct A "end" "Count Complete" []
      let nE := s'.elected.length
      if nE == s'.seats || (nE < s'.seats && nE == s'.eligible.length) then
        -- the Meek family keeps no per-ballot weights between distributions: no ballot view there
        .ok ((s'.acts.reverse.filter (fun a => a.snap.isSome)).map
              (fun a => if s'.method == .meek then { a with ws := [] } else a))
      else .crash "AssertionError"

/-- the decidable domain of the run-level theorems: what `ElectionProfile` + `Election.__init__` guarantee about a case
    handed to a Gregory rule (distinct candidate ids; every ballot non-empty, naming existing, non-withdrawn candidates;
    the ballot count is the sum of the multipliers; at least as many standing candidates as seats; no equal rankings).
    The driver prints it for every correspondence input (`DOM=`), so the evidence says how many of the compared runs lie
    inside the domain where `DroopProofs/CaseInit.lean` applies. -/
def caseOK (c : Case) : Bool :=
  decide ((c.cands.map (·.1)).Nodup)
  && c.ballots.all (fun (_, r) => !r.isEmpty && r.all (fun cid =>
        c.cands.any (fun (k, _, wd, _) => k == cid && !wd)))
  && c.nballots == (c.ballots.map (·.1)).sum
  && decide (c.seats ≤ (c.cands.filter (fun (_, _, wd, _) => !wd)).length)
  && c.ballotsEq.isEmpty

end Droop
