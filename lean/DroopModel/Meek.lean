import DroopModel.Gregory
/-!
# Meek family: meek / warren (rules/meek.py) and meek-prf (rules/meek_prf.py)
-/
namespace Droop
variable {α : Type} (A : Arith α)

structure MeekOpts where
  warren : Bool := false
  omega10 : Nat := 6
  batchSafe : Bool := true

def kfOf (s : St α) (cid : Nat) : Option α :=
  match s.cand? cid with
  | some c => c.kf
  | none => none

/-- kw_warren / kw_meekOpenSTV -/
def keepWeight (warren : Bool) (kf w : α) : α × α :=
  if warren then
    ((if A.lt kf w then kf else w), A.sub w (if A.lt kf w then kf else w))
  else (A.mul .down w kf, A.mul .down w (A.sub A.one kf))

/-- inner loop over one strict ballot's ranking; acc = (state, weight, residual, stop) -/
def distRankStep (warren : Bool) (mult : α) (acc : St α × α × α × Bool) (cid : Nat) : St α × α × α × Bool :=
  if acc.2.2.2 then acc else
  match kfOf acc.1 cid with
  | some kf =>
    if A.isZero kf then acc else
    let kw := keepWeight A warren kf acc.2.1
    let kv := A.mulV kw.1 mult
    (acc.1.addVote A cid kv, kw.2, A.sub acc.2.2.1 kv, A.le kw.2 A.zero)
  | none => acc

def distBallotStep (warren : Bool) (s : St α) (b : Ballot α) : St α :=
  let r := b.rank.foldl (distRankStep A warren (A.ofInt b.mult)) (s, A.one, A.ofInt b.mult, false)
  { r.1 with residual := A.add r.1.residual r.2.2.1 }

/-- recursive descent over an equal-rank ballot: returns (state, residual) -/
def distEq (warren : Bool) (mult : α) (cset : List Nat) : List (List Nat) → α → St α × α → St α × α
  | [], _, acc => acc
  | grp :: rest, weight, acc =>
    if A.isZero weight then acc else
    let cids := grp.filter (cset.contains ·)
    if cids.isEmpty then acc else
    let cweight := A.divV weight (A.ofInt cids.length)
    cids.foldl (fun acc cid =>
      match kfOf acc.1 cid with
      | some kf =>
        let kw := keepWeight A warren kf cweight
        let kv := A.mulV kw.1 mult
        distEq warren mult cset rest kw.2 (acc.1.addVote A cid kv, A.sub acc.2 kv)
      | none => acc) acc

def distEqBallotStep (warren : Bool) (s : St α) (b : BallotEq α) : St α :=
  let cset := (s.hopeful ++ s.elected).map (·.cid)
  let r := distEq A warren (A.ofInt b.mult) cset b.rank A.one (s, A.ofInt b.mult)
  { r.1 with residual := A.add r.1.residual r.2 }

def zeroActiveVotes (s : St α) : St α :=
  { s with cands := s.cands.map (fun c => if c.st == .hopeful || c.st == .elected then { c with vote := A.zero } else c) }

def St.setResidual (s : St α) (r : α) : St α := { s with residual := r }

/-- start of a distribution: tallies of hopeful and elected candidates and the residual are zeroed -/
def startDist (s : St α) : St α := (zeroActiveVotes A s).setResidual A.zero

def distStrict (warren : Bool) (s : St α) : St α := s.ballots.foldl (distBallotStep A warren) s
def distEqual (warren : Bool) (s : St α) : St α := s.ballotsEq.foldl (distEqBallotStep A warren) s

def distributeVotes (warren : Bool) (s : St α) : St α :=
  distEqual A warren (distStrict A warren (startDist A s))

def activeVotes (s : St α) : α := A.sum ((s.hopeful ++ s.elected).map (·.vote))

def meekQuota (s : St α) : α :=
  if A.exact then A.divV s.votes (A.ofInt (s.seats + 1))
  else A.add (A.divV s.votes (A.ofInt (s.seats + 1))) A.eps

/-- meek.py caps the updated keep factor at one (`if c.kf >= V1: c.kf = V1`); meek_prf.py, the reference rule, does not -/
def kfCap (cap : Bool) (k : α) : α := if cap && A.ge k A.one then A.one else k

def kfUpdate (cap : Bool) (s : St α) : St α :=
  s.elected.foldl (fun acc c =>
    match c.kf with
    | some kf =>
      if A.isZero c.vote then acc.setCrash "ZeroDivisionError"
      else acc.upd c.cid (fun x => { x with kf := some (kfCap A cap (A.div .up (A.mul .up kf acc.quota) c.vote)) })
    | none => acc.setCrash "TypeError") s

inductive IStatus | elected | omega | stable | batch (b : List Nat) | crash | fuel

def iterStatusName : IStatus → String
  | .elected => "elected" | .omega => "omega" | .stable => "stable" | .batch _ => "batch"
  | .crash => "crash" | .fuel => "fuel"

def St.setVotes (s : St α) (v : α) : St α := { s with votes := v }

/-- hopefuls that reached the quota in this iteration -/
def meekWinners (s : St α) : List (Cand α) := s.hopeful.filter (hasQuotaX A s)

/-- one iteration up to the convergence test: distribute, recompute the quota, elect, total surplus (clamped at 0) -/
def meekIterCore (o : MeekOpts) (s : St α) : St α :=
  let s3 : St α := ((distributeVotes A o.warren s).setVotes (activeVotes A (distributeVotes A o.warren s))).setQuota
      (meekQuota A ((distributeVotes A o.warren s).setVotes (activeVotes A (distributeVotes A o.warren s))))
  let s4 : St α := (meekWinners A s3).foldl (fun acc c => acc.elect A c.cid "Elect" false) s3
  s4.setSurplus (if A.lt (A.sum (s4.elected.map (fun c => A.sub c.vote s4.quota))) A.zero then A.zero
                 else A.sum (s4.elected.map (fun c => A.sub c.vote s4.quota)))

/-- did the iteration elect anybody? (the winners are computed on the state before the election step) -/
def meekIterElected (o : MeekOpts) (s : St α) : Bool :=
  !(meekWinners A (((distributeVotes A o.warren s).setVotes (activeVotes A (distributeVotes A o.warren s))).setQuota
      (meekQuota A ((distributeVotes A o.warren s).setVotes (activeVotes A (distributeVotes A o.warren s)))))).isEmpty

/-- meek.py iterate(): returns the state and the reason the iteration ended -/
def meekIterate (o : MeekOpts) (omega : α) : Nat → α → St α → St α × IStatus
  | 0, _, s => (s, .fuel)
  | fuel+1, lastsurplus, s =>
    if meekIterElected A o s then (meekIterCore A o s, .elected)
    else if A.le (meekIterCore A o s).surplus omega then (meekIterCore A o s, .omega)
    else if A.ge (meekIterCore A o s).surplus lastsurplus then
      ((meekIterCore A o s).logMsg "Stable state detected" [] (some (meekIterCore A o s).surplus), .stable)
    else if !(if o.batchSafe then batchDefeatGroups A (meekIterCore A o s) (meekIterCore A o s).surplus else []).isEmpty then
      (meekIterCore A o s, .batch ((if o.batchSafe then batchDefeatGroups A (meekIterCore A o s) (meekIterCore A o s).surplus else []).map (·.cid)))
    else if (kfUpdate A true (meekIterCore A o s)).crash.isSome then (kfUpdate A true (meekIterCore A o s), .crash)
    else meekIterate o omega fuel (meekIterCore A o s).surplus (kfUpdate A true (meekIterCore A o s))

def meekCountComplete (s : St α) : Bool :=
  decide ((s.hopeful.length : Int) ≤ s.seatsLeft) || decide (s.seatsLeft ≤ 0)

def meekDefeatOne (o : MeekOpts) (s : St α) (cid : Nat) (verb : String) : St α :=
  distributeVotes A o.warren ((s.defeat A cid verb).upd cid (fun c => { c with kf := some A.zero, vote := A.zero }))

/-- defeat a safe batch, in ballot order -/
def meekDefeatBatch (o : MeekOpts) (s : St α) (cids : List Nat) : St α :=
  (byBallotOrder (s.cands.filter (fun c => cids.contains c.cid))).foldl
    (fun acc c => meekDefeatOne A o acc c.cid "Defeat certain loser") s

/-- defeat the lowest candidate (all within the surplus of the lowest are tied) -/
def meekDefeatLow (o : MeekOpts) (s : St α) (isOmega : Bool) : St α × Flow :=
  match s.hopeful with
  | [] => (s, .cont)
  | h :: hs =>
    match breakTie A s (s.hopeful.filter (fun c => A.ge (A.add (A.vMin h.vote (hs.map (·.vote))) s.surplus) c.vote))
            "Break tie (defeat)" with
    | (s3, some lc) =>
      (meekDefeatOne A o s3 lc.cid (if isOmega then "Defeat (surplus < omega)" else "Defeat (stable surplus)"), .cont)
    | (s3, none) => (s3, .brk)

/-- what follows the iteration of a round -/
def meekAfterIterate (o : MeekOpts) (r : St α × IStatus) : St α × Flow :=
  match r.2 with
  | .fuel => (r.1.setCrash "FUEL", .brk)
  | .crash => (r.1, .brk)
  | .elected => (r.1.logAct A "iterate" "Iterate (elected)" [], .cont)
  | .batch cids => (meekDefeatBatch A o (r.1.logAct A "iterate" "Iterate (batch)" []) cids, .cont)
  | .omega => meekDefeatLow A o (r.1.logAct A "iterate" "Iterate (omega)" []) true
  | .stable => meekDefeatLow A o (r.1.logAct A "iterate" "Iterate (stable)" []) false

def meekBody (o : MeekOpts) (omega : α) (iterFuel : Nat) (s : St α) : St α × Flow :=
  meekAfterIterate A o (meekIterate A o omega iterFuel (A.ofInt (s.newRound A).nballots) (s.newRound A))

/-- first-preference tallies: `b.topCand.vote += multiplier`, equal-ranked tops share it -/
def meekFirstCount (s : St α) : St α :=
  s.ballotsEq.foldl (fun (acc : St α) (b : BallotEq α) =>
      match b.rank.head? with
      | some grp => grp.foldl (fun (acc2 : St α) (cid : Nat) =>
            acc2.addVote A cid (A.mulV (A.divV A.one (A.ofInt grp.length)) (A.ofInt b.mult))) acc
      | none => acc)
    (s.ballots.foldl (fun (acc : St α) (b : Ballot α) => match b.top with
                                           | some c => acc.addVote A c (A.ofInt b.mult)
                                           | none => acc) s)

def St.initKf (s : St α) (one : α) : St α :=
  { s with cands := s.cands.map (fun (c : Cand α) => if c.st == .hopeful then { c with kf := some one } else c) }

def meekInit (s0 : St α) : St α :=
  (meekFirstCount A (((s0.setVotes (A.ofInt s0.nballots)).setQuota (meekQuota A (s0.setVotes (A.ofInt s0.nballots)))).initKf A.one)).logAct A
    "begin" "Begin Count" []

/-- elect or defeat one of the candidates left when the count is complete -/
def meekRemainingStep (o : MeekOpts) (acc : St α) (c : Cand α) : St α :=
  if acc.elected.length < acc.seats then distributeVotes A o.warren (acc.elect A c.cid "Elect remaining" false)
  else meekDefeatOne A o acc c.cid "Defeat remaining"

/-- the final figures: votes = those of the elected, residual = the rest -/
def meekFinal (s : St α) : St α :=
  ((s.setVotes (A.sum (s.elected.map (·.vote)))).setResidual (A.sub (A.ofInt s.nballots) (A.sum (s.elected.map (·.vote)))))

def meekEpilogue (o : MeekOpts) (s : St α) : St α :=
  if s.crash.isSome then s else meekFinal A (s.hopeful.foldl (meekRemainingStep A o) s)

def meekCount (o : MeekOpts) (iterFuel : Nat) (s0 : St α) : Option (St α) :=
  if A.name == "integer" then some (s0.setCrash "AssertionError") else
  match loopN (fun s => !meekCountComplete s) (meekBody A o (A.divV A.one (A.ofInt (10 ^ o.omega10))) iterFuel)
      (2 * s0.cands.length + 3) (meekInit A s0) with
  | none => none
  | some s7 => some (meekEpilogue A o s7)

/-! ## meek-prf -/
def prfRankStep (mult : α) (acc : St α × α × α × Bool) (cid : Nat) : St α × α × α × Bool :=
  if acc.2.2.2 then acc else
  match kfOf acc.1 cid with
  | some kf =>
    if A.isZero kf then acc else
    let kw := A.mul .up acc.2.1 kf
    let kv := A.mulV kw mult
    (acc.1.addVote A cid kv, A.sub acc.2.1 kw, A.sub acc.2.2.1 kv, A.le (A.sub acc.2.1 kw) A.zero)
  | none => acc

def prfBallotStep (s : St α) (b : Ballot α) : St α :=
  let r := b.rank.foldl (prfRankStep A (A.ofInt b.mult)) (s, A.one, A.ofInt b.mult, false)
  { r.1 with residual := A.add r.1.residual r.2.2.1 }

inductive PStatus | iterate | elected | omega | stable
deriving DecidableEq

def prfIterate (omega : α) : Nat → α → St α → St α × PStatus
  | 0, _, s => (s.setCrash "FUEL", .stable)
  | fuel+1, lastsurplus, s =>
    let s1 := { zeroActiveVotes A s with residual := A.zero }
    let s2 := s1.ballots.foldl (prfBallotStep A) s1
    let s3 := { s2 with votes := activeVotes A s2 }
    let s4 := { s3 with quota := A.add (A.fdivV s3.votes (A.ofInt (s3.seats + 1))) A.eps }
    let winners := s4.hopeful.filter (fun c => A.ge c.vote s4.quota)
    let s5 := winners.foldl (fun acc c => acc.elect A c.cid "Elect" false) s4
    let sp := A.sum (s5.elected.map (fun c => A.sub c.vote s5.quota))
    let s6 := { s5 with surplus := if A.lt sp A.zero then A.zero else sp }
    if !winners.isEmpty then (s6, .elected)
    else if A.lt s6.surplus omega then (s6, .omega)
    else if A.ge s6.surplus lastsurplus then
      (s6.logMsg "Stable state detected" [] (some s6.surplus), .stable)
    else
      let s7 := kfUpdate A false s6
      if s7.crash.isSome then (s7, .stable) else prfIterate omega fuel s6.surplus s7

def prfBody (omega : α) (iterFuel : Nat) (s : St α) : St α × Flow :=
  let s1 := s.newRound A
  let r := prfIterate A omega iterFuel (A.ofInt s1.nballots) s1
  if r.1.crash.isSome then (r.1, .brk) else
  if r.2 == .elected then (r.1, .cont) else
  match r.1.hopeful with
  | [] => (r.1, .cont)
  | h :: hs =>
    let lowv := A.vMin h.vote (hs.map (·.vote))
    let lows := r.1.hopeful.filter (fun c => A.ge (A.add lowv r.1.surplus) c.vote)
    match breakTie A r.1 lows "Break tie (defeat low candidate)" with
    | (s3, some lc) =>
      let s4 := s3.defeat A lc.cid (if r.2 == .omega then "Defeat (surplus < omega)" else "Defeat (stable surplus)")
      (s4.upd lc.cid (fun c => { c with vote := A.zero, kf := some A.zero }), .cont)
    | (s3, none) => (s3, .brk)

def prfCount (iterFuel : Nat) (s0 : St α) : Option (St α) :=
  let omega := A.divV (A.ofInt 1) (A.ofInt (10 ^ 6))
  let s1 : St α := { s0 with cands := s0.cands.map (fun (c : Cand α) => if c.st == .hopeful then { c with kf := some A.one } else c) }
  let s2 : St α := { s1 with votes := A.ofInt s1.nballots }
  let s3 : St α := { s2 with quota := A.add (A.divV s2.votes (A.ofInt (s2.seats + 1))) A.eps }
  let s4 : St α := s3.ballots.foldl (fun (acc : St α) (b : Ballot α) => match b.top with
                                           | some c => acc.addVote A c (A.ofInt b.mult)
                                           | none => acc) s3
  let s5 := s4.logAct A "begin" "Begin Count" []
  match loopN stdGuard (prfBody A omega iterFuel) (2 * s0.cands.length + 3) s5 with
  | none => none
  | some s6 =>
    if s6.crash.isSome then some s6 else
    let s7 := s6.hopeful.foldl (fun acc c =>
      if acc.elected.length < acc.seats then acc.elect A c.cid "Elect remaining" false
      else (acc.defeat A c.cid "Defeat remaining").upd c.cid (fun x => { x with kf := some A.zero, vote := A.zero })) s6
    let v := A.sum (s7.elected.map (·.vote))
    some { s7 with votes := v, residual := A.sub (A.ofInt s7.nballots) v }

end Droop
