import DroopModel.Gregory
/-!
# QPQ (rules/qpq.py)
-/
namespace Droop
variable {α : Type} (A : Arith α)

structure QSt (α : Type) where
  s : St α
  va : α
  tx : α
  restart : Bool

def qpqQuota (q : QSt α) : α × Bool :=
  let den := A.sub (A.ofInt (1 + q.s.seats)) q.tx
  (A.divV q.va den, A.isZero den)

/-- qpq transfer(): advance only -/
def qAdvance (s : St α) (b : Ballot α) : Ballot α := advanceTo (fun cid => s.isHopeful cid) b

def qTally (acc : QSt α) (b : Ballot α) : QSt α :=
  match b.top with
  | none => { acc with tx := A.add acc.tx (A.mulV b.w (A.ofInt b.mult)) }
  | some c =>
    { acc with va := A.add acc.va (A.ofInt b.mult)
               s := acc.s.upd c (fun x => { x with tc := A.add x.tc (A.mulV b.w (A.ofInt b.mult)),
                                                   vote := A.add x.vote (A.ofInt b.mult) }) }

def qpqCountComplete (s : St α) : Bool :=
  decide (s.seatsLeft ≤ 0) || decide ((s.hopeful.length : Int) ≤ s.seatsLeft)

def qpqBody (q : QSt α) : QSt α × Flow :=
  let s1 := q.s.newRound A
  let s2 : St α :=
    if q.restart then
      let s' : St α := { s1 with cands := s1.cands.map (fun (c : Cand α) => if c.st == .elected then { c with st := .hopeful } else c) }
      { s' with ballots := s'.ballots.map (fun (b : Ballot α) => qAdvance s' { b with idx := 0, w := A.zero, residual := A.zero }) }
    else s1
  let s3 : St α := { s2 with cands := s2.cands.map (fun (c : Cand α) => if c.st == .hopeful then { c with vote := A.zero, tc := A.zero } else c) }
  let q1 : QSt α := s3.ballots.foldl (qTally A) { s := s3, va := A.zero, tx := A.zero, restart := false }
  let s4 : St α := { q1.s with cands := q1.s.cands.map (fun (c : Cand α) =>
      if c.st == .hopeful then { c with quotient := some (A.divV c.vote (A.add A.one c.tc)) } else c) }
  let qq := qpqQuota A { q1 with s := s4 }
  let s5 : St α := { s4 with quota := qq.1 }
  let s5 := if qq.2 then s5.setCrash "ZeroDivisionError" else s5
  let q2 : QSt α := { q1 with s := s5 }
  let quot (c : Cand α) : α := c.quotient.getD A.zero
  match s5.hopeful with
  | [] => ({ q2 with s := s5.setCrash "ValueError" }, .brk)
  | h :: hs =>
    let hq := A.pyMax (quot h) (hs.map quot)
    if A.gt hq s5.quota then
      match breakTie A s5 (s5.hopeful.filter (fun c => A.eq (quot c) hq)) "Break tie by lot (largest quotient)" with
      | (s6, some hc) =>
        let s7 := s6.elect A hc.cid "Elect high quotient" false
        let s7 := if A.isZero (quot hc) then s7.setCrash "ZeroDivisionError" else s7
        let nw := A.divV A.one (quot hc)
        let s8 : St α := { s7 with ballots := s7.ballots.map (fun (b : Ballot α) =>
            if b.top == some hc.cid then qAdvance s7 { b with w := nw } else b) }
        ({ q2 with s := s8.logAct A "transfer" "Transfer elected" [hc.cid] }, .cont)
      | (s6, none) => ({ q2 with s := s6 }, .brk)
    else
      let lq := A.pyMin (quot h) (hs.map quot)
      match breakTie A s5 (s5.hopeful.filter (fun c => A.eq (quot c) lq)) "Break tie by lot (smallest quotient)" with
      | (s6, some lc) =>
        let s7 := s6.defeat A lc.cid "Defeat low quotient"
        let s8 : St α := { s7 with ballots := s7.ballots.map (fun (b : Ballot α) =>
            if b.top == some lc.cid then qAdvance s7 b else b) }
        ({ q2 with s := s8.logAct A "transfer" "Transfer defeated" [lc.cid], restart := true }, .cont)
      | (s6, none) => ({ q2 with s := s6 }, .brk)

def qpqLoop : Nat → QSt α → Option (QSt α)
  | 0, _ => none
  | fuel+1, q =>
    if q.s.crash.isSome then some q
    else if !qpqCountComplete q.s then
      match qpqBody A q with
      | (q', .cont) => qpqLoop fuel q'
      | (q', .brk) => some q'
    else some q

def qpqCount (s0 : St α) : Option (St α) :=
  let s1 : St α := { s0 with cands := s0.cands.map (fun (c : Cand α) =>
      if c.st == .hopeful then { c with tc := A.zero, quotient := some A.zero } else c) }
  let va := A.sum ((s1.ballots.filter (fun b => !b.exhaustedB)).map (fun b => A.ofInt b.mult))
  let q0 : QSt α := { s := s1, va := va, tx := A.zero, restart := true }
  let qq := qpqQuota A q0
  let s2 : St α := { s1 with quota := qq.1, ballots := s1.ballots.map (fun (b : Ballot α) => { b with w := A.zero }) }
  let s3 := s2.logAct A "begin" "Begin Count" []
  match qpqLoop A (s0.cands.length * (s0.cands.length + 2) + 3) { q0 with s := s3 } with
  | none => none
  | some q =>
    if q.s.crash.isSome then some q.s else
    let s4 := if decide ((q.s.hopeful.length : Int) ≤ q.s.seatsLeft) then
                q.s.hopeful.foldl (fun acc c => acc.elect A c.cid "Elect remaining candidates" false) q.s
              else q.s
    some (s4.hopeful.foldl (fun acc c => acc.defeat A c.cid "Defeat remaining candidates") s4)

end Droop
