import DroopModel.Blt
/-!
# Options (options.py), every rule's options(), values.ArithmeticClass and the three initialize()
Option values are restricted to the Python types the package itself produces: int, str, bool, None.
-/
namespace Droop

inductive OV | i (n : Int) | s (v : String) | b (v : Bool) | none
deriving Repr, BEq, Inhabited, DecidableEq

/-- Python `==` between option values (`True == 1`, `False == 0`) -/
def OV.pyEq : OV → OV → Bool
  | .i a, .i c => a == c
  | .s a, .s c => a == c
  | .b a, .b c => a == c
  | .none, .none => true
  | .i a, .b c => a == (if c then 1 else 0)
  | .b a, .i c => c == (if a then 1 else 0)
  | _, _ => false

/-- Options.normalize on a scalar: a str matching `\d+$` becomes an int -/
def OV.normalize : OV → OV
  | .s v => if isDigits v then .i (digitsToNat v) else .s v
  | x => x

abbrev Dict := List (String × OV)

structure Options where
  cmd : Dict := []
  file : Dict := []
  dflt : Dict := []
  force : Dict := []
  allowed : List (String × List OV) := []
deriving Repr

inductive OErr | usage | election | arithValues | crash (k : String)
deriving Repr

namespace Options

/-- dict.get(key, fallback): a stored None is returned as None -/
def layer (d : Dict) (k : String) (fallback : OV) : OV :=
  match d.find? (·.1 == k) with
  | some e => e.2
  | none => fallback

def getopt (o : Options) (k : String) : OV :=
  layer o.force k (layer o.cmd k (layer o.file k (layer o.dflt k .none)))

def setDefault (d : Dict) (k : String) (v : OV) : Dict := if d.any (·.1 == k) then d else d ++ [(k, v)]

/-- setopt(optname, default, force, allowed) -/
def setopt (o : Options) (k : String) (default : OV) (force : Bool := false) (allowed : List OV := []) :
    Except OErr (Options × OV) :=
  let o1 := { o with dflt := setDefault o.dflt k default.normalize }
  let o2 := if force then { o1 with force := dictSet o1.force k default.normalize } else o1
  let v := o2.getopt k
  if allowed.isEmpty then .ok (o2, v)
  else
    let o3 := { o2 with allowed := dictSet o2.allowed k allowed }
    if allowed.any (fun a => a.pyEq v) then .ok (o3, v) else .error .usage

/-- Options.parse(list of strings) -/
def parseOne (acc : Dict × Option String) (ruleNames : List String) (opt : String) : Except OErr (Dict × Option String) :=
  match opt.splitOn "=" with
  | [name] =>
    if ["fixed", "integer", "rational", "guarded"].contains name then .ok (dictSet acc.1 "arithmetic" (.s name), acc.2)
    else if ruleNames.contains name then .ok (dictSet acc.1 "rule" (.s name), acc.2)
    else if ["report", "dump", "json"].contains name then .ok (dictSet acc.1 name (.b true), acc.2)
    else match acc.2 with
      | some p => if p != "" then .error .usage else .ok (dictSet acc.1 "path" (.s name), some name)   -- `if path:` is truthiness
      | none => .ok (dictSet acc.1 "path" (.s name), some name)
  | name :: val :: _ =>
    let lv := val.toLower
    if lv == "false" || lv == "no" then .ok (dictSet acc.1 name (.b false), acc.2)
    else if lv == "true" || lv == "yes" then .ok (dictSet acc.1 name (.b true), acc.2)
    else .ok (dictSet acc.1 name (.s val), acc.2)
  | [] => .ok acc

def ruleNames : List String :=
  ["cfer", "cfer-batch", "meek", "meek-prf", "mpls", "qpq", "scotland", "warren", "wigm", "wigm-prf", "wigm-prf-batch"]

def parse (opts : List String) : Except OErr Dict :=
  (opts.foldlM (fun acc o => parseOne acc ruleNames o) (([] : Dict), (none : Option String))).map (·.1)

/-- unused(): options supplied but never read -/
def unused (o : Options) : List String :=
  let keys := (o.file.map (·.1) ++ o.cmd.map (·.1)).eraseDups
  (keys.filter (fun k => k != "rule" && k != "path" && !(o.dflt.any (·.1 == k)))).mergeSort (fun a b => a ≤ b)

/-- overrides(): forced options that the caller or the file tried to set differently -/
def overrides (o : Options) : List String :=
  let opts := o.cmd.foldl (fun d e => dictSet d e.1 e.2) o.file
  ((o.force.filter (fun f => match opts.find? (·.1 == f.1) with
                             | some e => !(e.2.pyEq f.2)
                             | none => false)).map (·.1)).mergeSort (fun a b => a ≤ b)

end Options

/-! ## Python int(x) for the value types above -/
def pyIntOfString? (v : String) : Option Int :=
  let cs := (v.toList.dropWhile isSpace).reverse.dropWhile isSpace |>.reverse
  let (neg, ds) := match cs with
    | '-' :: r => (true, r)
    | '+' :: r => (false, r)
    | r => (false, r)
  -- digits with single underscores strictly between digits
  let rec go : List Char → Bool → Nat → Option Nat
    | [], lastDigit, acc => if lastDigit then some acc else none
    | c :: r, lastDigit, acc =>
      match digitVal? c with
      | some d => go r true (acc * 10 + d)
      | none => if c == '_' && lastDigit && !r.isEmpty then
                  match r with
                  | c2 :: _ => if (digitVal? c2).isSome then go r false acc else none
                  | [] => none
                else none
  match ds with
  | [] => none
  | _ => (go ds false 0).map (fun n => if neg then - (n : Int) else (n : Int))

inductive IntConv | ok (n : Int) | valueError | typeError
def pyInt : OV → IntConv
  | .i n => .ok n
  | .b v => .ok (if v then 1 else 0)
  | .s v => match pyIntOfString? v with
            | some n => .ok n
            | none => .valueError
  | .none => .typeError

/-- Python str(x) for the value types above -/
def OV.pyStr : OV → String
  | .i n => toString n
  | .s v => v
  | .b v => if v then "True" else "False"
  | .none => "None"

/-! ## arithmetic configuration produced by initialize() -/
inductive ArithCfg
  | fixed (p display : Nat)
  | guarded (p g display : Nat)
  | rational (display : Nat)
deriving Repr, BEq

/-- `int(x)`, then `x < 0 or str(int) != str(x)` → UsageError; used for precision and guard -/
def strictNat (v : OV) : Except OErr Nat :=
  match pyInt v with
  | .typeError => .error (.crash "TypeError")
  | .valueError => .error .usage
  | .ok n => if n < 0 || toString n != v.pyStr then .error .usage else .ok n.toNat

def fixedInitialize (o : Options) : Except OErr (Options × ArithCfg) := do
  let arithmetic := o.getopt "arithmetic"
  if !(arithmetic.pyEq (.s "fixed") || arithmetic.pyEq (.s "integer")) then throw .usage
  let (o1, precision) ←
    if arithmetic.pyEq (.s "integer") then o.setopt "precision" (.i 0) (force := true)
    else pure (o, o.getopt "precision")
  let p ← strictNat precision
  let o2 ← if (o1.getopt "display") matches .none then (o1.setopt "display" (.i p)).map (·.1) else pure o1
  let display := o2.getopt "display"
  match pyInt display with
  | .typeError => throw (.crash "TypeError")
  | .valueError => throw .usage
  | .ok d => pure (o2, .fixed p (if d < 0 || d > p then p else d.toNat))

def guardedInitialize (o : Options) : Except OErr (Options × ArithCfg) := do
  let arithmetic := o.getopt "arithmetic"
  if !(arithmetic.pyEq (.s "guarded")) then throw .usage
  let p ← strictNat (o.getopt "precision")
  let o1 ← if (o.getopt "guard") matches .none then (o.setopt "guard" (.i p)).map (·.1) else pure o
  let g ← strictNat (o1.getopt "guard")
  let o2 ← if (o1.getopt "display") matches .none then (o1.setopt "display" (.i p)).map (·.1) else pure o1
  let d ← strictNat (o2.getopt "display")
  pure (o2, .guarded p g (if d > p + g then p + g else d))

def rationalInitialize (o : Options) : Except OErr (Options × ArithCfg) := do
  let o1 ← if (o.getopt "display") matches .none then (o.setopt "display" (.i 12)).map (·.1) else pure o
  match o1.getopt "display" with
  | .i n => if n < 0 then throw (.crash "TypeError") else pure (o1, .rational n.toNat)
  | _ => throw (.crash "TypeError")

/-- values.ArithmeticClass(options) -/
def arithmeticClass (o : Options) : Except OErr (Options × ArithCfg) := do
  let (o1, arithmetic) ← o.setopt "arithmetic" (.s "guarded")
  if arithmetic.pyEq (.s "rational") then rationalInitialize o1
  else if arithmetic.pyEq (.s "fixed") || arithmetic.pyEq (.s "integer") then fixedInitialize o1
  else if arithmetic.pyEq (.s "guarded") then guardedInitialize o1
  else throw .arithValues

/-! ## rule.options() -/
structure RuleParams where
  integerQuota : OV := .none
  defeatBatch : OV := .none
  omega10 : OV := .none
  batchByName : Bool := false
deriving Repr

/-- Python `x // 2`, `x * 2 // 3` on an option value (TypeError unless int/bool) -/
def ovInt? : OV → Option Int
  | .i n => some n
  | .b v => some (if v then 1 else 0)
  | _ => none

def forceFixed (o : Options) (p : Nat) : Except OErr Options := do
  let (o1, _) ← o.setopt "arithmetic" (.s "fixed") (force := true)
  let (o2, _) ← o1.setopt "precision" (.i p) (force := true)
  let (o3, _) ← o2.setopt "display" (.i p) (force := true)
  pure o3

def ruleOptions (rule : String) (o : Options) : Except OErr (Options × RuleParams) := do
  if rule == "wigm" then
    let (o1, a) ← o.setopt "arithmetic" (.s "guarded")
    let o2 ←
      if a.pyEq (.s "guarded") then do
        let (o2, _) ← o1.setopt "precision" (.i 18)
        match ovInt? (o2.getopt "precision") with
        | some p => (o2.setopt "guard" (.i (Int.fdiv p 2))).map (·.1)
        | none => throw (.crash "TypeError")
      else if (o1.getopt "arithmetic").pyEq (.s "fixed") then (o1.setopt "precision" (.i 9)).map (·.1)
      else pure o1
    let (o3, iq) ← o2.setopt "integer_quota" (.b false) (allowed := [.b true, .b false])
    let (o4, db) ← o3.setopt "defeat_batch" (.s "none") (allowed := [.s "none", .s "zero"])
    pure (o4, { integerQuota := iq, defeatBatch := db })
  else if rule == "meek" || rule == "warren" then
    let (o1, a) ← o.setopt "arithmetic" (.s "guarded")
    let (o2, om) ←
      if a.pyEq (.s "guarded") then do
        let (o2, pr) ← o1.setopt "precision" (.i 18)
        match ovInt? pr with
        | some p =>
          let (o3, _) ← o2.setopt "guard" (.i (Int.fdiv p 2))
          o3.setopt "omega" (.i (Int.fdiv p 2))
        | none => throw (.crash "TypeError")
      else if a.pyEq (.s "fixed") then do
        let (o2, pr) ← o1.setopt "precision" (.i 9)
        match ovInt? pr with
        | some p => o2.setopt "omega" (.i (Int.fdiv (p * 2) 3))
        | none => throw (.crash "TypeError")
      else if a.pyEq (.s "rational") then o1.setopt "omega" (.i 10)
      else pure (o1, OV.none)
    let (o3, db) ← o2.setopt "defeat_batch" (.s "safe") (allowed := [.s "none", .s "safe"])
    pure (o3, { omega10 := om, defeatBatch := db })
  else if rule == "wigm-prf" || rule == "wigm-prf-batch" then
    pure (← forceFixed o 4, { batchByName := rule.endsWith "batch" })
  else if rule == "cfer" || rule == "cfer-batch" then
    pure (← forceFixed o 5, { batchByName := rule.endsWith "batch" })
  else if rule == "scotland" then pure (← forceFixed o 5, {})
  else if rule == "mpls" then pure (← forceFixed o 4, {})
  else if rule == "meek-prf" then
    let o1 ← forceFixed o 9
    let (o2, om) ← o1.setopt "omega" (.i 6) (force := true)
    pure (o2, { omega10 := om })
  else if rule == "qpq" then
    let (o1, _) ← o.setopt "arithmetic" (.s "guarded") (force := true)
    let (o2, _) ← o1.setopt "precision" (.i 9) (force := true)
    let (o3, _) ← o2.setopt "guard" (.i 9) (force := true)
    let (o4, _) ← o3.setopt "display" (.i 9) (force := true)
    pure (o4, {})
  else throw .election

/-- Election.__init__ up to the arithmetic class: merge file options, find the rule, rule.options(), ArithmeticClass -/
def electionSetup (cmd : Dict) (fileOpts : List String) : Except OErr (Options × RuleParams × ArithCfg) := do
  let o0 : Options := { cmd := cmd.map (fun e => (e.1, e.2.normalize)) }
  let fd ← Options.parse fileOpts
  let o1 : Options := { o0 with file := fd.map (fun e => (e.1, e.2.normalize)) }
  match o1.getopt "rule" with
  | .none => throw .election
  | .s rule =>
    if !(Options.ruleNames.contains rule) then throw .election
    let (o2, rp) ← ruleOptions rule o1
    let (o3, cfg) ← arithmeticClass o2
    pure (o3, rp, cfg)
  | _ => throw .election

end Droop
