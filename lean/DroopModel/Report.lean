import DroopModel.Render
/-!
# ElectionRecord.report(): the action section (record.py), with the rule hooks of electionmethods.py / qpq.py

The header (title, package, rule, arithmetic, options, seats, ballots, quota, source, comment) is text the count does not
compute and is not modelled; the harness cuts it off.  The first line of every block carries the action's message, which the
harness passes in (`msgs`); everything else — which candidates are listed under which heading, their tallies, the grouped
zero-tally exclusions, the per-method totals appended to each action — is computed here from the model's record.
-/
namespace Droop
variable {α : Type}

def entriesWith (sn : Snap α) (cids : List Nat) (p : String → Bool) : List (Nat × String × α × Option α × Option α) :=
  cids.filterMap (fun cid => match sn.cs.find? (fun e => e.1 == cid) with
                             | some e => if p e.2.1 then some e else none
                             | none => none)

def listedTags : List String := ["begin", "count", "elect", "defeat", "pend", "transfer", "end"]
def qpqTags : List String := ["begin", "tie", "elect", "defeat", "transfer", "end"]

def candLine (strV : α → String) (name : Nat → String) (h : String) (e : Nat × String × α × Option α × Option α) : String :=
  "\t" ++ h ++ name e.1 ++ " (" ++ strV e.2.2.1 ++ ")\n"

/-- the candidate lines of a block (wigm and meek methods), one string per line -/
def candLineList (A : Arith α) (strV : α → String) (name : Nat → String) (sn : Snap α) (cids : List Nat) : List String :=
  let zero := strV A.zero
  let de := entriesWith sn cids (· == "D")
  let c0 := (de.filter (fun e => strV e.2.2.1 == zero)).map (fun e => name e.1)
  (entriesWith sn cids (· == "E")).map (candLine strV name "Elected:  ")
  ++ (entriesWith sn cids (· == "e")).map (candLine strV name "Pending:  ")
  ++ (entriesWith sn cids (· == "H")).map (candLine strV name "Hopeful:  ")
  ++ (de.filter (fun e => strV e.2.2.1 != zero)).map (candLine strV name "Defeated: ")
  ++ (if c0.isEmpty then [] else ["\tDefeated: " ++ ", ".intercalate c0 ++ " (" ++ zero ++ ")\n"])

def candLines (A : Arith α) (strV : α → String) (name : Nat → String) (sn : Snap α) (cids : List Nat) : String :=
  String.join (candLineList A strV name sn cids)

/-- the vote total the WIGM block reports, and what it calls the residual -/
def wigmTotal (A : Arith α) (sn : Snap α) (cids : List Nat) : α :=
  let sumOf (p : String → Bool) := A.sum ((entriesWith sn cids p).map (fun e => e.2.2.1))
  A.add (A.add (A.add (A.add (sumOf (· == "E")) (sumOf (· == "e"))) (sumOf (· == "H"))) (sumOf (· == "D"))) sn.x1

/-- MethodWIGM.report(..., 'actionappend') -/
def wigmAppend (A : Arith α) (strV : α → String) (sn : Snap α) (cids : List Nat) (nballots : Nat) : String :=
  let sumOf (p : String → Bool) := A.sum ((entriesWith sn cids p).map (fun e => e.2.2.1))
  let h := sumOf (· == "H"); let d := sumOf (· == "D"); let e := sumOf (· == "E"); let pv := sumOf (· == "e")
  let total := wigmTotal A sn cids
  let residual := A.sub (A.ofInt nballots) total
  "\tElected votes: " ++ strV e ++ "\n"
  ++ (if A.isZero pv then "" else "\tPending votes: " ++ strV pv ++ "\n")
  ++ "\tHopeful votes: " ++ strV h ++ "\n"
  ++ (if A.isZero d then "" else "\tDefeated votes: " ++ strV d ++ "\n")
  ++ "\tNontransferable votes: " ++ strV sn.x1 ++ "\n"
  ++ "\tResidual: " ++ strV residual ++ "\n"
  ++ "\tTotal: " ++ strV (A.add total residual) ++ "\n"
  ++ "\tSurplus: " ++ strV sn.x2 ++ "\n"

/-- MethodMeek.report(..., 'actionappend') -/
def meekAppend (A : Arith α) (strV : α → String) (sn : Snap α) : String :=
  "\tQuota: " ++ strV sn.quota ++ "\n"
  ++ "\tVotes: " ++ strV sn.votes ++ "\n"
  ++ "\tResidual: " ++ strV sn.x1 ++ "\n"
  ++ "\tTotal: " ++ strV (A.add sn.votes sn.x1) ++ "\n"
  ++ "\tSurplus: " ++ strV sn.x2 ++ "\n"

/-- qpq.Rule.report(..., 'action') -/
def qpqBlock (strV : α → String) (name : Nat → String) (sn : Snap α) (cids : List Nat) (tag msg : String) : String :=
  let line (h : String) (e : Nat × String × α × Option α × Option α) :=
    "\t" ++ h ++ name e.1 ++ " (" ++ (e.2.2.2.2.map strV).getD "None" ++ ")\n"
  "Action: " ++ msg ++ "\n"
  ++ (if tag == "tie" then "" else
        String.join ((entriesWith sn cids (fun c => c == "E" || c == "e")).map (line "Elected:  "))
        ++ String.join ((entriesWith sn cids (· == "H")).map (line "Hopeful:  "))
        ++ String.join ((entriesWith sn cids (· == "D")).map (line "Defeated: ")))
  ++ "\tQuota: " ++ strV sn.quota ++ "\n"

def reportAction (A : Arith α) (strV : α → String) (name : Nat → String) (m : Method) (cids : List Nat) (nballots : Nat)
    (msg : String) (a : Act α) : String :=
  match a.snap with
  | none => "\t" ++ msg ++ "\n"
  | some sn =>
    if m == .qpq && qpqTags.contains a.tag then qpqBlock strV name sn cids a.tag msg
    else if a.tag == "round" then "Round " ++ toString a.round ++ ":\n"
    else
      "Action: " ++ msg ++ "\n"
      ++ (if listedTags.contains a.tag then candLines A strV name sn cids else "")
      ++ (match m with
          | .wigm => wigmAppend A strV sn cids nballots
          | .meek => meekAppend A strV sn
          | .qpq => "")

def reportActions (A : Arith α) (strV : α → String) (name : Nat → String) (m : Method) (cids : List Nat) (nballots : Nat)
    (msgs : List String) (acts : List (Act α)) : String :=
  if msgs.length != acts.length then "LEN-MISMATCH " ++ toString msgs.length ++ " " ++ toString acts.length
  else String.join (List.zipWith (reportAction A strV name m cids nballots) msgs acts)

end Droop
