/-!
# The record header (record.py `_fill`): the keys it assigns, in program order
Shared by the driver (compared with the real `_fill` on every C19 run) and by `Props/C19.lean`.
-/
namespace Droop

def headerKeysModel : List String :=
  ["title", "droop_name", "droop_version", "rule_name", "rule_info", "method", "arithmetic_name", "arithmetic_info", "seats",
   "nballots", "quota", "cids", "ecids", "cdict", "options"]

end Droop
